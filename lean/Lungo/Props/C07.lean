/-
  Lungo.Props.C07 — "At every moment, in every collection, no two documents that fall under a
  unique index (all documents for _id; those matching the partial filter for a partial index)
  share an index key — compared with BSON equality across numeric types, per element for array
  fields, per tuple for compound keys — regardless of the sequence of inserts, updates, replaces,
  upserts, bulk writes, index creations … that led there. A write or index build that would create
  such a pair is rejected with a uniqueness error, and a write that would not is never rejected
  for uniqueness."

  Subject: Lungo/Model/{Collection,Txn,Api}.lean. Definitions (Lungo/Spec/IndexSpec.lean):
    `Unique sch c`   — for every unique index `i` of `c`, any two DISTINCT stored documents that both
                       belong to `i` have no pair of key tuples with `tupleEq` (componentwise
                       `V.cmp = .eq`; tuples = Cartesian product over the columns of the expanded
                       values, `tuples`).
    `UniqueOk sch c` — the same, restricted to documents with `DocOk` (all int64 payloads in the int64
                       range — true of every Go value; the model stores them as unbounded `Int`).
    `Collides sch c d` — some unique index `i` of `c` that `d` belongs to has a stored belonging
                       document with a key tuple `tupleEq` to one of `d`'s.

  Why `DocOk`: "existing key ≈ k ≈ new key ⇒ existing ≈ new" needs transitivity of `V.cmp = .eq`,
  which C12 proves exactly on `V.i64Ok` values (`tupleEq_trans`). `UniqueOk` is preserved by every
  transition with NO side condition; with `DocsOk` it is `Unique` (`unique_of_uniqueOk`).
  Coherence (C15) is needed because the uniqueness check consults the index, not the documents.

  `.dup` is the model's uniqueness error class (lungo.IsUniquenessError). A partial-filter
  evaluation may itself fail (`Match` error, or any error an arbitrary `$jsonSchema` evaluator
  `sch` returns) — then the write fails with that error and nothing is claimed; the rejection
  theorems therefore assume `FiltersTotal` (the filters evaluate on the new document) where needed.
-/
import Lungo.Proofs.IndexMgmt
import Lungo.Tests.IndexFixtures
namespace Lungo.C07
open Lungo

variable {sch : SchemaEval}

/-! ### `tupleEq` is an equivalence on well-formed tuples (from the C12 laws) -/

theorem tupleEq_refl (t : List V) : tupleEq t t = true := Lungo.tupleEq_refl t
theorem tupleEq_symm (a b : List V) : tupleEq a b = tupleEq b a := Lungo.tupleEq_symm a b
theorem tupleEq_trans (a b c : List V) (oa : TupOk a) (ob : TupOk b) (oc : TupOk c) :
    tupleEq a b = true → tupleEq b c = true → tupleEq a c = true := Lungo.tupleEq_trans a b c oa ob oc
/-- key tuples of a well-formed document are well-formed (`All`/`get` only return parts of it) -/
theorem tuples_ok (cols : List Column) (d : Doc) (h : DocOk d) : ∀ t ∈ tuples cols d, TupOk t :=
  Lungo.tuples_ok cols d h

/-! ### `UniqueOk` vs `Unique` -/

theorem uniqueOk_of_unique {c : Coll} (h : Unique sch c) : UniqueOk sch c := .of_unique h
theorem unique_of_uniqueOk {c : Coll} (h : UniqueOk sch c) (hok : DocsOk c.docs) : Unique sch c := h.unique hok

/-- `_id`: the `_id_` index is unique, without partial filter, on column `_id` — so in a coherent
    collection with `_id_` present and `Unique`, no two distinct documents have `tupleEq` `_id` tuples -/
theorem id_unique {c : Coll} (hu : Unique sch c) (hc : Coherent sch c) (hp : IdIndexPresent c)
    {x y : SDoc} (hx : x ∈ c.docs) (hy : y ∈ c.docs) (hne : x ≠ y) :
    ∀ t1 ∈ tuples [{ path := "_id", reverse := false }] x.doc,
    ∀ t2 ∈ tuples [{ path := "_id", reverse := false }] y.doc, tupleEq t1 t2 = false := by
  obtain ⟨i, hm, hcfg⟩ := hp
  have hcols : i.columns = [{ path := "_id", reverse := false }] := by
    have := (hc.2 "_id_" i hm).cols
    rw [hcfg, idIndex_cols] at this
    simp only [Except.ok.injEq] at this
    exact this.symm
  have hb : ∀ d, belongs sch i d := fun d => by
    unfold belongs partialMatches; rw [hcfg]; rfl
  have := hu "_id_" i hm (by rw [hcfg]; rfl) x y hx hy hne (hb _) (hb _)
  rw [hcols] at this
  exact this

/-! ### `unique_step`: every collection method preserves uniqueness -/

theorem unique_new (b : Bool) : Unique sch (newColl b) := .new b

theorem uniqueOk_insert {c c' : Coll} {d : Doc} {nu nu' : Nu} {sd : SDoc}
    (hc : Coherent sch c) (hu : UniqueOk sch c)
    (h : c.insert sch d nu = .ok (c', sd, nu')) : UniqueOk sch c' := hu.insert hc h

theorem unique_insert {c c' : Coll} {d : Doc} {nu nu' : Nu} {sd : SDoc}
    (hc : Coherent sch c) (hu : Unique sch c) (hok' : DocsOk c'.docs)
    (h : c.insert sch d nu = .ok (c', sd, nu')) : Unique sch c' := hu.insert hc hok' h

theorem uniqueOk_replace {c : Coll} {q repl : Doc} {sort : Option Doc} {nu nu' : Nu} {res : CResult}
    (hc : Coherent sch c) (hu : UniqueOk sch c)
    (h : c.replace sch q repl sort nu = .ok (res, nu')) : UniqueOk sch res.coll := hu.replace hc h

theorem unique_replace {c : Coll} {q repl : Doc} {sort : Option Doc} {nu nu' : Nu} {res : CResult}
    (hc : Coherent sch c) (hu : Unique sch c) (hok' : DocsOk res.coll.docs)
    (h : c.replace sch q repl sort nu = .ok (res, nu')) : Unique sch res.coll := hu.replace hc hok' h

theorem uniqueOk_update {ac : ACtx} {c : Coll} {q u : Doc} {sort : Option Doc} {skip limit : Int}
    {filters : List Doc} {nu nu' : Nu} {res : CResult}
    (hc : Coherent ac.sch c) (hb : IdsBelow c.docs nu.nextId) (hu : UniqueOk ac.sch c)
    (h : c.update ac q u sort skip limit filters nu = .ok (res, nu')) : UniqueOk ac.sch res.coll :=
  hu.update hc hb h

/-- multi-update (remove all, then add all) -/
theorem unique_update {ac : ACtx} {c : Coll} {q u : Doc} {sort : Option Doc} {skip limit : Int}
    {filters : List Doc} {nu nu' : Nu} {res : CResult}
    (hc : Coherent ac.sch c) (hb : IdsBelow c.docs nu.nextId) (hu : Unique ac.sch c)
    (hok' : DocsOk res.coll.docs)
    (h : c.update ac q u sort skip limit filters nu = .ok (res, nu')) : Unique ac.sch res.coll :=
  hu.update hc hb hok' h

theorem uniqueOk_upsert {ac : ACtx} {c c' : Coll} {q : Doc} {repl update : Option Doc}
    {filters : List Doc} {nu nu' : Nu} {sd : SDoc} (hc : Coherent ac.sch c) (hu : UniqueOk ac.sch c)
    (h : c.upsert ac q repl update filters nu = .ok (c', sd, nu')) : UniqueOk ac.sch c' := by
  obtain ⟨doc, h⟩ := upsert_spec h
  exact hu.insert hc h

theorem unique_upsert {ac : ACtx} {c c' : Coll} {q : Doc} {repl update : Option Doc}
    {filters : List Doc} {nu nu' : Nu} {sd : SDoc} (hc : Coherent ac.sch c) (hu : Unique ac.sch c)
    (hok' : DocsOk c'.docs)
    (h : c.upsert ac q repl update filters nu = .ok (c', sd, nu')) : Unique ac.sch c' :=
  (uniqueOk_upsert hc (.of_unique hu) h).unique hok'

theorem unique_delete {c c' : Coll} {q : Doc} {sort : Option Doc} {skip limit : Int} {list : List SDoc}
    (hu : Unique sch c) (h : c.delete sch q sort skip limit = .ok (c', list)) : Unique sch c' := hu.delete h

theorem uniqueOk_delete {c c' : Coll} {q : Doc} {sort : Option Doc} {skip limit : Int} {list : List SDoc}
    (hu : UniqueOk sch c) (h : c.delete sch q sort skip limit = .ok (c', list)) : UniqueOk sch c' := hu.delete h

/-- index build: a successfully built unique index has no two documents with a common key -/
theorem unique_createIndex {c c' : Coll} {name name' : String} {config : IndexConfig}
    (hc : Coherent sch c) (hu : Unique sch c) (hok : DocsOk c.docs)
    (h : c.createIndex sch name config = .ok (c', name')) : Unique sch c' := hu.createIndex hc hok h

theorem uniqueOk_createIndex {c c' : Coll} {name name' : String} {config : IndexConfig}
    (hc : Coherent sch c) (hu : UniqueOk sch c)
    (h : c.createIndex sch name config = .ok (c', name')) : UniqueOk sch c' := hu.createIndex hc h

theorem unique_dropIndex {c c' : Coll} {name : String} {dropped : List String}
    (hu : Unique sch c) (h : c.dropIndex name = .ok (c', dropped)) : Unique sch c' := hu.dropIndex h

/-! ### Catalog level: uniqueness in every reachable state -/

/-- each driver call preserves (C15 invariant ∧ uniqueness among well-formed documents) -/
theorem unique_step {s s' : Sys} {c : Call} {oids : List V} {r : Reply}
    (hi : SysInv sch s) (hu : UniqueOkCat sch s.catalog)
    (e : Sys.step sch s c oids = .ok (s', r)) : SysInv sch s' ∧ UniqueOkCat sch s'.catalog :=
  let g := SysGood.step (uq := true) ⟨hi, fun _ => hu⟩ e; ⟨g.1, g.2 rfl⟩

/-- the same for one call on any transaction (plain or inside a session) -/
theorem unique_runCall {t t' : Txn} {nu nu' : Nu} {c : Call} {r : Reply}
    (hi : Inv sch t.catalog nu.nextId) (hu : UniqueOkCat sch t.catalog)
    (e : runCall sch t nu c = .ok (t', nu', r)) : UniqueOkCat sch t'.catalog :=
  (Good.runCall (uq := true) ⟨hi, fun _ => hu⟩ e).1.2 rfl

/-- session level: uniqueness (among well-formed documents) of the committed catalog and of every
    open session transaction is preserved by every session-level step -/
theorem unique_sstep {s : SSys} (g : SGood sch true s) (c : SCall) : SGood sch true (s.step sch c).1 :=
  g.step c

theorem unique_sinit : SGood sch true SSys.init := SGood.init

/-- after ANY history of driver calls from the empty database: no unique index has two distinct
    well-formed documents with a common key -/
theorem uniqueOk_run (calls : List (Call × List V)) :
    UniqueOkCat sch (Sys.run sch Sys.init calls).catalog :=
  ((SysGood.init (uq := true)).run calls).2 rfl

/-- … hence, all stored documents being Go values (`OkCat`), C07 proper -/
theorem unique_run (calls : List (Call × List V)) (hok : OkCat (Sys.run sch Sys.init calls).catalog) :
    UniqueCat sch (Sys.run sch Sys.init calls).catalog :=
  fun h c hm => (uniqueOk_run calls h c hm).unique (hok h c hm)

/-- bulk writes / insertMany / transactions of several operations, at the transaction level -/
theorem unique_txn_bulk {ac : ACtx} {t t' : Txn} {h : Handle} {ops : List Operation} {ordered : Bool}
    {nu nu' : Nu} {rs : List TResult} (hi : Inv ac.sch t.catalog nu.nextId)
    (hu : UniqueOkCat ac.sch t.catalog) (e : t.bulk ac h ops ordered nu = .ok (t', rs, nu')) :
    UniqueOkCat ac.sch t'.catalog :=
  (Good.txn_bulk (uq := true) ⟨hi, fun _ => hu⟩ e).1.2 rfl

theorem unique_txn_insert {t t' : Txn} {h : Handle} {list : List Doc} {ordered : Bool} {nu nu' : Nu}
    {r : TResult} (hi : Inv sch t.catalog nu.nextId) (hu : UniqueOkCat sch t.catalog)
    (e : t.insert sch h list ordered nu = .ok (t', r, nu')) : UniqueOkCat sch t'.catalog :=
  (Good.txn_insert (uq := true) ⟨hi, fun _ => hu⟩ e).1.2 rfl

/-! ### Rejections: `.dup` exactly when the would-be result has a colliding pair -/

/-- `reject_sound`: an insert rejected for uniqueness really collides — the new document (after
    `_id` generation) belongs to some unique index under which a stored belonging document has an
    equal key tuple. ("Already a member" cannot happen: identities are fresh.) -/
theorem reject_sound {c : Coll} {d d' : Doc} {nu nu1 : Nu}
    (hc : Coherent sch c) (hb : IdsBelow c.docs nu.nextId) (he : ensureId d nu = .ok (d', nu1))
    (hne : ∀ n i, (n, i) ∈ c.indexes → partialMatches sch i d' ≠ .error .dup)
    (h : c.insert sch d nu = .error .dup) : Collides sch c d' := insert_reject_sound hc hb he hne h

/-- `no_spurious_dup`: without a collision the insert is never rejected for uniqueness … -/
theorem no_spurious_dup {c : Coll} {d d' : Doc} {nu nu1 : Nu}
    (hc : Coherent sch c) (hb : IdsBelow c.docs nu.nextId) (he : ensureId d nu = .ok (d', nu1))
    (hne : ∀ n i, (n, i) ∈ c.indexes → partialMatches sch i d' ≠ .error .dup)
    (hno : ¬ Collides sch c d') : c.insert sch d nu ≠ .error .dup :=
  fun h => hno (insert_reject_sound hc hb he hne h)

/-- … and, the partial filters being evaluable on it, it is accepted. -/
theorem insert_accepted {c : Coll} {d d' : Doc} {nu nu1 : Nu}
    (hc : Coherent sch c) (hb : IdsBelow c.docs nu.nextId) (he : ensureId d nu = .ok (d', nu1))
    (htot : FiltersTotal sch c d') (hno : ¬ Collides sch c d') : ∃ r, c.insert sch d nu = .ok r :=
  insert_accepts hc hb he htot hno

/-- `reject_complete`: an insert that would create a colliding pair is rejected with `.dup`. -/
theorem reject_complete {c : Coll} {d d' : Doc} {nu nu1 : Nu}
    (hc : Coherent sch c) (he : ensureId d nu = .ok (d', nu1))
    (hok : DocsOk c.docs) (hd : DocOk d') (htot : FiltersTotal sch c d') (hcol : Collides sch c d') :
    c.insert sch d nu = .error .dup := insert_reject_complete hc he hok hd htot hcol

/-- `update_swap_ok`: a multi-update is accepted whenever each NEW document is collision-free with
    the untouched documents and with the other new documents — whatever the OLD documents were
    (e.g. two documents swapping their unique keys). Stated from the point where the matched
    documents `list` and their successors `news` are computed and the `_id`s are unchanged. -/
theorem update_swap_ok {ac : ACtx} {c : Coll} {q u : Doc} {sort : Option Doc}
    {skip limit : Int} {filters : List Doc} {nu nu' : Nu} {list : List SDoc}
    {news : List (SDoc × List (String × V))}
    (hc : Coherent ac.sch c) (hb : IdsBelow c.docs nu.nextId)
    (hsel : selectDocs ac.sch c q sort skip limit = .ok list)
    (hap : Coll.update.applyAll ac u filters nu list = .ok (news, nu'))
    (hid : (list.zip news).any (fun p => !sameId (Get p.2.1.doc "_id") (Get p.1.doc "_id")) = false)
    (htot : ∀ nd ∈ news.map (·.1), FiltersTotal ac.sch c nd.doc)
    (hno : ∀ nd ∈ news.map (·.1), ∀ n i, (n, i) ∈ c.indexes →
      ¬ CollidesAt ac.sch (fun x => (x ∈ c.docs ∧ ∀ o ∈ list, x.id ≠ o.id) ∨
          (x ∈ news.map (·.1) ∧ x ≠ nd)) i nd.doc) :
    ∃ res, c.update ac q u sort skip limit filters nu = .ok (res, nu') :=
  update_ok_of_no_collision hc hb hsel hap hid htot hno

/-! ### TESTS (compiler-evaluated `#guard`s on concrete collections — non-vacuity, not theorems) -/
section Tests
open Lungo.IndexFixtures

-- BSON equality across numeric types and per array element: double 3.0 collides with the element
-- int32 3 of the multikey document; int64 1 collides with `_id` int32 1
#guard isDup (insertInto demo [("_id", .i32 3), ("a", f3)])
#guard isDup (insertInto demo [("_id", .i64 1), ("a", .i32 9)])
#guard isDup (insertInto demo [("_id", .i32 3), ("a", .arr [.i32 7, .i64 2])])
-- no collision: accepted
#guard okAnd (insertInto demo [("_id", .i32 3), ("a", .i32 4)]) fun (c, _) => c.docs.length == 3
-- missing `a` indexes as null: one such document is fine, the second collides (null ≈ missing)
#guard okAnd (insertInto demo [("_id", .i32 3)]) fun _ => true
#guard isDup (insertInto (insertInto demo [("_id", .i32 3)]) [("_id", .i32 4), ("a", .null)])
-- swapping two unique keys in ONE multi-update succeeds (remove all, then add all) …
#guard okAnd (updateIn demoSwap [] [("$mul", .doc [("a", .i32 (-1))])]) fun (c, _) =>
  fieldOf c "a" == [(2, .i32 (-1)), (3, .i32 1)] && entriesOf c "a_1" == 2
-- … while moving one document onto the other's key is rejected
#guard isDup (updateIn demoSwap [("_id", .i32 1)] [("$set", .doc [("a", .i32 (-1))])])
#guard isDup (replaceIn demo [("_id", .i32 2)] [("a", .i32 1)])
-- index build over colliding documents (int32 5 / int64 5) is rejected
#guard isDup (createIn (insertInto (insertInto demoSwap [("_id", .i32 3), ("a", .i32 5), ("b", .i32 5)])
    [("_id", .i32 4), ("a", .i32 6), ("b", .i64 5)]) "" cfgB)
-- partial unique index: `b = 0` is outside the filter, so two such documents coexist;
-- inside the filter int32 3 and double 3.0 collide
#guard okAnd (insertInto (insertInto demoPartial [("_id", .i32 3), ("a", .i32 7), ("b", .i32 0)])
    [("_id", .i32 4), ("a", .i32 8), ("b", .i32 0)]) fun (c, _) => c.docs.length == 4
#guard isDup (insertInto (insertInto demoPartial [("_id", .i32 3), ("a", .i32 7), ("b", .i32 3)])
    [("_id", .i32 4), ("a", .i32 8), ("b", f3)])
-- compound key: per tuple — (1, 2) and (1, 3) coexist, a second (1, 2.0) does not
#guard okAnd (insertInto (insertInto (createIn (dropIn demoSwap "a_1") "" cfgAB)
    [("_id", .i32 3), ("a", .i32 1), ("b", .i32 2)]) [("_id", .i32 4), ("a", .i32 1), ("b", .i32 3)])
  fun (c, _) => entriesOf c "a_1_b_-1" == 4
#guard isDup (insertInto (insertInto (createIn (dropIn demoSwap "a_1") "" cfgAB)
    [("_id", .i32 3), ("a", .i32 1), ("b", .i32 2)]) [("_id", .i32 4), ("a", .i64 1), ("b", .i64 2)])

end Tests

end Lungo.C07
