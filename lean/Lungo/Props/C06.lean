/-
  C06 — Persist-and-reload returns the identical database.

  Model: Lungo.Model.Codec (BSON as written/read by mongo-driver v1.17.9, compared byte for
  byte by stream `codec`), Lungo.Model.File (file.go / store.go), Lungo.Model.CatalogLite.
  Proofs: Lungo.Proofs.Codec, Lungo.Proofs.File.
-/
import Lungo.Proofs.Codec
import Lungo.Proofs.File
namespace Lungo.C06
open Lungo Lungo.Bson Lungo.Lite

/-! ## The codec is the identity on well-formed values -/

/-- `bson.Unmarshal(bson.Marshal(d)) = d` for every document over the supported types:
    all four numeric types as raw bits/words (so NaN payloads, −0, infinities, subnormals and
    every Decimal128 bit pattern are covered by construction), strings, nested and empty
    documents/arrays, binary of every subtype, object ids, booleans, dates, timestamps, regexes,
    null. `wfEncDoc` = what the API can store: keys/regex parts without NUL, integers in range,
    12-byte object ids, sizes < 2^31, regex options sorted (Marshal sorts them), and no
    subtype-2 binary with empty data (Unmarshal reads that one back as four zero bytes). -/
theorem codec_roundtrip (d : Doc) (h : wfEncDoc d = true) : decDoc (encDoc d) = some d :=
  decDoc_encDoc d h

/-- The same for a single value in any context: decoding the payload written for `v`
    (followed by arbitrary bytes) yields `v` and leaves exactly those bytes. -/
theorem codec_roundtrip_value (v : V) (h : wfEnc v = true) (rest : Bytes) :
    decVal (need v) v.typ (encV v ++ rest) = some (v, rest) :=
  decVal_enc v h (need v) rest (Nat.le_refl _)

/-- Sharpness of `wfEnc`: an empty subtype-2 binary does NOT survive the codec
    (driver quirk: `ReadBinary` only reads the inner length when the outer one is > 4). -/
theorem codec_roundtrip_fails_bin2_empty :
    decDoc (encDoc [("b", .bin 2 [])]) = some [("b", .bin 2 [0, 0, 0, 0])] := by
  rfl

/-- Sharpness of `wfEnc`: unsorted regex options come back sorted. -/
theorem codec_roundtrip_fails_regex_opts :
    decDoc (encDoc [("r", .regex "a" "xi")]) = some [("r", .regex "a" "ix")] := by
  rfl

/-! ## The file format is the identity on files -/

/-- `bson.Unmarshal(bson.Marshal(file), &file') ⇒ file' = file` for every `File` with map keys
    distinct (any Go map) and encodable content, including nil documents/indexes/partial. -/
theorem file_roundtrip (f : File) (hd : f.distinct) (hw : wfEncDoc (fileDoc f) = true) :
    decodeFile (encodeFile f) = .ok f :=
  decodeFile_encodeFile f hd hw

/-! ## Store ; Load is the identity on catalogs -/

/-- Catalogs reachable through the API, as far as persistence is concerned. -/
structure WF (indexOk : IndexDef → List Doc → Bool) (c : Catalog) : Prop where
  /-- the file is encodable: names without NUL, documents/keys/filters `wfEnc`, expiry in int64 -/
  enc : wfEncDoc (fileDoc (buildFile c)) = true
  /-- map keys: handles pairwise distinct -/
  handles : (c.map Namespace.handle).Nodup
  /-- map keys: index names pairwise distinct per collection -/
  idxNames : ∀ n ∈ c, (n.indexes.map Prod.fst).Nodup
  /-- FORCED BY THE PROOF, not enforced by lungo: no '.' in a database name -/
  noDot : ∀ n ∈ c, '.' ∉ n.db.toList
  /-- every index can be rebuilt from its config and the collection's documents (C15 `Inv`) -/
  idxOk : ∀ n ∈ c, ∀ x ∈ n.indexes, indexOk x.2 n.docs = true
  /-- `local.oplog` exists (NewCatalog creates it, `local.*` is read-only for the API) -/
  oplog : (Catalog.get? c ("local", "oplog")).isSome = true

/-- Same handles; per handle the same documents in the same order (field order and types
    included, `Doc` equality is structural) and the same index definitions under the same names. -/
def Equiv (a b : Catalog) : Prop :=
  ∀ h, match Catalog.get? a h, Catalog.get? b h with
    | none, none => True
    | some x, some y => x.docs = y.docs ∧ ∀ name, x.indexes.lookup name = y.indexes.lookup name
    | _, _ => False

theorem Equiv.refl (a : Catalog) : Equiv a a := by
  intro h
  cases Catalog.get? a h <;> simp

/-- Closing and reopening yields the very same catalog: same namespaces (the change log
    `local.oplog` is one of them), same documents in natural order, same index definitions
    (key, unique, partial-filter incl. nil vs empty, expiry, name). -/
theorem reload_identity (indexOk : IndexDef → List Doc → Bool) (c : Catalog) (h : WF indexOk c) :
    reload indexOk c = .ok c := by
  have hd : (buildFile c).distinct :=
    ⟨by simpa [buildFile] using toFileNamespaces_keys_nodup c h.noDot h.handles,
     by simpa [buildFile] using toFileNamespaces_distinct c h.idxNames⟩
  have hl := fromFileNamespaces_toFileNamespaces indexOk c ⟨h.noDot, h.idxOk⟩
  unfold reload
  rw [decodeFile_encodeFile _ hd h.enc]
  simp [buildCatalog, buildFile, hl, ensureOplog, h.oplog]

theorem reload_identity_equiv (indexOk : IndexDef → List Doc → Bool) (c : Catalog) (h : WF indexOk c) :
    ∃ c', reload indexOk c = .ok c' ∧ Equiv c' c :=
  ⟨c, reload_identity indexOk c h, Equiv.refl c⟩

/-! ## The dot hypothesis is necessary -/

theorem splitDot_noDot : ∀ (l a b : List Char), splitDot l = some (a, b) → '.' ∉ a := by
  intro l
  induction l with
  | nil => intro a b h; simp [splitDot] at h
  | cons c r ih =>
    intro a b h
    simp only [splitDot] at h
    split at h
    · simp only [Option.some.injEq, Prod.mk.injEq] at h
      rw [← h.1]; simp
    · rename_i hc
      split at h
      · rename_i a' b' hs
        simp only [Option.some.injEq, Prod.mk.injEq] at h
        rw [← h.1]
        simp only [List.mem_cons, not_or]
        exact ⟨fun e => hc e.symm, ih a' b' hs⟩
      · simp at h

theorem fromFileNamespaces_noDot (indexOk : IndexDef → List Doc → Bool) :
    ∀ (l : List (String × FileNamespace)) (c : Catalog),
      fromFileNamespaces indexOk l = .ok c → ∀ n ∈ c, '.' ∉ n.db.toList := by
  intro l
  induction l with
  | nil => intro c h; simp [fromFileNamespaces] at h; subst h; simp
  | cons a r ih =>
    obtain ⟨name, ns⟩ := a
    intro c h
    simp only [fromFileNamespaces] at h
    split at h
    · simp at h
    · rename_i a' b' hs
      split at h
      · simp at h
      · split at h
        · simp at h
        · rename_i is _ c' hc'
          simp only [Except.ok.injEq] at h
          subst h
          intro n hn
          simp only [List.mem_cons] at hn
          rcases hn with e | hn
          · subst e
            simpa using splitDot_noDot _ _ _ hs
          · exact ih c' hc' n hn

/-- Whatever was stored, a loaded catalog never contains a database name with a dot … -/
theorem buildCatalog_db_noDot (indexOk : IndexDef → List Doc → Bool) (f : File) (c : Catalog)
    (h : buildCatalog indexOk f = .ok c) : ∀ n ∈ c, '.' ∉ n.db.toList := by
  simp only [buildCatalog] at h
  split at h
  · rename_i c0 h0
    simp only [Except.ok.injEq] at h
    subst h
    have := fromFileNamespaces_noDot indexOk _ c0 h0
    intro n hn
    unfold ensureOplog at hn
    split at hn
    · exact this n hn
    · simp only [List.mem_append, List.mem_singleton] at hn
      rcases hn with hn | e
      · exact this n hn
      · subst e; decide
  · simp at h

/-- … hence `reload c = c` REQUIRES dot-free database names: `noDot` cannot be dropped from `WF`. -/
theorem reload_identity_needs_noDot (indexOk : IndexDef → List Doc → Bool) (c : Catalog)
    (h : reload indexOk c = .ok c) : ∀ n ∈ c, '.' ∉ n.db.toList := by
  simp only [reload] at h
  split at h
  · simp at h
  · exact buildCatalog_db_noDot indexOk _ c h

def oplogNs : Namespace := { db := "local", coll := "oplog", docs := [], indexes := [] }
def idIndex : String × IndexDef := ("_id_", { key := [("_id", .i32 1)], unique := true, partialF := none, expiry := 0 })

/-- The concrete witness: database "a.b", collection "c" (every `WF` clause but `noDot` holds)
    reloads as database "a", collection "b.c"; the handle ("a.b","c") is gone. -/
def dottedCat : Catalog :=
  [oplogNs, { db := "a.b", coll := "c", docs := [[("_id", .i32 1)]], indexes := [idIndex] }]
def dottedCatReloaded : Catalog :=
  [oplogNs, { db := "a", coll := "b.c", docs := [[("_id", .i32 1)]], indexes := [idIndex] }]

theorem reload_identity_fails_dotted_db :
    reload (fun _ _ => true) dottedCat = .ok dottedCatReloaded
    ∧ Catalog.get? dottedCatReloaded ("a.b", "c") = none
    ∧ (Catalog.get? dottedCat ("a.b", "c")).isSome = true
    ∧ ¬ Equiv dottedCatReloaded dottedCat := by
  have hd : (buildFile dottedCat).distinct := by
    refine ⟨by decide, ?_⟩
    intro x hx
    simp only [buildFile, dottedCat, toFileNamespaces, Option.getD_some, List.mem_cons,
      List.not_mem_nil, or_false] at hx
    rcases hx with e | e <;> subst e <;> (unfold FileNamespace.distinct; decide)
  have hw : wfEncDoc (fileDoc (buildFile dottedCat)) = true := by decide +kernel
  have h1 : reload (fun _ _ => true) dottedCat = .ok dottedCatReloaded := by
    simp only [reload, decodeFile_encodeFile _ hd hw]
    rfl
  refine ⟨h1, by decide, by decide, ?_⟩
  intro he
  have := he ("a.b", "c")
  have e1 : Catalog.get? dottedCatReloaded ("a.b", "c") = none := by decide
  have e2 : (Catalog.get? dottedCat ("a.b", "c")).isSome = true := by decide
  rw [e1] at this
  cases hg : Catalog.get? dottedCat ("a.b", "c") with
  | none => simp [hg] at e2
  | some x => simp [hg] at this

/-- Second face of the same defect: two live namespaces collide in the file. ("a.b","c") and
    ("a","b.c") are both written under "a.b.c"; a Go map keeps one of them. -/
theorem handle_collision : handleString "a.b" "c" = handleString "a" "b.c" := by decide

/-! ## Non-vacuity -/

/-- NaN with payload, −0, +∞, a Decimal128 NaN with payload, extreme int64, nested empty arrays,
    empty document, binary subtype 2 (non-empty) and 0 (empty), timestamp at uint32 max, regex,
    null, NUL inside a string, non-ASCII key: all inside `wfEncDoc`. -/
def sampleDoc : Doc :=
  [("_id", .oid [1, 2, 3, 4, 5, 6, 7, 8, 9, 10, 11, 12]),
   ("nan", .f64 0x7ff8000000000001), ("negzero", .f64 0x8000000000000000), ("inf", .f64 0x7ff0000000000000),
   ("tiny", .f64 1), ("dnan", .dec 0x7c00000000000001 5), ("min", .i64 (-9223372036854775808)), ("i", .i32 (-2147483648)),
   ("a", .arr [.arr [], .arr [.arr []], .doc []]), ("b2", .bin 2 [1, 2]), ("b0", .bin 0 []),
   ("ts", .ts 4294967295 4294967295), ("r", .regex "^a" "imx"), ("n", .null), ("s", .str "a\x00b"), ("é", .bool true),
   ("d", .date (-1))]

example : wfEncDoc sampleDoc = true := by decide +kernel
example : decDoc (encDoc sampleDoc) = some sampleDoc := codec_roundtrip sampleDoc (by decide +kernel)

/-- A catalog with the oplog, an empty collection that only has indexes (TTL with
    expireAfterSeconds 0 = 1ns, partial-filter nil vs empty vs non-empty, compound key, custom name),
    and a collection (whose name contains a dot) with documents. -/
def sampleCat : Catalog :=
  [{ db := "local", coll := "oplog", docs := [[("_id", .doc [("ts", .ts 1 1)]), ("ns", .str "db.c")]], indexes := [] },
   { db := "db", coll := "empty", docs := [],
     indexes := [idIndex,
       ("ttl", { key := [("t", .i32 1)], unique := false, partialF := none, expiry := 1 }),
       ("p_empty", { key := [("a", .i32 1), ("b", .i32 (-1))], unique := true, partialF := some [], expiry := 0 }),
       ("p", { key := [("a", .i32 (-1))], unique := true, partialF := some [("a", .doc [("$gt", .f64 0x7ff8000000000001)])], expiry := 0 })] },
   { db := "db", coll := "c.d", docs := [sampleDoc, [("_id", .i32 1)]], indexes := [idIndex] }]

theorem sampleCat_WF : WF (fun _ _ => true) sampleCat where
  enc := by decide +kernel
  handles := by decide
  idxNames := by
    intro n hn
    simp only [sampleCat, List.mem_cons, List.not_mem_nil, or_false] at hn
    rcases hn with e | e | e <;> subst e <;> decide
  noDot := by
    intro n hn
    simp only [sampleCat, List.mem_cons, List.not_mem_nil, or_false] at hn
    rcases hn with e | e | e <;> subst e <;> decide
  idxOk := by intros; rfl
  oplog := by decide

example : reload (fun _ _ => true) sampleCat = .ok sampleCat := reload_identity _ _ sampleCat_WF

end Lungo.C06
