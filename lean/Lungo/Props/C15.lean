/-
  Lungo.Props.C15 — "After any sequence of writes, index creations/drops, failed calls and
  transaction commits/aborts, each index of each collection contains exactly the collection's
  current documents (those matching its partial filter), each once …, so that the index behaves
  identically to one rebuilt from scratch over the same documents. Creating an index that already
  exists with the same definition is a no-op, creating a conflicting one fails, and dropping
  indexes never removes the _id index."

  Subject: the collection / transaction / driver-call model of Lungo/Model/{Collection,Txn,Api}.lean
  (mirroring bsonkit/{set,index}.go, mongokit/{index,collection}.go, transaction.go). Definitions:
  Lungo/Spec/IndexSpec.lean (`belongs`, `IndexCoherent`, `Coherent`, `IdsBelow`, `Inv`, `SysInv`,
  `sameEntries`, `rebuild`). Proofs: Lungo/Proofs/Index{Laws,Coll,Reject,Cat,Mgmt}.lean.

  `Coherent sch c` = identities of `c.docs` pairwise distinct ∧ for every index `(n, i)` of `c`
  (`IndexCoherent`):  cached columns = columns of the configured key;  the partial filter evaluates
  without error on every stored document;  every entry `(k, id)` is a key tuple `k ∈ tuples` of a
  stored, belonging document with identity `id` (⊆, even with syntactic equality of the tuple);
  every tuple of every stored belonging document has an entry with its identity (⊇, up to
  `tupleEq`);  no two entries with the same identity and `tupleEq` keys.
  Key order: the model keeps entries in insertion order and `Index.list` (model of `Index.List()`)
  sorts them; `index_list_exact` / `index_list_sorted` prove "each once and in key order".
  NOT covered here: reload from a file (C06), failed calls/aborts beyond "the state is unchanged"
  (the model's `Sys.step` returns the old state on error by construction; the clone discipline
  that makes this true in Go is C02's).
  No C12 law is needed for C15: coherence never uses transitivity of `Compare`.
-/
import Lungo.Proofs.IndexMgmt
import Lungo.Tests.IndexFixtures
namespace Lungo.C15
open Lungo

variable {sch : SchemaEval}

/-! ### The two inclusions of `Coherent`, as stated in the property -/

/-- ⊆ : every index entry is (a key tuple of) a current document that falls under the index. -/
theorem entries_sound {c : Coll} {n : String} {i : Index} (hc : Coherent sch c) (hm : (n, i) ∈ c.indexes)
    {k : List V} {id : Nat} (he : (k, id) ∈ i.entries) :
    ∃ sd ∈ c.docs, sd.id = id ∧ belongs sch i sd.doc ∧ ∃ t ∈ tuples i.columns sd.doc, tupleEq k t = true := by
  obtain ⟨x, hx, hid, hb, hk⟩ := (hc.2 n i hm).sound k id he
  exact ⟨x, hx, hid, hb, k, hk, tupleEq_refl k⟩

/-- ⊇ : every key tuple of every current document that falls under the index has an entry. -/
theorem entries_complete {c : Coll} {n : String} {i : Index} (hc : Coherent sch c) (hm : (n, i) ∈ c.indexes)
    {sd : SDoc} (hsd : sd ∈ c.docs) (hb : belongs sch i sd.doc) {t : List V}
    (ht : t ∈ tuples i.columns sd.doc) : ∃ k, (k, sd.id) ∈ i.entries ∧ tupleEq k t = true :=
  (hc.2 n i hm).complete sd hsd hb t ht

/-- "each once": no two entries with the same document and equal keys. -/
theorem entries_once {c : Coll} {n : String} {i : Index} (hc : Coherent sch c) (hm : (n, i) ∈ c.indexes) :
    i.entries.Pairwise fun e1 e2 => ¬ (e1.2 = e2.2 ∧ tupleEq e1.1 e2.1 = true) :=
  (hc.2 n i hm).nodup

/-- documents outside the partial filter have no entry -/
theorem nonmember_absent {c : Coll} {n : String} {i : Index} (hc : Coherent sch c) (hm : (n, i) ∈ c.indexes)
    {sd : SDoc} (hsd : sd ∈ c.docs) (hb : ¬ belongs sch i sd.doc) : ∀ k, (k, sd.id) ∉ i.entries := by
  intro k he
  obtain ⟨x, hx, hid, hbx, _⟩ := (hc.2 n i hm).sound k sd.id he
  have := ids_inj hc.1 x hx sd hsd hid
  subst this
  exact hb hbx

/-- "behaves identically to one rebuilt from scratch": a coherent index has the same entry set
    (up to `tupleEq` on keys) as `(newIndex i.config).build docs`, whenever that build succeeds;
    the rebuilt index is coherent for the same documents and has the same definition. -/
theorem coherent_rebuild {c : Coll} {n : String} {i j : Index} (hc : Coherent sch c)
    (hm : (n, i) ∈ c.indexes) (h : rebuild sch i c.docs = .ok (j, true)) :
    sameEntries i j ∧ IndexCoherent sch (· ∈ c.docs) j ∧ j.config = i.config ∧ j.columns = i.columns :=
  Lungo.coherent_rebuild hc hm h

/-- "each once": `i.list` (model of `Index.List()`: entries stably sorted by `keyLe i.columns`,
    identities deduplicated keeping the first) lists exactly the belonging documents, each once.
    Needs no well-formedness. -/
theorem index_list_exact {c : Coll} {n : String} {i : Index} (hc : Coherent sch c)
    (hm : (n, i) ∈ c.indexes) :
    i.list.Nodup ∧ ∀ id, id ∈ i.list ↔ ∃ sd ∈ c.docs, sd.id = id ∧ belongs sch i sd.doc :=
  Lungo.index_list_exact hc hm

/-- "… and in key order": `i.list` is the identity projection of a list `ks` of index entries that
    is ascending by key (`keyLe`, column-wise `Compare` with the columns' directions) and holds
    each listed document under its SMALLEST key. Uses the C12 order laws (sorting needs a total
    preorder), hence `DocsOk`. Among documents with equal smallest keys the order is the
    model's insertion order (Go: pointer order — not observable). -/
theorem index_list_sorted {c : Coll} {n : String} {i : Index} (hc : Coherent sch c)
    (hm : (n, i) ∈ c.indexes) (hok : DocsOk c.docs) :
    ∃ ks : List (List V × Nat), ks.map (·.2) = i.list ∧ (∀ e ∈ ks, e ∈ i.entries) ∧
      ks.Pairwise (fun a b => keyLe i.columns a.1 b.1 = true) ∧
      ∀ k id, (k, id) ∈ ks → ∀ k', (k', id) ∈ i.entries → keyLe i.columns k k' = true :=
  Lungo.index_list_sorted hc hm hok

/-- the btree scan order (all entries) is ascending by key -/
theorem index_scan_sorted {c : Coll} {n : String} {i : Index} (hc : Coherent sch c)
    (hm : (n, i) ∈ c.indexes) (hok : DocsOk c.docs) :
    i.scan.Pairwise (fun a b => keyLe i.columns a.1 b.1 = true) := scan_sorted hc hm hok

/-! ### Every collection method preserves coherence (and freshness of the identity counter) -/

theorem coherent_new (b : Bool) : Coherent sch (newColl b) := .new b

theorem coherent_insert {c c' : Coll} {d : Doc} {nu nu' : Nu} {sd : SDoc}
    (hc : Coherent sch c) (hb : IdsBelow c.docs nu.nextId)
    (h : c.insert sch d nu = .ok (c', sd, nu')) :
    Coherent sch c' ∧ IdsBelow c'.docs nu'.nextId := hc.insert hb h

theorem coherent_delete {c c' : Coll} {q : Doc} {sort : Option Doc} {skip limit : Int} {list : List SDoc}
    (hc : Coherent sch c) (h : c.delete sch q sort skip limit = .ok (c', list)) :
    Coherent sch c' ∧ (∀ n, IdsBelow c.docs n → IdsBelow c'.docs n) := hc.delete h

theorem coherent_replace {c : Coll} {q repl : Doc} {sort : Option Doc} {nu nu' : Nu} {res : CResult}
    (hc : Coherent sch c) (hb : IdsBelow c.docs nu.nextId)
    (h : c.replace sch q repl sort nu = .ok (res, nu')) :
    Coherent sch res.coll ∧ IdsBelow res.coll.docs nu'.nextId ∧ nu.nextId ≤ nu'.nextId := hc.replace hb h

/-- multi-update: all matched documents are removed from every index, then all successors added -/
theorem coherent_update {ac : ACtx} {c : Coll} {q u : Doc} {sort : Option Doc} {skip limit : Int}
    {filters : List Doc} {nu nu' : Nu} {res : CResult}
    (hc : Coherent ac.sch c) (hb : IdsBelow c.docs nu.nextId)
    (h : c.update ac q u sort skip limit filters nu = .ok (res, nu')) :
    Coherent ac.sch res.coll ∧ IdsBelow res.coll.docs nu'.nextId ∧ nu.nextId ≤ nu'.nextId := hc.update hb h

theorem coherent_upsert {ac : ACtx} {c c' : Coll} {q : Doc} {repl update : Option Doc} {filters : List Doc}
    {nu nu' : Nu} {sd : SDoc} (hc : Coherent ac.sch c) (hb : IdsBelow c.docs nu.nextId)
    (h : c.upsert ac q repl update filters nu = .ok (c', sd, nu')) :
    Coherent ac.sch c' ∧ IdsBelow c'.docs nu'.nextId := by
  obtain ⟨doc, h⟩ := upsert_spec h
  exact hc.insert hb h

/-- index build: the new index is coherent for all current documents -/
theorem coherent_createIndex {c c' : Coll} {name name' : String} {config : IndexConfig}
    (hc : Coherent sch c) (h : c.createIndex sch name config = .ok (c', name')) :
    Coherent sch c' ∧ c'.docs = c.docs := hc.createIndex h

theorem coherent_dropIndex {c c' : Coll} {name : String} {dropped : List String}
    (hc : Coherent sch c) (h : c.dropIndex name = .ok (c', dropped)) :
    Coherent sch c' ∧ c'.docs = c.docs := hc.dropIndex h

/-- On a coherent collection the removal phase of delete (and update) cannot fail:
    "unable to remove document from index" is unreachable once the documents are selected. -/
theorem delete_never_fails {c : Coll} {q : Doc} {sort : Option Doc} {skip limit : Int} {list : List SDoc}
    (hc : Coherent sch c) (hsel : selectDocs sch c q sort skip limit = .ok list) :
    ∃ c', c.delete sch q sort skip limit = .ok (c', list) := delete_ok hc hsel

/-! ### Index management clauses -/

/-- Creating an index whose name exists with an `Equal` definition returns the collection
    unchanged. `nm` is the effective name: the given one, or the generated one if it is empty. -/
theorem create_same_is_noop {c : Coll} {name nm : String} {config : IndexConfig} {i : Index}
    (hn : (if name == "" then config.name else .ok name) = .ok nm)
    (hl : c.indexes.lookup nm = some i) (he : config.equal i.config = true) :
    c.createIndex sch name config = .ok (c, nm) := Lungo.create_same_is_noop hn hl he

/-- Creating an index under an existing name with another definition fails (no silent replace). -/
theorem create_conflict_fails {c : Coll} {name nm : String} {config : IndexConfig} {i : Index}
    (hn : (if name == "" then config.name else .ok name) = .ok nm)
    (hl : c.indexes.lookup nm = some i) (he : config.equal i.config = false) :
    c.createIndex sch name config = .error .err := create_name_conflict_fails hn hl he

/-- Creating an index whose key equals the key of an existing index of another name fails. -/
theorem create_same_key_fails {c : Coll} {name nm : String} {config : IndexConfig}
    (hn : (if name == "" then config.name else .ok name) = .ok nm)
    (hl : c.indexes.lookup nm = none)
    (hk : ∃ n' i, (n', i) ∈ c.indexes ∧ V.cmp (.doc config.key) (.doc i.config.key) = .eq) :
    c.createIndex sch name config = .error .err := create_key_conflict_fails hn hl hk

/-- After any successful dropIndex (by name, or all with "") every `_id_` entry is still there;
    dropping `_id_` by name fails. -/
theorem drop_spares_id {c c' : Coll} {name : String} {dropped : List String}
    (h : c.dropIndex name = .ok (c', dropped)) :
    (∀ i, ("_id_", i) ∈ c.indexes → ("_id_", i) ∈ c'.indexes) ∧ name ≠ "_id_" :=
  ⟨dropIndex_keeps_id h, (dropIndex_spec h).2.1⟩

theorem drop_id_fails (c : Coll) : c.dropIndex "_id_" = .error .err := Lungo.drop_id_fails c

/-- a successful drop by name removes exactly the indexes of that name -/
theorem drop_by_name {c c' : Coll} {name : String} {dropped : List String} (hne : name ≠ "")
    (h : c.dropIndex name = .ok (c', dropped)) :
    c'.indexes = c.indexes.filter (·.1 != name) ∧ dropped = [name] := by
  obtain ⟨_, _, p, hi, _, h1, _⟩ := dropIndex_spec h
  obtain ⟨rfl, _, hd⟩ := h1 hne
  exact ⟨hi, hd⟩

/-! ### Catalog level: the invariant holds in every reachable state

  `Inv sch cat nextId` (Spec/IndexSpec.lean): every namespace coherent ∧ all identities below
  `nextId` ∧ the oplog namespace present and index-free ∧ `_id_` (with its fixed definition)
  present in every namespace but the oplog. -/

/-- `Good sch false` is `Inv` -/
theorem good_false_iff {cat : Catalog} {n : Nat} : Good sch false cat n ↔ Inv sch cat n :=
  ⟨fun g => g.1, fun i => ⟨i, fun h => by cases h⟩⟩

theorem inv_init : SysInv sch Sys.init := (SysGood.init (uq := false)).1

/-- each driver call (`Sys.step`: Begin → transaction method → Commit) preserves the invariant;
    a failed call does not change the state at all (`Sys.step` returns no new state). -/
theorem inv_step {s s' : Sys} {c : Call} {oids : List V} {r : Reply} (hi : SysInv sch s)
    (e : Sys.step sch s c oids = .ok (s', r)) : SysInv sch s' :=
  (SysGood.step (uq := false) (good_false_iff.mpr hi) e).1

/-- one driver call executed on ANY transaction (a fresh one over the committed catalog, or a
    session's open transaction) preserves the invariant of the transaction's catalog -/
theorem inv_runCall {t t' : Txn} {nu nu' : Nu} {c : Call} {r : Reply}
    (hi : Inv sch t.catalog nu.nextId) (e : runCall sch t nu c = .ok (t', nu', r)) :
    Inv sch t'.catalog nu'.nextId ∧ nu.nextId ≤ nu'.nextId :=
  let g := Good.runCall (uq := false) (good_false_iff.mpr hi) e; ⟨g.1.1, g.2⟩

theorem sgood_false_iff {s : SSys} : SGood sch false s ↔ SSysInv sch s :=
  ⟨fun g => ⟨g.1.1, fun k st t hm ht => (g.2 k st t hm ht).1⟩,
   fun i => ⟨good_false_iff.mpr i.1, fun k st t hm ht => good_false_iff.mpr (i.2 k st t hm ht)⟩⟩

theorem inv_sinit : SSysInv sch SSys.init := sgood_false_iff.mp SGood.init

/-- sessions and multi-call transactions (start / commit / abort / endSession / calls inside and
    outside a transaction, blocked and failed calls included): the committed catalog and every open
    session transaction stay coherent -/
theorem inv_sstep {s : SSys} (hi : SSysInv sch s) (c : SCall) : SSysInv sch (s.step sch c).1 :=
  sgood_false_iff.mp ((sgood_false_iff.mpr hi).step c)

/-- induction over call lists: after ANY history of calls (failed ones included) from the empty
    database, every index of every collection holds exactly the collection's documents. -/
theorem inv_run (calls : List (Call × List V)) : SysInv sch (Sys.run sch Sys.init calls) :=
  ((SysGood.init (uq := false)).run calls).1

theorem inv_run_from {s : Sys} (hi : SysInv sch s) (calls : List (Call × List V)) :
    SysInv sch (Sys.run sch s calls) :=
  (SysGood.run (uq := false) (good_false_iff.mpr hi) calls).1

/-- … spelled out: coherence of every collection in every reachable state -/
theorem coherent_reachable (calls : List (Call × List V)) {h : Handle} {c : Coll}
    (hm : (h, c) ∈ (Sys.run sch Sys.init calls).catalog.namespaces) : Coherent sch c :=
  (inv_run calls).coherent h c hm

/-- index names are pairwise distinct in every reachable state (the association list is a map) … -/
theorem names_distinct (calls : List (Call × List V)) {h : Handle} {c : Coll}
    (hm : (h, c) ∈ (Sys.run sch Sys.init calls).catalog.namespaces) : NamesDistinct c :=
  (inv_run calls).names h c hm

/-- … so `lookup` by name is membership, and a drop by name removes exactly one index -/
theorem lookup_iff_mem {c : Coll} (hn : NamesDistinct c) {n : String} {i : Index} :
    c.indexes.lookup n = some i ↔ (n, i) ∈ c.indexes :=
  ⟨lookup_mem, lookup_of_mem hn⟩

/-- `_id_` is present in every namespace but the oplog, in every reachable state -/
theorem id_index_present (calls : List (Call × List V)) {h : Handle} {c : Coll}
    (hm : (h, c) ∈ (Sys.run sch Sys.init calls).catalog.namespaces) (hne : h ≠ oplogHandle) :
    IdIndexPresent c := (inv_run calls).idIndex h c hm hne

/-! #### The transaction methods one by one (each returns a new `Txn` only on success) -/

theorem inv_txn_create {t t' : Txn} {h : Handle} {n : Nat} (hi : Inv sch t.catalog n)
    (e : t.create h = .ok t') : Inv sch t'.catalog n :=
  (Good.txn_create (uq := false) (good_false_iff.mpr hi) e).1

theorem inv_txn_insert {t t' : Txn} {h : Handle} {list : List Doc} {ordered : Bool} {nu nu' : Nu}
    {r : TResult} (hi : Inv sch t.catalog nu.nextId)
    (e : t.insert sch h list ordered nu = .ok (t', r, nu')) :
    Inv sch t'.catalog nu'.nextId ∧ nu.nextId ≤ nu'.nextId :=
  let g := Good.txn_insert (uq := false) (good_false_iff.mpr hi) e; ⟨g.1.1, g.2⟩

theorem inv_txn_replace {ac : ACtx} {t t' : Txn} {h : Handle} {q repl : Doc} {sort : Option Doc}
    {upsert : Bool} {nu nu' : Nu} {r : TResult} (hi : Inv ac.sch t.catalog nu.nextId)
    (e : t.replace ac h q sort repl upsert nu = .ok (t', r, nu')) :
    Inv ac.sch t'.catalog nu'.nextId ∧ nu.nextId ≤ nu'.nextId :=
  let g := Good.txn_replace (uq := false) (good_false_iff.mpr hi) e; ⟨g.1.1, g.2⟩

theorem inv_txn_update {ac : ACtx} {t t' : Txn} {h : Handle} {q u : Doc} {sort : Option Doc}
    {skip limit : Int} {upsert : Bool} {filters : List Doc} {nu nu' : Nu} {r : TResult}
    (hi : Inv ac.sch t.catalog nu.nextId)
    (e : t.update ac h q sort u skip limit upsert filters nu = .ok (t', r, nu')) :
    Inv ac.sch t'.catalog nu'.nextId ∧ nu.nextId ≤ nu'.nextId :=
  let g := Good.txn_update (uq := false) (good_false_iff.mpr hi) e; ⟨g.1.1, g.2⟩

theorem inv_txn_delete {t t' : Txn} {h : Handle} {q : Doc} {sort : Option Doc}
    {skip limit : Int} {nu nu' : Nu} {r : TResult} (hi : Inv sch t.catalog nu.nextId)
    (e : t.delete sch h q sort skip limit nu = .ok (t', r, nu')) :
    Inv sch t'.catalog nu'.nextId ∧ nu.nextId ≤ nu'.nextId :=
  let g := Good.txn_delete (uq := false) (good_false_iff.mpr hi) e; ⟨g.1.1, g.2⟩

/-- bulk writes: every prefix of the operation list leaves a coherent catalog -/
theorem inv_txn_bulk {ac : ACtx} {t t' : Txn} {h : Handle} {ops : List Operation} {ordered : Bool}
    {nu nu' : Nu} {rs : List TResult} (hi : Inv ac.sch t.catalog nu.nextId)
    (e : t.bulk ac h ops ordered nu = .ok (t', rs, nu')) :
    Inv ac.sch t'.catalog nu'.nextId ∧ nu.nextId ≤ nu'.nextId :=
  let g := Good.txn_bulk (uq := false) (good_false_iff.mpr hi) e; ⟨g.1.1, g.2⟩

theorem inv_txn_drop {t t' : Txn} {h : Handle} {nu nu' : Nu} (hi : Inv sch t.catalog nu.nextId)
    (e : t.drop h nu = .ok (t', nu')) : Inv sch t'.catalog nu'.nextId ∧ nu.nextId ≤ nu'.nextId :=
  let g := Good.txn_drop (uq := false) (good_false_iff.mpr hi) e; ⟨g.1.1, g.2⟩

theorem inv_txn_createIndex {t t' : Txn} {h : Handle} {name name' : String} {config : IndexConfig}
    {n : Nat} (hi : Inv sch t.catalog n)
    (e : t.createIndex sch h name config = .ok (t', name')) : Inv sch t'.catalog n :=
  (Good.txn_createIndex (uq := false) (good_false_iff.mpr hi) e).1

theorem inv_txn_dropIndex {t t' : Txn} {h : Handle} {name : String} {n : Nat}
    (hi : Inv sch t.catalog n) (e : t.dropIndex h name = .ok t') : Inv sch t'.catalog n :=
  (Good.txn_dropIndex (uq := false) (good_false_iff.mpr hi) e).1

theorem inv_txn_dropIndexByKey {t t' : Txn} {h : Handle} {key : Doc} {n : Nat}
    (hi : Inv sch t.catalog n) (e : t.dropIndexByKey h key = .ok t') : Inv sch t'.catalog n :=
  (Good.txn_dropIndexByKey (uq := false) (good_false_iff.mpr hi) e).1

/-- TTL expiry (a delete per namespace with a TTL index) -/
theorem inv_txn_expire {t t' : Txn} {nowMs : Int} {nu nu' : Nu} {k : Nat}
    (hi : Inv sch t.catalog nu.nextId) (e : t.expire sch nowMs nu = .ok (t', k, nu')) :
    Inv sch t'.catalog nu'.nextId ∧ nu.nextId ≤ nu'.nextId :=
  let g := Good.txn_expire (uq := false) (good_false_iff.mpr hi) e; ⟨g.1.1, g.2⟩

/-! ### TESTS (compiler-evaluated `#guard`s on concrete collections — non-vacuity, not theorems) -/
section Tests
open Lungo.IndexFixtures

-- the fixture really is a collection with two documents (one multikey) and two indexes, the
-- unique index on `a` built over existing documents holding 3 entries for 2 documents
#guard okAnd demo fun (c, _) =>
  c.docs.length == 2 && names c == ["_id_", "a_1"] && entriesOf c "a_1" == 3 && entriesOf c "_id_" == 2
-- insert adds one entry per index; delete of the multikey document removes both of its entries
#guard okAnd (insertInto demo [("_id", .i32 3), ("a", .i32 4)]) fun (c, _) =>
  entriesOf c "a_1" == 4 && entriesOf c "_id_" == 3
#guard okAnd (deleteIn demo [("_id", .i32 2)]) fun (c, _) =>
  entriesOf c "a_1" == 1 && entriesOf c "_id_" == 1 && c.docs.length == 1
-- replace of the multikey document by a single-key one: 3 entries become 2
#guard okAnd (replaceIn demo [("_id", .i32 2)] [("a", .i32 3)]) fun (c, _) => entriesOf c "a_1" == 2
-- partial index: documents outside the filter have no entry; moving in adds one
#guard okAnd (insertInto (insertInto demoPartial [("_id", .i32 3), ("a", .i32 7), ("b", .i32 0)])
    [("_id", .i32 4), ("a", .i32 8), ("b", .i32 0)]) fun (c, _) => entriesOf c "b_1" == 0 && c.docs.length == 4
#guard okAnd (updateIn (insertInto demoPartial [("_id", .i32 3), ("a", .i32 7), ("b", .i32 0)])
    [("_id", .i32 3)] [("$set", .doc [("b", .i32 5)])]) fun (c, _) => entriesOf c "b_1" == 1
-- `Index.list`: ascending by key, each document once (the multikey document under its smallest key)
#guard okAnd (insertInto demo [("_id", .i32 3), ("a", .f64 0)]) fun (c, _) =>
  (c.indexes.lookup "a_1").map Index.list == some [2, 0, 1] &&
  (c.indexes.lookup "_id_").map Index.list == some [0, 1, 2]
-- create same = no-op; conflicting definition / same key under another name fail
#guard okAnd (createIn demo "a_1" cfgA) fun (c, _) => names c == ["_id_", "a_1"] && entriesOf c "a_1" == 3
#guard okAnd (createIn demo "" cfgA) fun (c, _) => names c == ["_id_", "a_1"]
#guard isErr (createIn demo "a_1" { cfgA with unique := false })
#guard isErr (createIn demo "a_1" cfgAB)
#guard isErr (createIn demo "other" cfgA)
-- drops never remove `_id_`
#guard isErr (dropIn demo "_id_")
#guard okAnd (dropIn demo "") fun (c, _) => names c == ["_id_"]
#guard okAnd (dropIn demo "a_1") fun (c, _) => names c == ["_id_"]
#guard isErr (dropIn demo "missing")
-- a history through the driver-level model: 7 calls (one rejected for uniqueness), ends with one
-- document, the oplog holding 5 events (2 inserts, 2 updates, 1 delete), `_id_` still there
#guard (Sys.run tSch Sys.init history).catalog.namespaces.map (fun (h, c) => (h.coll, c.docs.length, names c))
  == [("oplog", 5, []), ("c", 1, ["_id_"])]
#guard (Sys.run tSch Sys.init (history.take 5)).catalog.namespaces.map
    (fun (h, c) => (h.coll, c.docs.length, names c, entriesOf c "a_1"))
  == [("oplog", 4, [], 0), ("c", 2, ["_id_", "a_1"], 3)]

end Tests

end Lungo.C15
