/-
  Lungo.Props.C05 — Committed data survives crashes: the store file is always old or new, never torn.

  Model: `Lungo.FS` (POSIX-style crash model) and `Lungo.AtomicWrite` (interpreter of the step list).
  All theorems are about `interp… Expected.atomicWriteSteps` — the list the translator re-derives
  from /repo/dbkit/atomic.go on every run (`tie_atomicWrite`).

  Quantifiers: every state in which `path` durably holds `old` (`old : Option Bytes`, `none` = no file),
  with arbitrary other content (stale temp file, pending directory operations on other names, open
  descriptors); every content `new` and every split of it into write calls; every fault plan `f`
  (which system calls fail, and how far a failing write got); every cut `k`; every crash outcome.
-/
import Lungo.Proofs.AtomicWritePhases
import Lungo.Proofs.AtomicSearchExpected
import Lungo.Model.CommitStore
namespace Lungo.C05
open Lungo.FS Lungo.AtomicWrite

abbrev prog : List Step := Expected.atomicWriteSteps

/-- `path` durably holds `old`: the durable and the volatile directory and every pending directory
    operation give `path` a fully synced inode with content `old` (or no inode if `old = none`) -/
def DurablyHolds (s : State) (path : Name) (old : Option Bytes) : Prop :=
  WF s ∧ PathInv s path (· = old)

theorem interpUpTo_eq (path tmp : Name) (chunks : List Bytes) (f : Faults) (k : Nat) (s : State) :
    interpUpTo prog path tmp chunks f k s =
      runUpTo path tmp f C2 k (iRemove :: iCreate :: (chunks.map iWrite ++ tail5)) (initM s) 0 := rfl

theorem bound_eq (chunks : List Bytes) : bound prog chunks = chunks.length + 10 := by
  simp [bound, prog, compile_expected, tail5, C2]

section
variable {path tmp : Name} (hne : tmp ≠ path) {s : State} {old : Option Bytes} {new : Bytes} {chunks : List Bytes}
  (hc : chunks.flatten = new) (f : Faults)
include hne hc

/-- master lemma: the phase analysis instantiated at the whole program -/
theorem master {A₀ : Option Bytes → Prop} (hw : WF s) (hp : PathInv s path A₀) :
    Tri (fun k => interpUpTo prog path tmp chunks f k s) (chunks.length + 10)
      (fun m => Base m.fs path (fun x => A₀ x ∨ x = some new))
      (Post path tmp f A₀ new (f 0 = none) 0 (chunks.length + 7) (chunks.length + 5)) := by
  simp only [interpUpTo_eq]
  exact phase_remove (A := fun x => A₀ x ∨ x = some new) (f := f) hne (fun _ h => Or.inl h) (Or.inr rfl) chunks (initM s) 0 ⟨hw, hp⟩ rfl hc

/-- the state after the first `k` system calls satisfies the old-or-new invariant -/
theorem cut_base (hd : DurablyHolds s path old) (k : Nat) :
    Base (interpUpTo prog path tmp chunks f k s).1.fs path (fun x => x = old ∨ x = some new) :=
  (master hne hc f hd.1 hd.2 k).1

/-- **crash_old_or_new.** Power loss after ANY number `k` of system calls of the commit's file write,
    under ANY fault plan: the file loads as exactly the old or exactly the new content. -/
theorem crash_old_or_new (hd : DurablyHolds s path old) (k : Nat) (s' : State)
    (hcr : Crash (interpUpTo prog path tmp chunks f k s).1.fs s') :
    load s' path = old ∨ load s' path = some new :=
  (cut_base hne hc f hd k).inv.crash_load hcr

/-- **kill_old_or_new.** Process death (no data loss) after any number of system calls. -/
theorem kill_old_or_new (hd : DurablyHolds s path old) (k : Nat) :
    load (kill (interpUpTo prog path tmp chunks f k s).1.fs) path = old ∨
    load (kill (interpUpTo prog path tmp chunks f k s).1.fs) path = some new :=
  (cut_base hne hc f hd k).inv.kill_load

/-- the complete run satisfies the post-condition -/
theorem run_post {A₀ : Option Bytes → Prop} (hw : WF s) (hp : PathInv s path A₀) :
    Base (interp prog path tmp chunks f s).fs path (fun x => A₀ x ∨ x = some new) ∧
    Post path tmp f A₀ new (f 0 = none) 0 (chunks.length + 7) (chunks.length + 5) (interp prog path tmp chunks f s) := by
  have t := master hne hc f hw hp (bound prog chunks)
  exact ⟨t.1, t.2.1 (t.2.2 (by rw [bound_eq]; exact Nat.le_refl _))⟩

/-- **durable_after_return.** If AtomicWriteFile returned nil (whatever faults hit ignored calls),
    then after ANY crash the file loads as exactly the new content; the temp name is gone. -/
theorem durable_after_return (hd : DurablyHolds s path old)
    (hret : (interp prog path tmp chunks f s).err = false) (s' : State)
    (hcr : Crash (interp prog path tmp chunks f s).fs s') :
    load s' path = some new :=
  ((run_post hne hc f hd.1 hd.2).2.ok hret).1.crash_load hcr

/-- no fault, no error: a fault-free run returns nil (so by `durable_after_return` the new content is durable) -/
theorem clean_run_ok {A₀ : Option Bytes → Prop} (hw : WF s) (hp : PathInv s path A₀) :
    (interp prog path tmp chunks noFaults s).err = false ∧
    DurablyHolds (interp prog path tmp chunks noFaults s).fs path (some new) ∧
    (interp prog path tmp chunks noFaults s).fs.vdir tmp = none := by
  have r := run_post hne hc noFaults hw hp
  have he := r.2.clean (fun _ _ => rfl)
  exact ⟨he, ⟨r.1.wf, (r.2.ok he).1⟩, (r.2.ok he).2⟩

/-- **fault_reports** (general form). If the first faulted call `j` is one of the main-line calls
    (`j < chunks.length + 7`: remove, create, writes, fsync, close, rename, open dir, fsync dir):
    * the function returns an error;
    * after any crash, and in the volatile state, `path` holds old or new — and exactly OLD if the
      fault hit at or before the rename (`j < chunks.length + 5`); a failure of open-dir / dir-sync
      returns an error although `path` already shows the new content;
    * with no second fault the temp file is removed (unless the very first `Remove` was the faulted call);
    * the state again satisfies the invariants, so a following run works (`rerun_after_fault`). -/
theorem fault_reports (hd : DurablyHolds s path old) (j : Nat) (hj : FirstFault f 0 j) (hlt : j < chunks.length + 7) :
    let m := interp prog path tmp chunks f s
    m.err = true ∧
    (load m.fs path = old ∨ load m.fs path = some new) ∧
    (∀ s', Crash m.fs s' → load s' path = old ∨ load s' path = some new) ∧
    (j < chunks.length + 5 → load m.fs path = old ∧ ∀ s', Crash m.fs s' → load s' path = old) ∧
    (AtMostOne f → j ≠ 0 → m.fs.vdir tmp = none) := by
  intro m
  have r := run_post hne hc f hd.1 hd.2
  have hf := r.2.fault j hj (by omega)
  refine ⟨hf.1, r.1.inv.load_ok, fun s' h => r.1.inv.crash_load h, ?_, ?_⟩
  · intro h5
    have := hf.2 (by omega)
    exact ⟨this.load_ok, fun s' h => this.crash_load h⟩
  · intro hamo hj0
    apply r.2.gone hamo
    cases h0 : f 0 with
    | none => rfl
    | some x => exact absurd (hamo 0 j (by rw [h0]; simp) hj.2.1).symm hj0

/-- single-fault instance of `fault_reports`: exactly the `j`-th system call fails -/
theorem fault_reports_single (hd : DurablyHolds s path old) (j x : Nat) (hlt : j < chunks.length + 7) :
    let m := interp prog path tmp chunks (singleFault j (some x)) s
    m.err = true ∧
    (∀ s', Crash m.fs s' → load s' path = old ∨ load s' path = some new) ∧
    (j < chunks.length + 5 → load m.fs path = old ∧ ∀ s', Crash m.fs s' → load s' path = old) ∧
    (j ≠ 0 → m.fs.vdir tmp = none) := by
  intro m
  have hff : FirstFault (singleFault j (some x)) 0 j :=
    ⟨Nat.zero_le _, by simp [singleFault], fun i _ hi => by simp [singleFault, Nat.ne_of_lt hi]⟩
  have hamo : AtMostOne (singleFault j (some x)) := by
    intro a b ha hb
    simp only [singleFault] at ha hb
    split at ha <;> split at hb <;> simp_all
  have r := fault_reports hne hc _ hd j hff hlt
  exact ⟨r.1, r.2.2.1, r.2.2.2.1, r.2.2.2.2 hamo⟩

omit hc in
/-- **rerun_after_fault.** After a run that ended with ANY faults (no crash), a following fault-free
    run with content `new'` returns nil, makes `new'` durable and leaves no temp file. -/
theorem rerun_after_fault (hd : DurablyHolds s path old) {new' : Bytes} {chunks' : List Bytes}
    (hc' : chunks'.flatten = new') :
    let s1 := (interp prog path tmp chunks f s).fs
    (interp prog path tmp chunks' noFaults s1).err = false ∧
    (∀ s', Crash (interp prog path tmp chunks' noFaults s1).fs s' → load s' path = some new') ∧
    (interp prog path tmp chunks' noFaults s1).fs.vdir tmp = none := by
  intro s1
  have r := run_post hne (new := chunks.flatten) rfl f hd.1 hd.2
  have c := clean_run_ok hne hc' r.1.wf r.1.inv
  exact ⟨c.1, fun s' h => c.2.1.2.crash_load h, c.2.2⟩

omit hc in
/-- **rerun_after_crash.** From ANY post-crash state of a run cut at ANY point, a complete fault-free
    run with content `new'` returns nil and `new'` is durable (the stale temp is handled by the initial remove). -/
theorem rerun_after_crash (hd : DurablyHolds s path old) (k : Nat) (s' : State)
    (hcr : Crash (interpUpTo prog path tmp chunks f k s).1.fs s') {new' : Bytes} {chunks' : List Bytes}
    (hc' : chunks'.flatten = new') :
    (interp prog path tmp chunks' noFaults s').err = false ∧
    (∀ s'', Crash (interp prog path tmp chunks' noFaults s').fs s'' → load s'' path = some new') ∧
    load (interp prog path tmp chunks' noFaults s').fs path = some new' := by
  have b := cut_base hne (new := chunks.flatten) rfl f hd k
  have p := crash_preserves b.wf b.inv hcr
  have c := clean_run_ok hne hc' p.1 p.2
  exact ⟨c.1, fun s'' h => c.2.1.2.crash_load h, c.2.1.2.load_ok⟩

end

/-! ### Engine level: what clients see is what the store accepted -/

open Lungo.CommitStore in
/-- invariant of the store-then-publish skeleton -/
def EngInv {C : Type} (e : Engine C) : Prop := e.catalog = e.accepted ∧ e.token = e.txn.isSome

open Lungo.CommitStore in
theorem step_inv {C : Type} (e : Engine C) (op : Op C) (h : EngInv e) : EngInv (step e op).1 := by
  obtain ⟨h1, h2⟩ := h
  cases op with
  | begin =>
    simp only [step]
    split
    · exact ⟨h1, h2⟩
    · split
      · rename_i ht _ hx; rw [hx] at h2; simp_all
      · exact ⟨h1, rfl⟩
  | write c =>
    simp only [step]
    split
    · exact ⟨h1, h2⟩
    · rename_i hx; rw [hx] at h2; exact ⟨h1, h2⟩
  | commit r =>
    simp only [step]
    split
    · exact ⟨h1, h2⟩
    · split
      · exact ⟨h1, rfl⟩
      · cases r <;> exact ⟨by first | rfl | exact h1, rfl⟩
  | abort =>
    simp only [step]
    split
    · exact ⟨h1, h2⟩
    · exact ⟨h1, rfl⟩

open Lungo.CommitStore in
/-- **visible_le_durable.** Over ANY sequence of begin/write/commit/abort with ANY store outcomes
    (accepted, failed, failed-after-rename, panicked): the catalog visible to clients is the last
    catalog the store accepted, and the token is held exactly while a transaction is active. -/
theorem visible_le_durable {C : Type} (c0 : C) (ops : List (Op C)) :
    (run (init c0) ops).catalog = (run (init c0) ops).accepted ∧
    (run (init c0) ops).token = (run (init c0) ops).txn.isSome := by
  suffices ∀ e : Engine C, EngInv e → EngInv (run e ops) from this (init c0) ⟨rfl, rfl⟩
  induction ops with
  | nil => exact fun e h => h
  | cons op ops ih => exact fun e h => ih _ (step_inv e op h)

open Lungo.CommitStore in
/-- a failing (or panicking) store: the error is reported, the visible catalog is unchanged, the token is
    released and the transaction cleared; a later begin/write/commit with an accepting store publishes. -/
theorem store_failure_recovers {C : Type} (e : Engine C) (t : Txn C) (ht : e.txn = some t)
    (hdirty : t.dirty = true) (r : StoreRes) (hr : r ≠ .ok) (c : C) :
    let e1 := (step e (.commit r)).1
    (step e (.commit r)).2 ≠ .ok ∧ e1.catalog = e.catalog ∧ e1.accepted = e.accepted ∧ e1.token = false ∧ e1.txn = none ∧
    (run e1 [.begin, .write c, .commit .ok]).catalog = c ∧ (run e1 [.begin, .write c, .commit .ok]).accepted = c ∧
    (run e1 [.begin, .write c, .commit .ok]).file = c ∧ (run e1 [.begin, .write c, .commit .ok]).token = false := by
  cases r with
  | ok => exact absurd rfl hr
  | fail => simp [step, run, ht, hdirty]
  | failWritten => simp [step, run, ht, hdirty]
  | panic => simp [step, run, ht, hdirty]

/-! ### Non-vacuity (concrete bytes) -/

/-- `path` = name 0 durably holds [1,2,3] in inode 0; a stale `.tmp` = name 1 ↦ inode 1 with
    half-synced garbage; allocation counter 2 -/
def exS : State :=
  { ino := fun i => if i = 0 then ⟨[1, 2, 3], []⟩ else if i = 1 then ⟨[9], [9, 9]⟩ else ⟨[], []⟩,
    next := 2,
    vdir := fun n => if n = 0 then some 0 else if n = 1 then some 1 else none,
    ddir := fun n => if n = 0 then some 0 else if n = 1 then some 1 else none,
    pending := [], fds := [] }

def exOld : Bytes := [1, 2, 3]
def exNew : Bytes := [4, 5, 6, 7]
def exChunks : List Bytes := [[4, 5], [6, 7]]

/-- the hypotheses of all C05 theorems are met by a concrete state with a stale temp file -/
theorem exS_holds : DurablyHolds exS 0 (some exOld) := by
  refine ⟨⟨?_, ?_, fun op hm => by cases hm⟩, ⟨⟨exOld, rfl, rfl⟩, ⟨exOld, rfl, rfl⟩, fun op hm => by cases hm⟩⟩
  all_goals
    intro n i h
    simp only [exS] at h ⊢
    split at h
    · cases h; decide
    · split at h
      · cases h; decide
      · cases h

example : (1 : Name) ≠ 0 ∧ exChunks.flatten = exNew := by decide

/-- both outcomes occur: cut after the rename (7 calls: remove, create, 2 writes, fsync, close, rename),
    crash dropping every pending directory operation → old; crash keeping them → new -/
example : load (crashImage (interpUpTo prog 0 1 exChunks noFaults 7 exS).1.fs [] (fun _ => [])) 0 = some exOld := by decide
example : load (crashImage (interpUpTo prog 0 1 exChunks noFaults 7 exS).1.fs [true, true, true] (fun _ => [])) 0 = some exNew := by decide
/-- cut in the middle of the writes, crash with garbage in the temp inode: path still old, temp torn -/
example : load (crashImage (interpUpTo prog 0 1 exChunks noFaults 3 exS).1.fs [true, true] (fun _ => [0xEE, 0xEE])) 0 = some exOld ∧
          load (crashImage (interpUpTo prog 0 1 exChunks noFaults 3 exS).1.fs [true, true] (fun _ => [0xEE, 0xEE])) 1 = some [0xEE, 0xEE] := by decide
/-- a complete fault-free run returns nil, and the instance of `crash_old_or_new` / `durable_after_return` -/
example : (interp prog 0 1 exChunks noFaults exS).err = false := by decide
example (f : Faults) (k : Nat) (s' : State) (h : Crash (interpUpTo prog 0 1 exChunks f k exS).1.fs s') :
    load s' 0 = some exOld ∨ load s' 0 = some exNew :=
  crash_old_or_new (by decide) (by decide) f exS_holds k s' h
example (s' : State) (h : Crash (interp prog 0 1 exChunks noFaults exS).fs s') : load s' 0 = some exNew :=
  durable_after_return (by decide) (by decide) noFaults exS_holds (by decide) s' h
/-- a failing directory sync (call 8) returns an error although `path` already shows the new content -/
example : (interp prog 0 1 exChunks (singleFault 8 (some 0)) exS).err = true ∧
          load (interp prog 0 1 exChunks (singleFault 8 (some 0)) exS).fs 0 = some exNew ∧
          load (crashImage (interp prog 0 1 exChunks (singleFault 8 (some 0)) exS).fs [] (fun _ => [])) 0 = some exOld := by decide
/-- a failing fsync of the temp file (call 4): error, path old, temp removed -/
example : (interp prog 0 1 exChunks (singleFault 4 (some 0)) exS).err = true ∧
          load (interp prog 0 1 exChunks (singleFault 4 (some 0)) exS).fs 0 = some exOld ∧
          (interp prog 0 1 exChunks (singleFault 4 (some 0)) exS).fs.vdir 1 = none := by decide

/-! ### Negative sanity: mutated programs violate the theorems (the model is not vacuous) -/

/-- AtomicWriteFile WITHOUT `tempFile.Sync()` -/
def noFsyncSteps : List Step :=
  [ .call .removeTmp .retUnlessNotExist, .call .createExclTmp .ret, .defer [.closeTmp, .removeTmp],
    .call .writeTmp .ret, .call .closeTmp .ret, .call .renameTmpToPath .ret,
    .call .openDir .ret, .defer [.closeDir], .call .fsyncDir .ret ]

/-- … with the rename BEFORE the fsync -/
def renameFirstSteps : List Step :=
  [ .call .removeTmp .retUnlessNotExist, .call .createExclTmp .ret, .defer [.closeTmp, .removeTmp],
    .call .writeTmp .ret, .call .renameTmpToPath .ret, .call .fsyncTmp .ret, .call .closeTmp .ret,
    .call .openDir .ret, .defer [.closeDir], .call .fsyncDir .ret ]

/-- … WITHOUT the directory fsync -/
def noDirSyncSteps : List Step :=
  [ .call .removeTmp .retUnlessNotExist, .call .createExclTmp .ret, .defer [.closeTmp, .removeTmp],
    .call .writeTmp .ret, .call .fsyncTmp .ret, .call .closeTmp .ret, .call .renameTmpToPath .ret ]

/-- … WITHOUT the initial removal of a stale temp file (O_EXCL then fails for ever) -/
def noRemoveSteps : List Step := prog.drop 1

/-- without the temp-file fsync a returned-nil write can load as a torn file (neither old nor new) -/
theorem neg_no_fsync :
    ∃ (s s' : State) (path tmp : Name) (old new : Bytes) (chunks : List Bytes),
      tmp ≠ path ∧ DurablyHolds s path (some old) ∧ chunks.flatten = new ∧
      (interp noFsyncSteps path tmp chunks noFaults s).err = false ∧
      Crash (interp noFsyncSteps path tmp chunks noFaults s).fs s' ∧
      load s' path ≠ some old ∧ load s' path ≠ some new :=
  ⟨exS, crashImage (interp noFsyncSteps 0 1 exChunks noFaults exS).fs [] (fun _ => [4, 0xEE]), 0, 1, exOld, exNew, exChunks,
    by decide, exS_holds, by decide, by decide, crashImage_crash _ _ _, by decide, by decide⟩

/-- with the rename before the fsync a crash right after the rename can expose a torn file -/
theorem neg_rename_before_fsync :
    ∃ (s s' : State) (path tmp : Name) (old new : Bytes) (chunks : List Bytes) (k : Nat),
      tmp ≠ path ∧ DurablyHolds s path (some old) ∧ chunks.flatten = new ∧
      Crash (interpUpTo renameFirstSteps path tmp chunks noFaults k s).1.fs s' ∧
      load s' path ≠ some old ∧ load s' path ≠ some new :=
  ⟨exS, crashImage (interpUpTo renameFirstSteps 0 1 exChunks noFaults 5 exS).1.fs [true, true, true] (fun _ => []), 0, 1,
    exOld, exNew, exChunks, 5,
    by decide, exS_holds, by decide, crashImage_crash _ _ _, by decide, by decide⟩

/-- without the directory fsync a returned-nil write can be lost by a crash (`durable_after_return` fails) -/
theorem neg_no_dir_fsync :
    ∃ (s s' : State) (path tmp : Name) (old new : Bytes) (chunks : List Bytes),
      tmp ≠ path ∧ DurablyHolds s path (some old) ∧ chunks.flatten = new ∧
      (interp noDirSyncSteps path tmp chunks noFaults s).err = false ∧
      Crash (interp noDirSyncSteps path tmp chunks noFaults s).fs s' ∧
      load s' path ≠ some new :=
  ⟨exS, crashImage (interp noDirSyncSteps 0 1 exChunks noFaults exS).fs [] (fun _ => []), 0, 1, exOld, exNew, exChunks,
    by decide, exS_holds, by decide, by decide, crashImage_crash _ _ _, by decide⟩

/-- without the initial remove a stale temp file makes even a fault-free run fail (`rerun_after_crash` fails) -/
theorem neg_no_remove :
    (interp noRemoveSteps 0 1 exChunks noFaults exS).err = true := by decide

/-! ### Counterexample search on ANY step list (driver op `fs.search`, run on the list regenerated from /repo)

  `AtomicSearch.search P` explores fault plan × cut × post-crash image of the interpreter on `P.steps` and
  returns the first violation of atomicity / durability / failed-run / re-run (see `Model/AtomicSearch.lean`).
  The theorems above are about the EXPECTED protocol; these say that what the search reports about the
  CURRENT protocol is real in the model. -/

open Lungo.AtomicSearch in
/-- **search_ce_sound.** A counterexample returned by the search on the step list `P.steps` is real: its
    post-crash state `ce.st` is reachable — it is the process-kill image or a power-loss outcome (`Crash`,
    via `crashImages_sound`) of the interpreter on `P.steps` after the first `ce.k` system calls under the
    fault plan `ce.fault` — and it violates the clause named by `ce.kind`:
    * `notOldOrNew`: `path` loads as neither the old nor the new content (mixture / truncated / absent);
    * `ackedLost`: the run had returned success, yet `path` does not load as the new content;
    * `failedChanged`: the run had returned an error (no crash), yet `path` shows neither the old content nor —
      provided a rename onto `path` had succeeded — the new one;
    * `rerunFails`: a complete fault-free run of the same protocol started on `ce.st` returns an error or does
      not leave the new content at `path`. -/
theorem search_ce_sound (P : Params) (ce : CE) (h : search P = some ce) :
    let r := interpUpTo P.steps P.path P.tmp P.chunks (faultsOf ce.fault) ce.k P.s0
    (ce.st = kill r.1.fs ∨ Crash r.1.fs ce.st) ∧
    (ce.kind = .notOldOrNew → load ce.st P.path ≠ P.old ∧ load ce.st P.path ≠ some P.chunks.flatten) ∧
    (ce.kind = .ackedLost → r.2 = true ∧ r.1.err = false ∧ load ce.st P.path ≠ some P.chunks.flatten) ∧
    (ce.kind = .failedChanged → r.2 = true ∧ r.1.err = true ∧ ce.st = kill r.1.fs ∧ load ce.st P.path ≠ P.old ∧
      ¬ (renamed (traceUpTo P.steps P.path P.tmp P.chunks (faultsOf ce.fault) ce.k P.s0) = true ∧
         load ce.st P.path = some P.chunks.flatten)) ∧
    (ce.kind = .rerunFails →
      (interp P.steps P.path P.tmp P.chunks noFaults ce.st).err = true ∨
      load (interp P.steps P.path P.tmp P.chunks noFaults ce.st).fs P.path ≠ some P.chunks.flatten) := by
  intro r
  obtain ⟨hr, hv⟩ := search_sound P ce h
  refine ⟨hr.crash, ?_, ?_, ?_, ?_⟩ <;> intro hk <;> simp only [CE.Violates, hk] at hv
  · exact hv
  · exact hv
  · obtain ⟨h1, h2, h3, h4, h5⟩ := hv
    refine ⟨h1, h2, ?_, h4, h5⟩
    simp only [CE.Reachable, h3] at hr
    exact hr
  · exact hv

open Lungo.AtomicSearch in
/-- **search_ce_image.** The scenario printed with a counterexample is the one of its state: `ce.img = none` is
    the process-kill image; `ce.img = some d` is the member of `crashImages` that keeps the pending directory
    operations selected by `d.mask` and `d.len` of the temp inode's un-synced bytes (bit-flipped if `d.flipped`). -/
theorem search_ce_image (P : Params) (ce : CE) (h : search P = some ce) :
    let r := interpUpTo P.steps P.path P.tmp P.chunks (faultsOf ce.fault) ce.k P.s0
    (ce.img = none → ce.st = kill r.1.fs) ∧
    (∀ d, ce.img = some d → ce.st = crashImage r.1.fs d.mask (garbage r.1 d) ∧ ce.st ∈ crashImages r.1) := by
  intro r
  have hr := (search_sound P ce h).1
  refine ⟨fun h0 => ?_, fun d hd => ?_⟩
  · simp only [CE.Reachable, h0] at hr; exact hr
  · simp only [CE.Reachable, hd] at hr; exact hr

open Lungo.AtomicSearch in
/-- **no_rename_keeps_old.** Meaning of the trace used by the `failedChanged` clause, for ANY step list run by
    the search with a temp name distinct from the path: as long as the executed calls contain no successful
    rename onto `path`, `path` still shows the old content (no other call of the vocabulary can change it). -/
theorem no_rename_keeps_old (steps : List Step) (old : Option Bytes) (chunks : List Bytes) (stale : Bool)
    (f : Faults) (k : Nat)
    (h : renamed (traceUpTo steps 0 1 chunks f k (fsInit old stale)) = false) :
    load (interpUpTo steps 0 1 chunks f k (fsInit old stale)).1.fs 0 = old := by
  have := load_of_not_renamed (path := 0) (tmp := 1) (by decide) steps chunks f k (fsInit old stale) (keep_fsInit old stale) h
  rw [load_fsInit] at this
  exact this

open Lungo.AtomicSearch in
/-- the initial states of the search meet the hypothesis of the C05 theorems -/
theorem fsInit_holds (old : Option Bytes) (stale : Bool) : DurablyHolds (fsInit old stale) 0 old := by
  have hino : ∀ n i, (fsInit old stale).vdir n = some i → i < 2 := by
    intro n i h
    simp only [fsInit] at h
    split at h
    · split at h
      · cases h; decide
      · cases h
    · split at h
      · split at h
        · cases h; decide
        · cases h
      · cases h
  have hval : ValOK (fsInit old stale) (· = old) (if old.isSome then some 0 else none) := by
    cases old with
    | none => exact rfl
    | some c => exact ⟨c, rfl, rfl⟩
  exact ⟨⟨hino, hino, fun op hm => by cases hm⟩, ⟨hval, hval, fun op hm => by cases hm⟩⟩

open Lungo.AtomicSearch in
/-- **search_no_false_alarm.** On the EXPECTED protocol (temp name ≠ path) the search returns no counterexample —
    for ALL old contents (or none), all new contents and splits into write calls, with or without a stale temp
    file: the check cannot raise a `model-ce` violation unless the regenerated protocol differs from the
    expected one.  (By `search_sound` every reported scenario would contradict `cut_base` / `master` /
    `rerun_after_crash` / `load_of_not_renamed`.) -/
theorem search_no_false_alarm (old : Option Bytes) (chunks : List Bytes) (stale : Bool) :
    search (paramsOf Expected.atomicWriteSteps false ⟨old, chunks, stale⟩) = none := by
  cases hs : search (paramsOf Expected.atomicWriteSteps false ⟨old, chunks, stale⟩) with
  | none => rfl
  | some ce =>
    exfalso
    obtain ⟨hr, hv⟩ := search_sound _ ce hs
    have hne : (1 : Name) ≠ 0 := by decide
    have hd := fsInit_holds old stale
    have hb := cut_base hne (new := chunks.flatten) rfl (faultsOf ce.fault) hd ce.k
    have hm := master hne (new := chunks.flatten) rfl (faultsOf ce.fault) hd.1 hd.2 ce.k
    have hcr := hr.crash
    change (ce.st = kill (interpUpTo prog 0 1 chunks (faultsOf ce.fault) ce.k (fsInit old stale)).1.fs ∨
      Crash (interpUpTo prog 0 1 chunks (faultsOf ce.fault) ce.k (fsInit old stale)).1.fs ce.st) at hcr
    cases hk : ce.kind with
    | notOldOrNew =>
      simp only [CE.Violates, hk] at hv
      change (load ce.st 0 ≠ old ∧ load ce.st 0 ≠ some chunks.flatten) at hv
      have : load ce.st 0 = old ∨ load ce.st 0 = some chunks.flatten := by
        rcases hcr with e | hc
        · rw [e]; exact hb.inv.kill_load
        · exact hb.inv.crash_load hc
      rcases this with e | e
      · exact hv.1 e
      · exact hv.2 e
    | ackedLost =>
      simp only [CE.Violates, hk] at hv
      obtain ⟨h1, h2, h3⟩ := hv
      have hp := ((hm.2.1 h1).ok h2).1
      apply h3
      change load ce.st 0 = some chunks.flatten
      rcases hcr with e | hc
      · rw [e]; exact hp.kill_load
      · exact hp.crash_load hc
    | failedChanged =>
      simp only [CE.Violates, hk] at hv
      obtain ⟨_, _, h3, h4, h5⟩ := hv
      simp only [CE.Reachable, h3] at hr
      change ce.st = kill (interpUpTo prog 0 1 chunks (faultsOf ce.fault) ce.k (fsInit old stale)).1.fs at hr
      change load ce.st 0 ≠ old at h4
      change ¬ (renamed (traceUpTo prog 0 1 chunks (faultsOf ce.fault) ce.k (fsInit old stale)) = true ∧
        load ce.st 0 = some chunks.flatten) at h5
      rw [hr] at h4 h5
      cases hren : renamed (traceUpTo prog 0 1 chunks (faultsOf ce.fault) ce.k (fsInit old stale)) with
      | false =>
        apply h4
        have := load_of_not_renamed hne prog chunks (faultsOf ce.fault) ce.k (fsInit old stale) (keep_fsInit old stale) hren
        rw [load_fsInit] at this
        exact this
      | true =>
        rcases hb.inv.kill_load with e | e
        · exact h4 e
        · exact h5 ⟨hren, e⟩
    | rerunFails =>
      simp only [CE.Violates, hk] at hv
      change ((interp prog 0 1 chunks noFaults ce.st).err = true ∨
        load (interp prog 0 1 chunks noFaults ce.st).fs 0 ≠ some chunks.flatten) at hv
      have : (interp prog 0 1 chunks noFaults ce.st).err = false ∧
          load (interp prog 0 1 chunks noFaults ce.st).fs 0 = some chunks.flatten := by
        rcases hcr with e | hc
        · have hkp := kill_preserves hb.wf hb.inv
          rw [← e] at hkp
          have c := clean_run_ok hne (chunks := chunks) (s := ce.st) rfl hkp.1 hkp.2
          exact ⟨c.1, c.2.1.2.load_ok⟩
        · have c := rerun_after_crash hne (faultsOf ce.fault) hd ce.k ce.st hc (chunks' := chunks) rfl
          exact ⟨c.1, c.2.2⟩
      rcases hv with e | e
      · rw [this.1] at e; cases e
      · exact e this.2

open Lungo.AtomicSearch in
/-- **search_expected_safe.** Instance of `search_no_false_alarm` at the concrete shapes `AtomicSearch.shapes`
    which the stream's corpus fetches (driver op `fs.shapes`) and sends: the search answers "safe". -/
theorem search_expected_safe :
    ∀ sh ∈ shapes, (search (paramsOf Expected.atomicWriteSteps false sh)).isNone = true := by
  intro sh _
  rw [search_no_false_alarm sh.old sh.chunks sh.stale]
  rfl

/-! Non-vacuity / TESTS by kernel evaluation (`decide +kernel` on concrete parameters; these are tests, not
    theorems): the search really explores states on the expected protocol, and the executable search agrees
    with `search_no_false_alarm` on the first corpus shape. -/
open Lungo.AtomicSearch in
example : explored (paramsOf prog false ⟨some [1, 2, 3], [[9]], true⟩) = 755 := by decide +kernel
open Lungo.AtomicSearch in
example : (search (paramsOf prog false ⟨none, [[1, 2]], false⟩)).isNone = true := by decide +kernel

/-! teeth of the search (kernel-evaluated examples): each mutated protocol of the section above yields a
    counterexample of the expected kind on a corpus shape -/
open Lungo.AtomicSearch in
example : (search (paramsOf noFsyncSteps false ⟨some [1, 2, 3], [[9]], true⟩)).map (·.kind) = some .notOldOrNew := by decide +kernel
open Lungo.AtomicSearch in
example : (search (paramsOf renameFirstSteps false ⟨some [1, 2, 3], [[9]], true⟩)).map (·.kind) = some .notOldOrNew := by decide +kernel
open Lungo.AtomicSearch in
example : (search (paramsOf noDirSyncSteps false ⟨some [1, 2, 3], [[9]], true⟩)).map (·.kind) = some .ackedLost := by decide +kernel
open Lungo.AtomicSearch in
example : (search (paramsOf noRemoveSteps false ⟨some [1, 2, 3], [[9]], true⟩)).map (·.kind) = some .rerunFails := by decide +kernel
open Lungo.AtomicSearch in
/-- the expected calls applied IN PLACE (`tempPath := path`): the initial remove deletes the store file -/
example : (search (paramsOf prog true ⟨some [1, 2, 3], [[9]], false⟩)).map (fun ce => (ce.kind, ce.k, ce.img)) =
    some (.notOldOrNew, 1, none) := by decide +kernel

end Lungo.C05
