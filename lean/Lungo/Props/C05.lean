/-
  Lungo.Props.C05 — Committed data survives crashes: the store file is always old or new, never torn.

  Model: `Lungo.FS` (POSIX-style crash model) and `Lungo.AtomicWrite` (interpreter of the step list).
  All theorems are about `interp… Expected.atomicWriteSteps` — the list the translator re-derives
  from /repo/dbkit/atomic.go on every run (`tie_atomicWrite`).

  Quantifiers: every state in which `path` durably holds `old` (`old : Option Bytes`, `none` = no file),
  with arbitrary other content (stale temp file, pending directory operations on other names, open
  descriptors); every content `new` and every split of it into write calls; every fault plan `f`
  (which system calls fail, and how far a failing write got); every cut `k`; every crash outcome.
-/
import Lungo.Proofs.AtomicWritePhases
import Lungo.Model.CommitStore
namespace Lungo.C05
open Lungo.FS Lungo.AtomicWrite

abbrev prog : List Step := Expected.atomicWriteSteps

/-- `path` durably holds `old`: the durable and the volatile directory and every pending directory
    operation give `path` a fully synced inode with content `old` (or no inode if `old = none`) -/
def DurablyHolds (s : State) (path : Name) (old : Option Bytes) : Prop :=
  WF s ∧ PathInv s path (· = old)

theorem interpUpTo_eq (path tmp : Name) (chunks : List Bytes) (f : Faults) (k : Nat) (s : State) :
    interpUpTo prog path tmp chunks f k s =
      runUpTo path tmp f C2 k (iRemove :: iCreate :: (chunks.map iWrite ++ tail5)) (initM s) 0 := rfl

theorem bound_eq (chunks : List Bytes) : bound prog chunks = chunks.length + 10 := by
  simp [bound, prog, compile_expected, tail5, C2]

section
variable {path tmp : Name} (hne : tmp ≠ path) {s : State} {old : Option Bytes} {new : Bytes} {chunks : List Bytes}
  (hc : chunks.flatten = new) (f : Faults)
include hne hc

/-- master lemma: the phase analysis instantiated at the whole program -/
theorem master {A₀ : Option Bytes → Prop} (hw : WF s) (hp : PathInv s path A₀) :
    Tri (fun k => interpUpTo prog path tmp chunks f k s) (chunks.length + 10)
      (fun m => Base m.fs path (fun x => A₀ x ∨ x = some new))
      (Post path tmp f A₀ new (f 0 = none) 0 (chunks.length + 7) (chunks.length + 5)) := by
  simp only [interpUpTo_eq]
  exact phase_remove (A := fun x => A₀ x ∨ x = some new) (f := f) hne (fun _ h => Or.inl h) (Or.inr rfl) chunks (initM s) 0 ⟨hw, hp⟩ rfl hc

/-- the state after the first `k` system calls satisfies the old-or-new invariant -/
theorem cut_base (hd : DurablyHolds s path old) (k : Nat) :
    Base (interpUpTo prog path tmp chunks f k s).1.fs path (fun x => x = old ∨ x = some new) :=
  (master hne hc f hd.1 hd.2 k).1

/-- **crash_old_or_new.** Power loss after ANY number `k` of system calls of the commit's file write,
    under ANY fault plan: the file loads as exactly the old or exactly the new content. -/
theorem crash_old_or_new (hd : DurablyHolds s path old) (k : Nat) (s' : State)
    (hcr : Crash (interpUpTo prog path tmp chunks f k s).1.fs s') :
    load s' path = old ∨ load s' path = some new :=
  (cut_base hne hc f hd k).inv.crash_load hcr

/-- **kill_old_or_new.** Process death (no data loss) after any number of system calls. -/
theorem kill_old_or_new (hd : DurablyHolds s path old) (k : Nat) :
    load (kill (interpUpTo prog path tmp chunks f k s).1.fs) path = old ∨
    load (kill (interpUpTo prog path tmp chunks f k s).1.fs) path = some new :=
  (cut_base hne hc f hd k).inv.kill_load

/-- the complete run satisfies the post-condition -/
theorem run_post {A₀ : Option Bytes → Prop} (hw : WF s) (hp : PathInv s path A₀) :
    Base (interp prog path tmp chunks f s).fs path (fun x => A₀ x ∨ x = some new) ∧
    Post path tmp f A₀ new (f 0 = none) 0 (chunks.length + 7) (chunks.length + 5) (interp prog path tmp chunks f s) := by
  have t := master hne hc f hw hp (bound prog chunks)
  exact ⟨t.1, t.2.1 (t.2.2 (by rw [bound_eq]; exact Nat.le_refl _))⟩

/-- **durable_after_return.** If AtomicWriteFile returned nil (whatever faults hit ignored calls),
    then after ANY crash the file loads as exactly the new content; the temp name is gone. -/
theorem durable_after_return (hd : DurablyHolds s path old)
    (hret : (interp prog path tmp chunks f s).err = false) (s' : State)
    (hcr : Crash (interp prog path tmp chunks f s).fs s') :
    load s' path = some new :=
  ((run_post hne hc f hd.1 hd.2).2.ok hret).1.crash_load hcr

/-- no fault, no error: a fault-free run returns nil (so by `durable_after_return` the new content is durable) -/
theorem clean_run_ok {A₀ : Option Bytes → Prop} (hw : WF s) (hp : PathInv s path A₀) :
    (interp prog path tmp chunks noFaults s).err = false ∧
    DurablyHolds (interp prog path tmp chunks noFaults s).fs path (some new) ∧
    (interp prog path tmp chunks noFaults s).fs.vdir tmp = none := by
  have r := run_post hne hc noFaults hw hp
  have he := r.2.clean (fun _ _ => rfl)
  exact ⟨he, ⟨r.1.wf, (r.2.ok he).1⟩, (r.2.ok he).2⟩

/-- **fault_reports** (general form). If the first faulted call `j` is one of the main-line calls
    (`j < chunks.length + 7`: remove, create, writes, fsync, close, rename, open dir, fsync dir):
    * the function returns an error;
    * after any crash, and in the volatile state, `path` holds old or new — and exactly OLD if the
      fault hit at or before the rename (`j < chunks.length + 5`); a failure of open-dir / dir-sync
      returns an error although `path` already shows the new content;
    * with no second fault the temp file is removed (unless the very first `Remove` was the faulted call);
    * the state again satisfies the invariants, so a following run works (`rerun_after_fault`). -/
theorem fault_reports (hd : DurablyHolds s path old) (j : Nat) (hj : FirstFault f 0 j) (hlt : j < chunks.length + 7) :
    let m := interp prog path tmp chunks f s
    m.err = true ∧
    (load m.fs path = old ∨ load m.fs path = some new) ∧
    (∀ s', Crash m.fs s' → load s' path = old ∨ load s' path = some new) ∧
    (j < chunks.length + 5 → load m.fs path = old ∧ ∀ s', Crash m.fs s' → load s' path = old) ∧
    (AtMostOne f → j ≠ 0 → m.fs.vdir tmp = none) := by
  intro m
  have r := run_post hne hc f hd.1 hd.2
  have hf := r.2.fault j hj (by omega)
  refine ⟨hf.1, r.1.inv.load_ok, fun s' h => r.1.inv.crash_load h, ?_, ?_⟩
  · intro h5
    have := hf.2 (by omega)
    exact ⟨this.load_ok, fun s' h => this.crash_load h⟩
  · intro hamo hj0
    apply r.2.gone hamo
    cases h0 : f 0 with
    | none => rfl
    | some x => exact absurd (hamo 0 j (by rw [h0]; simp) hj.2.1).symm hj0

/-- single-fault instance of `fault_reports`: exactly the `j`-th system call fails -/
theorem fault_reports_single (hd : DurablyHolds s path old) (j x : Nat) (hlt : j < chunks.length + 7) :
    let m := interp prog path tmp chunks (singleFault j (some x)) s
    m.err = true ∧
    (∀ s', Crash m.fs s' → load s' path = old ∨ load s' path = some new) ∧
    (j < chunks.length + 5 → load m.fs path = old ∧ ∀ s', Crash m.fs s' → load s' path = old) ∧
    (j ≠ 0 → m.fs.vdir tmp = none) := by
  intro m
  have hff : FirstFault (singleFault j (some x)) 0 j :=
    ⟨Nat.zero_le _, by simp [singleFault], fun i _ hi => by simp [singleFault, Nat.ne_of_lt hi]⟩
  have hamo : AtMostOne (singleFault j (some x)) := by
    intro a b ha hb
    simp only [singleFault] at ha hb
    split at ha <;> split at hb <;> simp_all
  have r := fault_reports hne hc _ hd j hff hlt
  exact ⟨r.1, r.2.2.1, r.2.2.2.1, r.2.2.2.2 hamo⟩

omit hc in
/-- **rerun_after_fault.** After a run that ended with ANY faults (no crash), a following fault-free
    run with content `new'` returns nil, makes `new'` durable and leaves no temp file. -/
theorem rerun_after_fault (hd : DurablyHolds s path old) {new' : Bytes} {chunks' : List Bytes}
    (hc' : chunks'.flatten = new') :
    let s1 := (interp prog path tmp chunks f s).fs
    (interp prog path tmp chunks' noFaults s1).err = false ∧
    (∀ s', Crash (interp prog path tmp chunks' noFaults s1).fs s' → load s' path = some new') ∧
    (interp prog path tmp chunks' noFaults s1).fs.vdir tmp = none := by
  intro s1
  have r := run_post hne (new := chunks.flatten) rfl f hd.1 hd.2
  have c := clean_run_ok hne hc' r.1.wf r.1.inv
  exact ⟨c.1, fun s' h => c.2.1.2.crash_load h, c.2.2⟩

omit hc in
/-- **rerun_after_crash.** From ANY post-crash state of a run cut at ANY point, a complete fault-free
    run with content `new'` returns nil and `new'` is durable (the stale temp is handled by the initial remove). -/
theorem rerun_after_crash (hd : DurablyHolds s path old) (k : Nat) (s' : State)
    (hcr : Crash (interpUpTo prog path tmp chunks f k s).1.fs s') {new' : Bytes} {chunks' : List Bytes}
    (hc' : chunks'.flatten = new') :
    (interp prog path tmp chunks' noFaults s').err = false ∧
    (∀ s'', Crash (interp prog path tmp chunks' noFaults s').fs s'' → load s'' path = some new') ∧
    load (interp prog path tmp chunks' noFaults s').fs path = some new' := by
  have b := cut_base hne (new := chunks.flatten) rfl f hd k
  have p := crash_preserves b.wf b.inv hcr
  have c := clean_run_ok hne hc' p.1 p.2
  exact ⟨c.1, fun s'' h => c.2.1.2.crash_load h, c.2.1.2.load_ok⟩

end

/-! ### Engine level: what clients see is what the store accepted -/

open Lungo.CommitStore in
/-- invariant of the store-then-publish skeleton -/
def EngInv {C : Type} (e : Engine C) : Prop := e.catalog = e.accepted ∧ e.token = e.txn.isSome

open Lungo.CommitStore in
theorem step_inv {C : Type} (e : Engine C) (op : Op C) (h : EngInv e) : EngInv (step e op).1 := by
  obtain ⟨h1, h2⟩ := h
  cases op with
  | begin =>
    simp only [step]
    split
    · exact ⟨h1, h2⟩
    · split
      · rename_i ht _ hx; rw [hx] at h2; simp_all
      · exact ⟨h1, rfl⟩
  | write c =>
    simp only [step]
    split
    · exact ⟨h1, h2⟩
    · rename_i hx; rw [hx] at h2; exact ⟨h1, h2⟩
  | commit r =>
    simp only [step]
    split
    · exact ⟨h1, h2⟩
    · split
      · exact ⟨h1, rfl⟩
      · cases r <;> exact ⟨by first | rfl | exact h1, rfl⟩
  | abort =>
    simp only [step]
    split
    · exact ⟨h1, h2⟩
    · exact ⟨h1, rfl⟩

open Lungo.CommitStore in
/-- **visible_le_durable.** Over ANY sequence of begin/write/commit/abort with ANY store outcomes
    (accepted, failed, failed-after-rename, panicked): the catalog visible to clients is the last
    catalog the store accepted, and the token is held exactly while a transaction is active. -/
theorem visible_le_durable {C : Type} (c0 : C) (ops : List (Op C)) :
    (run (init c0) ops).catalog = (run (init c0) ops).accepted ∧
    (run (init c0) ops).token = (run (init c0) ops).txn.isSome := by
  suffices ∀ e : Engine C, EngInv e → EngInv (run e ops) from this (init c0) ⟨rfl, rfl⟩
  induction ops with
  | nil => exact fun e h => h
  | cons op ops ih => exact fun e h => ih _ (step_inv e op h)

open Lungo.CommitStore in
/-- a failing (or panicking) store: the error is reported, the visible catalog is unchanged, the token is
    released and the transaction cleared; a later begin/write/commit with an accepting store publishes. -/
theorem store_failure_recovers {C : Type} (e : Engine C) (t : Txn C) (ht : e.txn = some t)
    (hdirty : t.dirty = true) (r : StoreRes) (hr : r ≠ .ok) (c : C) :
    let e1 := (step e (.commit r)).1
    (step e (.commit r)).2 ≠ .ok ∧ e1.catalog = e.catalog ∧ e1.accepted = e.accepted ∧ e1.token = false ∧ e1.txn = none ∧
    (run e1 [.begin, .write c, .commit .ok]).catalog = c ∧ (run e1 [.begin, .write c, .commit .ok]).accepted = c ∧
    (run e1 [.begin, .write c, .commit .ok]).file = c ∧ (run e1 [.begin, .write c, .commit .ok]).token = false := by
  cases r with
  | ok => exact absurd rfl hr
  | fail => simp [step, run, ht, hdirty]
  | failWritten => simp [step, run, ht, hdirty]
  | panic => simp [step, run, ht, hdirty]

end Lungo.C05
