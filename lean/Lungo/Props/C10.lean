/-
  Property C10 — "Query filters select exactly the documents MongoDB's semantics select":
  the LOGICAL LAWS, proved for every document, every filter value (well-formed or not: both
  sides then carry the same error) and every $jsonSchema evaluator `sch`.

  All equalities are in `Res Unit` (ok = matched, error notMatched = not matched, other
  errors propagate identically on both sides).
-/
import Lungo.Proofs.MatchLaws
namespace Lungo.C10
open Lungo

/-- `$nor` is the exact negation of `$or` (same argument, any argument). -/
theorem nor_is_not_or (sch : SchemaEval) (d : Doc) (pfx : String) (v : V) :
    mExpr sch d pfx "$nor" v true = negate (mExpr sch d pfx "$or" v true) := by
  unfold mExpr
  simp [isOpKey]

/-- `$ne` is the exact negation of `$eq`. -/
theorem ne_is_not_eq (sch : SchemaEval) (d : Doc) (path : String) (v : V) :
    mOp sch d "$ne" path v = negate (mOp sch d "$eq" path v) := by
  rw [mOp_leaf sch d "$ne" path v _ rfl, mOp_leaf sch d "$eq" path v _ rfl]

/-- `$nin` is the exact negation of `$in`. -/
theorem nin_is_not_in (sch : SchemaEval) (d : Doc) (path : String) (v : V) :
    mOp sch d "$nin" path v = negate (mOp sch d "$in" path v) := by
  rw [mOp_leaf sch d "$nin" path v _ rfl, mOp_leaf sch d "$in" path v _ rfl]

/-- `{p: {$not: e}}` is the exact negation of evaluating the expressions `e` on `p`. -/
theorem not_is_negation (sch : SchemaEval) (d : Doc) (path : String) (q : List (String × V)) (hq : q ≠ []) :
    mOp sch d "$not" path (.doc q) = negate (mProcess sch d q path false) := by
  unfold mOp
  have : q.isEmpty = false := by cases q <;> simp_all
  simp [leafOp, this, mNotLoop_negate]

/-- `$and` is the short-circuit conjunction of its member filters. -/
theorem and_is_conj (sch : SchemaEval) (d : Doc) (pfx : String) (qs : List Doc) (hq : qs ≠ []) :
    mExpr sch d pfx "$and" (.arr (qs.map V.doc)) true = conj (qs.map fun q => mProcess sch d q "" true) := by
  unfold mExpr
  have : (qs.map V.doc).isEmpty = false := by cases qs <;> simp_all
  simp [isOpKey, this, mAndLoop_conj]

/-- `$or` is the short-circuit disjunction of its member filters. -/
theorem or_is_disj (sch : SchemaEval) (d : Doc) (pfx : String) (qs : List Doc) (hq : qs ≠ []) :
    mExpr sch d pfx "$or" (.arr (qs.map V.doc)) true = disj (qs.map fun q => mProcess sch d q "" true) := by
  unfold mExpr
  have : (qs.map V.doc).isEmpty = false := by cases qs <;> simp_all
  simp [isOpKey, this, mOrLoop_disj]

/-- a filter document is the conjunction (`$and`) of its entries. -/
theorem doc_is_and (sch : SchemaEval) (d : Doc) (q : Doc) (hq : q ≠ []) :
    mProcess sch d q "" true
      = mExpr sch d "" "$and" (.arr ((q.map fun e => [e]).map V.doc)) true := by
  rw [and_is_conj sch d "" _ (by cases q <;> simp_all)]
  clear hq
  induction q with
  | nil => simp [mProcess, conj]
  | cons kv r ih =>
    obtain ⟨k, v⟩ := kv
    rw [mProcess]
    simp only [List.map_cons, conj]
    rw [mProcess]
    cases h : mExpr sch d "" k v true with
    | error e => simp
    | ok u => simp [mProcess, ih]

/-- `$in [v₁…vₙ]` is the disjunction of the equalities `$eq vᵢ` (type bracketing of `$eq` is
    implied by equality under `Compare`). -/
theorem in_is_disj_eq (sch : SchemaEval) (d : Doc) (path : String) (vs : List V) :
    mOp sch d "$in" path (.arr vs) = disj (vs.map fun v => mOp sch d "$eq" path v) := by
  rw [mOp_leaf sch d "$in" path _ _ rfl]
  rw [matchIn_bool, matchUnwind_bool]
  have hfun : (fun field => vs.any fun item => V.cmp field item == .eq)
      = (fun field => (vs.map fun v => fun (f : V) => f.cls == v.cls && V.cmp f v == .eq).any (fun p => p field)) := by
    funext field
    simp only [List.any_map]
    congr 1
    funext item
    simp only [Function.comp]
    by_cases h : V.cmp field item = .eq
    · simp [h, cmp_eq_cls' field item h]
    · simp [h]
  rw [hfun, unwindAny_anyList]
  clear hfun
  induction vs with
  | nil => simp [disj]
  | cons v r ih =>
    simp only [List.map_cons, List.any_cons, disj]
    rw [mOp_leaf sch d "$eq" path v _ rfl]
    rw [matchComp_eq_bool, matchUnwind_bool]
    by_cases h : unwindAny d path true false (fun f => f.cls == v.cls && V.cmp f v == .eq) = true
    · simp [h]
    · simp only [h]
      simpa using ih

/-- `$all [v₁…vₙ]` (n ≥ 1) is the short-circuit conjunction of the equalities `$eq vᵢ` — MongoDB's
    definition of `$all`; the empty `$all` matches nothing. -/
theorem all_is_conj_eq (sch : SchemaEval) (d : Doc) (path : String) (vs : List V) :
    mOp sch d "$all" path (.arr vs) =
      if vs.isEmpty then .error .notMatched else conj (vs.map fun v => mOp sch d "$eq" path v) := by
  rw [mOp_leaf sch d "$all" path _ _ rfl]
  unfold matchAll
  by_cases he : vs.isEmpty = true
  · simp [he, notMatched]
  · simp only [he, Bool.false_eq_true, ↓reduceIte]
    clear he
    induction vs with
    | nil => rfl
    | cons v r ih =>
      simp only [List.map_cons, allLoop, conj]
      rw [mOp_leaf sch d "$eq" path v _ rfl, ih]
      cases matchComp d "$eq" path v <;> rfl

theorem ordering_ne_lt (o : Ordering) : (o != .lt) = (o == .gt || o == .eq) := by cases o <;> rfl
theorem ordering_ne_gt (o : Ordering) : (o != .gt) = (o == .lt || o == .eq) := by cases o <;> rfl

/-- `$gte` is `$gt` or `$eq`. -/
theorem gte_is_gt_or_eq (sch : SchemaEval) (d : Doc) (path : String) (v : V) :
    mOp sch d "$gte" path v = orRes (mOp sch d "$gt" path v) (mOp sch d "$eq" path v) := by
  rw [mOp_leaf sch d "$gte" path v _ rfl, mOp_leaf sch d "$gt" path v _ rfl, mOp_leaf sch d "$eq" path v _ rfl]
  rw [matchComp_gte_bool, matchComp_gt_bool, matchComp_eq_bool, matchUnwind_bool, matchUnwind_bool, matchUnwind_bool]
  have : (fun field : V => field.cls == v.cls && V.cmp field v != .lt)
      = (fun field => (field.cls == v.cls && V.cmp field v == .gt) || (field.cls == v.cls && V.cmp field v == .eq)) := by
    funext field
    rw [ordering_ne_lt]
    cases (field.cls == v.cls) <;> simp
  rw [this, unwindAny_or]
  cases unwindAny d path true false (fun f => f.cls == v.cls && V.cmp f v == .gt) <;>
    cases unwindAny d path true false (fun f => f.cls == v.cls && V.cmp f v == .eq) <;> simp [orRes]

/-- `$lte` is `$lt` or `$eq`. -/
theorem lte_is_lt_or_eq (sch : SchemaEval) (d : Doc) (path : String) (v : V) :
    mOp sch d "$lte" path v = orRes (mOp sch d "$lt" path v) (mOp sch d "$eq" path v) := by
  rw [mOp_leaf sch d "$lte" path v _ rfl, mOp_leaf sch d "$lt" path v _ rfl, mOp_leaf sch d "$eq" path v _ rfl]
  rw [matchComp_lte_bool, matchComp_lt_bool, matchComp_eq_bool, matchUnwind_bool, matchUnwind_bool, matchUnwind_bool]
  have : (fun field : V => field.cls == v.cls && V.cmp field v != .gt)
      = (fun field => (field.cls == v.cls && V.cmp field v == .lt) || (field.cls == v.cls && V.cmp field v == .eq)) := by
    funext field
    rw [ordering_ne_gt]
    cases (field.cls == v.cls) <;> simp
  rw [this, unwindAny_or]
  cases unwindAny d path true false (fun f => f.cls == v.cls && V.cmp f v == .lt) <;>
    cases unwindAny d path true false (fun f => f.cls == v.cls && V.cmp f v == .eq) <;> simp [orRes]

/-- Match never returns the internal NotMatched error: a filter either yields a truth value or a genuine error. -/
theorem match_total (sch : SchemaEval) (d q : Doc) : Match sch d q ≠ .error .notMatched := by
  unfold Match
  split <;> simp_all

-- non-vacuity (evaluated tests, not theorems): instances where the two sides are `ok` / `notMatched`, not errors
#guard (mExpr schemaUnmodelled [("a", .i32 1)] "" "$or" (.arr [.doc [("a", .i32 2)]]) true) matches .error .notMatched
#guard (mExpr schemaUnmodelled [("a", .i32 1)] "" "$nor" (.arr [.doc [("a", .i32 2)]]) true) matches .ok ()
#guard (mOp schemaUnmodelled [("a", .arr [.i32 1, .i64 2])] "$in" "a" (.arr [.f64 0x4000000000000000])) matches .ok ()
#guard (mOp schemaUnmodelled [("a", .arr [.i32 1, .i64 2])] "$gte" "a" (.dec 0x3040000000000000 2)) matches .ok ()
#guard (mOp schemaUnmodelled [("a", .str "x")] "$gte" "a" (.i32 0)) matches .error .notMatched
#guard (mOp schemaUnmodelled [("a", .arr [.i32 1, .i32 2])] "$all" "a" (.arr [.arr [.i32 1, .i32 2], .i32 1])) matches .ok ()
#guard (mOp schemaUnmodelled [("a", .arr [.i32 1, .i32 2])] "$all" "a" (.arr [.i32 1, .i32 3])) matches .error .notMatched

end Lungo.C10
