/-
  Property C08 — "Every committed document change appears in the change log exactly once, in
  commit order, with strictly increasing unique event ids: replaying the events recorded after
  any point onto the contents at that point reproduces the contents at any later point. Failed
  calls, no-op writes and aborted transactions leave no event, and for update events applying
  the recorded updated/removed fields to the previous version of the document yields the new
  version (up to field order). Retention only ever removes the oldest events as one prefix,
  never any of the configured minimum number of newest events or an event younger than the
  minimum age, and removes events beyond the maximum size or age as soon as those two
  protections no longer cover them."

  Part 1 — RETENTION (Transaction.Clean, model `Txn.clean` / `cleanCount`).

  Vocabulary. The log has `n` events, index 0 = oldest; event `j` has timestamp `L[j] = (T, I)`
  (the value at `_id.ts`). With `now = (nowT, nowI)`:
    minT = cutoffT nowT minAgeS   (= nowT − minAgeS when nothing wraps)   cutoff (minT, 0)
    maxT = cutoffT nowT maxAgeS   (= nowT − maxAgeS when nothing wraps)   cutoff (maxT, nowI)
  * "one of the `minSize` newest events"      : index j ≥ n − minSize;
  * "younger than the minimum age"            : minAge ≠ 0 and L[j] ≥ (minT, 0), i.e. T ≥ minT;
  * "beyond the maximum size"                 : index j < n − maxSize (more than maxSize events
                                                 from j to the end of the log);
  * "beyond the maximum age"                  : L[j] < (maxT, nowI).
  `droppable j L[j]` = not protected by either protection ∧ beyond the maximum size or age.

  The cutoff seconds are computed in uint32 (`now.T - uint32(age/time.Second)`): `cutoffT`
  wraps around. It does NOT wrap iff `ageS mod 2³² ≤ nowT < 2³²`; the engine validates
  0 ≤ age ≤ 21 days = 1 814 400 s, and `now.T` is the current Unix time in seconds, so the
  subtraction is exact for every clock reading between 1970-01-22 and 2106-02-07
  (`cutoffT_nowrap`). The theorems below are stated on the cutoffs `cutoffT …` themselves and
  therefore hold with and without wrap-around; the `_nowrap` corollaries restate the two age
  clauses in plain seconds under the explicit hypothesis `NoWrap`.
-/
import Lungo.Proofs.OplogLaws
namespace Lungo.C08
open Lungo

/-- every event carries a timestamp at `_id.ts`, and `L` lists them oldest first -/
def HasTs (t : Txn) (L : List (Nat × Nat)) : Prop :=
  t.oplog.map (fun sd => eventTs sd.doc) = L.map some

/-- timestamps are non-decreasing along the log -/
def NonDecreasing (L : List (Nat × Nat)) : Prop := L.Pairwise tsLe

/-- the range of clock readings and ages in which `now.T - uint32(age/time.Second)` is exact -/
def NoWrap (nowT ageS : Nat) : Prop := ageS ≤ nowT ∧ nowT < 4294967296

/-- 21 days (the engine's upper bound on both ages) never wraps for clocks after 1970-01-22
    and before 2106-02-07. -/
theorem nowrap_of_validated (nowT ageS : Nat) (hage : ageS ≤ 21 * 24 * 3600)
    (hlo : 21 * 24 * 3600 ≤ nowT) (hhi : nowT < 4294967296) : NoWrap nowT ageS :=
  ⟨by omega, hhi⟩

theorem cutoff_nowrap (nowT ageS : Nat) (h : NoWrap nowT ageS) : cutoffT nowT ageS = nowT - ageS :=
  cutoffT_nowrap nowT ageS h.1 h.2

/-- Clean always removes a prefix of the log (no assumption on the events at all). -/
theorem clean_prefix_any (t : Txn) (minSize maxSize : Int) (minAgeS maxAgeS : Nat) (z : Bool) (nowT nowI : Nat) :
    ∃ k, (t.clean minSize maxSize minAgeS maxAgeS z nowT nowI).oplog = t.oplog.drop k := by
  unfold Txn.clean
  simp only
  split
  · exact ⟨_, by simp only [Txn.oplog, Catalog.oplog_set]; rfl⟩
  · exact ⟨0, by simp⟩

/-- `clean_prefix`: what Clean removes is exactly the first `k = cleanCount …` events. -/
theorem clean_prefix (t : Txn) (L : List (Nat × Nat)) (h : HasTs t L)
    (minSize maxSize : Int) (minAgeS maxAgeS : Nat) (z : Bool) (nowT nowI : Nat) :
    (t.clean minSize maxSize minAgeS maxAgeS z nowT nowI).oplog
      = t.oplog.drop (cleanCount L minSize maxSize minAgeS maxAgeS z nowT nowI) := by
  have hlen : t.oplog.length = L.length := by
    have := congrArg List.length h
    simpa using this
  have hk := cleanDropped_eq L.length minSize maxSize z (cutoffT nowT minAgeS) (cutoffT nowT maxAgeS) nowI 0 t.oplog L h
  rw [cleanCount_eq, ← hk]
  unfold Txn.clean
  simp only [Txn.oplog, Catalog.oplog] at hlen ⊢
  rw [hlen]
  split
  · rw [Catalog.get?_set_self]; rfl
  · rename_i h0
    have : cleanDropped (↑L.length - minSize) (↑L.length - maxSize) z (cutoffT nowT minAgeS) (cutoffT nowT maxAgeS) nowI 0
        ((t.catalog.get? oplogHandle).getD (newColl false)).docs = 0 := by omega
    rw [this]; simp

/-- Clean touches nothing but the oplog namespace. -/
theorem clean_other_namespaces (t : Txn) (minSize maxSize : Int) (minAgeS maxAgeS : Nat) (z : Bool) (nowT nowI : Nat)
    (h : Handle) (hne : h ≠ oplogHandle) :
    (t.clean minSize maxSize minAgeS maxAgeS z nowT nowI).catalog.get? h = t.catalog.get? h := by
  unfold Txn.clean
  simp only
  split
  · exact Catalog.get?_set_other _ _ _ _ hne
  · rfl

/-- `clean_noop_not_dirty`: nothing to drop ⇒ the transaction is returned unchanged
    (same catalog, dirty flag not set). -/
theorem clean_noop_not_dirty (t : Txn) (L : List (Nat × Nat)) (h : HasTs t L)
    (minSize maxSize : Int) (minAgeS maxAgeS : Nat) (z : Bool) (nowT nowI : Nat)
    (hk : cleanCount L minSize maxSize minAgeS maxAgeS z nowT nowI = 0) :
    t.clean minSize maxSize minAgeS maxAgeS z nowT nowI = t := by
  have hlen : t.oplog.length = L.length := by
    have := congrArg List.length h
    simpa using this
  have hd := cleanDropped_eq L.length minSize maxSize z (cutoffT nowT minAgeS) (cutoffT nowT maxAgeS) nowI 0 t.oplog L h
  rw [cleanCount_eq] at hk
  rw [hk] at hd
  unfold Txn.clean
  simp only [Txn.oplog, Catalog.oplog] at hlen hd ⊢
  rw [hlen, hd]
  simp

/-- and conversely a non-empty drop marks the transaction dirty -/
theorem clean_drop_dirty (t : Txn) (L : List (Nat × Nat)) (h : HasTs t L)
    (minSize maxSize : Int) (minAgeS maxAgeS : Nat) (z : Bool) (nowT nowI : Nat)
    (hk : 0 < cleanCount L minSize maxSize minAgeS maxAgeS z nowT nowI) :
    (t.clean minSize maxSize minAgeS maxAgeS z nowT nowI).dirty = true := by
  have hlen : t.oplog.length = L.length := by
    have := congrArg List.length h
    simpa using this
  have hd := cleanDropped_eq L.length minSize maxSize z (cutoffT nowT minAgeS) (cutoffT nowT maxAgeS) nowI 0 t.oplog L h
  rw [cleanCount_eq, ← hd] at hk
  unfold Txn.clean
  simp only [Txn.oplog, Catalog.oplog] at hlen hk ⊢
  rw [hlen, if_pos hk]

/-- every removed event is droppable (index form of "the counted prefix satisfies the loop condition") -/
theorem removed_droppable (L : List (Nat × Nat)) (minSize maxSize : Int) (minAgeS maxAgeS : Nat) (z : Bool)
    (nowT nowI : Nat) (j : Nat) (hj : j < cleanCount L minSize maxSize minAgeS maxAgeS z nowT nowI) :
    ∃ ts, L[j]? = some ts ∧
      droppable L.length minSize maxSize z (cutoffT nowT minAgeS) (cutoffT nowT maxAgeS) nowI j ts = true := by
  rw [cleanCount_eq] at hj
  have := leading_spec _ 0 L j hj
  simpa using this

/-- `clean_protects_min_size`: no removed event is one of the `minSize` newest
    (`j < k → j < n − minSize`); hence `k ≤ n − minSize` when `0 ≤ minSize ≤ n`, and nothing at
    all is removed when `n ≤ minSize`. -/
theorem clean_protects_min_size (L : List (Nat × Nat)) (minSize maxSize : Int) (minAgeS maxAgeS : Nat) (z : Bool)
    (nowT nowI : Nat) :
    let k := cleanCount L minSize maxSize minAgeS maxAgeS z nowT nowI
    (∀ j, j < k → (j : Int) < (L.length : Int) - minSize) ∧
    (minSize ≤ L.length → (k : Int) ≤ (L.length : Int) - minSize) ∧
    ((L.length : Int) ≤ minSize → k = 0) := by
  intro k
  have key : ∀ j, j < k → (j : Int) < (L.length : Int) - minSize := by
    intro j hj
    obtain ⟨ts, _, hd⟩ := removed_droppable L minSize maxSize minAgeS maxAgeS z nowT nowI j hj
    unfold droppable at hd
    simp only [Bool.and_eq_true, decide_eq_true_eq] at hd
    exact hd.1.1
  refine ⟨key, ?_, ?_⟩
  · intro hm
    by_cases hk : k = 0
    · omega
    · have := key (k - 1) (by omega)
      omega
  · intro hm
    by_cases hk : k = 0
    · exact hk
    · have := key 0 (by omega)
      omega

/-- `clean_protects_min_age`: with `minAge ≠ 0` every removed event is strictly older than the
    minimum-age cutoff `(minT, 0)`, i.e. its seconds are `< minT`: no event with timestamp
    ≥ minTimestamp is ever removed. -/
theorem clean_protects_min_age (L : List (Nat × Nat)) (minSize maxSize : Int) (minAgeS maxAgeS : Nat)
    (nowT nowI : Nat) (j : Nat) (ts : Nat × Nat)
    (hj : j < cleanCount L minSize maxSize minAgeS maxAgeS false nowT nowI) (hts : L[j]? = some ts) :
    tsLt ts (cutoffT nowT minAgeS, 0) = true ∧ ts.1 < cutoffT nowT minAgeS := by
  obtain ⟨ts', h1, hd⟩ := removed_droppable L minSize maxSize minAgeS maxAgeS false nowT nowI j hj
  rw [hts] at h1; cases h1
  unfold droppable at hd
  simp only [Bool.and_eq_true, Bool.false_or] at hd
  exact ⟨hd.1.2, (tsLt_zero _ _).mp hd.1.2⟩

/-- … in plain seconds, in the range where the uint32 subtraction is exact: a removed event was
    stamped more than `minAgeS` seconds before `now`. -/
theorem clean_protects_min_age_nowrap (L : List (Nat × Nat)) (minSize maxSize : Int) (minAgeS maxAgeS : Nat)
    (nowT nowI : Nat) (hw : NoWrap nowT minAgeS) (j : Nat) (ts : Nat × Nat)
    (hj : j < cleanCount L minSize maxSize minAgeS maxAgeS false nowT nowI) (hts : L[j]? = some ts) :
    ts.1 + minAgeS < nowT := by
  have := (clean_protects_min_age L minSize maxSize minAgeS maxAgeS nowT nowI j ts hj hts).2
  rw [cutoff_nowrap _ _ hw] at this
  omega

/-- `clean_min_age_zero`: `minAge == 0` switches the age protection off — the decision no longer
    depends on `minAgeS`/the min cutoff, only on the size protection and the max clauses. -/
theorem clean_min_age_zero (L : List (Nat × Nat)) (minSize maxSize : Int) (minAgeS maxAgeS : Nat) (nowT nowI : Nat) :
    cleanCount L minSize maxSize minAgeS maxAgeS true nowT nowI
      = leading (fun i ts => decide ((i : Int) < (L.length : Int) - minSize) &&
          (decide ((i : Int) < (L.length : Int) - maxSize) || tsLt ts (cutoffT nowT maxAgeS, nowI))) 0 L := by
  rw [cleanCount_eq]
  congr 1
  funext i ts
  simp [droppable]

/-- `droppable_monotone`: along a log with non-decreasing timestamps, once an event is a keeper
    every later event is a keeper too — so stopping at the first keeper loses nothing. -/
theorem droppable_monotone (L : List (Nat × Nat)) (hs : NonDecreasing L)
    (minSize maxSize : Int) (z : Bool) (minT maxT nowI : Nat) (j j' : Nat) (a b : Nat × Nat)
    (ha : L[j]? = some a) (hb : L[j']? = some b) (hjj : j ≤ j')
    (hkeep : droppable L.length minSize maxSize z minT maxT nowI j a = false) :
    droppable L.length minSize maxSize z minT maxT nowI j' b = false := by
  cases hd : droppable L.length minSize maxSize z minT maxT nowI j' b with
  | false => rfl
  | true =>
    have := droppable_antitone L.length minSize maxSize z minT maxT nowI hjj (sorted_get hs ha hb hjj) hd
    rw [this] at hkeep; cases hkeep

/-- `clean_removes_all_droppable`: with non-decreasing timestamps the removed events are EXACTLY
    the droppable ones. -/
theorem clean_removes_all_droppable (L : List (Nat × Nat)) (hs : NonDecreasing L)
    (minSize maxSize : Int) (minAgeS maxAgeS : Nat) (z : Bool) (nowT nowI : Nat) (j : Nat) (ts : Nat × Nat)
    (hts : L[j]? = some ts) :
    j < cleanCount L minSize maxSize minAgeS maxAgeS z nowT nowI ↔
      droppable L.length minSize maxSize z (cutoffT nowT minAgeS) (cutoffT nowT maxAgeS) nowI j ts = true := by
  constructor
  · intro hj
    obtain ⟨ts', h1, hd⟩ := removed_droppable L minSize maxSize minAgeS maxAgeS z nowT nowI j hj
    rw [hts] at h1; cases h1; exact hd
  · intro hd
    rw [cleanCount_eq]
    apply Classical.byContradiction
    intro hnot
    have hjn : j < L.length := (List.getElem?_eq_some_iff.mp hts).1
    have hstop := leading_stop (droppable L.length minSize maxSize z (cutoffT nowT minAgeS) (cutoffT nowT maxAgeS) nowI) 0 L (by omega)
    obtain ⟨a, ha, hpa⟩ := hstop
    simp only [Nat.zero_add] at hpa
    have := droppable_monotone L hs minSize maxSize z _ _ nowI _ j a ts ha hts (by omega) hpa
    rw [this] at hd; cases hd

/-- `clean_enforces`: an event beyond the maximum size (`j < n − maxSize`) or beyond the maximum
    age (`L[j] < (maxT, nowI)`) is removed as soon as neither protection covers it: it is not one
    of the `minSize` newest, and `minAge = 0` or it is older than the minimum age. -/
theorem clean_enforces (L : List (Nat × Nat)) (hs : NonDecreasing L)
    (minSize maxSize : Int) (minAgeS maxAgeS : Nat) (z : Bool) (nowT nowI : Nat) (j : Nat) (ts : Nat × Nat)
    (hts : L[j]? = some ts)
    (hsize : (j : Int) < (L.length : Int) - minSize)
    (hage : z = true ∨ ts.1 < cutoffT nowT minAgeS)
    (hmax : (j : Int) < (L.length : Int) - maxSize ∨ tsLt ts (cutoffT nowT maxAgeS, nowI) = true) :
    j < cleanCount L minSize maxSize minAgeS maxAgeS z nowT nowI := by
  rw [clean_removes_all_droppable L hs minSize maxSize minAgeS maxAgeS z nowT nowI j ts hts]
  unfold droppable
  simp only [Bool.and_eq_true, Bool.or_eq_true, decide_eq_true_eq]
  refine ⟨⟨hsize, ?_⟩, hmax⟩
  rcases hage with h | h
  · exact .inl h
  · exact .inr ((tsLt_zero _ _).mpr h)

/-- … in plain seconds under no-wrap: older than `maxAgeS` seconds (or exactly at the cutoff second
    with a smaller counter than `now`) and past the minimum age ⇒ removed. -/
theorem clean_enforces_age_nowrap (L : List (Nat × Nat)) (hs : NonDecreasing L)
    (minSize maxSize : Int) (minAgeS maxAgeS : Nat) (nowT nowI : Nat)
    (hw1 : NoWrap nowT minAgeS) (hw2 : NoWrap nowT maxAgeS) (j : Nat) (ts : Nat × Nat)
    (hts : L[j]? = some ts)
    (hsize : (j : Int) < (L.length : Int) - minSize)
    (hmin : ts.1 + minAgeS < nowT)
    (hmax : ts.1 + maxAgeS < nowT) :
    j < cleanCount L minSize maxSize minAgeS maxAgeS false nowT nowI := by
  apply clean_enforces L hs minSize maxSize minAgeS maxAgeS false nowT nowI j ts hts hsize
  · right; rw [cutoff_nowrap _ _ hw1]; omega
  · right; rw [tsLt_iff, cutoff_nowrap _ _ hw2]; left; simp only; omega

/-! non-vacuity (evaluated tests): a log of 6 events stamped 100,100,200,300,400,400 s; now = (1000, 7) -/
private def ev (i T I : Nat) : SDoc := { id := i, doc := [("_id", .doc [("ts", .ts T I)]), ("operationType", .str "insert")] }
private def log6 : List SDoc := [ev 0 100 1, ev 1 100 2, ev 2 200 1, ev 3 300 1, ev 4 400 1, ev 5 400 2]
private def t6 : Txn := { catalog := { namespaces := [(oplogHandle, { docs := log6, indexes := [] })], clock := 6 } }
private def L6 : List (Nat × Nat) := [(100, 1), (100, 2), (200, 1), (300, 1), (400, 1), (400, 2)]
-- the hypotheses hold for the sample
#guard t6.oplog.map (fun sd => eventTs sd.doc) == L6.map some
-- size only (minAge = 0, huge maxAge): keep the 2 newest of 6 with maxSize 2 → 4 dropped
#guard cleanCount L6 1 2 0 900 true 1000 7 == 4
#guard ((t6.clean 1 2 0 900 true 1000 7).oplog.map (·.id)) == [4, 5]
#guard (t6.clean 1 2 0 900 true 1000 7).dirty
-- min age 750 s protects everything stamped ≥ 250: only the first three go although maxSize = 2
#guard cleanCount L6 1 2 750 900 false 1000 7 == 3
-- max age 650 s (cutoff (350,7)) forces out 4 events although maxSize = 100; minSize 3 caps it at 3
#guard cleanCount L6 1 100 0 650 true 1000 7 == 4
#guard cleanCount L6 3 100 0 650 true 1000 7 == 3
-- n ≤ minSize: nothing, transaction untouched
#guard cleanCount L6 6 0 0 0 true 1000 7 == 0
#guard !(t6.clean 6 0 0 0 true 1000 7).dirty
-- wrap-around: nowT = 100 < age 900 gives a cutoff near 2³², everything looks old
#guard cutoffT 100 900 == 4294966496
#guard cutoffT 1000 900 == 100

end Lungo.C08
