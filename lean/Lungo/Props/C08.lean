/-
  Property C08 — "Every committed document change appears in the change log exactly once, in
  commit order, with strictly increasing unique event ids: replaying the events recorded after
  any point onto the contents at that point reproduces the contents at any later point. Failed
  calls, no-op writes and aborted transactions leave no event, and for update events applying
  the recorded updated/removed fields to the previous version of the document yields the new
  version (up to field order). Retention only ever removes the oldest events as one prefix,
  never any of the configured minimum number of newest events or an event younger than the
  minimum age, and removes events beyond the maximum size or age as soon as those two
  protections no longer cover them."

  Part 1 — RETENTION (Transaction.Clean, model `Txn.clean` / `cleanCount`).

  Vocabulary. The log has `n` events, index 0 = oldest; event `j` has timestamp `L[j] = (T, I)`
  (the value at `_id.ts`). With `now = (nowT, nowI)`:
    minT = cutoffT nowT minAgeS   (= nowT − minAgeS when nothing wraps)   cutoff (minT, 0)
    maxT = cutoffT nowT maxAgeS   (= nowT − maxAgeS when nothing wraps)   cutoff (maxT, nowI)
  * "one of the `minSize` newest events"      : index j ≥ n − minSize;
  * "younger than the minimum age"            : minAge ≠ 0 and L[j] ≥ (minT, 0), i.e. T ≥ minT;
  * "beyond the maximum size"                 : index j < n − maxSize (more than maxSize events
                                                 from j to the end of the log);
  * "beyond the maximum age"                  : L[j] < (maxT, nowI).
  `droppable j L[j]` = not protected by either protection ∧ beyond the maximum size or age.

  The cutoff seconds are computed in uint32 (`now.T - uint32(age/time.Second)`): `cutoffT`
  wraps around. It does NOT wrap iff `ageS mod 2³² ≤ nowT < 2³²`; the engine validates
  0 ≤ age ≤ 21 days = 1 814 400 s, and `now.T` is the current Unix time in seconds, so the
  subtraction is exact for every clock reading between 1970-01-22 and 2106-02-07
  (`cutoffT_nowrap`). The theorems below are stated on the cutoffs `cutoffT …` themselves and
  therefore hold with and without wrap-around; the `_nowrap` corollaries restate the two age
  clauses in plain seconds under the explicit hypothesis `NoWrap`.
-/
import Lungo.Proofs.OplogSteps
import Lungo.Proofs.ReplayLaws
import Lungo.Proofs.UpdateDesc
import Lungo.Proofs.RetainLaws
namespace Lungo.C08
open Lungo Lungo.Spec

/-- every event carries a timestamp at `_id.ts`, and `L` lists them oldest first -/
def HasTs (t : Txn) (L : List (Nat × Nat)) : Prop :=
  t.oplog.map (fun sd => eventTs sd.doc) = L.map some

/-- timestamps are non-decreasing along the log -/
def NonDecreasing (L : List (Nat × Nat)) : Prop := L.Pairwise tsLe

/-- the range of clock readings and ages in which `now.T - uint32(age/time.Second)` is exact -/
def NoWrap (nowT ageS : Nat) : Prop := ageS ≤ nowT ∧ nowT < 4294967296

/-- 21 days (the engine's upper bound on both ages) never wraps for clocks after 1970-01-22
    and before 2106-02-07. -/
theorem nowrap_of_validated (nowT ageS : Nat) (hage : ageS ≤ 21 * 24 * 3600)
    (hlo : 21 * 24 * 3600 ≤ nowT) (hhi : nowT < 4294967296) : NoWrap nowT ageS :=
  ⟨by omega, hhi⟩

theorem cutoff_nowrap (nowT ageS : Nat) (h : NoWrap nowT ageS) : cutoffT nowT ageS = nowT - ageS :=
  cutoffT_nowrap nowT ageS h.1 h.2

/-- Clean always removes a prefix of the log (no assumption on the events at all). -/
theorem clean_prefix_any (t : Txn) (minSize maxSize : Int) (minAgeS maxAgeS : Nat) (z : Bool) (nowT nowI : Nat) :
    ∃ k, (t.clean minSize maxSize minAgeS maxAgeS z nowT nowI).oplog = t.oplog.drop k := by
  unfold Txn.clean
  simp only
  split
  · exact ⟨_, by simp only [Txn.oplog, Catalog.oplog_set]; rfl⟩
  · exact ⟨0, by simp⟩

/-- `clean_prefix`: what Clean removes is exactly the first `k = cleanCount …` events. -/
theorem clean_prefix (t : Txn) (L : List (Nat × Nat)) (h : HasTs t L)
    (minSize maxSize : Int) (minAgeS maxAgeS : Nat) (z : Bool) (nowT nowI : Nat) :
    (t.clean minSize maxSize minAgeS maxAgeS z nowT nowI).oplog
      = t.oplog.drop (cleanCount L minSize maxSize minAgeS maxAgeS z nowT nowI) := by
  have hlen : t.oplog.length = L.length := by
    have := congrArg List.length h
    simpa using this
  have hk := cleanDropped_eq L.length minSize maxSize z (cutoffT nowT minAgeS) (cutoffT nowT maxAgeS) nowI 0 t.oplog L h
  rw [cleanCount_eq, ← hk]
  unfold Txn.clean
  simp only [Txn.oplog, Catalog.oplog] at hlen ⊢
  rw [hlen]
  split
  · rw [Catalog.get?_set_self]; rfl
  · rename_i h0
    have : cleanDropped (↑L.length - minSize) (↑L.length - maxSize) z (cutoffT nowT minAgeS) (cutoffT nowT maxAgeS) nowI 0
        ((t.catalog.get? oplogHandle).getD (newColl false)).docs = 0 := by omega
    rw [this]; simp

/-- Clean touches nothing but the oplog namespace. -/
theorem clean_other_namespaces (t : Txn) (minSize maxSize : Int) (minAgeS maxAgeS : Nat) (z : Bool) (nowT nowI : Nat)
    (h : Handle) (hne : h ≠ oplogHandle) :
    (t.clean minSize maxSize minAgeS maxAgeS z nowT nowI).catalog.get? h = t.catalog.get? h := by
  unfold Txn.clean
  simp only
  split
  · exact Catalog.get?_set_other _ _ _ _ hne
  · rfl

/-- `clean_noop_not_dirty`: nothing to drop ⇒ the transaction is returned unchanged
    (same catalog, dirty flag not set). -/
theorem clean_noop_not_dirty (t : Txn) (L : List (Nat × Nat)) (h : HasTs t L)
    (minSize maxSize : Int) (minAgeS maxAgeS : Nat) (z : Bool) (nowT nowI : Nat)
    (hk : cleanCount L minSize maxSize minAgeS maxAgeS z nowT nowI = 0) :
    t.clean minSize maxSize minAgeS maxAgeS z nowT nowI = t := by
  have hlen : t.oplog.length = L.length := by
    have := congrArg List.length h
    simpa using this
  have hd := cleanDropped_eq L.length minSize maxSize z (cutoffT nowT minAgeS) (cutoffT nowT maxAgeS) nowI 0 t.oplog L h
  rw [cleanCount_eq] at hk
  rw [hk] at hd
  unfold Txn.clean
  simp only [Txn.oplog, Catalog.oplog] at hlen hd ⊢
  rw [hlen, hd]
  simp

/-- and conversely a non-empty drop marks the transaction dirty -/
theorem clean_drop_dirty (t : Txn) (L : List (Nat × Nat)) (h : HasTs t L)
    (minSize maxSize : Int) (minAgeS maxAgeS : Nat) (z : Bool) (nowT nowI : Nat)
    (hk : 0 < cleanCount L minSize maxSize minAgeS maxAgeS z nowT nowI) :
    (t.clean minSize maxSize minAgeS maxAgeS z nowT nowI).dirty = true := by
  have hlen : t.oplog.length = L.length := by
    have := congrArg List.length h
    simpa using this
  have hd := cleanDropped_eq L.length minSize maxSize z (cutoffT nowT minAgeS) (cutoffT nowT maxAgeS) nowI 0 t.oplog L h
  rw [cleanCount_eq, ← hd] at hk
  unfold Txn.clean
  simp only [Txn.oplog, Catalog.oplog] at hlen hk ⊢
  rw [hlen, if_pos hk]

/-- every removed event is droppable (index form of "the counted prefix satisfies the loop condition") -/
theorem removed_droppable (L : List (Nat × Nat)) (minSize maxSize : Int) (minAgeS maxAgeS : Nat) (z : Bool)
    (nowT nowI : Nat) (j : Nat) (hj : j < cleanCount L minSize maxSize minAgeS maxAgeS z nowT nowI) :
    ∃ ts, L[j]? = some ts ∧
      droppable L.length minSize maxSize z (cutoffT nowT minAgeS) (cutoffT nowT maxAgeS) nowI j ts = true := by
  rw [cleanCount_eq] at hj
  have := leading_spec _ 0 L j hj
  simpa using this

/-- `clean_protects_min_size`: no removed event is one of the `minSize` newest
    (`j < k → j < n − minSize`); hence `k ≤ n − minSize` when `0 ≤ minSize ≤ n`, and nothing at
    all is removed when `n ≤ minSize`. -/
theorem clean_protects_min_size (L : List (Nat × Nat)) (minSize maxSize : Int) (minAgeS maxAgeS : Nat) (z : Bool)
    (nowT nowI : Nat) :
    let k := cleanCount L minSize maxSize minAgeS maxAgeS z nowT nowI
    (∀ j, j < k → (j : Int) < (L.length : Int) - minSize) ∧
    (minSize ≤ L.length → (k : Int) ≤ (L.length : Int) - minSize) ∧
    ((L.length : Int) ≤ minSize → k = 0) := by
  intro k
  have key : ∀ j, j < k → (j : Int) < (L.length : Int) - minSize := by
    intro j hj
    obtain ⟨ts, _, hd⟩ := removed_droppable L minSize maxSize minAgeS maxAgeS z nowT nowI j hj
    unfold droppable at hd
    simp only [Bool.and_eq_true, decide_eq_true_eq] at hd
    exact hd.1.1
  refine ⟨key, ?_, ?_⟩
  · intro hm
    by_cases hk : k = 0
    · omega
    · have := key (k - 1) (by omega)
      omega
  · intro hm
    by_cases hk : k = 0
    · exact hk
    · have := key 0 (by omega)
      omega

/-- `clean_protects_min_age`: with `minAge ≠ 0` every removed event is strictly older than the
    minimum-age cutoff `(minT, 0)`, i.e. its seconds are `< minT`: no event with timestamp
    ≥ minTimestamp is ever removed. -/
theorem clean_protects_min_age (L : List (Nat × Nat)) (minSize maxSize : Int) (minAgeS maxAgeS : Nat)
    (nowT nowI : Nat) (j : Nat) (ts : Nat × Nat)
    (hj : j < cleanCount L minSize maxSize minAgeS maxAgeS false nowT nowI) (hts : L[j]? = some ts) :
    tsLt ts (cutoffT nowT minAgeS, 0) = true ∧ ts.1 < cutoffT nowT minAgeS := by
  obtain ⟨ts', h1, hd⟩ := removed_droppable L minSize maxSize minAgeS maxAgeS false nowT nowI j hj
  rw [hts] at h1; cases h1
  unfold droppable at hd
  simp only [Bool.and_eq_true, Bool.false_or] at hd
  exact ⟨hd.1.2, (tsLt_zero _ _).mp hd.1.2⟩

/-- … in plain seconds, in the range where the uint32 subtraction is exact: a removed event was
    stamped more than `minAgeS` seconds before `now`. -/
theorem clean_protects_min_age_nowrap (L : List (Nat × Nat)) (minSize maxSize : Int) (minAgeS maxAgeS : Nat)
    (nowT nowI : Nat) (hw : NoWrap nowT minAgeS) (j : Nat) (ts : Nat × Nat)
    (hj : j < cleanCount L minSize maxSize minAgeS maxAgeS false nowT nowI) (hts : L[j]? = some ts) :
    ts.1 + minAgeS < nowT := by
  have := (clean_protects_min_age L minSize maxSize minAgeS maxAgeS nowT nowI j ts hj hts).2
  rw [cutoff_nowrap _ _ hw] at this
  omega

/-- `clean_min_age_zero`: `minAge == 0` switches the age protection off — the decision no longer
    depends on `minAgeS`/the min cutoff, only on the size protection and the max clauses. -/
theorem clean_min_age_zero (L : List (Nat × Nat)) (minSize maxSize : Int) (minAgeS maxAgeS : Nat) (nowT nowI : Nat) :
    cleanCount L minSize maxSize minAgeS maxAgeS true nowT nowI
      = leading (fun i ts => decide ((i : Int) < (L.length : Int) - minSize) &&
          (decide ((i : Int) < (L.length : Int) - maxSize) || tsLt ts (cutoffT nowT maxAgeS, nowI))) 0 L := by
  rw [cleanCount_eq]
  congr 1
  funext i ts
  simp [droppable]

/-- `droppable_monotone`: along a log with non-decreasing timestamps, once an event is a keeper
    every later event is a keeper too — so stopping at the first keeper loses nothing. -/
theorem droppable_monotone (L : List (Nat × Nat)) (hs : NonDecreasing L)
    (minSize maxSize : Int) (z : Bool) (minT maxT nowI : Nat) (j j' : Nat) (a b : Nat × Nat)
    (ha : L[j]? = some a) (hb : L[j']? = some b) (hjj : j ≤ j')
    (hkeep : droppable L.length minSize maxSize z minT maxT nowI j a = false) :
    droppable L.length minSize maxSize z minT maxT nowI j' b = false := by
  cases hd : droppable L.length minSize maxSize z minT maxT nowI j' b with
  | false => rfl
  | true =>
    have := droppable_antitone L.length minSize maxSize z minT maxT nowI hjj (sorted_get hs ha hb hjj) hd
    rw [this] at hkeep; cases hkeep

/-- `clean_removes_all_droppable`: with non-decreasing timestamps the removed events are EXACTLY
    the droppable ones. -/
theorem clean_removes_all_droppable (L : List (Nat × Nat)) (hs : NonDecreasing L)
    (minSize maxSize : Int) (minAgeS maxAgeS : Nat) (z : Bool) (nowT nowI : Nat) (j : Nat) (ts : Nat × Nat)
    (hts : L[j]? = some ts) :
    j < cleanCount L minSize maxSize minAgeS maxAgeS z nowT nowI ↔
      droppable L.length minSize maxSize z (cutoffT nowT minAgeS) (cutoffT nowT maxAgeS) nowI j ts = true := by
  constructor
  · intro hj
    obtain ⟨ts', h1, hd⟩ := removed_droppable L minSize maxSize minAgeS maxAgeS z nowT nowI j hj
    rw [hts] at h1; cases h1; exact hd
  · intro hd
    rw [cleanCount_eq]
    apply Classical.byContradiction
    intro hnot
    have hjn : j < L.length := (List.getElem?_eq_some_iff.mp hts).1
    have hstop := leading_stop (droppable L.length minSize maxSize z (cutoffT nowT minAgeS) (cutoffT nowT maxAgeS) nowI) 0 L (by omega)
    obtain ⟨a, ha, hpa⟩ := hstop
    simp only [Nat.zero_add] at hpa
    have := droppable_monotone L hs minSize maxSize z _ _ nowI _ j a ts ha hts (by omega) hpa
    rw [this] at hd; cases hd

/-- `clean_enforces`: an event beyond the maximum size (`j < n − maxSize`) or beyond the maximum
    age (`L[j] < (maxT, nowI)`) is removed as soon as neither protection covers it: it is not one
    of the `minSize` newest, and `minAge = 0` or it is older than the minimum age. -/
theorem clean_enforces (L : List (Nat × Nat)) (hs : NonDecreasing L)
    (minSize maxSize : Int) (minAgeS maxAgeS : Nat) (z : Bool) (nowT nowI : Nat) (j : Nat) (ts : Nat × Nat)
    (hts : L[j]? = some ts)
    (hsize : (j : Int) < (L.length : Int) - minSize)
    (hage : z = true ∨ ts.1 < cutoffT nowT minAgeS)
    (hmax : (j : Int) < (L.length : Int) - maxSize ∨ tsLt ts (cutoffT nowT maxAgeS, nowI) = true) :
    j < cleanCount L minSize maxSize minAgeS maxAgeS z nowT nowI := by
  rw [clean_removes_all_droppable L hs minSize maxSize minAgeS maxAgeS z nowT nowI j ts hts]
  unfold droppable
  simp only [Bool.and_eq_true, Bool.or_eq_true, decide_eq_true_eq]
  refine ⟨⟨hsize, ?_⟩, hmax⟩
  rcases hage with h | h
  · exact .inl h
  · exact .inr ((tsLt_zero _ _).mpr h)

/-- … in plain seconds under no-wrap: older than `maxAgeS` seconds (or exactly at the cutoff second
    with a smaller counter than `now`) and past the minimum age ⇒ removed. -/
theorem clean_enforces_age_nowrap (L : List (Nat × Nat)) (hs : NonDecreasing L)
    (minSize maxSize : Int) (minAgeS maxAgeS : Nat) (nowT nowI : Nat)
    (hw1 : NoWrap nowT minAgeS) (hw2 : NoWrap nowT maxAgeS) (j : Nat) (ts : Nat × Nat)
    (hts : L[j]? = some ts)
    (hsize : (j : Int) < (L.length : Int) - minSize)
    (hmin : ts.1 + minAgeS < nowT)
    (hmax : ts.1 + maxAgeS < nowT) :
    j < cleanCount L minSize maxSize minAgeS maxAgeS false nowT nowI := by
  apply clean_enforces L hs minSize maxSize minAgeS maxAgeS false nowT nowI j ts hts hsize
  · right; rw [cutoff_nowrap _ _ hw1]; omega
  · right; rw [tsLt_iff, cutoff_nowrap _ _ hw2]; left; simp only; omega

/-- `clean_drops_prefix`: the whole effect of Clean in one statement — the log loses exactly its first
    `k = cleanCount …` events (`k ≤ n`), every other namespace is what it was, and the transaction is
    marked dirty iff something was removed (it keeps its flag otherwise). -/
theorem clean_drops_prefix (t : Txn) (L : List (Nat × Nat)) (h : HasTs t L)
    (minSize maxSize : Int) (minAgeS maxAgeS : Nat) (z : Bool) (nowT nowI : Nat) :
    let k := cleanCount L minSize maxSize minAgeS maxAgeS z nowT nowI
    let t' := t.clean minSize maxSize minAgeS maxAgeS z nowT nowI
    k ≤ L.length ∧ t'.oplog = t.oplog.drop k ∧
    (∀ hd, hd ≠ oplogHandle → t'.catalog.get? hd = t.catalog.get? hd) ∧
    t'.dirty = (t.dirty || decide (0 < k)) := by
  intro k t'
  refine ⟨?_, clean_prefix t L h .., fun hd hne => clean_other_namespaces t _ _ _ _ _ _ _ hd hne, ?_⟩
  · show cleanCount L minSize maxSize minAgeS maxAgeS z nowT nowI ≤ L.length
    rw [cleanCount_eq]; exact leading_le _ _ _
  · by_cases hk : 0 < k
    · have := clean_drop_dirty t L h minSize maxSize minAgeS maxAgeS z nowT nowI hk
      show t'.dirty = _
      rw [this]; simp [hk]
    · have hk0 : k = 0 := by omega
      have := clean_noop_not_dirty t L h minSize maxSize minAgeS maxAgeS z nowT nowI hk0
      show t'.dirty = _
      simp only [t', this, hk0]; simp

/-- `clean_monotone_now`: within one second the number of removed events can only grow with the
    counter of `now` (the maximum-age cutoff `(maxT, now.I)` moves forward; nothing else depends on
    `now.I`).  The `retain` stream relies on this: `now.I` is only known to lie between two readings of
    the clock, and every count between the counts for the two ends is admissible. -/
theorem clean_monotone_now (L : List (Nat × Nat)) (minSize maxSize : Int) (minAgeS maxAgeS : Nat) (z : Bool)
    (nowT : Nat) {nowI nowI' : Nat} (h : nowI ≤ nowI') :
    cleanCount L minSize maxSize minAgeS maxAgeS z nowT nowI ≤ cleanCount L minSize maxSize minAgeS maxAgeS z nowT nowI' := by
  rw [cleanCount_eq, cleanCount_eq]
  exact leading_mono _ _ (fun i a hd => droppable_mono_nowI _ _ _ _ _ _ h i a hd) 0 L

/-- `clean_antitone_sizes`: larger limits never remove more — raising `minSize` and/or `maxSize`
    (same log, same ages, same `now`) removes at most as many events. -/
theorem clean_antitone_sizes (L : List (Nat × Nat)) {minSize minSize' maxSize maxSize' : Int} (minAgeS maxAgeS : Nat)
    (z : Bool) (nowT nowI : Nat) (h1 : minSize ≤ minSize') (h2 : maxSize ≤ maxSize') :
    cleanCount L minSize' maxSize' minAgeS maxAgeS z nowT nowI ≤ cleanCount L minSize maxSize minAgeS maxAgeS z nowT nowI := by
  rw [cleanCount_eq, cleanCount_eq]
  exact leading_mono _ _ (fun i a hd => droppable_antitone_sizes _ _ _ _ _ h1 h2 i a hd) 0 L

/-- `clean_idempotent_count`: on the log that remains after a retention pass, a second pass with the
    same limits at the same `now` removes nothing: the first remaining event is a keeper, and its
    position relative to the END of the log (which is what both size limits look at) has not changed. -/
theorem clean_idempotent_count (L : List (Nat × Nat)) (minSize maxSize : Int) (minAgeS maxAgeS : Nat) (z : Bool)
    (nowT nowI : Nat) :
    cleanCount (L.drop (cleanCount L minSize maxSize minAgeS maxAgeS z nowT nowI)) minSize maxSize minAgeS maxAgeS z nowT nowI = 0 := by
  have hle : cleanCount L minSize maxSize minAgeS maxAgeS z nowT nowI ≤ L.length := by
    rw [cleanCount_eq]; exact leading_le _ _ _
  rw [cleanCount_eq (L.drop _), List.length_drop]
  rw [leading_shift _ (droppable L.length minSize maxSize z (cutoffT nowT minAgeS) (cutoffT nowT maxAgeS) nowI)
    (cleanCount L minSize maxSize minAgeS maxAgeS z nowT nowI)
    (fun j a => droppable_shift L.length _ hle minSize maxSize z _ _ nowI j a)]
  have := leading_drop_self (droppable L.length minSize maxSize z (cutoffT nowT minAgeS) (cutoffT nowT maxAgeS) nowI) 0 L
  rw [← cleanCount_eq] at this
  simpa using this

/-- `clean_idempotent`: cleaning a transaction twice (same limits, same `now`) is cleaning it once. -/
theorem clean_idempotent (t : Txn) (L : List (Nat × Nat)) (h : HasTs t L)
    (minSize maxSize : Int) (minAgeS maxAgeS : Nat) (z : Bool) (nowT nowI : Nat) :
    (t.clean minSize maxSize minAgeS maxAgeS z nowT nowI).clean minSize maxSize minAgeS maxAgeS z nowT nowI
      = t.clean minSize maxSize minAgeS maxAgeS z nowT nowI := by
  have h' : HasTs (t.clean minSize maxSize minAgeS maxAgeS z nowT nowI)
      (L.drop (cleanCount L minSize maxSize minAgeS maxAgeS z nowT nowI)) := by
    unfold HasTs at *
    rw [clean_prefix t L h, List.map_drop, h, List.map_drop]
  exact clean_noop_not_dirty _ _ h' minSize maxSize minAgeS maxAgeS z nowT nowI
    (clean_idempotent_count L minSize maxSize minAgeS maxAgeS z nowT nowI)

/-- strictly increasing timestamps -/
def StrictlyIncreasing (L : List (Nat × Nat)) : Prop := L.Pairwise fun a b => tsLt a b = true

/-! ### retention at the system level (`Sys.commitWith` = Engine.Commit with `txn.Clean`) -/

theorem cleanDropped_zero_of_ge (minIndex maxIndex : Int) (z : Bool) (minT maxT nowI : Nat) (i : Nat) (docs : List SDoc)
    (h : minIndex ≤ (i : Int)) : cleanDropped minIndex maxIndex z minT maxT nowI i docs = 0 := by
  cases docs with
  | nil => rfl
  | cons sd r =>
    have : decide ((i : Int) < minIndex) = false := by simp; omega
    simp [cleanDropped, this]

/-- with at most `minSize` events in the log Clean does nothing at all (no assumption on the events) -/
theorem clean_small_noop (t : Txn) (minSize maxSize : Int) (minAgeS maxAgeS : Nat) (z : Bool) (nowT nowI : Nat)
    (hsmall : (t.oplog.length : Int) ≤ minSize) :
    t.clean minSize maxSize minAgeS maxAgeS z nowT nowI = t := by
  unfold Txn.clean
  simp only [Txn.oplog, Catalog.oplog] at hsmall ⊢
  rw [cleanDropped_zero_of_ge _ _ _ _ _ _ 0 _ (by omega)]
  simp

/-- `commit_eq_commitWith_when_small`: as long as the transaction's log holds no more than `minSize`
    events (default 100), committing with retention and the plain `Sys.commit` used by the streams
    and by the theorems of parts 2–4 coincide. -/
theorem commit_eq_commitWith_when_small (cfg : CleanCfg) (nowT nowI : Nat) (s : Sys) (t : Txn) (nu : Nu)
    (hsmall : (t.oplog.length : Int) ≤ cfg.minSize) :
    s.commitWith cfg nowT nowI t nu = s.commit t nu := by
  unfold Sys.commitWith Sys.commit
  rw [clean_small_noop t _ _ _ _ _ _ _ hsmall]

/-- a transaction that is not dirty publishes nothing, with or without retention -/
theorem commitWith_clean_txn (cfg : CleanCfg) (nowT nowI : Nat) (s : Sys) (t : Txn) (nu : Nu) (h : t.dirty = false) :
    (s.commitWith cfg nowT nowI t nu).catalog = s.catalog := by
  simp [Sys.commitWith, h]

/-- `commitWith_spec`: the log published by a dirty commit is the transaction's log minus its first
    `k = cleanCount …` events; no removed event is one of the `minSize` newest or (unless
    `minAge == 0`) as young as the minimum-age cutoff; with non-decreasing timestamps the removed
    events are exactly the droppable ones (everything beyond the maximum size or age that neither
    protection covers goes); every other namespace is published as the transaction left it. -/
theorem commitWith_spec (cfg : CleanCfg) (nowT nowI : Nat) (s : Sys) (t : Txn) (nu : Nu) (L : List (Nat × Nat))
    (hts : HasTs t L) (hd : t.dirty = true) :
    let k := cleanCount L cfg.minSize cfg.maxSize cfg.minAgeS cfg.maxAgeS cfg.minAgeZero nowT nowI
    (s.commitWith cfg nowT nowI t nu).catalog.oplog = t.oplog.drop k ∧
    (∀ j, j < k → (j : Int) < (L.length : Int) - cfg.minSize) ∧
    (cfg.minAgeZero = false → ∀ j ts, j < k → L[j]? = some ts → ts.1 < cutoffT nowT cfg.minAgeS) ∧
    (NonDecreasing L → ∀ j ts, L[j]? = some ts →
      (j < k ↔ droppable L.length cfg.minSize cfg.maxSize cfg.minAgeZero (cutoffT nowT cfg.minAgeS)
        (cutoffT nowT cfg.maxAgeS) nowI j ts = true)) ∧
    (∀ h, h ≠ oplogHandle → (s.commitWith cfg nowT nowI t nu).catalog.get? h = t.catalog.get? h) := by
  intro k
  have hcat : (s.commitWith cfg nowT nowI t nu).catalog
      = (t.clean cfg.minSize cfg.maxSize cfg.minAgeS cfg.maxAgeS cfg.minAgeZero nowT nowI).catalog := by
    simp [Sys.commitWith, hd]
  refine ⟨?_, ?_, ?_, ?_, ?_⟩
  · rw [hcat]; exact clean_prefix t L hts ..
  · exact (clean_protects_min_size L cfg.minSize cfg.maxSize cfg.minAgeS cfg.maxAgeS cfg.minAgeZero nowT nowI).1
  · intro hz j ts hj hl
    have hj' : j < cleanCount L cfg.minSize cfg.maxSize cfg.minAgeS cfg.maxAgeS false nowT nowI := hz ▸ hj
    exact (clean_protects_min_age L cfg.minSize cfg.maxSize cfg.minAgeS cfg.maxAgeS nowT nowI j ts hj' hl).2
  · intro hs j ts hl
    exact clean_removes_all_droppable L hs cfg.minSize cfg.maxSize cfg.minAgeS cfg.maxAgeS cfg.minAgeZero nowT nowI j ts hl
  · intro h hne
    rw [hcat]; exact clean_other_namespaces t _ _ _ _ _ _ _ h hne

/-- retention at commit keeps the event ids strictly increasing: a stream reading the published log
    still sees increasing ids, now starting after the dropped prefix -/
theorem commitWith_keeps_strict (cfg : CleanCfg) (nowT nowI : Nat) (s : Sys) (t : Txn) (nu : Nu) (L : List (Nat × Nat))
    (hts : HasTs t L) (hs : StrictlyIncreasing L) (hd : t.dirty = true) :
    let k := cleanCount L cfg.minSize cfg.maxSize cfg.minAgeS cfg.maxAgeS cfg.minAgeZero nowT nowI
    (s.commitWith cfg nowT nowI t nu).catalog.oplog.map (fun sd => eventTs sd.doc) = (L.drop k).map some ∧
    StrictlyIncreasing (L.drop k) := by
  intro k
  have h := (commitWith_spec cfg nowT nowI s t nu L hts hd).1
  refine ⟨?_, hs.sublist (List.drop_sublist k L)⟩
  rw [h, List.map_drop, hts, List.map_drop]

/-! non-vacuity (evaluated tests): a log of 6 events stamped 100,100,200,300,400,400 s; now = (1000, 7) -/
private def ev (i T I : Nat) : SDoc := { id := i, doc := [("_id", .doc [("ts", .ts T I)]), ("operationType", .str "insert")] }
private def log6 : List SDoc := [ev 0 100 1, ev 1 100 2, ev 2 200 1, ev 3 300 1, ev 4 400 1, ev 5 400 2]
private def t6 : Txn := { catalog := { namespaces := [(oplogHandle, { docs := log6, indexes := [] })], clock := 6 } }
private def L6 : List (Nat × Nat) := [(100, 1), (100, 2), (200, 1), (300, 1), (400, 1), (400, 2)]
-- the hypotheses hold for the sample
#guard t6.oplog.map (fun sd => eventTs sd.doc) == L6.map some
-- size only (minAge = 0, huge maxAge): keep the 2 newest of 6 with maxSize 2 → 4 dropped
#guard cleanCount L6 1 2 0 900 true 1000 7 == 4
#guard ((t6.clean 1 2 0 900 true 1000 7).oplog.map (·.id)) == [4, 5]
#guard (t6.clean 1 2 0 900 true 1000 7).dirty
-- min age 750 s protects everything stamped ≥ 250: only the first three go although maxSize = 2
#guard cleanCount L6 1 2 750 900 false 1000 7 == 3
-- max age 650 s (cutoff (350,7)) forces out 4 events although maxSize = 100; minSize 3 caps it at 3
#guard cleanCount L6 1 100 0 650 true 1000 7 == 4
#guard cleanCount L6 3 100 0 650 true 1000 7 == 3
-- n ≤ minSize: nothing, transaction untouched
#guard cleanCount L6 6 0 0 0 true 1000 7 == 0
#guard !(t6.clean 6 0 0 0 true 1000 7).dirty
-- commit with retention vs. plain commit
#guard ((Sys.init.commitWith { minSize := 1, maxSize := 2, minAgeS := 0, maxAgeS := 900, minAgeZero := true } 1000 7
  { t6 with dirty := true } { nextId := 9, oids := [] }).catalog.oplog.map (·.id)) == [4, 5]
#guard ((Sys.init.commitWith { minSize := 6 } 1000 7 { t6 with dirty := true } { nextId := 9, oids := [] }).catalog.oplog.length) == 6
-- monotone in now.I: two events on the maxAge second (cutoff (400, I)) — counter 1 keeps both, 2 drops one, 3 both
#guard (cleanCount L6 0 100 0 600 true 1000 1, cleanCount L6 0 100 0 600 true 1000 2, cleanCount L6 0 100 0 600 true 1000 3) == (4, 5, 6)
-- antitone in the sizes
#guard (cleanCount L6 0 1 0 900 true 1000 7, cleanCount L6 2 1 0 900 true 1000 7, cleanCount L6 2 3 0 900 true 1000 7) == (5, 4, 3)
-- idempotent: a second pass over the remaining log removes nothing (first pass removed 4)
#guard cleanCount (L6.drop 4) 1 2 0 900 true 1000 7 == 0
#guard ((t6.clean 1 2 0 900 true 1000 7).clean 1 2 0 900 true 1000 7).oplog.map (·.id) == [4, 5]
-- wrap-around: nowT = 100 < age 900 gives a cutoff near 2³², everything looks old
#guard cutoffT 100 900 == 4294966496
#guard cutoffT 1000 900 == 100

/-! ## Part 2 — event ids (`ids_strict_mono`)

  In the model the event id `_id.ts` is `(0, k)` with `k` the logical clock (the harness renumbers
  the real `bsonkit.Now()` stamps, which are strictly increasing by construction of `Now`). -/

theorem range_strict (a n : Nat) : StrictlyIncreasing ((List.range' a n).map fun k => (0, k)) := by
  unfold StrictlyIncreasing
  rw [List.pairwise_map]
  have : (List.range' a n).Pairwise (· < ·) := List.pairwise_lt_range'
  exact this.imp (fun {x y} hxy => by rw [tsLt_iff]; right; exact ⟨rfl, hxy⟩)

/-- `ids_strict_mono`: in every state reachable from the empty engine by successful driver calls the
    events' ids are exactly `(0,1), …, (0,clock)` in log order — hence strictly increasing, pairwise
    distinct, and the hypotheses of the retention theorems (`HasTs`, `NonDecreasing`) hold. -/
theorem ids_strict_mono (sch : SchemaEval) (s : Sys) (h : Reachable sch s) :
    let L := (List.range' 1 s.catalog.clock).map fun k => (0, k)
    s.catalog.oplog.map (fun sd => eventTs sd.doc) = L.map some ∧
    StrictlyIncreasing L ∧ L.Nodup ∧ NonDecreasing L ∧ s.catalog.oplog.length = s.catalog.clock := by
  intro L
  have hi := h.inv.ids
  have hs : StrictlyIncreasing L := range_strict 1 _
  refine ⟨by rw [hi]; simp [L], hs, ?_, ?_, ?_⟩
  · exact hs.imp (fun {a b} hab e => by
      rw [e, tsLt_iff] at hab
      omega)
  · exact hs.imp (fun {a b} hab => by
      rw [tsLt_iff] at hab
      unfold tsLe
      omega)
  · have := congrArg List.length hi
    simpa using this

/-- one step: the new state's log is the old log plus freshly numbered events (nothing is rewritten) -/
theorem step_appends (sch : SchemaEval) (s s' : Sys) (c : Call) (oids : List V) (r : Reply)
    (h : Reachable sch s) (hr : Sys.step sch s c oids = .ok (s', r)) :
    ∃ es : List EvSpec, s'.catalog.oplog.map (·.doc) = s.catalog.oplog.map (·.doc) ++ evDocs s.catalog.clock es ∧
      s'.catalog.clock = s.catalog.clock + es.length := by
  obtain ⟨es, he⟩ := Sys.step_ext sch s s' c oids r h.inv.plain hr
  exact ⟨es, he.oplog, he.clock⟩

/-- retention keeps the ids strictly increasing (it removes a prefix) -/
theorem clean_keeps_strict (t : Txn) (L : List (Nat × Nat)) (h : HasTs t L) (hs : StrictlyIncreasing L)
    (minSize maxSize : Int) (minAgeS maxAgeS : Nat) (z : Bool) (nowT nowI : Nat) :
    let k := cleanCount L minSize maxSize minAgeS maxAgeS z nowT nowI
    HasTs (t.clean minSize maxSize minAgeS maxAgeS z nowT nowI) (L.drop k) ∧ StrictlyIncreasing (L.drop k) := by
  intro k
  refine ⟨?_, hs.sublist (List.drop_sublist k L)⟩
  unfold HasTs at *
  rw [clean_prefix t L h, List.map_drop, h, List.map_drop]

/-! ## Part 3 — silent operations (`silent_ops`) -/

/-- executing a call: a failing call leaves the system as it was (`Sys.step` returns no state on error;
    the driver keeps the old one — in Go: the transaction is aborted, `engine.catalog` is not replaced) -/
def Sys.exec (sch : SchemaEval) (s : Sys) (c : Call) (oids : List V) : Sys :=
  match Sys.step sch s c oids with
  | .ok (s', _) => s'
  | .error _ => s

/-- the events recorded between two states -/
def newEvents (s s' : Sys) : List Doc := (s'.catalog.oplog.drop s.catalog.oplog.length).map (·.doc)

theorem silent_failed_call (sch : SchemaEval) (s : Sys) (c : Call) (oids : List V) (e : Err)
    (h : Sys.step sch s c oids = .error e) : Sys.exec sch s c oids = s ∧ newEvents s (Sys.exec sch s c oids) = [] := by
  simp [Sys.exec, h, newEvents]

/-- a transaction that is not dirty (aborted / nothing written) publishes nothing: same catalog, no event -/
theorem silent_clean_txn (s : Sys) (t : Txn) (nu : Nu) (h : t.dirty = false) :
    (s.commit t nu).catalog = s.catalog ∧ newEvents s (s.commit t nu) = [] := by
  have := Sys.commit_clean s t nu h
  simp [newEvents, this]

/-- every transaction method either hands back the very same transaction (not dirty, same catalog)
    or a dirty one — there is no way to change the catalog without the dirty flag -/
theorem txn_unchanged_or_dirty (sch : SchemaEval) (s s' : Sys) (c : Call) (oids : List V) (r : Reply)
    (hp : OplogPlain s.catalog) (hr : Sys.step sch s c oids = .ok (s', r)) :
    ∃ es : List EvSpec, Ext s.catalog s'.catalog es := Sys.step_ext sch s s' c oids r hp hr

theorem oplog_same_of_set {cat : Catalog} {h : Handle} {x : Coll} (hne : h ≠ oplogHandle) :
    (cat.set h x).oplog = cat.oplog ∧ (cat.set h x).clock = cat.clock :=
  ⟨by unfold Catalog.oplog; rw [Catalog.get?_set_other _ _ _ _ (Ne.symm hne)],
   by unfold Catalog.set; split <;> rfl⟩

/-- creating a collection appends no event -/
theorem silent_create (t t' : Txn) (h : Handle) (hr : t.create h = .ok t') :
    t'.catalog.oplog = t.catalog.oplog ∧ t'.catalog.clock = t.catalog.clock := by
  unfold Txn.create at hr
  split at hr
  · cases hr
  · rename_i hw
    split at hr
    · simp only [Except.ok.injEq] at hr; subst hr; exact ⟨rfl, rfl⟩
    · simp only [Except.ok.injEq] at hr; subst hr
      exact oplog_same_of_set (writable_not_oplog hw)

/-- creating an index appends no event -/
theorem silent_createIndex (sch : SchemaEval) (t t' : Txn) (h : Handle) (name name' : String) (cfg : IndexConfig)
    (hr : t.createIndex sch h name cfg = .ok (t', name')) :
    t'.catalog.oplog = t.catalog.oplog ∧ t'.catalog.clock = t.catalog.clock := by
  unfold Txn.createIndex at hr
  split at hr
  · cases hr
  · rename_i hw
    split at hr
    · cases hr
    · simp only [Except.ok.injEq, Prod.mk.injEq] at hr
      obtain ⟨rfl, _⟩ := hr
      exact oplog_same_of_set (writable_not_oplog hw)

/-- dropping indexes appends no event -/
theorem silent_dropIndex (t t' : Txn) (h : Handle) (name : String) (hr : t.dropIndex h name = .ok t') :
    t'.catalog.oplog = t.catalog.oplog ∧ t'.catalog.clock = t.catalog.clock := by
  unfold Txn.dropIndex at hr
  split at hr
  · cases hr
  · rename_i hw
    split at hr
    · cases hr
    · split at hr
      · cases hr
      · split at hr
        · simp only [Except.ok.injEq] at hr; subst hr; exact ⟨rfl, rfl⟩
        · simp only [Except.ok.injEq] at hr; subst hr
          exact oplog_same_of_set (writable_not_oplog hw)

/-- Collection.Replace reports a document as modified only if it differs structurally (same BSON
    encoding ⇔ `V.beq`) from the stored one: a no-op replacement yields `modified = []`. -/
theorem replace_modified_differs (sch : SchemaEval) (c : Coll) (q repl : Doc) (sort : Option Doc) (nu nu' : Nu)
    (res : CResult) (hr : c.replace sch q repl sort nu = .ok (res, nu')) :
    ∀ m ∈ res.modified, ∃ o ∈ res.matched, (V.doc o.doc == V.doc m.doc) = false := by
  unfold Coll.replace at hr
  split at hr
  · cases hr
  · simp only [Except.ok.injEq, Prod.mk.injEq] at hr
    obtain ⟨rfl, _⟩ := hr
    intro m hm; cases hm
  · rename_i old rest _
    simp only at hr
    split at hr
    · cases hr
    · rename_i repl' _
      split at hr
      · cases hr
      · simp only [Except.ok.injEq, Prod.mk.injEq] at hr
        obtain ⟨rfl, _⟩ := hr
        intro m hm
        simp only at hm
        split at hm
        · cases hm
        · rename_i hne
          simp only [List.mem_singleton] at hm
          subst hm
          exact ⟨old, by simp, by simpa using hne⟩

/-- Collection.Update reports as modified (and records changes for) exactly the matched documents
    whose updated version differs structurally from the stored one; `changes` is aligned with
    `modified`. -/
theorem update_modified_differs (ac : ACtx) (c : Coll) (q u : Doc) (sort : Option Doc) (skip limit : Int)
    (fs : List Doc) (nu nu' : Nu) (res : CResult)
    (hr : c.update ac q u sort skip limit fs nu = .ok (res, nu')) :
    res.modified.length = res.changes.length ∧
    ∀ m ∈ res.modified, ∃ o ∈ res.matched, (V.doc o.doc == V.doc m.doc) = false := by
  unfold Coll.update at hr
  simp only at hr
  split at hr
  · cases hr
  · simp only [Except.ok.injEq, Prod.mk.injEq] at hr
    obtain ⟨rfl, _⟩ := hr
    exact ⟨rfl, fun m hm => by cases hm⟩
  · rename_i list _ _
    split at hr
    · cases hr
    · rename_i news nu1 _
      split at hr
      · cases hr
      · split at hr
        · cases hr
        · split at hr
          · cases hr
          · simp only [Except.ok.injEq, Prod.mk.injEq] at hr
            obtain ⟨rfl, _⟩ := hr
            refine ⟨by simp, ?_⟩
            intro m hm
            simp only [List.mem_map, List.mem_filter] at hm
            obtain ⟨⟨o, n, ch⟩, ⟨hz, hne⟩, rfl⟩ := hm
            exact ⟨o, (List.of_mem_zip hz).1, by simpa using hne⟩

/-- a Replace that modifies and upserts nothing returns the transaction unchanged: no event, not dirty -/
theorem silent_noop_replace (ac : ACtx) (t t' : Txn) (h : Handle) (q repl : Doc) (sort : Option Doc) (upsert : Bool)
    (nu nu' : Nu) (r : TResult) (hr : t.replace ac h q sort repl upsert nu = .ok (t', r, nu'))
    (hm : r.modified = []) (hu : r.upserted = none) : t' = t := by
  unfold Txn.replace at hr
  split at hr
  · cases hr
  · split at hr
    · simp only [Except.ok.injEq, Prod.mk.injEq] at hr; exact hr.1.symm
    · split at hr
      · cases hr
      · split at hr
        · rename_i hcond
          simp only [Except.ok.injEq, Prod.mk.injEq] at hr
          obtain ⟨_, rfl, _⟩ := hr
          simp [hm, hu] at hcond
        · simp only [Except.ok.injEq, Prod.mk.injEq] at hr; exact hr.1.symm

/-- an Update that modifies and upserts nothing returns the transaction unchanged -/
theorem silent_noop_update (ac : ACtx) (t t' : Txn) (h : Handle) (q u : Doc) (sort : Option Doc) (skip limit : Int)
    (upsert : Bool) (fs : List Doc) (nu nu' : Nu) (r : TResult)
    (hr : t.update ac h q sort u skip limit upsert fs nu = .ok (t', r, nu'))
    (hm : r.modified = []) (hu : r.upserted = none) : t' = t := by
  unfold Txn.update at hr
  split at hr
  · cases hr
  · split at hr
    · simp only [Except.ok.injEq, Prod.mk.injEq] at hr; exact hr.1.symm
    · split at hr
      · cases hr
      · split at hr
        · rename_i hcond
          simp only [Except.ok.injEq, Prod.mk.injEq] at hr
          obtain ⟨_, rfl, _⟩ := hr
          simp [hm, hu] at hcond
        · simp only [Except.ok.injEq, Prod.mk.injEq] at hr; exact hr.1.symm

/-- a Delete that matches nothing returns the transaction unchanged -/
theorem silent_noop_delete (sch : SchemaEval) (t t' : Txn) (h : Handle) (q : Doc) (sort : Option Doc) (skip limit : Int)
    (nu nu' : Nu) (r : TResult) (hr : t.delete sch h q sort skip limit nu = .ok (t', r, nu'))
    (hm : r.matched = []) : t' = t := by
  unfold Txn.delete at hr
  split at hr
  · cases hr
  · split at hr
    · simp only [Except.ok.injEq, Prod.mk.injEq] at hr; exact hr.1.symm
    · split at hr
      · cases hr
      · split at hr
        · rename_i hcond
          simp only [Except.ok.injEq, Prod.mk.injEq] at hr
          obtain ⟨_, rfl, _⟩ := hr
          simp [hm] at hcond
        · simp only [Except.ok.injEq, Prod.mk.injEq] at hr; exact hr.1.symm

/-- an Insert none of whose documents could be inserted (all rejected) returns the transaction unchanged -/
theorem silent_failed_insert (sch : SchemaEval) (t t' : Txn) (h : Handle) (docs : List Doc) (ordered : Bool)
    (nu nu' : Nu) (r : TResult) (hr : t.insert sch h docs ordered nu = .ok (t', r, nu'))
    (hm : r.modified = []) : t' = t := by
  unfold Txn.insert at hr
  split at hr
  · cases hr
  · simp only [Except.ok.injEq, Prod.mk.injEq] at hr
    obtain ⟨rfl, rfl, _⟩ := hr
    simp only at hm
    simp [hm]

-- non-vacuity for parts 2/3: a short history on the model
private def hA : Handle := ⟨"db", "a"⟩
private def run (cs : List Call) : Sys := cs.foldl (fun s c => Sys.exec schemaUnmodelled s c []) Sys.init
private def hist : List Call :=
  [.insertMany hA [[("_id", .i32 1), ("x", .i32 1)], [("_id", .i32 2), ("x", .i32 2)]] true,
   .updateMany hA [] [("$set", .doc [("x", .i32 2)])] false [],          -- modifies doc 1 only
   .updateMany hA [] [("$set", .doc [("x", .i32 2)])] false [],          -- no-op
   .insertOne hA [("_id", .i32 1)],                                       -- duplicate: fails
   .createIndex hA "" { key := [("x", .i32 1)] },                         -- no event
   .replaceOne hA [("_id", .i32 2)] [("x", .i32 2)] false,                 -- no-op replace
   .deleteMany hA [("x", .i32 7)],                                        -- matches nothing
   .deleteOne hA [("_id", .i32 2)]]
#guard (run hist).catalog.clock == 4
#guard (run hist).catalog.oplog.map (fun sd => eventTs sd.doc) == [some (0, 1), some (0, 2), some (0, 3), some (0, 4)]
#guard (run hist).catalog.oplog.map (fun sd => Get sd.doc "operationType") == [.str "insert", .str "insert", .str "update", .str "delete"]
#guard (Sys.step schemaUnmodelled (run (hist.take 3)) (.insertOne hA [("_id", .i32 1)]) []) matches .error _

/-! ## Part 4 — `oplog_faithful`

  `contents cat` = every namespace but `local.oplog` with its documents in natural order;
  `Spec.replay events contents` (Lungo/Spec/Replay.lean) reads each event like a change-stream
  consumer and applies it. Contents are compared per namespace as document LISTS (natural order
  is preserved), an absent namespace counting as empty (creating a collection or an index appends
  no event), on every namespace other than `local.oplog` itself (`SameContents`).

  Coherence facts assumed of the collection model (`CatOK`, to be discharged by the index
  coherence invariant of C07): in every namespace but the oplog
    * document identities (`SDoc.id`, the Go pointers) are pairwise distinct, and
    * `_id` values are pairwise structurally distinct (implied by the unique `_id_` index).
  They are needed of the state before AND after the call (an insert is only faithful if the new
  `_id` is not already present).

  PROVED for (`Call.covered`): insertOne, insertMany, deleteOne, deleteMany, findOneAndDelete,
  dropCollection, dropDatabase, expire, createCollection, createIndex, dropIndex(es), all reads.
  `oplog_faithful_partial` below is therefore the full statement restricted to these calls.
  MISSING (not covered): updateOne/updateMany/findOneAndUpdate, replaceOne/findOneAndReplace
  (including their upsert branch, which is the insert case) and bulkWrite. What is missing is
  (1) for replace/update: `(replaceDoc docs old.id nw).map doc = setAt (key nw) nw.doc (docs.map doc)`
  — from `sameId` and the two distinctness facts, plus for a replacement without `_id` the lemma
  `Get (Put repl ["_id"] v true) "_id" = v`, which needs `splitPath "_id" = ["_id"]` (string
  splitting does not reduce in the kernel); for multi-updates the fold over the matched list;
  (2) for bulk: coherence at every intermediate catalog. The oplog side of these calls IS proved
  (`step_appends`, `ids_strict_mono`). -/

/-- equality of contents per namespace, `local.oplog` excluded -/
def SameContents (a b : Contents) : Prop := ∀ h, h ≠ oplogHandle → a.docs h = b.docs h

/-- the events recorded between two catalogs -/
def eventsBetween (cat cat' : Catalog) : List Doc := (cat'.oplog.drop cat.oplog.length).map (·.doc)

theorem eventsBetween_adv {cat cat' : Catalog} {es : List EvSpec} (h : Ext cat cat' es) :
    eventsBetween cat cat' = evDocs cat.clock es := by
  unfold eventsBetween
  rw [List.map_drop, h.oplog]
  have : cat.oplog.length = (cat.oplog.map (·.doc)).length := by simp
  rw [this, List.drop_left]

theorem adv_replay {cat cat' : Catalog} {es : List EvSpec} (h : Adv cat cat' es) :
    SameContents (replay (eventsBetween cat cat') (contents cat)) (contents cat') := by
  intro h' hne
  rw [eventsBetween_adv h.ext, replay_evDocs_docs, contents_docs, contents_docs]
  simp only [hne, ↓reduceIte]
  exact (h.faith h' hne).symm

/-- `oplog_faithful` (full statement: for EVERY call) restricted to the covered calls:
    replaying the events recorded by one successful call onto the contents before it gives the
    contents after it. -/
theorem oplog_faithful_partial (sch : SchemaEval) (s s' : Sys) (c : Call) (oids : List V) (r : Reply)
    (hcov : c.covered = true) (hp : OplogPlain s.catalog) (hok : CatOK s.catalog) (hok' : CatOK s'.catalog)
    (hr : Sys.step sch s c oids = .ok (s', r)) :
    SameContents (replay (eventsBetween s.catalog s'.catalog) (contents s.catalog)) (contents s'.catalog) := by
  obtain ⟨es, h⟩ := Sys.step_adv sch s s' c oids r hcov hp hok hok' hr
  exact adv_replay h

/-- executing a sequence of calls (failing calls leave the state unchanged) -/
def execAll (sch : SchemaEval) (s : Sys) : List (Call × List V) → Sys
  | [] => s
  | (c, o) :: r => execAll sch (Sys.exec sch s c o) r

/-- along the run every call is covered and every state satisfies the coherence facts -/
def AllOK (sch : SchemaEval) (s : Sys) : List (Call × List V) → Prop
  | [] => CatOK s.catalog
  | (c, o) :: r => CatOK s.catalog ∧ c.covered = true ∧ AllOK sch (Sys.exec sch s c o) r

theorem AllOK.head {sch : SchemaEval} {s : Sys} {cs : List (Call × List V)} (h : AllOK sch s cs) : CatOK s.catalog := by
  cases cs with
  | nil => exact h
  | cons a r => exact h.1

theorem run_adv (sch : SchemaEval) (cs : List (Call × List V)) :
    ∀ s : Sys, OplogPlain s.catalog → AllOK sch s cs → ∃ es, Adv s.catalog (execAll sch s cs).catalog es := by
  induction cs with
  | nil => intro s _ _; exact ⟨[], Adv.refl _⟩
  | cons a r ih =>
    intro s hp hall
    obtain ⟨c, o⟩ := a
    obtain ⟨hok, hcov, hrest⟩ := hall
    simp only [execAll]
    unfold Sys.exec at hrest ⊢
    cases hstep : Sys.step sch s c o with
    | error e =>
      simp only [hstep] at hrest ⊢
      exact ih s hp hrest
    | ok p =>
      obtain ⟨s', rep⟩ := p
      simp only [hstep] at hrest ⊢
      obtain ⟨es1, h1⟩ := Sys.step_adv sch s s' c o rep hcov hp hok hrest.head hstep
      obtain ⟨es2, h2⟩ := ih s' (h1.ext.plain hp) hrest
      exact ⟨_, Adv.trans h1 h2⟩

/-- `oplog_faithful_run`: between ANY two points of a history — `s` is the state at the earlier
    point (any state with a TTL-free oplog namespace, e.g. any reachable one), `cs` the calls
    executed between the two points — replaying the events recorded in between onto the contents
    at the earlier point reproduces the contents at the later point. (`_partial`: covered calls only.) -/
theorem oplog_faithful_run_partial (sch : SchemaEval) (s : Sys) (cs : List (Call × List V))
    (hp : OplogPlain s.catalog) (hall : AllOK sch s cs) :
    SameContents (replay (eventsBetween s.catalog (execAll sch s cs).catalog) (contents s.catalog))
      (contents (execAll sch s cs).catalog) := by
  obtain ⟨es, h⟩ := run_adv sch cs s hp hall
  exact adv_replay h

/-- … and the events between the two points are exactly the log suffix added in between, numbered
    consecutively from the earlier clock (gap-free, in commit order). -/
theorem run_events_consecutive (sch : SchemaEval) (s : Sys) (cs : List (Call × List V))
    (hp : OplogPlain s.catalog) (hall : AllOK sch s cs) :
    (eventsBetween s.catalog (execAll sch s cs).catalog).map eventTs
      = (List.range' (s.catalog.clock + 1) ((execAll sch s cs).catalog.clock - s.catalog.clock)).map fun k => some (0, k) := by
  obtain ⟨es, h⟩ := run_adv sch cs s hp hall
  rw [eventsBetween_adv h.ext, evDocs_ts, h.ext.clock]
  congr 2
  omega

-- non-vacuity for part 4: replay between two points of a concrete history (ids 1,2 inserted; 2 deleted; 3 inserted; db dropped)
private def hB : Handle := ⟨"db", "b"⟩
private def histF : List (Call × List V) :=
  [(.insertMany hA [[("_id", .i32 1), ("x", .i32 1)], [("_id", .i32 2), ("x", .i32 2)]] true, []),
   (.insertOne hB [("_id", .str "k")], []),
   (.deleteOne hA [("_id", .i32 1)], []),
   (.createIndex hA "" { key := [("x", .i32 1)] }, []),
   (.insertOne hA [("_id", .i32 3)], []),
   (.dropCollection hB, [])]
private def sMid : Sys := execAll schemaUnmodelled Sys.init (histF.take 2)
private def sEnd : Sys := execAll schemaUnmodelled sMid (histF.drop 2)
#guard (contents sMid.catalog).docs hA == [[("_id", .i32 1), ("x", .i32 1)], [("_id", .i32 2), ("x", .i32 2)]]
#guard (eventsBetween sMid.catalog sEnd.catalog).length == 3
#guard (replay (eventsBetween sMid.catalog sEnd.catalog) (contents sMid.catalog)).docs hA == (contents sEnd.catalog).docs hA
#guard (replay (eventsBetween sMid.catalog sEnd.catalog) (contents sMid.catalog)).docs hB == (contents sEnd.catalog).docs hB
#guard (contents sEnd.catalog).docs hA == [[("_id", .i32 2), ("x", .i32 2)], [("_id", .i32 3)]]
#guard (contents sEnd.catalog).docs hB == []
#guard (replay (eventsBetween Sys.init.catalog sEnd.catalog) (contents Sys.init.catalog)).docs hA == (contents sEnd.catalog).docs hA
#guard histF.all fun c => c.1.covered

/-! ## Part 5 — `update_desc_sound`

  FULL STATEMENT (not proved here): for an update event produced from
  `Apply c old u fs = .ok (new, changes)`, `applyDesc old updatedFields removedFields` is a document
  equal to `new` up to field order, where `updatedFields` / `removedFields` are the sorted
  non-missing / missing entries of `changes` as written by `oplogEvent`.

  PROVED (`update_desc_sound_partial`): the composition step, for the recorded entries taken in ANY
  order (so in particular the sorted one): given
    * `AccessLaws unrel` — the get/put laws of `Put`/`Unset` for paths that are not prefixes of
      one another (C11: `put_get`, `record_conflict_free`), and
    * `ChangesHold` — what C11's `changes_hold` / `changes_cover` give for `Apply`: every recorded
      (path, value) holds in `new` (value `missing` = the path is absent), the recorded paths are
      pairwise conflict-free, and `new` agrees with `old` on every path unrelated to all of them,
  then the replayed document agrees with `new` on every recorded path and on every path
  unrelated to all recorded paths.
  MISSING for the full statement: (1) the two hypotheses (owned by the C11 agent; not on this
  branch); (2) that `oplogEvent`'s `Array.qsort` calls return permutations of their input (no
  `qsort` lemmas in core) — only needed to connect `us`/`rs` below to the event document;
  (3) the extension from "agree on all recorded and all unrelated paths" to "equal up to field
  order" (needs the sub-path / ancestor-path laws of `get`). -/

/-- the facts about `Apply old u fs = .ok (new, changes)` used (from C11), on split paths:
    `us` = recorded (path, value ≠ missing) pairs, `rs` = recorded removed paths -/
structure ChangesHold (unrel : Path → Path → Prop) (old new : Doc) (us : List (Path × V)) (rs : List Path) : Prop where
  holds_set : ∀ pv ∈ us, getP new pv.1 = pv.2
  holds_unset : ∀ p ∈ rs, getP new p = .missing
  conflict_free : (us.map (·.1) ++ rs).Pairwise unrel
  frame : ∀ q, (∀ pv ∈ us, unrel pv.1 q) → (∀ p ∈ rs, unrel p q) → getP new q = getP old q

theorem update_desc_sound_partial (unrel : Path → Path → Prop) (L : AccessLaws unrel)
    (old new res : Doc) (us : List (Path × V)) (rs : List Path) (hc : ChangesHold unrel old new us rs)
    (hres : applyDesc old us rs = .ok res) :
    (∀ pv ∈ us, getP res pv.1 = getP new pv.1) ∧ (∀ p ∈ rs, getP res p = getP new p) ∧
    (∀ q, (∀ pv ∈ us, unrel pv.1 q) → (∀ p ∈ rs, unrel p q) → getP res q = getP new q) := by
  unfold applyDesc at hres
  split at hres
  · cases hres
  · rename_i d1 hputs
    simp only [Except.ok.injEq] at hres
    subst hres
    have hcf := List.pairwise_append.mp hc.conflict_free
    obtain ⟨hp1, hp2⟩ := applyPuts_get L us old d1 hcf.1 hputs
    obtain ⟨hu1, hu2⟩ := applyUnsets_get L rs d1 hcf.2.1
    refine ⟨?_, ?_, ?_⟩
    · intro pv hpv
      rw [hu2 pv.1 (fun p hp => L.symm _ _ (hcf.2.2 pv.1 (List.mem_map_of_mem hpv) p hp)), hp1 pv hpv,
        hc.holds_set pv hpv]
    · intro p hp
      rw [hu1 p hp, hc.holds_unset p hp]
    · intro q hq1 hq2
      rw [hu2 q hq2, hp2 q hq1, hc.frame q hq1 hq2]

-- non-vacuity: {a:1,b:{c:2},d:4} --$set b.c=3, $unset d--> {a:1,b:{c:3}}; replaying [b.c ↦ 3], [d] in either role
#guard (applyDesc [("a", .i32 1), ("b", .doc [("c", .i32 2)]), ("d", .i32 4)] [(["b", "c"], .i32 3)] [["d"]])
  matches .ok [("a", .i32 1), ("b", .doc [("c", .i32 3)])]
#guard (match Apply (acOf schemaUnmodelled) [("a", .i32 1), ("b", .doc [("c", .i32 2)]), ("d", .i32 4)]
    [("$set", .doc [("b.c", .i32 3)]), ("$unset", .doc [("d", .str "")])] [] with
  | .ok (d, ch) => d == [("a", .i32 1), ("b", .doc [("c", .i32 3)])] && ch.length == 2
  | .error _ => false)

end Lungo.C08
