/-
  Lungo.Props.C01 — "CRUD through the driver API matches a sequential MongoDB reference model. For
  every sequence of insert, find, count, distinct, update, replace, delete, find-one-and-modify,
  bulk-write, upsert, index and drop calls issued one after another through the driver-compatible
  API, each call returns the counts, ids, documents and error-or-success that a plain sequential
  model of MongoDB semantics (a list of documents in insertion order plus the supported operator
  semantics) returns, and after every call the contents of every collection equal the model's."

  Left-hand side: the executable model of the implementation, `Sys.step` (Lungo/Model/Api.lean:
  collection.go / transaction.go / mongokit/collection.go with index entries, document identities,
  the oplog, Begin → method → Commit), validated against the real driver by stream `api`.
  Right-hand side: `Spec.step` over `Spec.SeqDB` (Lungo/Spec/SeqDB.lean, DESIGN §8.6): per namespace
  a list of documents in natural order + index DEFINITIONS; no entries, no identities, no oplog;
  validated against the real driver by stream `seq`.
  `abs : Catalog → SeqDB` (Proofs/SeqAbs.lean) forgets entries, identities and the oplog (of which
  only the bit "is it empty" remains, because `listDatabases` reports it).

  REFINEMENT, call by call (`Refines sch s c oids`):
      Spec.step sch (abs s.catalog) c oids = (Sys.step sch s c oids).map (fun (s', rep) => (abs s'.catalog, rep))
  i.e. the same reply or the same error, and the abstraction commutes. The shared semantic functions
  `Match`, `Apply`, `Project`, `Extract`, `Distinct`, `sortDocs`, `tuples/tupleEq` are parameters of
  both sides: C01 is the plumbing (their meaning is C10/C11/C14/C13/C07).

  Hypotheses (all stated on the SPEC's state, so a history can be checked against the Spec alone):
    `SysInv` (C15 coherence: the implementation's uniqueness check consults index entries, the
        Spec's looks at documents), `UniqueOkCat` (C07: no two equal documents, so "remove/replace
        this document" means the same by identity and by value) — both hold in every reachable state;
    `OkDB db`       every stored document is a Go value (int64 payloads in range): the C12 order laws
                    ("filter then sort = sort then filter", transitivity of key equality) hold there;
                    kept by every well-formed call (`okDB_step`), so histories need it initially only;
    `QueryOk sch db h q`  the filter evaluates (true/false) on every stored document of the target
                    collection: the implementation scans the SORTED list and stops at the limit, the
                    Spec filters first, so a filter that raises an error on some documents only may
                    be reported by one and not the other (C13.find_with_match_errors);
    `InsertOk docs oids`  the inserted documents and generated ids are Go values;
    `UpdateOk` / `ReplaceOk` / `BulkCallOk`  additionally: the results of `Apply` on stored documents,
                    the replacement and the upserted document are Go values (no theorem says that
                    `Apply` keeps int64 payloads in range; it is an input condition here), for a
                    bulk in the Spec state in which each operation runs;
    `TtlOk`         the TTL delete filters evaluate on the documents of their collections;
    `HD s.catalog`  the handles of the catalog are pairwise distinct — an invariant of every
                    reachable state (`handles_distinct`), used by `expire` only;
    reads do not address `local.oplog` (outside the Spec: it has no oplog).

  ALL 27 calls are covered: insertOne, insertMany (ordered/unordered), find, findOne, count,
  estimatedCount, distinct, updateOne, updateMany (+ upsert, array filters), replaceOne (+ upsert),
  deleteOne, deleteMany, findOneAndDelete / Replace / Update (sort, before/after, projection, upsert),
  bulkWrite (ordered/unordered), createIndex, dropIndex, dropAllIndexes, dropIndexByKey, listIndexes,
  createCollection, dropCollection, dropDatabase, listCollections, listDatabases, expire.
-/
import Lungo.Proofs.SeqOk
import Lungo.Props.C15
import Lungo.Props.C07
namespace Lungo.C01
open Lungo Lungo.Spec Lungo.SeqRef

variable {sch : SchemaEval}

/-! ### the abstraction -/

/-- `abs` of the empty system is the Spec's initial state -/
theorem abs_init : abs Sys.init.catalog = SeqDB.init := SeqRef.abs_init

/-- user namespaces are abstracted to their documents (natural order) and index definitions -/
theorem abs_get (cat : Catalog) {h : Handle} (hne : h ≠ oplogHandle) :
    (abs cat).get? h = (cat.get? h).map fun c => { docs := c.docs.map (·.doc), defs := shape c.indexes } :=
  SeqRef.abs_get? cat hne

/-! ### the two pillars: selection and the uniqueness check -/

/-- selection: the stored documents the implementation selects (sort → scan with limit → skip),
    without their identities, are the Spec's "matching → stable sort → drop skip → keep limit" -/
theorem select_refines (c : Coll) (q : Doc) (sort : Option Doc) (skip limit : Int)
    (ok : DocsOk c.docs) (hne : noMatchError sch q c.docs) :
    (selectDocs sch c q sort skip limit).map (List.map (·.doc)) =
      select sch (c.docs.map (·.doc)) q sort skip limit := select_abs c q sort skip limit ok hne

/-- uniqueness: adding a fresh document to the index entries succeeds / fails with the same error
    as the Spec's condition on plain documents (`admits`: partial filter evaluable, no unique
    definition under which a stored document shares a key tuple) -/
theorem uniqueness_refines {docs : List SDoc} {sd : SDoc}
    (hfresh : ∀ x ∈ docs, x.id ≠ sd.id) (hinj : IdInj (· ∈ docs)) (hok : DocsOk docs) (hsd : DocOk sd.doc)
    (idx : List (String × Index)) (hc : AllCoherent sch (· ∈ docs) idx) :
    (addToIndexes sch sd idx).map (fun _ => ()) = admits sch (docs.map (·.doc)) sd.doc (shape idx) :=
  addToIndexes_admits hfresh hinj hok hsd idx hc

/-- `admits` is the declarative `wouldCollide` whenever the partial filters can be evaluated on `d` -/
theorem admits_eq_wouldCollide (docs : List Doc) (d : Doc) :
    ∀ (defs : List (String × IndexConfig)), (∀ p ∈ defs, ∃ b, under sch p.2 d = .ok b) →
      admits sch docs d defs = if wouldCollide sch defs docs d then .error .dup else .ok ()
  | [], _ => rfl
  | (n, cfg) :: r, h => by
    obtain ⟨b, hb⟩ := h (n, cfg) (by simp)
    have ih := admits_eq_wouldCollide docs d r (fun p hp => h p (List.mem_cons_of_mem _ hp))
    simp only at hb
    have hub : underB sch cfg d = b := by
      simp only [underB, hb]; cases b <;> rfl
    simp only [admits, hb, wouldCollide, List.any_cons, hub]
    cases b with
    | false =>
      simp only [Bool.and_false, Bool.false_and, Bool.false_or]
      exact ih
    | true =>
      simp only [Bool.and_true]
      cases hc : (cfg.unique && clashes sch cfg docs d) with
      | true => simp
      | false =>
        simp only [Bool.false_eq_true, ↓reduceIte, Bool.false_or]
        exact ih

/-! ### call by call -/

theorem refines_find (s : Sys) (h : Handle) (q : Doc) (o : FindOpts) (oids : List V)
    (hne : h ≠ oplogHandle) (ok : OkDB (abs s.catalog)) (hq : QueryOk sch (abs s.catalog) h q) :
    Refines sch s (.find h q o) oids := SeqRef.refines_find s h q o oids hne ok hq

theorem refines_findOne (s : Sys) (h : Handle) (q : Doc) (o : FindOpts) (oids : List V)
    (hne : h ≠ oplogHandle) (ok : OkDB (abs s.catalog)) (hq : QueryOk sch (abs s.catalog) h q) :
    Refines sch s (.findOne h q o) oids := SeqRef.refines_findOne s h q o oids hne ok hq

theorem refines_count (s : Sys) (h : Handle) (q : Doc) (skip limit : Int) (oids : List V)
    (hne : h ≠ oplogHandle) (ok : OkDB (abs s.catalog)) (hq : QueryOk sch (abs s.catalog) h q) :
    Refines sch s (.count h q skip limit) oids := SeqRef.refines_count s h q skip limit oids hne ok hq

theorem refines_estCount (s : Sys) (h : Handle) (oids : List V) (hne : h ≠ oplogHandle) :
    Refines sch s (.estCount h) oids := SeqRef.refines_estCount s h oids hne

theorem refines_distinct (s : Sys) (h : Handle) (field : String) (q : Doc) (oids : List V)
    (hne : h ≠ oplogHandle) (ok : OkDB (abs s.catalog)) (hq : QueryOk sch (abs s.catalog) h q) :
    Refines sch s (.distinct h field q) oids := SeqRef.refines_distinct s h field q oids hne ok hq

theorem refines_listIndexes (s : Sys) (h : Handle) (oids : List V) (hne : h ≠ oplogHandle) :
    Refines sch s (.listIndexes h) oids := SeqRef.refines_listIndexes s h oids hne

theorem refines_listCollections (s : Sys) (db : String) (q : Doc) (oids : List V) :
    Refines sch s (.listCollections db q) oids := SeqRef.refines_listCollections s db q oids

theorem refines_listDatabases (s : Sys) (q : Doc) (oids : List V) :
    Refines sch s (.listDatabases q) oids := SeqRef.refines_listDatabases s q oids

theorem refines_insertOne (s : Sys) (h : Handle) (doc : Doc) (oids : List V)
    (hi : SysInv sch s) (ok : OkDB (abs s.catalog)) (hw : InsertOk [doc] oids) :
    Refines sch s (.insertOne h doc) oids := SeqRef.refines_insertOne s h doc oids hi ok hw

theorem refines_insertMany (s : Sys) (h : Handle) (docs : List Doc) (ordered : Bool) (oids : List V)
    (hi : SysInv sch s) (ok : OkDB (abs s.catalog)) (hw : InsertOk docs oids) :
    Refines sch s (.insertMany h docs ordered) oids := SeqRef.refines_insertMany s h docs ordered oids hi ok hw

theorem refines_deleteOne (s : Sys) (h : Handle) (q : Doc) (oids : List V)
    (hi : SysInv sch s) (hu : UniqueOkCat sch s.catalog) (ok : OkDB (abs s.catalog))
    (hq : QueryOk sch (abs s.catalog) h q) : Refines sch s (.deleteOne h q) oids :=
  SeqRef.refines_deleteOne s h q oids ⟨hi, fun _ => hu⟩ ok hq

theorem refines_deleteMany (s : Sys) (h : Handle) (q : Doc) (oids : List V)
    (hi : SysInv sch s) (hu : UniqueOkCat sch s.catalog) (ok : OkDB (abs s.catalog))
    (hq : QueryOk sch (abs s.catalog) h q) : Refines sch s (.deleteMany h q) oids :=
  SeqRef.refines_deleteMany s h q oids ⟨hi, fun _ => hu⟩ ok hq

theorem refines_findOneAndDelete (s : Sys) (h : Handle) (q : Doc) (sort proj : Option Doc) (oids : List V)
    (hi : SysInv sch s) (hu : UniqueOkCat sch s.catalog) (ok : OkDB (abs s.catalog))
    (hq : QueryOk sch (abs s.catalog) h q) : Refines sch s (.findOneAndDelete h q sort proj) oids :=
  SeqRef.refines_findOneAndDelete s h q sort proj oids ⟨hi, fun _ => hu⟩ ok hq

/-- updateOne: the first match in natural order gets the update; matched / modified counts; `_id`
    immutable; uniqueness of the resulting collection; upsert with the seed of the filter.
    `UpdateOk`: the filter evaluates on every stored document, the results of `Apply` on stored
    documents and the upserted document are Go values, and so are the generated ids. -/
theorem refines_updateOne (s : Sys) (h : Handle) (q u : Doc) (upsert : Bool) (fs : List Doc) (oids : List V)
    (hi : SysInv sch s) (hu : UniqueOkCat sch s.catalog) (ok : OkDB (abs s.catalog))
    (hw : UpdateOk (acOf sch) (abs s.catalog) h q u upsert fs oids) :
    Refines sch s (.updateOne h q u upsert fs) oids :=
  SeqRef.refines_updateOne s h q u upsert fs oids ⟨hi, fun _ => hu⟩ ok hw

/-- updateMany: all matches, each in its slot; a multi-update may permute unique keys (remove all,
    then add all — the Spec's `admitAll` over the untouched documents) -/
theorem refines_updateMany (s : Sys) (h : Handle) (q u : Doc) (upsert : Bool) (fs : List Doc) (oids : List V)
    (hi : SysInv sch s) (hu : UniqueOkCat sch s.catalog) (ok : OkDB (abs s.catalog))
    (hw : UpdateOk (acOf sch) (abs s.catalog) h q u upsert fs oids) :
    Refines sch s (.updateMany h q u upsert fs) oids :=
  SeqRef.refines_updateMany s h q u upsert fs oids ⟨hi, fun _ => hu⟩ ok hw

/-- findOneAndUpdate: the head of the sorted matches; the document before / after; projection -/
theorem refines_findOneAndUpdate (s : Sys) (h : Handle) (q u : Doc) (sort proj : Option Doc)
    (upsert after : Bool) (fs : List Doc) (oids : List V)
    (hi : SysInv sch s) (hu : UniqueOkCat sch s.catalog) (ok : OkDB (abs s.catalog))
    (hw : UpdateOk (acOf sch) (abs s.catalog) h q u upsert fs oids) :
    Refines sch s (.findOneAndUpdate h q u sort proj upsert after fs) oids :=
  SeqRef.refines_findOneAndUpdate s h q u sort proj upsert after fs oids ⟨hi, fun _ => hu⟩ ok hw

/-- replaceOne: the first match replaced in its slot by the replacement carrying the stored `_id`
    (another `_id` is an error); upsert inserts the replacement with the `_id` of the filter's seed.
    `ReplaceOk`: the filter evaluates on every stored document; the replacement, the upserted
    document and the generated ids are Go values. -/
theorem refines_replaceOne (s : Sys) (h : Handle) (q repl : Doc) (upsert : Bool) (oids : List V)
    (hi : SysInv sch s) (hu : UniqueOkCat sch s.catalog) (ok : OkDB (abs s.catalog))
    (hw : ReplaceOk (acOf sch) (abs s.catalog) h q repl upsert oids) :
    Refines sch s (.replaceOne h q repl upsert) oids :=
  SeqRef.refines_replaceOne s h q repl upsert oids ⟨hi, fun _ => hu⟩ ok hw

theorem refines_findOneAndReplace (s : Sys) (h : Handle) (q repl : Doc) (sort proj : Option Doc)
    (upsert after : Bool) (oids : List V)
    (hi : SysInv sch s) (hu : UniqueOkCat sch s.catalog) (ok : OkDB (abs s.catalog))
    (hw : ReplaceOk (acOf sch) (abs s.catalog) h q repl upsert oids) :
    Refines sch s (.findOneAndReplace h q repl sort proj upsert after) oids :=
  SeqRef.refines_findOneAndReplace s h q repl sort proj upsert after oids ⟨hi, fun _ => hu⟩ ok hw

/-- bulkWrite: the operations in order, each with the semantics of the single call; ordered stops
    at the first failing one, unordered continues; counts are sums over the successful operations,
    upserted ids and errors are keyed by operation index; a bulk that changed nothing leaves the
    database as it was. `BulkCallOk`: every operation is well-formed (as for the single calls) in the
    Spec state in which it is executed, and those states hold Go values. -/
theorem refines_bulkWrite (s : Sys) (h : Handle) (models : List BulkModel) (ordered : Bool) (oids : List V)
    (hi : SysInv sch s) (hu : UniqueOkCat sch s.catalog)
    (hw : BulkCallOk (acOf sch) (abs s.catalog) h ordered oids models) :
    Refines sch s (.bulkWrite h models ordered) oids :=
  SeqRef.refines_bulkWrite s h models ordered oids ⟨hi, fun _ => hu⟩ hw

theorem refines_createCollection (s : Sys) (h : Handle) (oids : List V) :
    Refines sch s (.createCollection h) oids := SeqRef.refines_createCollection s h oids

theorem refines_dropCollection (s : Sys) (h : Handle) (oids : List V) (hi : SysInv sch s) :
    Refines sch s (.dropCollection h) oids := SeqRef.refines_dropCollection s h oids hi

theorem refines_dropDatabase (s : Sys) (name : String) (oids : List V) (hi : SysInv sch s) :
    Refines sch s (.dropDatabase name) oids := SeqRef.refines_dropDatabase s name oids hi

/-- createIndex: name defaulting, same-definition no-op, name/key conflicts, definition validity, and
    the build over the stored documents (a unique build over existing duplicates fails with `dup`) -/
theorem refines_createIndex (s : Sys) (h : Handle) (name : String) (cfg : IndexConfig) (oids : List V)
    (hi : SysInv sch s) (ok : OkDB (abs s.catalog)) : Refines sch s (.createIndex h name cfg) oids :=
  SeqRef.refines_createIndex s h name cfg oids hi ok

theorem refines_dropIndex (s : Sys) (h : Handle) (name : String) (oids : List V) :
    Refines sch s (.dropIndex h name) oids := SeqRef.refines_dropIndex s h name oids

theorem refines_dropAllIndexes (s : Sys) (h : Handle) (oids : List V) :
    Refines sch s (.dropAllIndexes h) oids := SeqRef.refines_dropAllIndexes s h oids

theorem refines_dropIndexByKey (s : Sys) (h : Handle) (key : Doc) (oids : List V) :
    Refines sch s (.dropIndexByKey h key) oids := SeqRef.refines_dropIndexByKey s h key oids

/-- expire: every collection with a TTL definition loses the documents holding a date older than
    `now − expiry` at the indexed field; the reply is their number; nothing expired = no change -/
theorem refines_expire (s : Sys) (nowMs : Int) (oids : List V) (hi : SysInv sch s)
    (hu : UniqueOkCat sch s.catalog) (hh : HD s.catalog) (ok : OkDB (abs s.catalog))
    (hw : TtlOk sch nowMs (abs s.catalog).colls) : Refines sch s (.expire nowMs) oids :=
  SeqRef.refines_expire s nowMs oids ⟨hi, fun _ => hu⟩ hh ok hw

/-- the handles of the catalog are pairwise distinct in every reachable state -/
theorem handles_distinct (calls : List (Call × List V)) : HD (Sys.run sch Sys.init calls).catalog :=
  HD.run HD.init calls

theorem handles_distinct_step {s s' : Sys} {c : Call} {oids : List V} {r : Reply} (hh : HD s.catalog)
    (e : Sys.step sch s c oids = .ok (s', r)) : HD s'.catalog := hh.step e

/-! ### assembled -/

/-- the Spec keeps "every stored document is a Go value" under well-formed calls (`WF`, defined in
    Proofs/SeqOk.lean: per call `InsertOk` / `QueryOk` / `UpdateOk` / `ReplaceOk` / `BulkCallOk` / `TtlOk`,
    and "not `local.oplog`" for reads) -/
theorem okDB_step {db db' : SeqDB} {c : Call} {oids : List V} {r : Reply} (ok : OkDB db)
    (hw : WF sch db oids c) (e : Spec.step sch db c oids = .ok (db', r)) : OkDB db' :=
  SeqRef.okDB_step ok hw e

/-- **api_refines**: in a state satisfying the C15 invariant and C07, with pairwise distinct
    handles, whose documents are Go values, every well-formed call — all 27 of them — returns under
    the Spec exactly what the implementation model returns (the same reply or the same error), and
    `abs` commutes. -/
theorem api_refines {s : Sys} {c : Call} {oids : List V} (hi : SysInv sch s)
    (hu : UniqueOkCat sch s.catalog) (hh : HD s.catalog) (ok : OkDB (abs s.catalog))
    (hw : WF sch (abs s.catalog) oids c) :
    Spec.step sch (abs s.catalog) c oids =
      (Sys.step sch s c oids).map (fun p => (abs p.1.catalog, p.2)) := by
  cases c with
  | insertOne h doc => exact refines_insertOne s h doc oids hi ok hw
  | insertMany h docs ordered => exact refines_insertMany s h docs ordered oids hi ok hw
  | find h q o => exact refines_find s h q o oids hw.1 ok hw.2
  | findOne h q o => exact refines_findOne s h q o oids hw.1 ok hw.2
  | count h q skip limit => exact refines_count s h q skip limit oids hw.1 ok hw.2
  | estCount h => exact refines_estCount s h oids hw
  | distinct h field q => exact refines_distinct s h field q oids hw.1 ok hw.2
  | deleteOne h q => exact refines_deleteOne s h q oids hi hu ok hw
  | deleteMany h q => exact refines_deleteMany s h q oids hi hu ok hw
  | findOneAndDelete h q sort proj => exact refines_findOneAndDelete s h q sort proj oids hi hu ok hw
  | dropIndex h name => exact refines_dropIndex s h name oids
  | dropAllIndexes h => exact refines_dropAllIndexes s h oids
  | dropIndexByKey h key => exact refines_dropIndexByKey s h key oids
  | listIndexes h => exact refines_listIndexes s h oids hw
  | createCollection h => exact refines_createCollection s h oids
  | dropCollection h => exact refines_dropCollection s h oids hi
  | dropDatabase db => exact refines_dropDatabase s db oids hi
  | listCollections db q => exact refines_listCollections s db q oids
  | listDatabases q => exact refines_listDatabases s q oids
  | updateOne h q u upsert fs => exact refines_updateOne s h q u upsert fs oids hi hu ok hw
  | updateMany h q u upsert fs => exact refines_updateMany s h q u upsert fs oids hi hu ok hw
  | replaceOne h q repl upsert => exact refines_replaceOne s h q repl upsert oids hi hu ok hw
  | findOneAndReplace h q repl sort proj upsert after =>
    exact refines_findOneAndReplace s h q repl sort proj upsert after oids hi hu ok hw
  | findOneAndUpdate h q u sort proj upsert after fs =>
    exact refines_findOneAndUpdate s h q u sort proj upsert after fs oids hi hu ok hw
  | bulkWrite h models ordered => exact refines_bulkWrite s h models ordered oids hi hu hw
  | createIndex h name cfg => exact refines_createIndex s h name cfg oids hi ok
  | expire nowMs => exact refines_expire s nowMs oids hi hu hh ok hw

/-! ### histories -/

/-- the replies (or error classes) of a history on the implementation model; a failing call leaves
    the state as it was -/
def sysReplies (sch : SchemaEval) : Sys → List (Call × List V) → List (Res Reply)
  | _, [] => []
  | s, co :: r =>
    match Sys.step sch s co.1 co.2 with
    | .ok (s', rep) => .ok rep :: sysReplies sch s' r
    | .error e => .error e :: sysReplies sch s r

/-- along the history, judged on the SPEC's states: every call is well-formed -/
def RunOk (sch : SchemaEval) : SeqDB → List (Call × List V) → Prop
  | _, [] => True
  | db, co :: r =>
    WF sch db co.2 co.1 ∧
      RunOk sch (match Spec.step sch db co.1 co.2 with
        | .ok (db', _) => db'
        | .error _ => db) r

theorem api_refines_run_from {s : Sys} (hi : SysInv sch s) (hu : UniqueOkCat sch s.catalog)
    (hh : HD s.catalog) (ok : OkDB (abs s.catalog)) :
    ∀ (calls : List (Call × List V)), RunOk sch (abs s.catalog) calls →
      sysReplies sch s calls = Spec.replies sch (abs s.catalog) calls ∧
      abs (Sys.run sch s calls).catalog = Spec.run sch (abs s.catalog) calls := by
  intro calls
  induction calls generalizing s with
  | nil => intro _; exact ⟨rfl, rfl⟩
  | cons co r ih =>
    intro hr
    obtain ⟨hw, hrest⟩ := hr
    have hstep := api_refines hi hu hh ok hw
    simp only [sysReplies, Spec.replies, Sys.run, Spec.run, List.foldl_cons]
    cases hs : Sys.step sch s co.1 co.2 with
    | error e =>
      rw [hs] at hstep
      simp only [Except.map] at hstep
      rw [hstep] at hrest ⊢
      simp only at hrest ⊢
      obtain ⟨h1, h2⟩ := ih hi hu hh ok hrest
      exact ⟨by rw [h1], h2⟩
    | ok p =>
      obtain ⟨s', rep⟩ := p
      rw [hs] at hstep
      simp only [Except.map] at hstep
      rw [hstep] at hrest ⊢
      simp only at hrest ⊢
      obtain ⟨hi', hu'⟩ := C07.unique_step hi hu hs
      obtain ⟨h1, h2⟩ := ih hi' hu' (hh.step hs) (okDB_step ok hw hstep) hrest
      exact ⟨by rw [h1], h2⟩

/-- **api_refines_run**: for every history of well-formed calls from the empty database,
    the implementation model and the sequential reference model give the same replies (documents,
    counts, ids, error classes), call by call, and end with the same contents. -/
theorem api_refines_run (calls : List (Call × List V)) (hr : RunOk sch SeqDB.init calls) :
    sysReplies sch Sys.init calls = Spec.replies sch SeqDB.init calls ∧
    abs (Sys.run sch Sys.init calls).catalog = Spec.run sch SeqDB.init calls := by
  have hu : UniqueOkCat sch Sys.init.catalog := by
    have := C07.uniqueOk_run (sch := sch) []
    simpa [Sys.run] using this
  have ok0 : OkDB (abs Sys.init.catalog) := by
    rw [abs_init]; intro h c hm d hd
    simp [SeqDB.init] at hm; obtain ⟨_, rfl⟩ := hm; cases hd
  have := api_refines_run_from (sch := sch) C15.inv_init hu HD.init ok0 calls (by rw [abs_init]; exact hr)
  rw [abs_init] at this
  exact this

/-! ### non-vacuity: a concrete history meets the hypotheses -/

def demoH : Handle := ⟨"d", "c"⟩
def demoCalls : List (Call × List V) :=
  [(.insertOne demoH [("a", .i32 1)], [.oid [1]]),
   (.insertOne demoH [("_id", .i32 7), ("a", .i32 2)], []),
   (.dropAllIndexes demoH, []),
   (.createCollection ⟨"d", "e"⟩, []),
   (.dropDatabase "d", [])]

-- the first call of the demo history is well-formed in the initial state (all hypotheses of
-- `api_refines` hold there)
example : Spec.step sch (abs Sys.init.catalog) (.insertOne demoH [("a", .i32 1)]) [.oid [1]] =
    (Sys.step sch Sys.init (.insertOne demoH [("a", .i32 1)]) [.oid [1]]).map (fun p => (abs p.1.catalog, p.2)) :=
  api_refines C15.inv_init
    (by have := C07.uniqueOk_run (sch := sch) []; simpa [Sys.run] using this)
    HD.init
    (by rw [abs_init]; intro h c hm d hd; simp [SeqDB.init] at hm; obtain ⟨_, rfl⟩ := hm; cases hd)
    ⟨fun d hd => by simp at hd; subst hd; simp [DocOk, V.i64Ok, i64OkFields],
     fun o ho => by simp at ho; subst ho; simp [V.i64Ok]⟩

/-! TESTS (evaluated): the Spec on the demo history, and the implementation model, agree -/
#guard (Spec.run schemaUnmodelled SeqDB.init demoCalls).colls.map (fun p => (p.1.coll, p.2.docs.length)) == [("oplog", 0)]
#guard (Spec.run schemaUnmodelled SeqDB.init (demoCalls.take 4)).colls.map (fun p => (p.1.coll, p.2.docs.length, p.2.defs.map (·.1)))
  == [("oplog", 0, []), ("c", 2, ["_id_"]), ("e", 0, ["_id_"])]
#guard (abs (Sys.run schemaUnmodelled Sys.init (demoCalls.take 4)).catalog).colls.map (fun p => (p.1.coll, p.2.docs.length, p.2.defs.map (·.1)))
  == [("oplog", 0, []), ("c", 2, ["_id_"]), ("e", 0, ["_id_"])]

/-
  `OkDB` is NOT an assumption along a history: the initial database is empty and `okDB_step` carries
  it through every well-formed call. What remains an INPUT CONDITION rather than a theorem are the
  `DocOk` clauses inside `WF`: the inserted documents / replacement / generated ids are Go values
  (true of every Go value the driver can be handed), and — `ApplyOkOn`, `UpsertOk` — the results of
  `Apply` (on stored documents, on the upsert seed) are Go values. The latter would follow from
  "`Apply` and `Extract` map Go values to Go values" (int64 payloads stay in range), a statement about
  the operator semantics (C11's subject) that is not proved anywhere yet.
-/

end Lungo.C01
