/-
  Lungo.Props.C02 — A write that reports an error leaves the database exactly as it was.

  Level: the ownership layer (Model/Own.lean).  The programs are `Expected.txnPrograms` — the
  clone/mutate/publish structure of every Transaction write method, regenerated from /repo/transaction.go
  on every run and compared by `tie_txnPrograms` (Ties/TxnPrograms.lean).  In the interpreter every
  `mongokit.Collection` method is an ARBITRARY partial in-place mutation of the receiver's own
  Set / indexes / Indexes map followed by an arbitrary outcome (the Go methods do not roll back), every
  condition that is not a nil/err test is decided by the choice sequence, loops run any number of times.

  Quantifiers: every heap, every transaction state, every argument (handle, caller documents), every
  choice sequence (hence a failure at ANY position inside the call: the k-th matched document, the k-th
  item of a batch, the oplog append after a successful collection write …).
-/
import Lungo.Proofs.OwnRun
import Lungo.Proofs.OwnSys
import Lungo.Expected.TxnPrograms
namespace Lungo.C02
open Lungo.Own

/-- **owned_sound** (core).  For every program that passes the static ownership check, every object that
    existed before the call — in particular everything reachable from `t.catalog`, from any older catalog,
    from any snapshot root — has the same content after the call, whatever the outcome; the only objects
    that may differ are the caller's own argument documents (`Collection.Insert/Replace` put an `_id` into
    the document they are given).  Objects are never freed.  The transaction's catalog pointer and dirty flag
    are unchanged when the call reports an error. -/
theorem owned_sound (p : Prog) (hp : ownedOK p = true) (a : Args) (ch : Choices) (h : Heap) (t : TxnState) :
    h.size ≤ (run p a ch (h, t)).1.size ∧
    (∀ o, o < h.size → o ∉ a.allDocs → (run p a ch (h, t)).1.get o = h.get o) ∧
    ((run p a ch (h, t)).2.2 = .error → (run p a ch (h, t)).2.1 = t) := by
  obtain ⟨s, e⟩ := run_sound false p hp a ch h t
  exact ⟨s.size, fun o ho hx => s.frozen ho ho (.inr hx), e⟩

/-- **owned_sound_strict.**  If moreover every document the call writes in place was cloned by the call
    (`argsOK`: true of every method except `Bulk`, see `Expected.bulk_args_not_cloned`), NOTHING that existed
    before the call changes. -/
theorem owned_sound_strict (p : Prog) (hp : argsOK p = true) (a : Args) (ch : Choices) (h : Heap) (t : TxnState) :
    h.size ≤ (run p a ch (h, t)).1.size ∧
    Agree h (run p a ch (h, t)).1 ∧
    ((run p a ch (h, t)).2.2 = .error → (run p a ch (h, t)).2.1 = t) := by
  obtain ⟨s, e⟩ := run_sound true p hp a ch h t
  exact ⟨s.size, fun o ho => s.frozen ho ho (.inl rfl), e⟩

/-- **op_error_preserves.**  For each write method (Create, Insert, Replace, Update, Delete, Drop,
    CreateIndex, DropIndex, DropIndexByKey, Bulk, Expire, Clean): if the call returns an error then
    `t.catalog` and `t.dirty` are unchanged and every root that existed before — the transaction's catalog,
    the published catalog, any older catalog or snapshot — observes exactly the same documents, indexes and
    oplog.  (For `Bulk`, whose arguments are not cloned, the caller's documents must not already be part of
    what the root reaches.) -/
theorem op_error_preserves (p : String × Prog) (hp : p ∈ Expected.txnPrograms)
    (a : Args) (ch : Choices) (h : Heap) (t : TxnState) (hc : Closed h)
    (herr : (run p.2 a ch (h, t)).2.2 = .error) :
    (run p.2 a ch (h, t)).2.1.catalog = t.catalog ∧ (run p.2 a ch (h, t)).2.1.dirty = t.dirty ∧
    ∀ root, root < h.size → (p.1 ≠ "Bulk" ∨ ∀ o ∈ a.allDocs, o ∉ reach h root) →
      observe (run p.2 a ch (h, t)).1 root = observe h root := by
  have ho := Expected.expected_owned p hp
  obtain ⟨_, fr, e⟩ := owned_sound p.2 ho a ch h t
  refine ⟨by rw [e herr], by rw [e herr], fun root hr hx => ?_⟩
  rcases hx with hx | hx
  · exact observe_agree hc (owned_sound_strict p.2 (Expected.expected_args p hp hx) a ch h t).2.1 hr
  · exact observe_congr fun q hq => fr q (reach_lt hc hr q hq) fun hm => hx q hm hq

/-- the same for a successful call: whatever it did, it did to fresh objects; what older roots observe is
    unchanged (this is what makes earlier snapshots immutable, C03) -/
theorem op_preserves_old_roots (p : String × Prog) (hp : p ∈ Expected.txnPrograms) (hb : p.1 ≠ "Bulk")
    (a : Args) (ch : Choices) (h : Heap) (t : TxnState) (hc : Closed h) :
    ∀ root, root < h.size → observe (run p.2 a ch (h, t)).1 root = observe h root := fun _ hr =>
  observe_agree hc (owned_sound_strict p.2 (Expected.expected_args p hp hb) a ch h t).2.1 hr

/-! ## Histories: a failing call is invisible at every reachable system state -/

/-- **failed_call_invisible.**  At every state of every history (`Sys.Good` is preserved by every event,
    `Sys.Good.run`), a Transaction write method that reports an error — with arbitrary caller documents, which
    reach the transaction fresh, and an arbitrary failure point — leaves the transaction's catalog pointer and
    dirty flag, the published catalog, and what EVERY existing root observes (the transaction's own view, the
    published view, every snapshot) exactly as they were.  `Bulk` needs no side condition here: the driver hands
    it freshly decoded documents. -/
theorem failed_call_invisible (s : Sys) (g : s.Good) (name : String) (handle : Nat)
    (docs : List (Var × List Nat)) (ch : Choices) (p : Prog)
    (hl : Expected.txnPrograms.lookup name = some p)
    (herr : (run p { handle := handle, docs := (allocArgs s.heap docs).2 } ch
              ((allocArgs s.heap docs).1, s.txn)).2.2 = .error) :
    (s.step (.call name handle docs ch)).txn = s.txn ∧
    (s.step (.call name handle docs ch)).engine = s.engine ∧
    (s.step (.call name handle docs ch)).snaps = s.snaps ∧
    ∀ root, root < s.heap.size →
      observe (s.step (.call name handle docs ch)).heap root = observe s.heap root := by
  obtain ⟨_, ag⟩ := call_agree name p hl handle docs ch s.heap s.txn
  have ho := Expected.expected_owned (name, p) (lookup_mem hl)
  have e := (owned_sound p ho { handle := handle, docs := (allocArgs s.heap docs).2 } ch
    (allocArgs s.heap docs).1 s.txn).2.2 herr
  simp only [Sys.step, hl]
  exact ⟨e, trivial, trivial, fun root hr => observe_agree g.wf.closed ag hr⟩

/-- in particular the transaction's own view and the published view are what they were -/
theorem failed_call_views (s : Sys) (g : s.Good) (name : String) (handle : Nat)
    (docs : List (Var × List Nat)) (ch : Choices) (p : Prog)
    (hl : Expected.txnPrograms.lookup name = some p)
    (herr : (run p { handle := handle, docs := (allocArgs s.heap docs).2 } ch
              ((allocArgs s.heap docs).1, s.txn)).2.2 = .error) :
    let s' := s.step (.call name handle docs ch)
    observe s'.heap s'.txn.catalog = observe s.heap s.txn.catalog ∧
    observe s'.heap s'.engine = observe s.heap s.engine := by
  obtain ⟨h1, h2, _, h4⟩ := failed_call_invisible s g name handle docs ch p hl herr
  simp only
  rw [h1, h2]
  exact ⟨h4 _ g.wf.cat, h4 _ g.engine⟩

/-- event `e` is a call of a write method that reports an error at state `s` -/
def CallFails (s : Sys) : Ev → Prop
  | .call name handle docs ch => ∃ p, Expected.txnPrograms.lookup name = some p ∧
      (run p { handle := handle, docs := (allocArgs s.heap docs).2 } ch ((allocArgs s.heap docs).1, s.txn)).2.2 = .error
  | _ => False

/-- every event of the history is a failing call at the state it is executed in -/
def AllFail : Sys → List Ev → Prop
  | _, [] => True
  | s, e :: es => CallFails s e ∧ AllFail (s.step e) es

/-- **failed_calls_run.**  Any number of failing calls in a row — each with its own arguments and failure point —
    leave the transaction state, the published catalog, the snapshots and what every existing root observes
    exactly as before the first of them. -/
theorem failed_calls_run (s : Sys) (g : s.Good) (es : List Ev) (h : AllFail s es) :
    (s.run es).txn = s.txn ∧ (s.run es).engine = s.engine ∧ (s.run es).snaps = s.snaps ∧
    s.heap.size ≤ (s.run es).heap.size ∧
    ∀ root, root < s.heap.size → observe (s.run es).heap root = observe s.heap root := by
  induction es generalizing s with
  | nil => exact ⟨rfl, rfl, rfl, Nat.le_refl _, fun _ _ => rfl⟩
  | cons e es ih =>
    obtain ⟨h1, h2⟩ := h
    cases e with
    | call name handle docs ch =>
      obtain ⟨p, hl, herr⟩ := h1
      obtain ⟨a1, a2, a3, a4⟩ := failed_call_invisible s g name handle docs ch p hl herr
      obtain ⟨b1, b2, b3, b4, b5⟩ := ih (s.step (.call name handle docs ch)) (g.step _) h2
      have le : s.heap.size ≤ (s.step (.call name handle docs ch)).heap.size := by
        have := (call_agree name p hl handle docs ch s.heap s.txn).1
        simp only [Sys.step, hl]; exact this
      simp only [Sys.run]
      exact ⟨b1.trans a1, b2.trans a2, b3.trans a3, Nat.le_trans le b4,
        fun root hr => (b5 root (Nat.lt_of_lt_of_le hr le)).trans (a4 root hr)⟩
    | begin | commit _ | abort | snapTxn | snapEngine => exact absurd h1 (by simp [CallFails])

/-! ## Batches: a failing item contributes nothing, a succeeding item is installed -/

open Lungo.Own.Stmt Lungo.Own.Cond Lungo.Own.CExpr Lungo.Own.HExpr Lungo.Expected

/-- the part of an `Insert` item before its error check: clone namespace and oplog, `t.insert` -/
def insertItem : List Stmt :=
  [cloneColl "namespace" (ns "clone" param), cloneColl "oplog" (ns "clone" oplog), hInsert]

/-- the part of a `Bulk` item before its error check: clone namespace and oplog, dispatch on the opcode -/
def bulkItem : List Stmt :=
  [cloneColl "namespace" (ns "clone" param), cloneColl "oplog" (ns "clone" oplog),
   ite (test "op.Opcode == Insert") [hInsertBulk] [
   ite (test "op.Opcode == Replace") [hReplace "ops" "ops"] [
   ite (test "op.Opcode == Update") [hUpdate "ops" "ops"] [
   ite (test "op.Opcode == Delete") [hDelete] [
   fail]]]]]

/-- the loops of `Insert` and `Bulk` (as regenerated from the source) are exactly item ++ tail -/
theorem insert_loop : Stmt.loop false (insertItem ++ itemTail param) ∈ pInsert := by decide +kernel
theorem bulk_loop : Stmt.loop false (bulkItem ++ itemTail param) ∈ pBulk := by decide +kernel

/-- both item blocks pass the ownership check from the EMPTY abstract state: they touch nothing but their
    own clones -/
theorem items_checked : (checkL false insertItem {}).ok = true ∧ (checkL false bulkItem {}).ok = true := by
  decide +kernel

/-- one iteration of a batch loop, for an item block `P` that is checked from the empty state.
    Whatever the item does and wherever it fails:
    * every object that existed when the item started (the `clone` catalog, everything installed by earlier
      items, everything older) is untouched by the item block;
    * if the item failed (`err != nil` after the block) NOTHING else happens: no install, the loop `break`s or
      `continue`s — the failing item contributes nothing;
    * if it succeeded, the iteration is completed by exactly the two installs
      `clone.Namespaces[handle] = namespace; clone.Namespaces[Oplog] = oplog`. -/
theorem item_effect (P : List Stmt) (hp : (checkL false P {}).ok = true) (st : St)
    (hn : (execL P st).2 = .next) :
    (∀ o, o < st.heap.size → o ∉ st.allDocs → (execL P st).1.heap.get o = st.heap.get o) ∧
    ((execL P st).1.env.err = true →
        (execL (P ++ itemTail param) st).1.heap = (execL P st).1.heap ∧
        (execL (P ++ itemTail param) st).1.txn = (execL P st).1.txn ∧
        ((execL (P ++ itemTail param) st).2 = .brk ∨ (execL (P ++ itemTail param) st).2 = .cont)) ∧
    ((execL P st).1.env.err = false →
        execL (P ++ itemTail param) st =
          execL [setNs "clone" param "namespace", setNs "clone" oplog "oplog"] (execL P st).1) := by
  refine ⟨(block_isolated P hp st).2, fun he => ?_, fun he => ?_⟩
  · rw [execL_append]
    revert hn he
    generalize execL P st = r
    obtain ⟨st1, sg⟩ := r
    intro hn he
    simp only at hn he; subst hn
    exact itemTail_err param st1 he
  · rw [execL_append]
    revert hn he
    generalize execL P st = r
    obtain ⟨st1, sg⟩ := r
    intro hn he
    simp only at hn he; subst hn
    exact itemTail_ok param st1 he

/-- **insertMany_effect.**  Per item of `Transaction.Insert` (ordered: the loop stops at the first failure;
    unordered: it goes on): see `item_effect`. -/
theorem insertMany_effect (st : St) (hn : (execL insertItem st).2 = .next) :
    (∀ o, o < st.heap.size → o ∉ st.allDocs → (execL insertItem st).1.heap.get o = st.heap.get o) ∧
    ((execL insertItem st).1.env.err = true →
        (execL (insertItem ++ itemTail param) st).1.heap = (execL insertItem st).1.heap ∧
        (execL (insertItem ++ itemTail param) st).1.txn = (execL insertItem st).1.txn ∧
        ((execL (insertItem ++ itemTail param) st).2 = .brk ∨ (execL (insertItem ++ itemTail param) st).2 = .cont)) ∧
    ((execL insertItem st).1.env.err = false →
        execL (insertItem ++ itemTail param) st =
          execL [setNs "clone" param "namespace", setNs "clone" oplog "oplog"] (execL insertItem st).1) :=
  item_effect insertItem items_checked.1 st hn

/-- **bulk_effect.**  The same for every operation kind of `Transaction.Bulk`. -/
theorem bulk_effect (st : St) (hn : (execL bulkItem st).2 = .next) :
    (∀ o, o < st.heap.size → o ∉ st.allDocs → (execL bulkItem st).1.heap.get o = st.heap.get o) ∧
    ((execL bulkItem st).1.env.err = true →
        (execL (bulkItem ++ itemTail param) st).1.heap = (execL bulkItem st).1.heap ∧
        (execL (bulkItem ++ itemTail param) st).1.txn = (execL bulkItem st).1.txn ∧
        ((execL (bulkItem ++ itemTail param) st).2 = .brk ∨ (execL (bulkItem ++ itemTail param) st).2 = .cont)) ∧
    ((execL bulkItem st).1.env.err = false →
        execL (bulkItem ++ itemTail param) st =
          execL [setNs "clone" param "namespace", setNs "clone" oplog "oplog"] (execL bulkItem st).1) :=
  item_effect bulkItem items_checked.2 st hn

/-! ## Negative theorems: the check is not vacuous and each discipline violation is observable -/

/-- a tiny database: one document (7) in collection 1 with its `_id_` index, an empty oplog, catalog at 6 -/
def hA : Heap := ⟨[.doc 7, .set [0], .idx [0], .coll 1 [("_id_", 2)], .set [], .coll 4 [], .cat [(0, 5), (1, 3)]]⟩
def tA : TxnState := ⟨6, false⟩

/-- the inner call empties the Set and THEN fails -/
def chFail : Choices := { flags := [false, false, false], muts := [{ list := some [], ok := false }] }

/-- `Update` with `namespace = clone.Namespaces[handle]` — the `.Clone()` dropped -/
def pUpdate_noClone : Prog :=
  writable ++ [
    ite (both (isNil (ns "t.catalog" param)) (neg (test "upsert"))) [retOk] [],
    cloneCatalog "clone" "t.catalog",
    ite (isNil (ns "clone" param))
      [newColl "namespace", setNs "clone" param "namespace"]
      [alias "namespace" (ns "clone" param), setNs "clone" param "namespace"]] ++ cloneOplog ++ [
    hUpdate "update" "query", ifErrReturn,
    ite (either (test "len(res.Modified) > 0") (test "res.Upserted != nil")) publish [],
    retOk]

theorem neg_no_clone :
    ownedOK pUpdate_noClone = false ∧
    (run pUpdate_noClone {} chFail (hA, tA)).2.2 = .error ∧
    (run pUpdate_noClone {} chFail (hA, tA)).1.get 1 ≠ hA.get 1 ∧
    observe (run pUpdate_noClone {} chFail (hA, tA)).1 6 ≠ observe hA 6 := by decide +kernel

/-- `Update` whose collection clone shares the Set and the indexes (a wrong `Collection.Clone`) -/
def pUpdate_shallow : Prog :=
  writable ++ [
    ite (both (isNil (ns "t.catalog" param)) (neg (test "upsert"))) [retOk] [],
    cloneCatalog "clone" "t.catalog",
    ite (isNil (ns "clone" param))
      [newColl "namespace", setNs "clone" param "namespace"]
      [shallowColl "namespace" (ns "clone" param), setNs "clone" param "namespace"]] ++ cloneOplog ++ [
    hUpdate "update" "query", ifErrReturn,
    ite (either (test "len(res.Modified) > 0") (test "res.Upserted != nil")) publish [],
    retOk]

theorem neg_shared_set :
    ownedOK pUpdate_shallow = false ∧
    (run pUpdate_shallow {} chFail (hA, tA)).2.2 = .error ∧
    (run pUpdate_shallow {} chFail (hA, tA)).1.get 1 ≠ hA.get 1 ∧
    observe (run pUpdate_shallow {} chFail (hA, tA)).1 6 ≠ observe hA 6 := by decide +kernel

/-- `Replace` with `t.catalog = clone; t.dirty = true` BEFORE `if err != nil { return }` -/
def pReplace_assignFirst : Prog :=
  writable ++ [
    ite (both (isNil (ns "t.catalog" param)) (neg (test "upsert"))) [retOk] [],
    cloneDocs "repl" "repl",
    cloneCatalog "clone" "t.catalog",
    createOrClone] ++ cloneOplog ++ [
    hReplace "repl" "query"] ++ publish ++ [ifErrReturn, retOk]

theorem neg_assign_before_check :
    ownedOK pReplace_assignFirst = false ∧
    (run pReplace_assignFirst {} chFail (hA, tA)).2.2 = .error ∧
    (run pReplace_assignFirst {} chFail (hA, tA)).2.1 ≠ tA ∧
    observe (run pReplace_assignFirst {} chFail (hA, tA)).1 (run pReplace_assignFirst {} chFail (hA, tA)).2.1.catalog
      ≠ observe hA tA.catalog := by decide +kernel

/-- `Insert` with ONE namespace clone shared by all items of the batch -/
def pInsert_shared : Prog :=
  writable ++ [
    cloneDocs "list" "list",
    cloneCatalog "clone" "t.catalog",
    ite (isNil (ns "clone" param)) [setNsNew "clone" param] [],
    cloneColl "namespace" (ns "clone" param),
    loop false [
      cloneColl "oplog" (ns "clone" oplog),
      hInsert,
      ite err [ite (test "ordered") [brk] [cont]] [],
      setNs "clone" param "namespace",
      setNs "clone" oplog "oplog"],
    ite (test "len(result.Modified) > 0") publish [],
    retOk]

/-- two items, unordered: the first stores a half-inserted document 666 and fails, the second succeeds -/
def chBatch (k : Nat) : Choices :=
  { flags := [false, false, false, true], iters := [2], muts := [{ newDocs := [666], list := some [k], ok := false }, ({} : Mut), ({} : Mut)] }
def aBatch : Args := { docs := [("list", [0])] }

/-- the published catalog contains the debris of the FAILED item (and lost document 7) -/
theorem neg_shared_item_clone :
    ownedOK pInsert_shared = false ∧
    (run pInsert_shared aBatch (chBatch 14) (hA, tA)).2.2 = .ok ∧
    observe (run pInsert_shared aBatch (chBatch 14) (hA, tA)).1 (run pInsert_shared aBatch (chBatch 14) (hA, tA)).2.1.catalog
      = some [(0, some ⟨some [], []⟩), (1, some ⟨some [some 666], [("_id_", some [some 7])]⟩)] := by decide +kernel

/-! ## Non-vacuity: the real programs on the same inputs -/

/-- the real `Update` fails at the same point after the same partial mutation — which hit the CLONE (object 8) -/
example : (run pUpdate {} chFail (hA, tA)).2.2 = .error ∧
    (run pUpdate {} chFail (hA, tA)).1.get 8 = some (.set []) ∧
    observe (run pUpdate {} chFail (hA, tA)).1 6 = observe hA 6 ∧ Closed hA := by
  refine ⟨by decide +kernel, by decide +kernel, by decide +kernel, ?_⟩
  intro o x hx p hp
  have : o < 7 := Heap.get_lt _ hx
  revert x p
  revert o
  decide +kernel

/-- the real `Insert` on the batch: the failed item's debris is not published, the successful item is -/
example : (run pInsert aBatch (chBatch 17) (hA, tA)).2.2 = .ok ∧
    (run pInsert aBatch (chBatch 17) (hA, tA)).2.1.dirty = true ∧
    observe (run pInsert aBatch (chBatch 17) (hA, tA)).1 (run pInsert aBatch (chBatch 17) (hA, tA)).2.1.catalog
      = some [(0, some ⟨some [], []⟩), (1, some ⟨some [some 7], [("_id_", some [some 7])]⟩)] := by decide +kernel

/-- an item block reaches its error check (hypothesis `hn` of `insertMany_effect`) with `err` set -/
example : (execL insertItem (initSt {} { muts := [{ ok := false }] } hA tA |>.bind "clone" (some 6))).2 = .next ∧
    (execL insertItem (initSt {} { muts := [{ ok := false }] } hA tA |>.bind "clone" (some 6))).1.env.err = true := by
  decide +kernel


/-- the hypotheses of `failed_call_invisible` are met by the real `Update` at a concrete good state -/
example : Expected.txnPrograms.lookup "Update" = some pUpdate ∧
    (run pUpdate { handle := 1, docs := (allocArgs hA []).2 } chFail ((allocArgs hA []).1, (⟨6, false⟩ : TxnState))).2.2 = .error ∧
    (6 : Nat) < hA.size := by
  refine ⟨by decide +kernel, by decide +kernel, by decide +kernel⟩


/-- `AllFail` is inhabited: the real `Update` failing twice in a row (the second at the state the first left) -/
example : AllFail ⟨hA, ⟨6, false⟩, 6, []⟩ [.call "Update" 1 [] chFail, .call "Update" 1 [] chFail] :=
  ⟨⟨pUpdate, by decide +kernel, by decide +kernel⟩, ⟨pUpdate, by decide +kernel, by decide +kernel⟩, trivial⟩

end Lungo.C02
