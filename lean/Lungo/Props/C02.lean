/-
  Lungo.Props.C02 — A write that reports an error leaves the database exactly as it was.

  Level: the ownership layer (Model/Own.lean).  The programs are `Expected.txnPrograms` — the
  clone/mutate/publish structure of every Transaction write method, regenerated from /repo/transaction.go
  on every run and compared by `tie_txnPrograms` (Ties/TxnPrograms.lean).  In the interpreter every
  `mongokit.Collection` method is an ARBITRARY partial in-place mutation of the receiver's own
  Set / indexes / Indexes map followed by an arbitrary outcome (the Go methods do not roll back), every
  condition that is not a nil/err test is decided by the choice sequence, loops run any number of times.

  Quantifiers: every heap, every transaction state, every argument (handle, caller documents), every
  choice sequence (hence a failure at ANY position inside the call: the k-th matched document, the k-th
  item of a batch, the oplog append after a successful collection write …).
-/
import Lungo.Proofs.OwnRun
import Lungo.Expected.TxnPrograms
namespace Lungo.C02
open Lungo.Own

/-- **owned_sound** (core).  For every program that passes the static ownership check, every object that
    existed before the call — in particular everything reachable from `t.catalog`, from any older catalog,
    from any snapshot root — has the same content after the call, whatever the outcome; the only objects
    that may differ are the caller's own argument documents (`Collection.Insert/Replace` put an `_id` into
    the document they are given).  Objects are never freed.  The transaction's catalog pointer and dirty flag
    are unchanged when the call reports an error. -/
theorem owned_sound (p : Prog) (hp : ownedOK p = true) (a : Args) (ch : Choices) (h : Heap) (t : TxnState) :
    h.size ≤ (run p a ch (h, t)).1.size ∧
    (∀ o, o < h.size → o ∉ a.allDocs → (run p a ch (h, t)).1.get o = h.get o) ∧
    ((run p a ch (h, t)).2.2 = .error → (run p a ch (h, t)).2.1 = t) := by
  obtain ⟨s, e⟩ := run_sound false p hp a ch h t
  exact ⟨s.size, fun o ho hx => s.frozen ho ho (.inr hx), e⟩

/-- **owned_sound_strict.**  If moreover every document the call writes in place was cloned by the call
    (`argsOK`: true of every method except `Bulk`, see `Expected.bulk_args_not_cloned`), NOTHING that existed
    before the call changes. -/
theorem owned_sound_strict (p : Prog) (hp : argsOK p = true) (a : Args) (ch : Choices) (h : Heap) (t : TxnState) :
    h.size ≤ (run p a ch (h, t)).1.size ∧
    Agree h (run p a ch (h, t)).1 ∧
    ((run p a ch (h, t)).2.2 = .error → (run p a ch (h, t)).2.1 = t) := by
  obtain ⟨s, e⟩ := run_sound true p hp a ch h t
  exact ⟨s.size, fun o ho => s.frozen ho ho (.inl rfl), e⟩

/-- **op_error_preserves.**  For each write method (Create, Insert, Replace, Update, Delete, Drop,
    CreateIndex, DropIndex, DropIndexByKey, Bulk, Expire, Clean): if the call returns an error then
    `t.catalog` and `t.dirty` are unchanged and every root that existed before — the transaction's catalog,
    the published catalog, any older catalog or snapshot — observes exactly the same documents, indexes and
    oplog.  (For `Bulk`, whose arguments are not cloned, the caller's documents must not already be part of
    what the root reaches.) -/
theorem op_error_preserves (p : String × Prog) (hp : p ∈ Expected.txnPrograms)
    (a : Args) (ch : Choices) (h : Heap) (t : TxnState) (hc : Closed h)
    (herr : (run p.2 a ch (h, t)).2.2 = .error) :
    (run p.2 a ch (h, t)).2.1.catalog = t.catalog ∧ (run p.2 a ch (h, t)).2.1.dirty = t.dirty ∧
    ∀ root, root < h.size → (p.1 ≠ "Bulk" ∨ ∀ o ∈ a.allDocs, o ∉ reach h root) →
      observe (run p.2 a ch (h, t)).1 root = observe h root := by
  have ho := Expected.expected_owned p hp
  obtain ⟨_, fr, e⟩ := owned_sound p.2 ho a ch h t
  refine ⟨by rw [e herr], by rw [e herr], fun root hr hx => ?_⟩
  rcases hx with hx | hx
  · exact observe_agree hc (owned_sound_strict p.2 (Expected.expected_args p hp hx) a ch h t).2.1 hr
  · exact observe_congr fun q hq => fr q (reach_lt hc hr q hq) fun hm => hx q hm hq

/-- the same for a successful call: whatever it did, it did to fresh objects; what older roots observe is
    unchanged (this is what makes earlier snapshots immutable, C03) -/
theorem op_preserves_old_roots (p : String × Prog) (hp : p ∈ Expected.txnPrograms) (hb : p.1 ≠ "Bulk")
    (a : Args) (ch : Choices) (h : Heap) (t : TxnState) (hc : Closed h) :
    ∀ root, root < h.size → observe (run p.2 a ch (h, t)).1 root = observe h root := fun _ hr =>
  observe_agree hc (owned_sound_strict p.2 (Expected.expected_args p hp hb) a ch h t).2.1 hr

end Lungo.C02
