/-
  C18 — GridFS returns the bytes that were uploaded, at any offset.

  Property theorems over the model `Lungo.Model.GridFS` (mirror of /repo/bucket.go) and the
  specs `Lungo.Spec.Chunks` (the demanded chunking) and `Lungo.Spec.Reader` (bytes.Reader).
  Hypotheses common to the upload theorems:
    0 < c            the chunk size is positive (the real upload() loop does not terminate for c = 0
                     and panics for c < 0; DownloadStream.load rejects c ≤ 0)
    c ≤ B            the chunk size does not exceed the upload buffer (B = gridfs.UploadBufferSize =
                     16 MiB in the real code).  For c > B the real Write spins forever once the buffer
                     is full; the model reports `Err.diverged` (see `write_diverges_when_chunk_exceeds_buffer`).
    the file id is fresh in the store (no chunk, file or marker document carries it).
-/
import Lungo.Proofs.GridFSUpload
import Lungo.Proofs.GridFSLifecycle
import Lungo.Proofs.GridFSDownload
import Lungo.Spec.Reader
namespace Lungo.C18
open Lungo.GridFS Lungo.Spec

/-- **upload_chunks.**  For every content, chunk size c > 0 (c ≤ B), and every partition `ws` of the
    content into writes, an untracked upload (open; Write each piece; Close) succeeds and afterwards
    * the `.chunks` documents of the file, in `n` order, are exactly n = ⌈L/c⌉ documents, document i
      being numbered i and holding content[i·c, min((i+1)·c, L));  all but the last have c bytes and
      the last has between 1 and c bytes;
    * they were appended to the collection, every other chunk document is untouched;
    * the file record ⟨id, L, c⟩ was added, no marker was written. -/
theorem upload_chunks (st : Store) (id c B : Nat) (hc : 0 < c) (hcB : c ≤ B)
    (hC : ∀ d ∈ st.chunks, d.file ≠ id) (hF : ∀ f ∈ st.files, f.id ≠ id) (hM : ∀ m ∈ st.markers, m.file ≠ id)
    (hfresh : ∀ m ∈ st.markers, m.id < st.nextId)
    (content : Bytes) (ws : List Bytes) (hws : ws.flatten = content) :
    (uploadAll st false id c B ws).2 = none ∧
    (uploadAll st false id c B ws).1.files = st.files ++ [⟨id, content.length, c⟩] ∧
    (uploadAll st false id c B ws).1.markers = st.markers ∧
    (uploadAll st false id c B ws).1.chunks = st.chunks ++ (uploadAll st false id c B ws).1.chunksOfFile id ∧
    ((uploadAll st false id c B ws).1.chunksOfFile id).length = (content.length + c - 1) / c ∧
    (∀ i, i < (content.length + c - 1) / c →
      ((uploadAll st false id c B ws).1.chunksOfFile id)[i]? = some ⟨id, i, (content.drop (i * c)).take c⟩) ∧
    (∀ i, i + 1 < (content.length + c - 1) / c → ((content.drop (i * c)).take c).length = c) ∧
    (∀ i, i < (content.length + c - 1) / c →
      0 < ((content.drop (i * c)).take c).length ∧ ((content.drop (i * c)).take c).length ≤ c) := by
  obtain ⟨h1, h2, h3, h4⟩ := uploadAll_untracked st id c B hc hcB hC hF hM hfresh ws
  rw [hws] at h2 h3
  have hcf := chunksOfFile_eq _ st.chunks id _ h2 hC
  have hlen := length_chunksOf c hc content
  refine ⟨h1, h3, h4, by rw [hcf]; exact h2, by rw [hcf, length_mkDocs]; exact hlen, ?_, ?_, ?_⟩
  · intro i hi
    rw [hcf, getElem?_mkDocs, getElem?_chunksOf c hc content i (by rw [hlen]; exact hi)]
    simp
  · intro i hi
    have hb := length_chunksOf_bounds c hc content.length content (Nat.le_refl _)
    rw [hlen] at hb
    have : (i + 1) * c ≤ content.length := by
      have h1 : (i + 2) * c ≤ ((content.length + c - 1) / c) * c := Nat.mul_le_mul_right c (by omega)
      have h2 : (i + 2) * c = (i + 1) * c + c := by rw [Nat.succ_mul]
      omega
    rw [Nat.succ_mul] at this
    simp [List.length_take, List.length_drop]; omega
  · intro i hi
    have hmem : (content.drop (i * c)).take c ∈ chunksOf c content :=
      List.mem_of_getElem? (getElem?_chunksOf c hc content i (by rw [hlen]; exact hi))
    exact chunksOf_ne_nil_mem c hc content.length content (Nat.le_refl _) _ hmem

/-- **upload_partition_independent.**  The stored documents do not depend on how the content was
    split into writes. -/
theorem upload_partition_independent (st : Store) (id c B : Nat) (hc : 0 < c) (hcB : c ≤ B)
    (hC : ∀ d ∈ st.chunks, d.file ≠ id) (hF : ∀ f ∈ st.files, f.id ≠ id) (hM : ∀ m ∈ st.markers, m.file ≠ id)
    (hfresh : ∀ m ∈ st.markers, m.id < st.nextId)
    (ws ws' : List Bytes) (h : ws.flatten = ws'.flatten) :
    (uploadAll st false id c B ws).2 = (uploadAll st false id c B ws').2 ∧
    (uploadAll st false id c B ws).1.chunks = (uploadAll st false id c B ws').1.chunks ∧
    (uploadAll st false id c B ws).1.files = (uploadAll st false id c B ws').1.files ∧
    (uploadAll st false id c B ws).1.markers = (uploadAll st false id c B ws').1.markers := by
  obtain ⟨a1, a2, a3, a4⟩ := uploadAll_untracked st id c B hc hcB hC hF hM hfresh ws
  obtain ⟨b1, b2, b3, b4⟩ := uploadAll_untracked st id c B hc hcB hC hF hM hfresh ws'
  rw [a1, a2, a3, a4, b1, b2, b3, b4, h]
  exact ⟨rfl, rfl, rfl, rfl⟩

/-- **download_simulates.**  Over a store that holds the file record ⟨id, L, c⟩ and the spec chunking of
    `content` (which is what `upload_chunks` establishes), OpenDownloadStream succeeds and every script
    of Read / Seek / Skip operations (whence ∈ {0,1,2}) yields, step by step, the same bytes, the same
    returned count or position, the same position afterwards and the corresponding error (none, io.EOF,
    negative position) as the same script on the in-memory reader of `content`.  The relation carried
    through the induction is `Sim` (Proofs/GridFSDownload.lean). -/
theorem download_simulates (st : Store) (id c : Nat) (content : Bytes) (hc : 0 < c)
    (hfile : st.findFile id = some ⟨id, content.length, c⟩)
    (hchunks : st.chunksOfFile id = mkDocs id 0 (chunksOf c content))
    (script : List ROp) (hvalid : ∀ op ∈ script, op.valid) :
    ∃ ds, DownloadStream.open st id = .ok ds ∧
      Forall2 OutMatch (ds.run st script) (Reader.run ⟨content, 0⟩ script) := by
  have wf : WF st id c content := ⟨hc, hfile, hchunks⟩
  obtain ⟨ds, h1, h2⟩ := sim_open wf
  exact ⟨ds, h1, sim_run wf script ds _ h2 hvalid⟩

/-- end-to-end: upload any partition of `content`, then run any script on the download stream -/
theorem upload_then_download (st : Store) (id c B : Nat) (hc : 0 < c) (hcB : c ≤ B)
    (hC : ∀ d ∈ st.chunks, d.file ≠ id) (hF : ∀ f ∈ st.files, f.id ≠ id) (hM : ∀ m ∈ st.markers, m.file ≠ id)
    (hfresh : ∀ m ∈ st.markers, m.id < st.nextId)
    (content : Bytes) (ws : List Bytes) (hws : ws.flatten = content)
    (script : List ROp) (hvalid : ∀ op ∈ script, op.valid) :
    ∃ ds, DownloadStream.open (uploadAll st false id c B ws).1 id = .ok ds ∧
      Forall2 OutMatch (ds.run (uploadAll st false id c B ws).1 script) (Reader.run ⟨content, 0⟩ script) := by
  obtain ⟨_, h2, h3, _⟩ := uploadAll_untracked st id c B hc hcB hC hF hM hfresh ws
  rw [hws] at h2 h3
  apply download_simulates _ id c content hc _ (chunksOfFile_eq _ st.chunks id _ h2 hC) script hvalid
  unfold Store.findFile
  rw [h3, List.find?_append]
  have : st.files.find? (fun f => f.id == id) = none := by
    rw [List.find?_eq_none]; intro f hf; simp [hF f hf]
  rw [this]; simp

/-- **abort_leaves_nothing.**  Open an upload (tracked or not) on a store without documents of the file,
    write anything, Abort: the chunk, file and marker collections are exactly what they were. -/
theorem abort_leaves_nothing (st : Store) (tracked : Bool) (id c B : Nat) (hc : 0 < c) (hcB : c ≤ B)
    (hC : ∀ d ∈ st.chunks, d.file ≠ id) (hM : ∀ m ∈ st.markers, m.file ≠ id)
    (hfresh : ∀ m ∈ st.markers, m.id < st.nextId) (ws : List Bytes) :
    (writeAll st (UploadStream.new tracked id c B) ws).2.2 = none ∧
    (((writeAll st (UploadStream.new tracked id c B) ws).2.1).abort (writeAll st (UploadStream.new tracked id c B) ws).1).2.2 = none ∧
    (((writeAll st (UploadStream.new tracked id c B) ws).2.1).abort (writeAll st (UploadStream.new tracked id c B) ws).1).1.chunks = st.chunks ∧
    (((writeAll st (UploadStream.new tracked id c B) ws).2.1).abort (writeAll st (UploadStream.new tracked id c B) ws).1).1.files = st.files ∧
    (((writeAll st (UploadStream.new tracked id c B) ws).2.1).abort (writeAll st (UploadStream.new tracked id c B) ws).1).1.markers = st.markers := by
  have env : Env st.chunks st.markers id c B := ⟨hc, hcB, hC, hM⟩
  have inv0 : UpInv st.chunks st.files st.markers id c B tracked st (UploadStream.new tracked id c B) [] [] :=
    UpInv.init st rfl rfl rfl hfresh
  obtain ⟨D, _, w1, w2, _⟩ := writeAll_ok env ws st _ [] [] inv0 (by intro d hd; cases hd)
    (by show (0 : Nat) < B; omega)
  obtain ⟨a1, a2, a3, a4⟩ := abort_ok env w2
  exact ⟨w1, a1, a2, a3, a4⟩

/-- **delete_leaves_nothing.**  After a completed (untracked) upload, Delete removes the file record and
    every chunk of the file and nothing else. -/
theorem delete_leaves_nothing (st : Store) (id c B : Nat) (hc : 0 < c) (hcB : c ≤ B)
    (hC : ∀ d ∈ st.chunks, d.file ≠ id) (hF : ∀ f ∈ st.files, f.id ≠ id) (hM : ∀ m ∈ st.markers, m.file ≠ id)
    (hfresh : ∀ m ∈ st.markers, m.id < st.nextId) (ws : List Bytes) :
    (delete (uploadAll st false id c B ws).1 false id).2 = none ∧
    (delete (uploadAll st false id c B ws).1 false id).1.chunks = st.chunks ∧
    (delete (uploadAll st false id c B ws).1 false id).1.files = st.files ∧
    (delete (uploadAll st false id c B ws).1 false id).1.markers = st.markers := by
  obtain ⟨_, h2, h3, h4⟩ := uploadAll_untracked st id c B hc hcB hC hF hM hfresh ws
  have hfind : ((uploadAll st false id c B ws).1.findFile id).isSome = true := by
    unfold Store.findFile
    rw [h3, List.find?_append]
    have : st.files.find? (fun f => f.id == id) = none := by
      rw [List.find?_eq_none]; intro f hf; simp [hF f hf]
    rw [this]; simp
  unfold delete
  simp only [Bool.false_eq_true, if_false, hfind, if_true]
  refine ⟨trivial, ?_, ?_, h4⟩
  · simp only [Store.deleteChunks, Store.deleteFile, h2]
    exact filter_ne_append_mkDocs st.chunks id _ 0 hC
  · simp only [Store.deleteChunks, Store.deleteFile, h3]
    rw [List.filter_append]
    have : st.files.filter (fun f => f.id != id) = st.files := by
      rw [List.filter_eq_self]; intro f hf; simp [hF f hf]
    rw [this]; simp

/-- **resume_equivalent.**  A tracked upload carried out in any number of segments (each segment: new
    stream, Resume — or start over when there is nothing to resume —, some writes of arbitrary sizes
    continuing at the offset returned by Resume, Suspend), finished by a final segment (Resume, writes,
    the remaining content, Close) and ClaimUpload, succeeds and leaves exactly the documents of a plain
    upload of `content` without suspensions, for every partition `ws` of the content. -/
theorem resume_equivalent (st : Store) (id c B : Nat) (hc : 0 < c) (hcB : c ≤ B)
    (hC : ∀ d ∈ st.chunks, d.file ≠ id) (hF : ∀ f ∈ st.files, f.id ≠ id) (hM : ∀ m ∈ st.markers, m.file ≠ id)
    (hfresh : ∀ m ∈ st.markers, m.id < st.nextId)
    (content : Bytes) (plan : List (List Nat)) (last : List Nat) (ws : List Bytes) (hws : ws.flatten = content) :
    (trackedUpload st content id c B plan last).2 = none ∧
    (trackedUpload st content id c B plan last).1.chunks = (uploadAll st false id c B ws).1.chunks ∧
    (trackedUpload st content id c B plan last).1.files = (uploadAll st false id c B ws).1.files ∧
    (trackedUpload st content id c B plan last).1.markers = (uploadAll st false id c B ws).1.markers := by
  obtain ⟨a1, a2, a3, a4⟩ := trackedUpload_ok st id c B hc hcB hC hF hM hfresh content plan last
  obtain ⟨_, b2, b3, b4⟩ := uploadAll_untracked st id c B hc hcB hC hF hM hfresh ws
  rw [hws] at b2 b3
  exact ⟨a1, by rw [a2, b2], by rw [a3, b3], by rw [a4, b4]⟩

/-- **delete_tracked_leaves_nothing.**  On a tracked bucket (with no other marker pending) Delete only
    writes a marker; the following Cleanup removes the file record, every chunk of the file and the marker. -/
theorem delete_tracked_leaves_nothing (st : Store) (id c B : Nat) (hc : 0 < c) (hcB : c ≤ B)
    (hC : ∀ d ∈ st.chunks, d.file ≠ id) (hF : ∀ f ∈ st.files, f.id ≠ id) (hM : st.markers = [])
    (content : Bytes) (plan : List (List Nat)) (last : List Nat) :
    (delete (trackedUpload st content id c B plan last).1 true id).2 = none ∧
    (cleanup (delete (trackedUpload st content id c B plan last).1 true id).1 true).2 = none ∧
    (cleanup (delete (trackedUpload st content id c B plan last).1 true id).1 true).1.chunks = st.chunks ∧
    (cleanup (delete (trackedUpload st content id c B plan last).1 true id).1 true).1.files = st.files ∧
    (cleanup (delete (trackedUpload st content id c B plan last).1 true id).1 true).1.markers = [] := by
  obtain ⟨_, a2, a3, a4⟩ := trackedUpload_ok st id c B hc hcB hC hF (by rw [hM]; simp) (by rw [hM]; simp) content plan last
  rw [hM] at a4
  generalize trackedUpload st content id c B plan last = r at a2 a3 a4
  obtain ⟨st1, e⟩ := r
  simp only at a2 a3 a4
  obtain ⟨files, chunks, markers, nextId⟩ := st1
  simp only at a2 a3 a4
  subst a2 a3 a4
  have hf : (st.files ++ [(⟨id, content.length, c⟩ : FileDoc)]).filter (fun f => f.id != id) = st.files := by
    rw [List.filter_append]
    have : st.files.filter (fun f => f.id != id) = st.files := by
      rw [List.filter_eq_self]; intro f hf; simp [hF f hf]
    rw [this]; simp
  have hch := filter_ne_append_mkDocs st.chunks id (chunksOf c content) 0 hC
  simp [delete, Store.findMarker, Store.insertMarker, cleanup, cleanupLoop, Store.deleteFile, Store.deleteChunks,
    Store.deleteMarkerById, hf, hch]

/-! ### Boundary of the property (behaviours of the code that the hypotheses exclude) -/

/-- DownloadStream.Seek accepts an unknown `whence` and seeks to position 0, where the in-memory reader
    (bytes.Reader) reports an error and stays where it is. -/
theorem seek_invalid_whence (st : Store) (ds : DownloadStream) (r : Reader) (o w : Int)
    (hcl : ds.closed = false) (hw : w ≠ 0 ∧ w ≠ 1 ∧ w ≠ 2) :
    ds.seek st o w = ds.seekPos st 0 ∧ r.seek o w = (r, 0, some .invalidWhence) := by
  obtain ⟨h0, h1, h2⟩ := hw
  unfold DownloadStream.seek Reader.seek
  rw [hcl]
  simp [h0, h1, h2]

/-- For a chunk size above the buffer size the Write loop makes no progress once the buffer is full
    (the model's fuel runs out; the real code spins forever). -/
example : (UploadStream.write {} (UploadStream.new false 1 3 2) [1, 2, 3]).2.2.2 = some .diverged := by decide

/-! ### Non-vacuity: concrete instances meet the hypotheses, and the model computes the expected values -/

/-- 13 bytes, c = 4, B = 8, writes of 5 and 8 bytes: chunks 4+4+4+1 -/
example :
    (uploadAll {} false 1 4 8 [[1, 2, 3, 4, 5], [6, 7, 8, 9, 10, 11, 12, 13]]).1.chunks =
      [⟨1, 0, [1, 2, 3, 4]⟩, ⟨1, 1, [5, 6, 7, 8]⟩, ⟨1, 2, [9, 10, 11, 12]⟩, ⟨1, 3, [13]⟩] ∧
    (uploadAll {} false 1 4 8 [[1, 2, 3, 4, 5], [6, 7, 8, 9, 10, 11, 12, 13]]).1.files = [⟨1, 13, 4⟩] := by decide

example := upload_chunks {} 1 4 8 (by decide) (by decide) (by simp) (by simp) (by simp) (by simp)
  [1, 2, 3, 4, 5, 6, 7, 8, 9, 10, 11, 12, 13] [[1, 2, 3, 4, 5], [6, 7, 8, 9, 10, 11, 12, 13]] rfl

example := upload_partition_independent {} 1 4 8 (by decide) (by decide) (by simp) (by simp) (by simp) (by simp)
  [[1, 2, 3, 4, 5], [6, 7, 8, 9, 10, 11, 12, 13]] [[1], [], [2, 3, 4, 5, 6, 7, 8, 9, 10, 11, 12], [13]] rfl

/-- a script with reads across chunk boundaries, seeks from all three origins, a negative target and EOF -/
example := upload_then_download {} 1 4 8 (by decide) (by decide) (by simp) (by simp) (by simp) (by simp)
  [1, 2, 3, 4, 5, 6, 7, 8, 9, 10, 11, 12, 13] [[1, 2, 3, 4, 5], [6, 7, 8, 9, 10, 11, 12, 13]] rfl
  [.read 5, .seek (-3) 2, .read 10, .read 1, .skip (-20), .seek 6 0, .seek 1 1, .read 0, .read 3]
  (by intro op h; simp at h; rcases h with h | h | h | h | h | h | h | h | h <;> subst h <;> simp [ROp.valid])

/-- the reader side of that script, computed -/
example : (Reader.run ⟨[1, 2, 3, 4, 5, 6, 7, 8, 9, 10, 11, 12, 13], 0⟩
    [.read 5, .seek (-3) 2, .read 10, .read 1, .skip (-20), .seek 6 0]).map (fun o => (o.bytes, o.ret, o.err)) =
    [([1, 2, 3, 4, 5], 5, none), ([], 10, none), ([11, 12, 13], 3, none), ([], 0, some .eof),
     ([], 0, some .negPos), ([], 6, none)] := by decide

example := abort_leaves_nothing {} true 1 4 8 (by decide) (by decide) (by simp) (by simp) (by simp)
  [[1, 2, 3, 4, 5], [6, 7, 8, 9, 10]]

example := delete_leaves_nothing {} 1 4 8 (by decide) (by decide) (by simp) (by simp) (by simp) (by simp)
  [[1, 2, 3, 4, 5], [6, 7, 8, 9, 10]]

example := delete_tracked_leaves_nothing {} 1 4 8 (by decide) (by decide) (by simp) (by simp) rfl
  [1, 2, 3, 4, 5, 6, 7, 8, 9, 10] [[3]] []

/-- two suspensions (after 6 and after 3 more bytes), then the rest -/
example := resume_equivalent {} 1 4 8 (by decide) (by decide) (by simp) (by simp) (by simp) (by simp)
  [1, 2, 3, 4, 5, 6, 7, 8, 9, 10, 11, 12, 13] [[5, 1], [3]] [2] [[1, 2, 3, 4, 5, 6, 7, 8, 9, 10, 11, 12, 13]] rfl

/-- suspending after 6 bytes persists one chunk of 4 and drops the 2 buffered bytes -/
example : (trackedSegments [1, 2, 3, 4, 5, 6, 7, 8, 9, 10, 11, 12, 13] 1 4 8 {} [[5, 1]]).1.chunks = [⟨1, 0, [1, 2, 3, 4]⟩] := by decide

end Lungo.C18
