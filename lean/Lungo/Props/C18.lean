/-
  C18 — GridFS returns the bytes that were uploaded, at any offset.

  Property theorems over the model `Lungo.Model.GridFS` (mirror of /repo/bucket.go) and the
  specs `Lungo.Spec.Chunks` (the demanded chunking) and `Lungo.Spec.Reader` (bytes.Reader).
  Hypotheses common to the upload theorems:
    0 < c            the chunk size is positive (the real upload() loop does not terminate for c = 0
                     and panics for c < 0; DownloadStream.load rejects c ≤ 0)
    c ≤ B            the chunk size does not exceed the upload buffer (B = gridfs.UploadBufferSize =
                     16 MiB in the real code).  For c > B the real Write spins forever once the buffer
                     is full; the model reports `Err.diverged` (see `write_diverges_when_chunk_exceeds_buffer`).
    the file id is fresh in the store (no chunk, file or marker document carries it).
-/
import Lungo.Proofs.GridFSUpload
import Lungo.Spec.Reader
namespace Lungo.C18
open Lungo.GridFS Lungo.Spec

/-- **upload_chunks.**  For every content, chunk size c > 0 (c ≤ B), and every partition `ws` of the
    content into writes, an untracked upload (open; Write each piece; Close) succeeds and afterwards
    * the `.chunks` documents of the file, in `n` order, are exactly n = ⌈L/c⌉ documents, document i
      being numbered i and holding content[i·c, min((i+1)·c, L));  all but the last have c bytes and
      the last has between 1 and c bytes;
    * they were appended to the collection, every other chunk document is untouched;
    * the file record ⟨id, L, c⟩ was added, no marker was written. -/
theorem upload_chunks (st : Store) (id c B : Nat) (hc : 0 < c) (hcB : c ≤ B)
    (hC : ∀ d ∈ st.chunks, d.file ≠ id) (hF : ∀ f ∈ st.files, f.id ≠ id) (hM : ∀ m ∈ st.markers, m.file ≠ id)
    (hfresh : ∀ m ∈ st.markers, m.id < st.nextId)
    (content : Bytes) (ws : List Bytes) (hws : ws.flatten = content) :
    (uploadAll st false id c B ws).2 = none ∧
    (uploadAll st false id c B ws).1.files = st.files ++ [⟨id, content.length, c⟩] ∧
    (uploadAll st false id c B ws).1.markers = st.markers ∧
    (uploadAll st false id c B ws).1.chunks = st.chunks ++ (uploadAll st false id c B ws).1.chunksOfFile id ∧
    ((uploadAll st false id c B ws).1.chunksOfFile id).length = (content.length + c - 1) / c ∧
    (∀ i, i < (content.length + c - 1) / c →
      ((uploadAll st false id c B ws).1.chunksOfFile id)[i]? = some ⟨id, i, (content.drop (i * c)).take c⟩) ∧
    (∀ i, i + 1 < (content.length + c - 1) / c → ((content.drop (i * c)).take c).length = c) ∧
    (∀ i, i < (content.length + c - 1) / c →
      0 < ((content.drop (i * c)).take c).length ∧ ((content.drop (i * c)).take c).length ≤ c) := by
  obtain ⟨h1, h2, h3, h4⟩ := uploadAll_untracked st id c B hc hcB hC hF hM hfresh ws
  rw [hws] at h2 h3
  have hcf := chunksOfFile_eq _ st.chunks id _ h2 hC
  have hlen := length_chunksOf c hc content
  refine ⟨h1, h3, h4, by rw [hcf]; exact h2, by rw [hcf, length_mkDocs]; exact hlen, ?_, ?_, ?_⟩
  · intro i hi
    rw [hcf, getElem?_mkDocs, getElem?_chunksOf c hc content i (by rw [hlen]; exact hi)]
    simp
  · intro i hi
    have hb := length_chunksOf_bounds c hc content.length content (Nat.le_refl _)
    rw [hlen] at hb
    have : (i + 1) * c ≤ content.length := by
      have h1 : (i + 2) * c ≤ ((content.length + c - 1) / c) * c := Nat.mul_le_mul_right c (by omega)
      have h2 : (i + 2) * c = (i + 1) * c + c := by rw [Nat.succ_mul]
      omega
    rw [Nat.succ_mul] at this
    simp [List.length_take, List.length_drop]; omega
  · intro i hi
    have hmem : (content.drop (i * c)).take c ∈ chunksOf c content :=
      List.mem_of_getElem? (getElem?_chunksOf c hc content i (by rw [hlen]; exact hi))
    exact chunksOf_ne_nil_mem c hc content.length content (Nat.le_refl _) _ hmem

end Lungo.C18
