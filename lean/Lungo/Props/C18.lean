/-
  C18 — GridFS returns the bytes that were uploaded, at any offset.

  Property theorems over the model `Lungo.Model.GridFS` (mirror of /repo/bucket.go) and the
  specs `Lungo.Spec.Chunks` (the demanded chunking) and `Lungo.Spec.Reader` (bytes.Reader).
  Hypotheses common to the upload theorems:
    0 < c ≤ B        the chunk size is positive and does not exceed the upload buffer (B =
                     gridfs.UploadBufferSize = 16 MiB in the real code).  OpenUploadStreamWithID rejects
                     every other chunk size before anything is stored (`open_rejects_bad_chunk_size`,
                     `upload_rejects_bad_chunk_size`), and accepts exactly these (`open_accepts_good_chunk_size`),
                     so the hypothesis is the precondition of having a stream at all.
    the file id is fresh in the store (no chunk, file or marker document carries it).
-/
import Lungo.Proofs.GridFSUpload
import Lungo.Proofs.GridFSLifecycle
import Lungo.Proofs.GridFSDownload
import Lungo.Spec.Reader
namespace Lungo.C18
open Lungo.GridFS Lungo.Spec

/-- **upload_chunks.**  For every content, chunk size c > 0 (c ≤ B), and every partition `ws` of the
    content into writes, an untracked upload (open; Write each piece; Close) succeeds and afterwards
    * the `.chunks` documents of the file, in `n` order, are exactly n = ⌈L/c⌉ documents, document i
      being numbered i and holding content[i·c, min((i+1)·c, L));  all but the last have c bytes and
      the last has between 1 and c bytes;
    * they were appended to the collection, every other chunk document is untouched;
    * the file record ⟨id, L, c⟩ was added, no marker was written. -/
theorem upload_chunks (st : Store) (id c B : Nat) (hc : 0 < c) (hcB : c ≤ B)
    (hC : ∀ d ∈ st.chunks, d.file ≠ id) (hF : ∀ f ∈ st.files, f.id ≠ id) (hM : ∀ m ∈ st.markers, m.file ≠ id)
    (hfresh : ∀ m ∈ st.markers, m.id < st.nextId)
    (content : Bytes) (ws : List Bytes) (hws : ws.flatten = content) :
    (uploadAll st false id c B ws).2 = none ∧
    (uploadAll st false id c B ws).1.files = st.files ++ [⟨id, content.length, c⟩] ∧
    (uploadAll st false id c B ws).1.markers = st.markers ∧
    (uploadAll st false id c B ws).1.chunks = st.chunks ++ (uploadAll st false id c B ws).1.chunksOfFile id ∧
    ((uploadAll st false id c B ws).1.chunksOfFile id).length = (content.length + c - 1) / c ∧
    (∀ i, i < (content.length + c - 1) / c →
      ((uploadAll st false id c B ws).1.chunksOfFile id)[i]? = some ⟨id, i, (content.drop (i * c)).take c⟩) ∧
    (∀ i, i + 1 < (content.length + c - 1) / c → ((content.drop (i * c)).take c).length = c) ∧
    (∀ i, i < (content.length + c - 1) / c →
      0 < ((content.drop (i * c)).take c).length ∧ ((content.drop (i * c)).take c).length ≤ c) := by
  obtain ⟨h1, h2, h3, h4⟩ := uploadAll_untracked st id c B hc hcB hC hF hM hfresh ws
  rw [hws] at h2 h3
  have hcf := chunksOfFile_eq _ st.chunks id _ h2 hC
  have hlen := length_chunksOf c hc content
  refine ⟨h1, h3, h4, by rw [hcf]; exact h2, by rw [hcf, length_mkDocs]; exact hlen, ?_, ?_, ?_⟩
  · intro i hi
    rw [hcf, getElem?_mkDocs, getElem?_chunksOf c hc content i (by rw [hlen]; exact hi)]
    simp
  · intro i hi
    have hb := length_chunksOf_bounds c hc content.length content (Nat.le_refl _)
    rw [hlen] at hb
    have : (i + 1) * c ≤ content.length := by
      have h1 : (i + 2) * c ≤ ((content.length + c - 1) / c) * c := Nat.mul_le_mul_right c (by omega)
      have h2 : (i + 2) * c = (i + 1) * c + c := by rw [Nat.succ_mul]
      omega
    rw [Nat.succ_mul] at this
    simp [List.length_take, List.length_drop]; omega
  · intro i hi
    have hmem : (content.drop (i * c)).take c ∈ chunksOf c content :=
      List.mem_of_getElem? (getElem?_chunksOf c hc content i (by rw [hlen]; exact hi))
    exact chunksOf_ne_nil_mem c hc content.length content (Nat.le_refl _) _ hmem

/-- **upload_partition_independent.**  The stored documents do not depend on how the content was
    split into writes. -/
theorem upload_partition_independent (st : Store) (id c B : Nat) (hc : 0 < c) (hcB : c ≤ B)
    (hC : ∀ d ∈ st.chunks, d.file ≠ id) (hF : ∀ f ∈ st.files, f.id ≠ id) (hM : ∀ m ∈ st.markers, m.file ≠ id)
    (hfresh : ∀ m ∈ st.markers, m.id < st.nextId)
    (ws ws' : List Bytes) (h : ws.flatten = ws'.flatten) :
    (uploadAll st false id c B ws).2 = (uploadAll st false id c B ws').2 ∧
    (uploadAll st false id c B ws).1.chunks = (uploadAll st false id c B ws').1.chunks ∧
    (uploadAll st false id c B ws).1.files = (uploadAll st false id c B ws').1.files ∧
    (uploadAll st false id c B ws).1.markers = (uploadAll st false id c B ws').1.markers := by
  obtain ⟨a1, a2, a3, a4⟩ := uploadAll_untracked st id c B hc hcB hC hF hM hfresh ws
  obtain ⟨b1, b2, b3, b4⟩ := uploadAll_untracked st id c B hc hcB hC hF hM hfresh ws'
  rw [a1, a2, a3, a4, b1, b2, b3, b4, h]
  exact ⟨rfl, rfl, rfl, rfl⟩

/-- **download_simulates.**  Over a store that holds the file record ⟨id, L, c⟩ and the spec chunking of
    `content` (which is what `upload_chunks` establishes), OpenDownloadStream succeeds and every script
    of Read / Seek / Skip operations — any offsets, any whence — yields, step by step, the same bytes, the
    same returned count or position, the same position afterwards and the corresponding error (none,
    io.EOF, negative position, invalid whence) as the same script on the in-memory reader of `content`.  The relation carried
    through the induction is `Sim` (Proofs/GridFSDownload.lean). -/
theorem download_simulates (st : Store) (id c : Nat) (content : Bytes) (hc : 0 < c)
    (hfile : st.findFile id = some ⟨id, content.length, c⟩)
    (hchunks : st.chunksOfFile id = mkDocs id 0 (chunksOf c content))
    (script : List ROp) :
    ∃ ds, DownloadStream.open st id = .ok ds ∧
      Forall2 OutMatch (ds.run st script) (Reader.run ⟨content, 0⟩ script) := by
  have wf : WF st id c content := ⟨hc, hfile, hchunks⟩
  obtain ⟨ds, h1, h2⟩ := sim_open wf
  exact ⟨ds, h1, sim_run wf script ds _ h2⟩

/-- end-to-end: upload any partition of `content`, then run any script on the download stream -/
theorem upload_then_download (st : Store) (id c B : Nat) (hc : 0 < c) (hcB : c ≤ B)
    (hC : ∀ d ∈ st.chunks, d.file ≠ id) (hF : ∀ f ∈ st.files, f.id ≠ id) (hM : ∀ m ∈ st.markers, m.file ≠ id)
    (hfresh : ∀ m ∈ st.markers, m.id < st.nextId)
    (content : Bytes) (ws : List Bytes) (hws : ws.flatten = content)
    (script : List ROp) :
    ∃ ds, DownloadStream.open (uploadAll st false id c B ws).1 id = .ok ds ∧
      Forall2 OutMatch (ds.run (uploadAll st false id c B ws).1 script) (Reader.run ⟨content, 0⟩ script) := by
  obtain ⟨_, h2, h3, _⟩ := uploadAll_untracked st id c B hc hcB hC hF hM hfresh ws
  rw [hws] at h2 h3
  apply download_simulates _ id c content hc _ (chunksOfFile_eq _ st.chunks id _ h2 hC) script
  unfold Store.findFile
  rw [h3, List.find?_append]
  have : st.files.find? (fun f => f.id == id) = none := by
    rw [List.find?_eq_none]; intro f hf; simp [hF f hf]
  rw [this]; simp

/-- **abort_leaves_nothing.**  Open an upload (tracked or not) on a store without documents of the file,
    write anything, Abort: the chunk, file and marker collections are exactly what they were. -/
theorem abort_leaves_nothing (st : Store) (tracked : Bool) (id c B : Nat) (hc : 0 < c) (hcB : c ≤ B)
    (hC : ∀ d ∈ st.chunks, d.file ≠ id) (hM : ∀ m ∈ st.markers, m.file ≠ id)
    (hfresh : ∀ m ∈ st.markers, m.id < st.nextId) (ws : List Bytes) :
    (writeAll st (UploadStream.new tracked id c B) ws).2.2 = none ∧
    (((writeAll st (UploadStream.new tracked id c B) ws).2.1).abort (writeAll st (UploadStream.new tracked id c B) ws).1).2.2 = none ∧
    (((writeAll st (UploadStream.new tracked id c B) ws).2.1).abort (writeAll st (UploadStream.new tracked id c B) ws).1).1.chunks = st.chunks ∧
    (((writeAll st (UploadStream.new tracked id c B) ws).2.1).abort (writeAll st (UploadStream.new tracked id c B) ws).1).1.files = st.files ∧
    (((writeAll st (UploadStream.new tracked id c B) ws).2.1).abort (writeAll st (UploadStream.new tracked id c B) ws).1).1.markers = st.markers := by
  have env : Env st.chunks st.markers id c B := ⟨hc, hcB, hC, hM⟩
  have inv0 : UpInv st.chunks st.files st.markers id c B tracked st (UploadStream.new tracked id c B) [] [] :=
    UpInv.init st rfl rfl rfl hfresh
  obtain ⟨D, _, w1, w2, _⟩ := writeAll_ok env ws st _ [] [] inv0 (by intro d hd; cases hd)
    (by show (0 : Nat) < B; omega)
  obtain ⟨a1, a2, a3, a4⟩ := abort_ok env w2
  exact ⟨w1, a1, a2, a3, a4⟩

/-- **delete_leaves_nothing.**  After a completed (untracked) upload, Delete removes the file record and
    every chunk of the file and nothing else. -/
theorem delete_leaves_nothing (st : Store) (id c B : Nat) (hc : 0 < c) (hcB : c ≤ B)
    (hC : ∀ d ∈ st.chunks, d.file ≠ id) (hF : ∀ f ∈ st.files, f.id ≠ id) (hM : ∀ m ∈ st.markers, m.file ≠ id)
    (hfresh : ∀ m ∈ st.markers, m.id < st.nextId) (ws : List Bytes) :
    (delete (uploadAll st false id c B ws).1 false id).2 = none ∧
    (delete (uploadAll st false id c B ws).1 false id).1.chunks = st.chunks ∧
    (delete (uploadAll st false id c B ws).1 false id).1.files = st.files ∧
    (delete (uploadAll st false id c B ws).1 false id).1.markers = st.markers := by
  obtain ⟨_, h2, h3, h4⟩ := uploadAll_untracked st id c B hc hcB hC hF hM hfresh ws
  have hfind : ((uploadAll st false id c B ws).1.findFile id).isSome = true := by
    unfold Store.findFile
    rw [h3, List.find?_append]
    have : st.files.find? (fun f => f.id == id) = none := by
      rw [List.find?_eq_none]; intro f hf; simp [hF f hf]
    rw [this]; simp
  unfold delete
  simp only [Bool.false_eq_true, if_false, hfind, if_true]
  refine ⟨trivial, ?_, ?_, h4⟩
  · simp only [Store.deleteChunks, Store.deleteFile, h2]
    exact filter_ne_append_mkDocs st.chunks id _ 0 hC
  · simp only [Store.deleteChunks, Store.deleteFile, h3]
    rw [List.filter_append]
    have : st.files.filter (fun f => f.id != id) = st.files := by
      rw [List.filter_eq_self]; intro f hf; simp [hF f hf]
    rw [this]; simp

/-- **resume_equivalent.**  A tracked upload carried out in any number of segments (each segment: new
    stream, Resume — or start over when there is nothing to resume —, some writes of arbitrary sizes
    continuing at the offset returned by Resume, Suspend), finished by a final segment (Resume, writes,
    the remaining content, Close) and ClaimUpload, succeeds and leaves exactly the documents of a plain
    upload of `content` without suspensions, for every partition `ws` of the content. -/
theorem resume_equivalent (st : Store) (id c B : Nat) (hc : 0 < c) (hcB : c ≤ B)
    (hC : ∀ d ∈ st.chunks, d.file ≠ id) (hF : ∀ f ∈ st.files, f.id ≠ id) (hM : ∀ m ∈ st.markers, m.file ≠ id)
    (hfresh : ∀ m ∈ st.markers, m.id < st.nextId)
    (content : Bytes) (plan : List (List Nat)) (last : List Nat) (ws : List Bytes) (hws : ws.flatten = content) :
    (trackedUpload st content id c B plan last).2 = none ∧
    (trackedUpload st content id c B plan last).1.chunks = (uploadAll st false id c B ws).1.chunks ∧
    (trackedUpload st content id c B plan last).1.files = (uploadAll st false id c B ws).1.files ∧
    (trackedUpload st content id c B plan last).1.markers = (uploadAll st false id c B ws).1.markers := by
  obtain ⟨a1, a2, a3, a4⟩ := trackedUpload_ok st id c B hc hcB hC hF hM hfresh content plan last
  obtain ⟨_, b2, b3, b4⟩ := uploadAll_untracked st id c B hc hcB hC hF hM hfresh ws
  rw [hws] at b2 b3
  exact ⟨a1, by rw [a2, b2], by rw [a3, b3], by rw [a4, b4]⟩

/-- **delete_tracked_leaves_nothing.**  On a tracked bucket (with no other marker pending) Delete only
    writes a marker; the following Cleanup removes the file record, every chunk of the file and the marker. -/
theorem delete_tracked_leaves_nothing (st : Store) (id c B : Nat) (hc : 0 < c) (hcB : c ≤ B)
    (hC : ∀ d ∈ st.chunks, d.file ≠ id) (hF : ∀ f ∈ st.files, f.id ≠ id) (hM : st.markers = [])
    (content : Bytes) (plan : List (List Nat)) (last : List Nat) :
    (delete (trackedUpload st content id c B plan last).1 true id).2 = none ∧
    (cleanup (delete (trackedUpload st content id c B plan last).1 true id).1 true).2 = none ∧
    (cleanup (delete (trackedUpload st content id c B plan last).1 true id).1 true).1.chunks = st.chunks ∧
    (cleanup (delete (trackedUpload st content id c B plan last).1 true id).1 true).1.files = st.files ∧
    (cleanup (delete (trackedUpload st content id c B plan last).1 true id).1 true).1.markers = [] := by
  obtain ⟨_, a2, a3, a4⟩ := trackedUpload_ok st id c B hc hcB hC hF (by rw [hM]; simp) (by rw [hM]; simp) content plan last
  rw [hM] at a4
  generalize trackedUpload st content id c B plan last = r at a2 a3 a4
  obtain ⟨st1, e⟩ := r
  simp only at a2 a3 a4
  obtain ⟨files, chunks, markers, nextId⟩ := st1
  simp only at a2 a3 a4
  subst a2 a3 a4
  have hf : (st.files ++ [(⟨id, content.length, c⟩ : FileDoc)]).filter (fun f => f.id != id) = st.files := by
    rw [List.filter_append]
    have : st.files.filter (fun f => f.id != id) = st.files := by
      rw [List.filter_eq_self]; intro f hf; simp [hF f hf]
    rw [this]; simp
  have hch := filter_ne_append_mkDocs st.chunks id (chunksOf c content) 0 hC
  simp [delete, Store.findMarker, Store.insertMarker, cleanup, cleanupLoop, Store.deleteFile, Store.deleteChunks,
    Store.deleteMarkerById, hf, hch]

/-! ### The guards of the code: unusable chunk sizes and unknown whence values are rejected -/

/-- **open_rejects_bad_chunk_size.**  OpenUploadStreamWithID fails for a chunk size ≤ 0 or above the upload
    buffer; no stream exists afterwards (the function does not touch the store). -/
theorem open_rejects_bad_chunk_size (tracked : Bool) (id : Nat) (c : Int) (B : Nat) (h : c ≤ 0 ∨ c > B) :
    openUpload tracked id c B = .error .badChunkSize := by
  unfold openUpload
  rw [if_pos h]

/-- every other chunk size is accepted, and the stream satisfies 0 < chunkSize ≤ bufCap -/
theorem open_accepts_good_chunk_size (tracked : Bool) (id : Nat) (c : Int) (B : Nat) (h0 : 0 < c) (hB : c ≤ B) :
    openUpload tracked id c B = .ok (UploadStream.new tracked id c.toNat B) ∧
    0 < c.toNat ∧ c.toNat ≤ B := by
  unfold openUpload
  rw [if_neg (by omega)]
  exact ⟨rfl, by omega, by omega⟩

/-- **upload_rejects_bad_chunk_size.**  A whole upload (open; writes; Close) with such a chunk size
    fails and leaves the store unchanged, whatever is written. -/
theorem upload_rejects_bad_chunk_size (st : Store) (tracked : Bool) (id : Nat) (c : Int) (B : Nat)
    (h : c ≤ 0 ∨ c > B) (ws : List Bytes) :
    upload st tracked id c B ws = (st, some .badChunkSize) := by
  unfold upload
  rw [open_rejects_bad_chunk_size tracked id c B h]

/-- with an accepted chunk size, `upload` is the `uploadAll` of the theorems above -/
theorem upload_eq_uploadAll (st : Store) (tracked : Bool) (id : Nat) (c : Int) (B : Nat) (h0 : 0 < c) (hB : c ≤ B)
    (ws : List Bytes) :
    upload st tracked id c B ws = uploadAll st tracked id c.toNat B ws := by
  unfold upload uploadAll
  rw [(open_accepts_good_chunk_size tracked id c B h0 hB).1]

/-- **write_never_diverges.**  On every stream created by OpenUploadStreamWithID — and on every stream
    reached from it, since Write/upload keep 0 < chunkSize ≤ bufCap and a non-full buffer — the fuel of the
    Write loop is never exhausted, for any store and any data (errors of the store are passed on). -/
theorem write_never_diverges (st : Store) (s : UploadStream) (data : Bytes)
    (hc : 0 < s.chunkSize) (hcB : s.chunkSize ≤ s.bufCap) (hb : s.buffer.length < s.bufCap) :
    (s.write st data).2.2.2 ≠ some .diverged := by
  unfold UploadStream.write
  split
  · intro h; cases h
  · exact writeLoop_never_diverges (data.length + 1) st s data 0 hc hcB hb (by omega)

/-- the instance for a freshly opened stream -/
theorem write_never_diverges_after_open (st : Store) (tracked : Bool) (id : Nat) (c : Int) (B : Nat)
    (s : UploadStream) (h : openUpload tracked id c B = .ok s) (data : Bytes) :
    (s.write st data).2.2.2 ≠ some .diverged := by
  unfold openUpload at h
  split at h
  · cases h
  · rename_i hg
    cases h
    apply write_never_diverges
    · show 0 < c.toNat; omega
    · show c.toNat ≤ B; omega
    · show (0 : Nat) < B; omega

/-- **seek_invalid_whence.**  An unknown `whence` is an error on both sides and neither side moves. -/
theorem seek_invalid_whence (st : Store) (ds : DownloadStream) (r : Reader) (o w : Int)
    (hcl : ds.closed = false) (hw : w ≠ 0 ∧ w ≠ 1 ∧ w ≠ 2) :
    ds.seek st o w = (ds, 0, some .invalidWhence) ∧ r.seek o w = (r, 0, some .invalidWhence) := by
  obtain ⟨h0, h1, h2⟩ := hw
  unfold DownloadStream.seek Reader.seek
  rw [hcl]
  simp [h0, h1, h2]

/-! ### Non-vacuity: concrete instances meet the hypotheses, and the model computes the expected values -/

/-- 13 bytes, c = 4, B = 8, writes of 5 and 8 bytes: chunks 4+4+4+1 -/
example :
    (uploadAll {} false 1 4 8 [[1, 2, 3, 4, 5], [6, 7, 8, 9, 10, 11, 12, 13]]).1.chunks =
      [⟨1, 0, [1, 2, 3, 4]⟩, ⟨1, 1, [5, 6, 7, 8]⟩, ⟨1, 2, [9, 10, 11, 12]⟩, ⟨1, 3, [13]⟩] ∧
    (uploadAll {} false 1 4 8 [[1, 2, 3, 4, 5], [6, 7, 8, 9, 10, 11, 12, 13]]).1.files = [⟨1, 13, 4⟩] := by decide

example := upload_chunks {} 1 4 8 (by decide) (by decide) (by simp) (by simp) (by simp) (by simp)
  [1, 2, 3, 4, 5, 6, 7, 8, 9, 10, 11, 12, 13] [[1, 2, 3, 4, 5], [6, 7, 8, 9, 10, 11, 12, 13]] rfl

example := upload_partition_independent {} 1 4 8 (by decide) (by decide) (by simp) (by simp) (by simp) (by simp)
  [[1, 2, 3, 4, 5], [6, 7, 8, 9, 10, 11, 12, 13]] [[1], [], [2, 3, 4, 5, 6, 7, 8, 9, 10, 11, 12], [13]] rfl

/-- a script with reads across chunk boundaries, seeks from all three origins, a negative target and EOF -/
example := upload_then_download {} 1 4 8 (by decide) (by decide) (by simp) (by simp) (by simp) (by simp)
  [1, 2, 3, 4, 5, 6, 7, 8, 9, 10, 11, 12, 13] [[1, 2, 3, 4, 5], [6, 7, 8, 9, 10, 11, 12, 13]] rfl
  [.read 5, .seek (-3) 2, .read 10, .read 1, .skip (-20), .seek 6 0, .seek 1 1, .seek 0 3, .read 0, .read 3]

example : openUpload false 1 0 8 = .error .badChunkSize ∧ openUpload false 1 (-1) 8 = .error .badChunkSize ∧
    openUpload true 1 9 8 = .error .badChunkSize :=
  ⟨open_rejects_bad_chunk_size _ _ _ _ (by decide), open_rejects_bad_chunk_size _ _ _ _ (by decide),
   open_rejects_bad_chunk_size _ _ _ _ (by decide)⟩

example := (open_accepts_good_chunk_size false 1 8 8 (by decide) (by decide)).1

example := upload_rejects_bad_chunk_size {} false 1 9 8 (by decide) [[1, 2, 3]]

/-- the reader side of that script, computed -/
example : (Reader.run ⟨[1, 2, 3, 4, 5, 6, 7, 8, 9, 10, 11, 12, 13], 0⟩
    [.read 5, .seek (-3) 2, .read 10, .read 1, .skip (-20), .seek 6 0]).map (fun o => (o.bytes, o.ret, o.err)) =
    [([1, 2, 3, 4, 5], 5, none), ([], 10, none), ([11, 12, 13], 3, none), ([], 0, some .eof),
     ([], 0, some .negPos), ([], 6, none)] := by decide

example := abort_leaves_nothing {} true 1 4 8 (by decide) (by decide) (by simp) (by simp) (by simp)
  [[1, 2, 3, 4, 5], [6, 7, 8, 9, 10]]

example := delete_leaves_nothing {} 1 4 8 (by decide) (by decide) (by simp) (by simp) (by simp) (by simp)
  [[1, 2, 3, 4, 5], [6, 7, 8, 9, 10]]

example := delete_tracked_leaves_nothing {} 1 4 8 (by decide) (by decide) (by simp) (by simp) rfl
  [1, 2, 3, 4, 5, 6, 7, 8, 9, 10] [[3]] []

/-- two suspensions (after 6 and after 3 more bytes), then the rest -/
example := resume_equivalent {} 1 4 8 (by decide) (by decide) (by simp) (by simp) (by simp) (by simp)
  [1, 2, 3, 4, 5, 6, 7, 8, 9, 10, 11, 12, 13] [[5, 1], [3]] [2] [[1, 2, 3, 4, 5, 6, 7, 8, 9, 10, 11, 12, 13]] rfl

/-- suspending after 6 bytes persists one chunk of 4 and drops the 2 buffered bytes -/
example : (trackedSegments [1, 2, 3, 4, 5, 6, 7, 8, 9, 10, 11, 12, 13] 1 4 8 {} [[5, 1]]).1.chunks = [⟨1, 0, [1, 2, 3, 4]⟩] := by decide

/-- **failed_resume_pristine.**  A rejected Resume — whatever the reason: bucket not tracked, stream not
    pristine, no marker, marker not in state `uploading`, other chunk size, invalid stored chunk — leaves the
    stream exactly as it was; in particular it has not adopted the marker it found.  (Resume never writes
    to the store: the model function returns no store.) -/
theorem failed_resume_pristine (st : Store) (s : UploadStream) (e : Err)
    (h : (s.resume st).2.2 = some e) : (s.resume st).1 = s := by
  revert h
  unfold UploadStream.resume
  repeat' split
  all_goals first | (intro _; rfl) | (intro h; cases h)

/-- **abort_pristine_identity.**  Abort of a stream that has stored nothing (no chunk flushed, no marker)
    is the identity on the store: no document of any file id — in particular of an existing file with
    the same id — is touched. -/
theorem abort_pristine_identity (st : Store) (s : UploadStream) (hc : s.chunks = 0) (hm : s.marker = none) :
    (s.abort st).1 = st := by
  unfold UploadStream.abort
  split <;> simp [hc, hm]

/-- **failed_resume_abort_harmless.**  A new stream for ANY id (e.g. the id of a finished, unclaimed
    upload) whose Resume is rejected and which is then aborted leaves the whole store unchanged. -/
theorem failed_resume_abort_harmless (st : Store) (tracked : Bool) (id c B : Nat) (e : Err)
    (h : ((UploadStream.new tracked id c B).resume st).2.2 = some e) :
    (((UploadStream.new tracked id c B).resume st).1.abort st).1 = st := by
  rw [failed_resume_pristine st _ e h]
  exact abort_pristine_identity st _ rfl rfl

/-- a finished, unclaimed upload (marker `uploaded`): Resume of a second stream is rejected with
    "invalid marker state" and its Abort keeps the marker -/
example := failed_resume_abort_harmless { markers := [⟨0, 1, .uploaded, 10, 4⟩], nextId := 1 } true 1 4 8 .badState (by decide)

example := abort_pristine_identity { chunks := [⟨1, 0, [1, 2, 3, 4]⟩], files := [⟨1, 4, 4⟩] }
  (UploadStream.new false 1 4 8) rfl rfl

end Lungo.C18
