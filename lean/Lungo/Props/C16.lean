/-
  C16 — "The engine never wedges: the writer slot is always freed, shutdown completes."

  All theorems are about `Lungo.Conc` (Model/Conc.lean) and hold for EVERY reachable state of the
  transition system, for any number `n` of client actors, any interleaving, with nondeterministic
  context cancellation / acquire timeout / store failure / store panic / callback error / callback
  panic at every step where the code admits one.
-/
import Lungo.Proofs.ConcAll
namespace Lungo.Conc.C16
open Lungo.Conc

/-- `token_conservation`: slot content + (an actor holding the token itself) + (an installed write
    transaction) = 1; the ghost `holder` is exactly the actor whose control state lies between a
    successful `Acquire` and `e.txn = …`/`Release`, or inside `Commit` after `e.txn = nil`. -/
theorem token_conservation {n : Nat} {s : State} (h : Reachable n s) :
    s.eng.token + (if s.eng.holder.isSome then 1 else 0) + (if s.eng.txn.isSome then 1 else 0) = 1 ∧
    (∀ a, s.eng.holder = some a ↔ THold (s.loc a)) :=
  ⟨(inv_reachable h).1.conserv, (inv_reachable h).1.holder_iff⟩

/-- `release_never_panics`: no reachable step executed `Semaphore.Release` with the slot full. -/
theorem release_never_panics {n : Nat} {s : State} (h : Reachable n s) : s.eng.relPanic = false :=
  (inv_reachable h).1.noPanic

/-- the next step of actor `a` executes `e.token.Release()` -/
def AtRelease (s : State) (a : ActorId) : Prop :=
  let l := s.loc a
  (l.pc = .bPost ∧ l.okF = true ∧ (s.eng.alive = false ∨ s.eng.txn.isSome = true)) ∨
  l.pc = .cStore ∨
  (l.pc = .cCheck ∧ s.eng.alive = true ∧ s.eng.txn.isSome = true ∧ s.eng.txn = l.t) ∨
  (l.pc = .aBody ∧ s.eng.alive = true ∧ s.eng.txn.isSome = true ∧ s.eng.txn = l.t)

/-- explicit form: whenever an actor is about to release, the slot is empty. -/
theorem release_slot_empty {n : Nat} {s : State} (h : Reachable n s) (a : ActorId)
    (hr : AtRelease s a) : s.eng.token = 0 := by
  have i := (inv_reachable h).1
  have h2 := i.holder_iff a
  have h3 := i.conserv
  simp only [AtRelease, THold] at *
  grind

/-- `single_writer`: at most one actor is between a successful acquire and its release; then no
    write transaction is installed and the slot is empty; an installed transaction means the slot
    is empty and nobody else holds the token. -/
theorem single_writer {n : Nat} {s : State} (h : Reachable n s) :
    (∀ a b, THold (s.loc a) → THold (s.loc b) → a = b) ∧
    (∀ a, THold (s.loc a) → s.eng.txn = none ∧ s.eng.token = 0) ∧
    (∀ t, s.eng.txn = some t → s.eng.token = 0 ∧ ∀ a, ¬ THold (s.loc a)) := by
  have i := (inv_reachable h).1
  have h2 := i.holder_iff
  have h3 := i.conserv
  refine ⟨fun a b ha hb => ?_, fun a ha => ?_, fun t ht => ⟨?_, fun a ha => ?_⟩⟩
  · have := (h2 a).2 ha; have := (h2 b).2 hb; simp_all
  · have := (h2 a).2 ha
    cases htx : s.eng.txn <;> simp_all
  · simp_all <;> omega
  · have := (h2 a).2 ha; simp_all

/-- every started call has returned (the expiry goroutine is parked at its select or has exited) -/
def Quiescent (s : State) : Prop :=
  ∀ a, (s.loc a).pc = .idle ∨ (s.loc a).pc = .xWait ∨ (s.loc a).pc = .xExited

/-- `quiescent_free`: when every started call has returned and no client holds the installed
    transaction open (no session's `txn`, no direct-API handle), the writer slot is free, no
    transaction is installed and `e.mutex` is free — so the next write acquires immediately.
    (After `Close` the slot is irrelevant: see `closed_prompt`.) -/
theorem quiescent_free {n : Nat} {s : State} (h : Reachable n s) (hq : Quiescent s)
    (halive : s.eng.alive = true)
    (hsess : ∀ sid, (s.sess sid).txn = none ∨ (s.sess sid).txn ≠ s.eng.txn)
    (hhandle : ∀ a, (s.loc a).handle = none ∨ (s.loc a).handle ≠ s.eng.txn) :
    s.eng.token = 1 ∧ s.eng.txn = none ∧ s.eng.mutex = none := by
  obtain ⟨i, j⟩ := inv_reachable h
  have htx : s.eng.txn = none := by
    cases htx : s.eng.txn with
    | none => rfl
    | some t =>
      exfalso
      have ho := j.oinv.1 halive t htx
      unfold Owned at ho
      cases hown : s.eng.own with
      | actor b =>
        rw [hown] at ho
        have := hq b; have := hhandle b
        simp only [OwnsL] at ho
        grind
      | sess sid =>
        rw [hown] at ho
        have := hsess sid
        simp_all
  have hh : s.eng.holder = none := by
    cases hh : s.eng.holder with
    | none => rfl
    | some b =>
      have := (i.holder_iff b).1 hh
      have := hq b
      simp only [THold] at *
      grind
  have hm : s.eng.mutex = none := by
    cases hm : s.eng.mutex with
    | none => rfl
    | some b =>
      have := (i.mutex_iff b).1 hm
      have := hq b
      simp only [EHold] at *
      grind
  have := i.conserv
  simp_all

/-- session machine: `starting` is set only while some actor is inside `startTransaction` of
    that session (so it is cleared on every path, including errors, cancellation and shutdown),
    and while it is set the session has no transaction. -/
theorem starting_cleared {n : Nat} {s : State} (h : Reachable n s) (sid : SessId)
    (hs : (s.sess sid).starting = true) :
    (∃ a, StartFlow (s.loc a) sid) ∧ (s.sess sid).txn = none := by
  obtain ⟨_, j⟩ := inv_reachable h
  obtain ⟨s1, s2, s3⟩ := j.sinv
  refine ⟨?_, s1 sid hs⟩
  have := s3 sid
  rw [hs] at this
  cases hst : (s.sess sid).starter with
  | none => simp [hst] at this
  | some a => exact ⟨a, (s2 a sid).1 hst⟩

/-! ### non-vacuity -/

/-- one auto-commit write (acquire, callback, store, release, deferred abort) by actor 1 -/
def writeOnce : List (ActorId × Choice) :=
  [(1, .call (.useTx true none)), (1, .go), (1, .go), (1, .tok), (1, .go), (1, .go), (1, .go),
   (1, .cbWrite), (1, .go), (1, .go), (1, .storeOk), (1, .go), (1, .go), (1, .go), (1, .go)]

example : ((run (init 2) writeOnce).map fun s =>
    (s.eng.token, s.eng.txn, s.eng.mutex, s.eng.catalog, (s.loc 1).pc, (s.loc 1).res)) =
    some (1, none, none, [0], .idle, .ok) := by rfl

/-- mid-run (after the acquire, before the re-lock) the token is held by actor 1 -/
example : ((run (init 2) (writeOnce.take 4)).map fun s => (s.eng.token, s.eng.holder)) =
    some (0, some 1) := by rfl

/-- a session transaction left open by its client keeps the slot (not quiescent-free) -/
def sessOpen : List (ActorId × Choice) :=
  [(1, .call (.sessStart 1)), (1, .go), (1, .go), (1, .go), (1, .go), (1, .tok), (1, .go), (1, .go),
   (1, .go), (1, .go), (1, .go)]

example : ((run (init 2) sessOpen).map fun s =>
    (s.eng.token, s.eng.txn, (s.sess 1).txn, (s.sess 1).starting, (s.loc 1).pc)) =
    some (0, some 0, some 0, false, .idle) := by rfl

end Lungo.Conc.C16
