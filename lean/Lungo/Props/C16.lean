/-
  C16 — "The engine never wedges: the writer slot is always freed, shutdown completes."

  All theorems are about `Lungo.Conc` (Model/Conc.lean) and hold for EVERY reachable state of the
  transition system, for any number `n` of client actors, any interleaving, with nondeterministic
  context cancellation / acquire timeout / store failure / store panic / callback error / callback
  panic at every step where the code admits one.
-/
import Lungo.Proofs.ConcAll
import Lungo.Proofs.ConcHolder
import Lungo.Proofs.ConcDeadlock
import Lungo.Proofs.ConcClosed
import Lungo.Proofs.ConcNoDeadlock
namespace Lungo.Conc.C16
open Lungo.Conc

/-- `token_conservation`: slot content + (an actor holding the token itself) + (an installed write
    transaction) = 1; the ghost `holder` is exactly the actor whose control state lies between a
    successful `Acquire` and `e.txn = …`/`Release`, or inside `Commit` after `e.txn = nil`. -/
theorem token_conservation {n : Nat} {s : State} (h : Reachable n s) :
    s.eng.token + (if s.eng.holder.isSome then 1 else 0) + (if s.eng.txn.isSome then 1 else 0) = 1 ∧
    (∀ a, s.eng.holder = some a ↔ THold (s.loc a)) :=
  ⟨(inv_reachable h).1.conserv, (inv_reachable h).1.holder_iff⟩

/-- `release_never_panics`: no reachable step executed `Semaphore.Release` with the slot full. -/
theorem release_never_panics {n : Nat} {s : State} (h : Reachable n s) : s.eng.relPanic = false :=
  (inv_reachable h).1.noPanic

/-- the next step of actor `a` executes `e.token.Release()` -/
def AtRelease (s : State) (a : ActorId) : Prop :=
  let l := s.loc a
  (l.pc = .bPost ∧ l.okF = true ∧ (s.eng.alive = false ∨ s.eng.txn.isSome = true)) ∨
  l.pc = .cStore ∨
  (l.pc = .cCheck ∧ s.eng.alive = true ∧ s.eng.txn.isSome = true ∧ s.eng.txn = l.t) ∨
  (l.pc = .aBody ∧ s.eng.alive = true ∧ s.eng.txn.isSome = true ∧ s.eng.txn = l.t)

/-- explicit form: whenever an actor is about to release, the slot is empty. -/
theorem release_slot_empty {n : Nat} {s : State} (h : Reachable n s) (a : ActorId)
    (hr : AtRelease s a) : s.eng.token = 0 := by
  have i := (inv_reachable h).1
  have h2 := i.holder_iff a
  have h3 := i.conserv
  simp only [AtRelease, THold] at *
  grind

/-- `single_writer`: at most one actor is between a successful acquire and its release; then no
    write transaction is installed and the slot is empty; an installed transaction means the slot
    is empty and nobody else holds the token. -/
theorem single_writer {n : Nat} {s : State} (h : Reachable n s) :
    (∀ a b, THold (s.loc a) → THold (s.loc b) → a = b) ∧
    (∀ a, THold (s.loc a) → s.eng.txn = none ∧ s.eng.token = 0) ∧
    (∀ t, s.eng.txn = some t → s.eng.token = 0 ∧ ∀ a, ¬ THold (s.loc a)) := by
  have i := (inv_reachable h).1
  have h2 := i.holder_iff
  have h3 := i.conserv
  refine ⟨fun a b ha hb => ?_, fun a ha => ?_, fun t ht => ⟨?_, fun a ha => ?_⟩⟩
  · have := (h2 a).2 ha; have := (h2 b).2 hb; simp_all
  · have := (h2 a).2 ha
    cases htx : s.eng.txn <;> simp_all
  · simp_all <;> omega
  · have := (h2 a).2 ha; simp_all

/-- every started call has returned (the expiry goroutine is parked at its select or has exited) -/
def Quiescent (s : State) : Prop :=
  ∀ a, (s.loc a).pc = .idle ∨ (s.loc a).pc = .xWait ∨ (s.loc a).pc = .xExited

/-- `quiescent_free`: when every started call has returned and no client holds the installed
    transaction open (no session's `txn`, no direct-API handle), the writer slot is free, no
    transaction is installed and `e.mutex` is free — so the next write acquires immediately.
    (After `Close` the slot is irrelevant: see `closed_prompt`.) -/
theorem quiescent_free {n : Nat} {s : State} (h : Reachable n s) (hq : Quiescent s)
    (halive : s.eng.alive = true)
    (hsess : ∀ sid, (s.sess sid).txn = none ∨ (s.sess sid).txn ≠ s.eng.txn)
    (hhandle : ∀ a, (s.loc a).handle = none ∨ (s.loc a).handle ≠ s.eng.txn) :
    s.eng.token = 1 ∧ s.eng.txn = none ∧ s.eng.mutex = none := by
  obtain ⟨i, j⟩ := inv_reachable h
  have htx : s.eng.txn = none := by
    cases htx : s.eng.txn with
    | none => rfl
    | some t =>
      exfalso
      have ho := j.oinv.1 halive t htx
      unfold Owned at ho
      cases hown : s.eng.own with
      | actor b =>
        rw [hown] at ho
        have := hq b; have := hhandle b
        simp only [OwnsL] at ho
        grind
      | sess sid =>
        rw [hown] at ho
        have := hsess sid
        simp_all
  have hh : s.eng.holder = none := by
    cases hh : s.eng.holder with
    | none => rfl
    | some b =>
      have := (i.holder_iff b).1 hh
      have := hq b
      simp only [THold] at *
      grind
  have hm : s.eng.mutex = none := by
    cases hm : s.eng.mutex with
    | none => rfl
    | some b =>
      have := (i.mutex_iff b).1 hm
      have := hq b
      simp only [EHold] at *
      grind
  have := i.conserv
  simp_all

/-- session machine: `starting` is set only while some actor is inside `startTransaction` of
    that session (so it is cleared on every path, including errors, cancellation and shutdown),
    and while it is set the session has no transaction. -/
theorem starting_cleared {n : Nat} {s : State} (h : Reachable n s) (sid : SessId)
    (hs : (s.sess sid).starting = true) :
    (∃ a, StartFlow (s.loc a) sid) ∧ (s.sess sid).txn = none := by
  obtain ⟨_, j⟩ := inv_reachable h
  obtain ⟨s1, s2, s3⟩ := j.sinv
  refine ⟨?_, s1 sid hs⟩
  have := s3 sid
  rw [hs] at this
  cases hst : (s.sess sid).starter with
  | none => simp [hst] at this
  | some a => exact ⟨a, (s2 a sid).1 hst⟩

/-- `mutex_holder_enabled` (DESIGN: `mutex_sections_nonblocking`): in EVERY reachable state — sessions
    may be shared between actors — an actor holding `e.mutex` has an enabled next step: `e.mutex`
    critical sections never block.  (Holds since /repo commit 1490243 "read the session before taking
    the engine lock in Begin"; for the previous order see `old_order_shared_session_deadlock`.) -/
theorem mutex_holder_enabled {n : Nat} {s : State} {a : ActorId} (h : Reachable n s)
    (hm : s.eng.mutex = some a) : ∃ c s', step s a c = some s' :=
  mutex_holder_enabled_aux h hm

/-- WHY THE FIX WAS NEEDED.  With the OLD step order of `Engine.Begin` (`stepOld`, Model/ConcOld.lean:
    `sess.Transaction()` called while holding `e.mutex`) and one session used by two actors, the
    reachable state `deadState` (schedule `deadSched`) has actor 2 holding `e.mutex` inside
    `Engine.Begin` waiting for `s.mutex`, actor 1 holding `s.mutex` inside
    `Session.AbortTransaction` waiting for `e.mutex` (Engine.Abort), the expiry goroutine waiting
    for `e.mutex` — and NO step of any actor is enabled: the engine is wedged (lock-order inversion
    e→s vs s→e; had been reproduced on the real code, DESIGN §10 #13). -/
theorem old_order_shared_session_deadlock :
    ∃ s, ReachableOld 2 s ∧ s.eng.alive = true ∧ s.eng.mutex = some 2 ∧ (s.loc 2).pc = .bSessLock ∧
      (s.sess 5).mutex = some 1 ∧ (s.loc 1).pc = .aLock ∧ ∀ (a : Nat) (c : Choice), stepOld s a c = none :=
  ⟨deadState, dead_reachable, dead_facts.2.2.2.2.2, dead_facts.1, dead_facts.2.1, dead_facts.2.2.1,
    dead_facts.2.2.2.1, dead_stuck⟩

/-- hence `mutex_holder_enabled` was false for the old order -/
theorem old_order_mutex_holder_enabled_fails :
    ¬ ∀ (n : Nat) (s : State) (a : ActorId), ReachableOld n s → s.eng.mutex = some a →
        ∃ c s', stepOld s a c = some s' := by
  intro hall
  obtain ⟨s, hr, _, hm, _, _, _, hstuck⟩ := old_order_shared_session_deadlock
  obtain ⟨c, s', hs⟩ := hall 2 s 2 hr hm
  rw [hstuck 2 c] at hs
  cases hs

/-- the same calls under the CURRENT order do not wedge (actor 1's AbortTransaction completes,
    actor 2 then reads the session, begins and acquires the freed token) -/
theorem fixed_order_same_calls_progress :
    ((run (init 2) fixedSched).map fun s =>
      (s.eng.token, s.eng.holder, (s.loc 1).pc, (s.loc 2).pc, (s.sess 5).mutex)) =
    some (0, some 2, .idle, .bRelock, none) :=
  fixed_run

/-- `closed_prompt` (1): once the engine is killed it stays killed -/
theorem closed_stays_closed {n : Nat} {s s' : State} {a : ActorId} {c : Choice} (_h : Reachable n s)
    (hd : s.eng.alive = false) (hs : step s a c = some s') : s'.eng.alive = false :=
  alive_mono hd hs

/-- `closed_prompt` (2): after `Close`'s kill step no call contains a blocking token acquire — the
    `tomb dying` outcome of `token.Acquire` is enabled — and the expiry goroutine's select can
    take its `Dying` arm. -/
theorem closed_acquire_never_blocks {n : Nat} {s : State} {a : ActorId} (h : Reachable n s)
    (hd : s.eng.alive = false) :
    ((s.loc a).pc = .bAcquire → ∃ s', step s a .dying = some s') ∧
    ((s.loc a).pc = .xWait → ∃ s', step s a .dying = some s') := by
  have hr := (inv_reachable h).2.rng a
  have hle : (s.loc a).pc ≠ .idle → ¬ a > s.n := fun hp hgt => hp (hr hgt)
  constructor
  · intro hp
    have := hle (by simp [hp])
    exact Option.isSome_iff_exists.mp (by simp [step, this, hp, stepBegin, hd])
  · intro hp
    have := hle (by simp [hp])
    exact Option.isSome_iff_exists.mp (by simp [step, this, hp, stepExp, hd])

/-- `closed_prompt` (3): after the kill step every step of an actor inside a call strictly decreases
    `rank` (≤ 20), so every call returns within a bounded number of its own steps; the calls issued
    after the kill return `ErrEngineClosed` from the first alive check.  The only non-decreasing
    step is the expiry goroutine's `tick` (Go's select chooses randomly between a ready ticker and
    `Dying`; each loop iteration fails with ErrEngineClosed and returns to the select).
    Mutex acquisitions remain blocking steps, but their holders always progress
    (`mutex_holder_enabled`), and `Release` still balances (`token_conservation` holds in every
    reachable state, dead or alive). -/
theorem closed_prompt {n : Nat} {s s' : State} {a : ActorId} {c : Choice} (_h : Reachable n s)
    (hd : s.eng.alive = false) (hs : step s a c = some s') (hidle : (s.loc a).pc ≠ .idle)
    (htick : c ≠ .tick) : rank (s'.loc a) < rank (s.loc a) ∧ rank (s.loc a) ≤ 20 := by
  refine ⟨rank_decreases hd hs hidle htick, ?_⟩
  simp only [rank]
  cases (s.loc a).pc <;> cases (s.loc a).k <;> simp [rk, ar]

/-- `closed_prompt` (4): a call issued after the kill returns the closed error at its first
    alive check without touching the token: `Begin` from `bCheck`. -/
theorem closed_begin_returns_closed {n : Nat} {s s' : State} {a : ActorId} (_h : Reachable n s)
    (hd : s.eng.alive = false) (hp : (s.loc a).pc = .bCheck) (hs : step s a .go = some s') :
    (s'.loc a).pc = .after ∧ (s'.loc a).res = .err .closed ∧ s'.eng.token = s.eng.token := by
  have hle : ¬ a > s.n := by
    intro hgt; simp [step, hgt] at hs
  simp [step, hle, hp, stepBegin, hd] at hs
  subst hs
  simp [State.put, Local.back, Eng.unlock]

/-- `no_deadlock`: in EVERY reachable state (sessions may be shared between actors) in which some call
    is unfinished, some step is enabled that is neither a fault (cancel, store failure/panic, callback
    error/panic), nor the one-minute acquire timeout, nor a new call, nor a ticker event — unless
    the engine is alive, every actor is idle or parked at the token acquire, and the token is held
    by a transaction that a client deliberately keeps open (a session's transaction or a direct
    handle).  (In that last case the 1-minute acquire timeout of `Begin` still ends every waiter.) -/
theorem no_deadlock {n : Nat} {s : State} (h : Reachable n s)
    (hun : ∃ a, (s.loc a).pc ≠ .idle ∧ (s.loc a).pc ≠ .xWait ∧ (s.loc a).pc ≠ .xExited) :
    CanStep s ∨ TokenWait s :=
  no_deadlock_aux h hun

/-- … and `no_deadlock` was FALSE for the old step order of Begin: `deadState` has unfinished calls,
    no enabled step at all, and actor 1 is not parked at the acquire. -/
theorem old_order_no_deadlock_fails :
    ∃ s, ReachableOld 2 s ∧ (∃ a, (s.loc a).pc ≠ .idle ∧ (s.loc a).pc ≠ .xWait ∧ (s.loc a).pc ≠ .xExited) ∧
      (∀ (a : Nat) (c : Choice), stepOld s a c = none) ∧ ¬ TokenWait s := by
  refine ⟨deadState, dead_reachable, ⟨1, ?_⟩, dead_stuck, ?_⟩
  · rw [dead_facts.2.2.2.1]; simp
  · rintro ⟨_, _, _, hp⟩
    have := hp 1
    rw [dead_facts.2.2.2.1] at this
    simp [Parked] at this

/-! ### non-vacuity -/

/-- one auto-commit write (acquire, callback, store, release, deferred abort) by actor 1 -/
def writeOnce : List (ActorId × Choice) :=
  [(1, .call (.useTx true none)), (1, .go), (1, .go), (1, .tok), (1, .go), (1, .go), (1, .go),
   (1, .cbWrite), (1, .go), (1, .go), (1, .storeOk), (1, .go), (1, .go), (1, .go), (1, .go)]

example : ((run (init 2) writeOnce).map fun s =>
    (s.eng.token, s.eng.txn, s.eng.mutex, s.eng.catalog, (s.loc 1).pc, (s.loc 1).res)) =
    some (1, none, none, [0], .idle, .ok) := by rfl

/-- mid-run (after the acquire, before the re-lock) the token is held by actor 1 -/
example : ((run (init 2) (writeOnce.take 4)).map fun s => (s.eng.token, s.eng.holder)) =
    some (0, some 1) := by rfl

/-- a session transaction left open by its client keeps the slot (not quiescent-free) -/
def sessOpen : List (ActorId × Choice) :=
  [(1, .call (.sessStart 1)), (1, .go), (1, .go), (1, .go), (1, .go), (1, .tok), (1, .go), (1, .go),
   (1, .go), (1, .go), (1, .go)]

example : ((run (init 2) sessOpen).map fun s =>
    (s.eng.token, s.eng.txn, (s.sess 1).txn, (s.sess 1).starting, (s.loc 1).pc)) =
    some (0, some 0, some 0, false, .idle) := by rfl

/-- close while a writer waits for the token held by a session: the waiter is released with the
    closed error and Close returns after the expiry goroutine exited -/
def closeRun : List (ActorId × Choice) :=
  sessOpen ++
  [(2, .call (.useTx true none)), (2, .go), (2, .go),               -- 2 parked at the acquire
   (1, .call .close), (1, .go), (1, .go), (1, .go),                   -- kill, close streams; Close waits
   (2, .dying), (2, .go), (2, .go), (2, .go),                         -- 2: ErrEngineClosed
   (0, .dying), (1, .go)]                                             -- expiry exits; Close returns

example : ((run (init 2) closeRun).map fun s =>
    (s.eng.alive, (s.loc 2).pc, (s.loc 2).res, (s.loc 1).pc, (s.loc 0).pc, s.eng.mutex)) =
    some (false, .idle, .err .closed, .idle, .xExited, none) := by rfl

/-- the `TokenWait` disjunct of `no_deadlock` is real: a session transaction left open and a writer
    parked at the acquire -/
example : ((run (init 2) (sessOpen ++ [(2, .call (.useTx true none)), (2, .go), (2, .go)])).map fun s =>
    (s.eng.alive, s.eng.token, s.eng.txn, (s.sess 1).txn, (s.loc 1).pc, (s.loc 2).pc,
      (step s 2 .tok).isSome, (step s 2 .timeout).isSome)) =
    some (true, 0, some 0, some 0, .idle, .bAcquire, false, true) := by rfl

end Lungo.Conc.C16

