/-
  Lungo.Props.C20 — "Well-formed input never panics the library".

  Every model function that can fail returns `Res α = Except Err α`; each Go construct that could
  panic was modelled as partial at exactly that point (`.error (.panic site)`).  "Never panics" is
  the theorem `f … ≠ .error (.panic site)` for ALL inputs (no well-formedness, size or depth
  hypothesis whatsoever on documents, filters, updates, projections, sorts, array filters), given
  only that the `$jsonSchema` evaluator parameter reports no panic (`SchNoPanic sch`; the driver's
  evaluator `schemaUnmodelled` satisfies it).  "Never hangs" is witnessed by Lean accepting the
  definitions: there is no `partial` in `Lungo/Model` outside the JSON glue (Model/Json.lean).  Fuelled
  functions: `resolve` — §7 proves its fuel is never what decides the result — and the three digit loops of
  `parseD128FromBigInt` (Model/Arith.lean, the mongo-driver's Decimal128 normalisation; their fuel
  `20000 + log2|bi| + |exp|` is stated there and NOT proved sufficient here).  "Never leaves the
  engine unable to serve the next call" is §6 (sequential level; the concurrent reading is C16).

  Errors that a call stores INSIDE a successful result (`TResult.error` of Insert / Bulk, the
  error of `insertMany`, the error list of `bulkWrite`) are covered too (`TResult.NP`, `Reply.NP`).

  All proofs are in Lungo/Proofs/{NoPanic,NoPanic2,AccessLaws}.lean; this file only states.
  Total (non-`Res`) functions need no theorem — their Lean type says they return a value:
  `Compare` (`V.cmp`), `get`/`Get`/`All`, `Unset`, `sortDocs`, `order`, `pick`, `collect`, `Distinct`,
  `tuples`, `Index.baseAdd/baseRemove`, `Index.list`, `appendOplog`, `Txn.clean`, `Sys.commit`.

  Domain notes (what the theorems do NOT say; each was found by running the real code, stream `robust`):
  * keys / paths contain no NUL byte.  BSON cannot encode such a key (the driver answers "BSON element key
    cannot contain null bytes"); in `bsonkit` the string "\x00" IS the `PathEnd` sentinel, i.e. the empty
    segment list `[]`, and `bsonkit.Put(doc, "\x00", v)` does panic on `v.(bson.D)` in the real code —
    that is the `.panic` branch of the model's `Put`, excluded by `p ≠ []` in `Put_never_panics`
    (`splitPath` of a NUL-free string is never `[]`: `Put_string_never_panics`).
  * resources.  `put` on an array pads with at most `MaxArrayPadding` (1 500 000) nulls: a larger gap is a
    plain error (`put_padding_rejected`), and on success the new length is `max len (index+1)` with
    `index ≤ len + MaxArrayPadding` (`put_index_guard`).  Before /repo dd0d6c6 the code padded in an unbounded
    `append` loop (`$set "a.1000000000000"` ended in `fatal error: out of memory`) — a C20 FINDING on the code,
    fixed there; the model follows the fixed code.  `filterDocs` takes any limit; the code at the time of the
    finding pre-allocated `make(List, 0, limit)` (`Find` with limit ≥ 2^47 panicked "makeslice: cap out of
    range", smaller huge limits were a fatal out-of-memory error) — also a C20 FINDING (see the final report
    of this work and the `robust` stream), not covered by the no-panic theorems; `make` with a computed
    capacity is not a kind of `Gen.PanicSites` yet.
  * `Coll.update`'s `sameId` is structural equality of `_id` values; the code compares `bson.Marshal`
    bytes, under which `bsonkit.Missing` (an empty struct) equals the empty document — FINDING: with
    `_id: {}` stored, `$unset: {_id: 1}` passes the immutability check and the oplog append panics.

  Strings do not reduce in the kernel, so the witnesses over concrete documents are evaluated
  tests (`#guard`, marked TEST); the `example`s are kernel-checked.
-/
import Lungo.Proofs.NoPanic
import Lungo.Proofs.NoPanic2
namespace Lungo.C20
open Lungo

/-- the hypothesis of every theorem below is met by the evaluator the driver uses -/
theorem schema_hypothesis_met : SchNoPanic schemaUnmodelled := schemaUnmodelled_noPanic

example : SchNoPanic (fun _ _ => .ok ()) := by intro a b s h; cases h
example : ¬ SchNoPanic (fun _ _ => .error (.panic "x")) := fun h => h [] [] "x" rfl

/-! ## §0 bsonkit access, Match, Apply (restated from C11) -/

/-- `put` has no panic: its only failure is the plain error. -/
theorem put_never_panics (v : V) (p : Path) (x : V) (pre : Bool) (site : String) :
    put v p x pre ≠ .error (.panic site) := by
  intro h; cases put_error_err v p x pre _ h

/-- `bsonkit.Put`: the type assertion `v.(bson.D)` cannot fail for a non-empty path … -/
theorem Put_never_panics (d : Doc) (p : Path) (x : V) (pre : Bool) (site : String) (hp : p ≠ []) :
    Put d p x pre ≠ .error (.panic site) := Put_np d p x pre hp site

/-- … and the segment list of a path string is never empty. -/
theorem Put_string_never_panics (d : Doc) (p : String) (x : V) (pre : Bool) (site : String) :
    Put d (splitPath p) x pre ≠ .error (.panic site) := Put_np' d p x pre site

/-- `mongokit.Match` -/
theorem match_never_panics (sch : SchemaEval) (hs : SchNoPanic sch) (d q : Doc) (site : String) :
    Match sch d q ≠ .error (.panic site) := Match_np sch hs d q site

/-- `mongokit.Apply`, for every document, update and array-filter list -/
theorem apply_never_panics (c : ACtx) (hs : SchNoPanic c.sch) (d u : Doc) (afs : List Doc) (site : String) :
    Apply c d u afs ≠ .error (.panic site) := Apply_np c hs d u afs site

/-- `mongokit.Resolve` with any fuel -/
theorem resolve_never_panics (sch : SchemaEval) (hs : SchNoPanic sch) (fuel : Nat) (path : String) (doc : Doc)
    (afs : List Doc) (site : String) : resolve sch fuel path doc afs ≠ .error (.panic site) :=
  resolve_np sch hs fuel path doc afs site

/-! ## §1 Project -/

theorem projectSlice_never_panics (s : PState) (d : Doc) (path : String) (v : V) (site : String) :
    projectSlice s d path v ≠ .error (.panic site) := projectSlice_np s d path v site

theorem projectElemMatch_never_panics (sch : SchemaEval) (hs : SchNoPanic sch) (s : PState) (d : Doc)
    (path : String) (v : V) (site : String) : projectElemMatch sch s d path v ≠ .error (.panic site) :=
  projectElemMatch_np sch hs s d path v site

theorem projProcess_never_panics (sch : SchemaEval) (hs : SchNoPanic sch) (s : PState) (d : Doc)
    (proj : List (String × V)) (site : String) : projProcess sch s d proj ≠ .error (.panic site) :=
  projProcess_np sch hs s d proj site

theorem putAll_never_panics (res : Doc) (l : List (String × V)) (site : String) :
    putAll res l ≠ .error (.panic site) := putAll_np res l site

/-- `mongokit.Project` -/
theorem project_never_panics (sch : SchemaEval) (hs : SchNoPanic sch) (d proj : Doc) (site : String) :
    Project sch d proj ≠ .error (.panic site) := Project_np sch hs d proj site

/-! ## §2 Sort, Distinct (`sortDocs`, `collect`, `Distinct` are total functions) -/

theorem columns_total (spec : Doc) (site : String) : columns spec ≠ .error (.panic site) :=
  columns_np spec site

/-- `mongokit.Sort` -/
theorem sort_total (list : List Doc) (spec : Doc) (site : String) :
    sortBySpec list spec ≠ .error (.panic site) := sortBySpec_np list spec site

/-- `mongokit.Distinct` always returns a list (it is a total function; stated for the record). -/
theorem distinct_total (list : List Doc) (path : String) : ∃ vs, Distinct list path = vs := ⟨_, rfl⟩

/-! ## §3 Collection layer -/

theorem index_add_never_panics (sch : SchemaEval) (hs : SchNoPanic sch) (i : Index) (sd : SDoc) (site : String) :
    i.add sch sd ≠ .error (.panic site) := Index.add_np sch hs i sd site

theorem index_remove_never_panics (sch : SchemaEval) (hs : SchNoPanic sch) (i : Index) (sd : SDoc)
    (site : String) : i.remove sch sd ≠ .error (.panic site) := Index.remove_np sch hs i sd site

theorem index_build_never_panics (sch : SchemaEval) (hs : SchNoPanic sch) (i : Index) (l : List SDoc)
    (site : String) : i.build sch l ≠ .error (.panic site) := Index.build_np sch hs i l site

theorem newIndex_never_panics (config : IndexConfig) (site : String) :
    newIndex config ≠ .error (.panic site) := newIndex_np config site

theorem addToIndexes_never_panics (sch : SchemaEval) (hs : SchNoPanic sch) (sd : SDoc)
    (l : List (String × Index)) (site : String) : addToIndexes sch sd l ≠ .error (.panic site) :=
  addToIndexes_np sch hs sd l site

theorem removeFromIndexes_never_panics (sch : SchemaEval) (hs : SchNoPanic sch) (sd : SDoc)
    (l : List (String × Index)) (site : String) : removeFromIndexes sch sd l ≠ .error (.panic site) :=
  removeFromIndexes_np sch hs sd l site

theorem filterDocs_never_panics (sch : SchemaEval) (hs : SchNoPanic sch) (query : Doc) (limit : Nat)
    (l : List SDoc) (site : String) : filterDocs sch query limit l ≠ .error (.panic site) :=
  filterDocs_np sch hs query limit l site

/-- sort → filter → skip, for every `skip`/`limit` in `Int` (negative skip is an error, not a re-slice panic) -/
theorem selectDocs_never_panics (sch : SchemaEval) (hs : SchNoPanic sch) (c : Coll) (query : Doc)
    (sort : Option Doc) (skip limit : Int) (site : String) :
    selectDocs sch c query sort skip limit ≠ .error (.panic site) :=
  selectDocs_np sch hs c query sort skip limit site

theorem coll_insert_never_panics (sch : SchemaEval) (hs : SchNoPanic sch) (c : Coll) (d : Doc) (nu : Nu)
    (site : String) : c.insert sch d nu ≠ .error (.panic site) := Coll.insert_np sch hs c d nu site

/-- `Collection.Replace` — whatever the `_id` values are (documents, binaries, arrays …) -/
theorem coll_replace_never_panics (sch : SchemaEval) (hs : SchNoPanic sch) (c : Coll) (query repl : Doc)
    (sort : Option Doc) (nu : Nu) (site : String) : c.replace sch query repl sort nu ≠ .error (.panic site) :=
  Coll.replace_np sch hs c query repl sort nu site

theorem coll_update_never_panics (ac : ACtx) (hs : SchNoPanic ac.sch) (c : Coll) (query update : Doc)
    (sort : Option Doc) (skip limit : Int) (afs : List Doc) (nu : Nu) (site : String) :
    c.update ac query update sort skip limit afs nu ≠ .error (.panic site) :=
  Coll.update_np ac hs c query update sort skip limit afs nu site

theorem coll_upsert_never_panics (ac : ACtx) (hs : SchNoPanic ac.sch) (c : Coll) (query : Doc)
    (repl update : Option Doc) (afs : List Doc) (nu : Nu) (site : String) :
    c.upsert ac query repl update afs nu ≠ .error (.panic site) :=
  Coll.upsert_np ac hs c query repl update afs nu site

theorem coll_delete_never_panics (sch : SchemaEval) (hs : SchNoPanic sch) (c : Coll) (query : Doc)
    (sort : Option Doc) (skip limit : Int) (site : String) :
    c.delete sch query sort skip limit ≠ .error (.panic site) :=
  Coll.delete_np sch hs c query sort skip limit site

theorem coll_createIndex_never_panics (sch : SchemaEval) (hs : SchNoPanic sch) (c : Coll) (name : String)
    (config : IndexConfig) (site : String) : c.createIndex sch name config ≠ .error (.panic site) :=
  Coll.createIndex_np sch hs c name config site

theorem coll_dropIndex_never_panics (c : Coll) (name : String) (site : String) :
    c.dropIndex name ≠ .error (.panic site) := Coll.dropIndex_np c name site

/-- `mongokit.Extract` (the upsert seed), any query document -/
theorem extract_never_panics (query : Doc) (site : String) : Extract query ≠ .error (.panic site) :=
  Extract_np query site

theorem extractSeq_never_panics (doc : Doc) (query : List (String × V)) (pfx : String) (root : Bool)
    (site : String) : extractSeq doc query pfx root ≠ .error (.panic site) :=
  extractSeq_np doc query pfx root site

/-! ## §4 Transaction layer -/

theorem txn_create_never_panics (t : Txn) (h : Handle) (site : String) :
    t.create h ≠ .error (.panic site) := Txn.create_np t h site

theorem txn_find_never_panics (sch : SchemaEval) (hs : SchNoPanic sch) (t : Txn) (h : Handle) (query : Doc)
    (sort : Option Doc) (skip limit : Int) (site : String) :
    t.find sch h query sort skip limit ≠ .error (.panic site) :=
  Txn.find_np sch hs t h query sort skip limit site

theorem insertOne_never_panics (sch : SchemaEval) (hs : SchNoPanic sch) (cat : Catalog) (h : Handle) (d : Doc)
    (nu : Nu) (site : String) : insertOne sch cat h d nu ≠ .error (.panic site) :=
  insertOne_np sch hs cat h d nu site

/-- `Transaction.Insert`: neither the call nor the error it stores in the result is a panic -/
theorem txn_insert_never_panics (sch : SchemaEval) (hs : SchNoPanic sch) (t : Txn) (h : Handle)
    (list : List Doc) (ordered : Bool) (nu : Nu) (site : String) :
    t.insert sch h list ordered nu ≠ .error (.panic site) ∧
    ∀ t' r nu', t.insert sch h list ordered nu = .ok (t', r, nu') → r.error ≠ some (.panic site) :=
  ⟨Txn.insert_np sch t h list ordered nu site,
   fun t' r nu' hr => Txn.insert_result_np sch hs t t' h list ordered nu nu' r hr site⟩

theorem replaceOp_never_panics (ac : ACtx) (hs : SchNoPanic ac.sch) (cat : Catalog) (h : Handle)
    (query repl : Doc) (sort : Option Doc) (upsert : Bool) (nu : Nu) (site : String) :
    replaceOp ac cat h query repl sort upsert nu ≠ .error (.panic site) :=
  replaceOp_np ac hs cat h query repl sort upsert nu site

theorem updateOp_never_panics (ac : ACtx) (hs : SchNoPanic ac.sch) (cat : Catalog) (h : Handle)
    (query update : Doc) (sort : Option Doc) (upsert : Bool) (skip limit : Int) (afs : List Doc) (nu : Nu)
    (site : String) : updateOp ac cat h query update sort upsert skip limit afs nu ≠ .error (.panic site) :=
  updateOp_np ac hs cat h query update sort upsert skip limit afs nu site

theorem deleteOp_never_panics (sch : SchemaEval) (hs : SchNoPanic sch) (cat : Catalog) (h : Handle)
    (query : Doc) (sort : Option Doc) (skip limit : Int) (nu : Nu) (site : String) :
    deleteOp sch cat h query sort skip limit nu ≠ .error (.panic site) :=
  deleteOp_np sch hs cat h query sort skip limit nu site

theorem txn_replace_never_panics (ac : ACtx) (hs : SchNoPanic ac.sch) (t : Txn) (h : Handle) (query : Doc)
    (sort : Option Doc) (repl : Doc) (upsert : Bool) (nu : Nu) (site : String) :
    t.replace ac h query sort repl upsert nu ≠ .error (.panic site) :=
  Txn.replace_np ac hs t h query sort repl upsert nu site

theorem txn_update_never_panics (ac : ACtx) (hs : SchNoPanic ac.sch) (t : Txn) (h : Handle) (query : Doc)
    (sort : Option Doc) (update : Doc) (skip limit : Int) (upsert : Bool) (afs : List Doc) (nu : Nu)
    (site : String) : t.update ac h query sort update skip limit upsert afs nu ≠ .error (.panic site) :=
  Txn.update_np ac hs t h query sort update skip limit upsert afs nu site

theorem txn_delete_never_panics (sch : SchemaEval) (hs : SchNoPanic sch) (t : Txn) (h : Handle) (query : Doc)
    (sort : Option Doc) (skip limit : Int) (nu : Nu) (site : String) :
    t.delete sch h query sort skip limit nu ≠ .error (.panic site) :=
  Txn.delete_np sch hs t h query sort skip limit nu site

/-- `Transaction.Bulk`: the call never fails with a panic and no per-operation error is one -/
theorem txn_bulk_never_panics (ac : ACtx) (hs : SchNoPanic ac.sch) (t : Txn) (h : Handle)
    (ops : List Operation) (ordered : Bool) (nu : Nu) (site : String) :
    t.bulk ac h ops ordered nu ≠ .error (.panic site) ∧
    ∀ t' rs nu', t.bulk ac h ops ordered nu = .ok (t', rs, nu') → ∀ r ∈ rs, r.error ≠ some (.panic site) :=
  ⟨Txn.bulk_np ac t h ops ordered nu site,
   fun t' rs nu' hr r hm => Txn.bulk_result_np ac hs t t' h ops ordered nu nu' rs hr r hm site⟩

theorem txn_drop_never_panics (t : Txn) (h : Handle) (nu : Nu) (site : String) :
    t.drop h nu ≠ .error (.panic site) := Txn.drop_np t h nu site

theorem txn_createIndex_never_panics (sch : SchemaEval) (hs : SchNoPanic sch) (t : Txn) (h : Handle)
    (name : String) (config : IndexConfig) (site : String) :
    t.createIndex sch h name config ≠ .error (.panic site) := Txn.createIndex_np sch hs t h name config site

theorem txn_dropIndex_never_panics (t : Txn) (h : Handle) (name : String) (site : String) :
    t.dropIndex h name ≠ .error (.panic site) := Txn.dropIndex_np t h name site

theorem txn_dropIndexByKey_never_panics (t : Txn) (h : Handle) (key : Doc) (site : String) :
    t.dropIndexByKey h key ≠ .error (.panic site) := Txn.dropIndexByKey_np t h key site

theorem txn_listIndexes_never_panics (t : Txn) (h : Handle) (site : String) :
    t.listIndexes h ≠ .error (.panic site) := Txn.listIndexes_np t h site

theorem txn_count_never_panics (t : Txn) (h : Handle) (site : String) :
    t.count h ≠ .error (.panic site) := Txn.count_np t h site

/-- `Transaction.Expire` (the TTL pass) -/
theorem txn_expire_never_panics (sch : SchemaEval) (hs : SchNoPanic sch) (t : Txn) (nowMs : Int) (nu : Nu)
    (site : String) : t.expire sch nowMs nu ≠ .error (.panic site) := Txn.expire_np sch hs t nowMs nu site

/-! ## §5 Driver calls and sessions -/

/-- every driver call, on any transaction state: no panic, and no panic inside the reply either -/
theorem runCall_never_panics (sch : SchemaEval) (hs : SchNoPanic sch) (t0 : Txn) (nu : Nu) (c : Call)
    (site : String) :
    runCall sch t0 nu c ≠ .error (.panic site) ∧
    ∀ t nu' r, runCall sch t0 nu c = .ok (t, nu', r) → r.NP :=
  ⟨runCall_np sch hs t0 nu c site, fun t nu' r h => runCall_reply_np sch hs t0 t nu nu' c r h⟩

/-- one call outside any session (Begin → call → Commit) -/
theorem step_never_panics (sch : SchemaEval) (hs : SchNoPanic sch) (s : Sys) (c : Call) (oids : List V)
    (site : String) :
    s.step sch c oids ≠ .error (.panic site) ∧ ∀ s' r, s.step sch c oids = .ok (s', r) → r.NP :=
  ⟨Sys.step_np sch hs s c oids site, fun s' r h => Sys.step_reply_np sch hs s s' c oids r h⟩

/-- the session layer: whatever the step answers — reply, `done`, `blocked`, `failed e` — carries no panic -/
theorem session_step_never_panics (sch : SchemaEval) (hs : SchNoPanic sch) (s : SSys) (c : SCall)
    (site : String) : (s.step sch c).2 ≠ .failed (.panic site) := by
  intro h
  have := SSys.step_np sch hs s c
  rw [h] at this
  exact this site rfl

theorem session_reply_never_panics (sch : SchemaEval) (hs : SchNoPanic sch) (s : SSys) (c : SCall) :
    (s.step sch c).2.NP := SSys.step_np sch hs s c

/-- the bulk-write reply of the model with one failing operation: its error list is inspected by `Reply.NP` -/
example : ¬ (Reply.bulk 0 0 0 0 0 [] [(0, .panic "x")]).NP := fun h => h (0, .panic "x") (by simp) "x" rfl
example : (Reply.bulk 0 0 0 0 0 [] [(0, .dup)]).NP := by
  intro p hp site h; simp at hp; subst hp; cases h

/-! ## §6 The engine can serve the next call (sequential level) -/

/-- a call returns a result or an error — never anything else (`Sys.step` is a total function) -/
theorem call_returns_result_or_error (sch : SchemaEval) (hs : SchNoPanic sch) (s : Sys) (c : Call) (oids : List V) :
    (∃ s' r, s.step sch c oids = .ok (s', r) ∧ r.NP) ∨
    (∃ e, s.step sch c oids = .error e ∧ ∀ site, e ≠ .panic site) := by
  cases h : s.step sch c oids with
  | ok p => exact .inl ⟨p.1, p.2, rfl, Sys.step_reply_np sch hs s p.1 c oids p.2 h⟩
  | error e => exact .inr ⟨e, rfl, fun site he => Sys.step_np sch hs s c oids site (by rw [h, he])⟩

/-- `failed_call_is_noop`: a failing call hands on the state it received, so every later call
    observes exactly what it would have observed had the failed call not been made, and the final
    state is the same. -/
theorem failed_call_is_noop (sch : SchemaEval) (s : Sys) (c : Call) (oids : List V) (e : Err)
    (rest : List (Call × List V)) (h : s.step sch c oids = .error e) :
    Sys.trace sch s ((c, oids) :: rest) = .error e :: Sys.trace sch s rest ∧
    Sys.after sch s ((c, oids) :: rest) = Sys.after sch s rest :=
  Sys.failed_call_is_noop sch s c oids e rest h

/-- the same in terms of `Sys.run` (Spec/IndexSpec), the run function of the index properties -/
theorem failed_call_is_noop_run (sch : SchemaEval) (s : Sys) (c : Call) (oids : List V) (e : Err)
    (rest : List (Call × List V)) (h : s.step sch c oids = .error e) :
    Sys.run sch s ((c, oids) :: rest) = Sys.run sch s rest := by
  rw [← Sys.after_eq_run, ← Sys.after_eq_run]
  exact (Sys.failed_call_is_noop sch s c oids e rest h).2

/-- `next_call_served`: in every sequence of calls (failing ones included) every call gets its
    answer — one observation per call, none a panic, no reply carrying one. -/
theorem next_call_served (sch : SchemaEval) (hs : SchNoPanic sch) (s : Sys) (calls : List (Call × List V)) :
    (Sys.trace sch s calls).length = calls.length ∧
    ∀ o ∈ Sys.trace sch s calls, (∀ site, o ≠ .error (.panic site)) ∧ ∀ r, o = .ok r → r.NP :=
  Sys.trace_served sch hs s calls

/-- the session layer: a failed or blocked call leaves the whole system (catalog, writer slot,
    every session's transaction) as it was … -/
theorem session_failed_call_is_noop (sch : SchemaEval) (s : SSys) (c : SCall) :
    (∀ e, (s.step sch c).2 = .failed e → (s.step sch c).1 = s) ∧
    ((s.step sch c).2 = .blocked → (s.step sch c).1 = s) :=
  ⟨fun e h => SSys.step_failed_unchanged sch s c e h, fun h => SSys.step_blocked_unchanged sch s c h⟩

/-- … and every call of every session-level sequence is answered without a panic. -/
theorem session_next_call_served (sch : SchemaEval) (hs : SchNoPanic sch) (s : SSys) (calls : List SCall) :
    (SSys.trace sch s calls).length = calls.length ∧ ∀ o ∈ SSys.trace sch s calls, o.NP :=
  SSys.trace_served sch hs s calls

/-! ## §7 The guards at the former overflow sites -/

/-- `push_slice_no_overflow`, part 1 (`$position`): for every int64 `p` — `math.MinInt64` included —
    and every array length `n`, `len(arr)+int(p)` stays in int64, the insertion index lies in
    `[0, n]`, and the model's expression is the Go one. -/
theorem push_position_no_overflow (n p : Int) (hn : 0 ≤ n ∧ n ≤ i64Max) (hp : i64Min ≤ p ∧ p ≤ i64Max) :
    (p < 0 → i64Min ≤ n + p ∧ n + p ≤ i64Max) ∧
    (let goIdx : Int := if p < 0 then (if n + p < 0 then 0 else n + p) else (if p > n then n else p)
     0 ≤ goIdx ∧ goIdx ≤ n ∧
     ((if p < 0 then (n + p).toNat else min p.toNat n.toNat : Nat) : Int) = goIdx) :=
  push_position_guard n p hn hp

/-- `push_slice_no_overflow`, part 2 (`$slice`): for every int64 `s` and length `m`: `-int64(len)`
    and `len+int(s)` stay in int64 (the code no longer negates `s`), the re-slice bounds lie in
    `[0, m]`, and the model's truncated subtraction is the Go branch. -/
theorem push_slice_no_overflow (m s : Int) (hm : 0 ≤ m ∧ m ≤ i64Max) (hs : i64Min ≤ s ∧ s ≤ i64Max) :
    (i64Min ≤ -m ∧ -m ≤ i64Max) ∧
    (s > 0 → s < m → 0 ≤ s ∧ s ≤ m) ∧
    (s < 0 → s > -m → 0 ≤ m + s ∧ m + s ≤ m ∧ i64Min ≤ m + s) ∧
    (s < 0 → ((m.toNat - (-s).toNat : Nat) : Int) = if s > -m then m + s else 0) :=
  push_slice_guard m s hm hs

example : (let p : Int := i64Min; let n : Int := 3
           (if p < 0 then (n + p).toNat else min p.toNat n.toNat : Nat) = 0) := by decide

/-- on the model's lists, for ALL `Int` arguments: the insertion index is within the array, the
    array grows by exactly the pushed values, and the `$slice` window is a sub-range. -/
theorem push_window_in_range {α} (arr vals : List α) (p s : Int) :
    (if p < 0 then ((arr.length : Int) + p).toNat else min p.toNat arr.length) ≤ arr.length ∧
    (∀ i, (insertAtIdx arr i vals).length = arr.length + vals.length) ∧
    (s > 0 → (arr.take s.toNat).length = min s.toNat arr.length) ∧
    (s < 0 → arr.length - (-s).toNat ≤ arr.length ∧
        (arr.drop (arr.length - (-s).toNat)).length = min (-s).toNat arr.length) :=
  ⟨push_insertAt_le arr p, fun i => insertAtIdx_length arr vals i, (push_slice_window arr s).1,
   (push_slice_window arr s).2⟩

/-- `put_index_guard`, rejection: a key that `ParseIndex` does not accept (anything but plain
    digits — "-1", "+1", "-0" included, the same keys `get` does not read as an index) and
    `math.MaxInt` (where `index+1` would wrap) are plain errors. -/
theorem put_index_rejected (xs : List V) (key : String) (rest : Path) (value : V) (pre : Bool)
    (hne : ¬(key = "" ∧ rest = [])) (hbad : parseIndex key = none ∨ parseIndex key = some maxInt) :
    put (.arr xs) (key :: rest) value pre = .error .err :=
  Lungo.put_index_rejected xs key rest value pre hne hbad

/-- `put_index_guard`, padding limit: an index more than `MaxArrayPadding` (1 500 000) beyond the end
    of the array is a plain error, for every value (for a present value this is the new guard in
    front of the padding loop; an unset beyond the end was an error before). -/
theorem put_padding_rejected (xs : List V) (key : String) (rest : Path) (value : V) (pre : Bool) (index : Nat)
    (hk : parseIndex key = some index) (hpad : xs.length + maxArrayPadding < index) :
    put (.arr xs) (key :: rest) value pre = .error .err :=
  Lungo.put_padding_rejected xs key rest value pre index hk hpad

/-- `put_index_guard`, success: the key parsed as an index (`ParseIndex`, so `0 ≤ index`) with
    `index+1 ≤ MaxInt` (no wrap), at most `MaxArrayPadding` nulls are added
    (`index ≤ len + MaxArrayPadding`), and the new array has length `max len (index+1)` — the written
    element exists, nothing outside the (padded) array is touched. -/
theorem put_index_guard (xs : List V) (key : String) (rest : Path) (value : V) (pre : Bool) (nv prev : V)
    (h : put (.arr xs) (key :: rest) value pre = .ok (nv, prev)) :
    ∃ (index : Nat) (ys : List V), parseIndex key = some index ∧ index + 1 ≤ maxInt ∧
      index ≤ xs.length + maxArrayPadding ∧
      nv = .arr ys ∧ ys.length = max xs.length (index + 1) :=
  Lungo.put_index_guard xs key rest value pre nv prev h

/-- a consequence: a successful `put` grows an array by at most `MaxArrayPadding + 1` elements -/
example (xs : List V) (key : String) (rest : Path) (value : V) (pre : Bool) (nv prev : V)
    (h : put (.arr xs) (key :: rest) value pre = .ok (nv, prev)) :
    ∃ ys, nv = .arr ys ∧ xs.length ≤ ys.length ∧ ys.length ≤ xs.length + maxArrayPadding + 1 := by
  obtain ⟨i, ys, _, _, h3, h4, h5⟩ := put_index_guard xs key rest value pre nv prev h
  exact ⟨ys, h4, by omega, by omega⟩

/-- each recursive call of `resolve` is on a path with strictly fewer `$` characters … -/
theorem resolve_recursion_decreases (path head op : String) (tail : Option String) (i : Nat)
    (h : splitDynamicPath path = (some head, some op, tail)) :
    countDollar (buildPath head i tail) < countDollar path :=
  buildPath_fewer_dollars path head op tail i h

/-- `resolve_fuel_sufficient`: … so with the fuel `Apply` passes (`countDollar path + 1`) the
    fuel-exhaustion branch is never what produces the result: ANY larger fuel gives the same answer. -/
theorem resolve_fuel_sufficient (sch : SchemaEval) (doc : Doc) (afs : List Doc) (path : String) (extra : Nat) :
    resolve sch (countDollar path + 1 + extra) path doc afs = resolve sch (countDollar path + 1) path doc afs :=
  resolve_fuel_stable sch doc afs _ _ path (by omega) (by omega)

/-! ## TESTS — the inputs that used to panic (DESIGN §10) now yield a value or a plain error -/

section Tests
def ctx0 : ACtx := { sch := schemaUnmodelled, upsert := false, nowDate := .date 0, nowTs := .ts 0 0 }
def isErr {α} : Res α → Bool
  | .error .err => true
  | _ => false
def isOk {α} : Res α → Bool
  | .ok _ => true
  | _ => false
def h0 : Handle := ⟨"db", "c"⟩
def docArr : Doc := [("_id", .i32 1), ("a", .arr [.i32 1, .i32 2, .i32 3])]
def minI64 : V := .i64 (-9223372036854775808)
def maxI64 : V := .i64 9223372036854775807

-- TEST `$push … $slice: MinInt64`, `$position: MinInt64`
#guard isOk (Apply ctx0 docArr [("$push", .doc [("a", .doc [("$each", .arr [.i32 9]), ("$slice", minI64)])])] [])
#guard isOk (Apply ctx0 docArr [("$push", .doc [("a", .doc [("$each", .arr [.i32 9]), ("$position", minI64)])])] [])
-- TEST projection `$slice: MinInt64` and `$slice: [1, MaxInt64]`
#guard isOk (Project schemaUnmodelled docArr [("a", .doc [("$slice", minI64)])])
#guard isOk (Project schemaUnmodelled docArr [("a", .doc [("$slice", .arr [.i32 1, maxI64])])])
-- TEST `$set` on `a.9223372036854775807`
#guard isErr (Apply ctx0 docArr [("$set", .doc [("a.9223372036854775807", .i32 1)])] [])
#guard isErr (Put docArr (splitPath "a.9223372036854775807") (.i32 1) false)
-- TEST the hypotheses of `put_index_rejected` / `put_padding_rejected` / `put_index_guard` are met
#guard parseIndex "-1" == none && parseIndex "+1" == none && parseIndex "-0" == none && parseIndex "x" == none
#guard parseIndex "9223372036854775807" == some maxInt && parseIndex "9223372036854775808" == none
#guard isErr (Put docArr (splitPath "a.-1") (.i32 1) false) && isErr (Put docArr (splitPath "a.+1") (.i32 1) false)
#guard parseIndex "1500004" == some 1500004 && decide (3 + maxArrayPadding < 1500004)
#guard isErr (Put docArr (splitPath "a.1500004") (.i32 1) false)       -- 1500001 nulls needed: rejected
#guard isErr (Apply ctx0 docArr [("$set", .doc [("a.1000000000000", .i32 1)])] [])
#guard (match Put docArr (splitPath "a.5") (.i32 9) false with
        | .ok (d, _) => d == [("_id", .i32 1), ("a", .arr [.i32 1, .i32 2, .i32 3, .null, .null, .i32 9])]
        | .error _ => false)
#guard (match Put docArr (splitPath "a.01") (.i32 9) false with
        | .ok (d, _) => d == [("_id", .i32 1), ("a", .arr [.i32 1, .i32 9, .i32 3])]
        | .error _ => false)
-- TEST negative skip
#guard isErr (selectDocs schemaUnmodelled (newColl true) [] none (-1) 0)
-- TEST replace / update of a document whose `_id` is a document or a binary
def sysDocId : Sys :=
  match Sys.init.step schemaUnmodelled (.insertOne h0 [("_id", .doc [("k", .i32 1)]), ("x", .i32 0)]) [] with
  | .ok (s, _) => s
  | .error _ => Sys.init
#guard isOk (sysDocId.step schemaUnmodelled (.updateOne h0 [] [("$set", .doc [("x", .i32 1)])] false []) [])
#guard isOk (sysDocId.step schemaUnmodelled (.replaceOne h0 [] [("_id", .doc [("k", .i32 1)]), ("x", .i32 2)] false) [])
#guard isErr (sysDocId.step schemaUnmodelled (.replaceOne h0 [] [("_id", .bin 0 [1]), ("x", .i32 2)] false) [])
-- TEST a failing call is a no-op for the next one (`failed_call_is_noop` instance)
#guard isErr (sysDocId.step schemaUnmodelled (.dropIndex h0 "nope") [])
#guard (Sys.trace schemaUnmodelled sysDocId [(.dropIndex h0 "nope", []), (.estCount h0, [])]).length == 2
-- TEST operator arguments of the wrong type, empty keys and paths
#guard isErr (Apply ctx0 docArr [("$inc", .doc [("", .str "x")])] [])
#guard isErr (Apply ctx0 docArr [("$push", .doc [("a", .doc [("$each", .i32 1)])])] [])
#guard isErr (Project schemaUnmodelled docArr [("a", .doc [("$slice", .str "x")])])
#guard isErr (sortBySpec [docArr] [("a", .f64 0x7FF8000000000000)])    -- NaN direction
#guard isErr (Sys.init.step schemaUnmodelled (.find ⟨"", ""⟩ [("$and", .arr [])] {}) [])
-- TEST the fuel of resolve
#guard (match resolve schemaUnmodelled (countDollar "a.$[].b.$[]" + 1) "a.$[].b.$[]"
          [("a", .arr [.doc [("b", .arr [.i32 1, .i32 2])]])] [] with
        | .ok ps => ps == ["a.0.b.0", "a.0.b.1"]
        | .error _ => false)
end Tests

end Lungo.C20
