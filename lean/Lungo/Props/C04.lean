/-
  C04 — "Concurrent operations are strictly serializable; no update is lost."

  Theorems about `Lungo.Conc` (Model/Conc.lean), for every reachable state, any number of actors,
  all interleavings (including those inside the Begin/Commit/Abort critical sections) and all
  fault choices.  Data is abstract: the catalog is the log of applied operation ids; an operation's
  result is a function of the log prefix it ran on (`HEntry.seen`), so "replaying the committed
  writes one at a time in log order reproduces every result" is: each committed transaction's base
  equals the log produced by its predecessors (`serializable`) and each write's `seen` is a prefix
  position of its transaction's log (`write_history`).
  Ghost fields used: `commitLog` (records appended at the commit step), `hist` (writes),
  `reads` (finished read-only calls), `done`/`before` (returned commits, snapshot at invocation).
-/
import Lungo.Proofs.ConcLogAll
import Lungo.Proofs.ConcFreezeAll
namespace Lungo.Conc.C04
open Lungo.Conc

/-- `base_is_current`: while a write transaction is installed (its owner holds the token) its
    start snapshot is the engine's catalog; likewise for the actor inside `Commit` between
    `e.txn = nil` and the catalog swap. -/
theorem base_is_current {n : Nat} {s : State} (h : Reachable n s) :
    (∀ t, s.eng.txn = some t → (s.txns t).base = s.eng.catalog) ∧
    (∀ a t, (s.loc a).pc = .cStore → (s.loc a).t = some t → (s.txns t).base = s.eng.catalog) :=
  ⟨(linv_reachable h).1, (linv_reachable h).2.1⟩

/-- `serializable`: the catalog is the concatenation of the committed transactions' operations in
    commit order (the change log), and the `i`-th committed transaction ran on exactly the log
    produced by transactions `0..i-1` — so replaying the log one transaction at a time reproduces
    the base every committed call observed, and its own operations follow directly. -/
theorem serializable {n : Nat} {s : State} (h : Reachable n s) :
    s.eng.catalog = logOf s.commitLog ∧
    ∀ i r, s.commitLog[i]? = some r →
      r.base = logOf (s.commitLog.take i) ∧
      ∃ rest, s.eng.catalog = r.base ++ r.ops ++ rest := by
  obtain ⟨_, _, l3, l4⟩ := linv_reachable h
  refine ⟨l3, fun i r hi => ?_⟩
  have hb := serialFrom_get l4 hi
  simp only [List.nil_append] at hb
  refine ⟨hb, ?_⟩
  obtain ⟨rest, hr⟩ := logOf_take_lt hi (Nat.lt_succ_self i)
  refine ⟨rest ++ logOf (s.commitLog.drop (i + 1)), ?_⟩
  rw [l3, ← logOf_take_drop s.commitLog (i + 1), hr, hb]
  simp [List.append_assoc]

/-- `no_lost_update`: two committed transactions never start from the same base once the earlier
    one wrote something — the later one's base contains the earlier one's operations.  In
    particular two committed read-modify-write calls never overwrite each other. -/
theorem no_lost_update {n : Nat} {s : State} (h : Reachable n s) {i j : Nat} {r1 r2 : CRec}
    (hi : s.commitLog[i]? = some r1) (hj : s.commitLog[j]? = some r2) (hij : i < j) :
    (∃ rest, r2.base = r1.base ++ r1.ops ++ rest) ∧ (r1.ops ≠ [] → r1.base ≠ r2.base) := by
  obtain ⟨_, hser⟩ := serializable h
  have h1 := (hser i r1 hi).1
  have h2 := (hser j r2 hj).1
  obtain ⟨rest, hr⟩ := logOf_take_lt hi hij
  have hb : r2.base = r1.base ++ r1.ops ++ rest := by rw [h2, hr, h1]
  refine ⟨⟨rest, hb⟩, fun hne heq => ?_⟩
  have hl := congrArg List.length hb
  rw [← heq] at hl
  simp only [List.length_append] at hl
  have : r1.ops.length = 0 := by omega
  exact hne (List.length_eq_zero_iff.mp this)

/-- `write_history_local` (every reachable state, sessions may be shared): every write a callback
    performed ran on log `seen`, and its operation directly follows `seen` in its transaction's
    private log `base ++ ops`. -/
theorem write_history_local {n : Nat} {s : State} (h : Reachable n s) :
    ∀ e ∈ s.hist, Pre (e.seen ++ [e.op]) ((s.txns e.tid).base ++ (s.txns e.tid).ops) :=
  fun e he => ((inv3_reachable h).hinv e he).2

/-- `write_history` (the part of `serializable` about individual calls; configuration: no session is
    used by two actors at once, `ReachableU`): for every write `e` a callback performed and every
    commit record `r` of its transaction, the log `e.seen` the write ran on followed by its operation
    is a prefix of `r.base ++ r.ops`, hence of the catalog: replaying the change log one operation at
    a time reaches exactly the state the call observed and then applies its operation — every
    committed call's returned result is reproduced.  (The committed transaction object is frozen:
    `(s.txns r.tid).ops = r.ops`.) -/
theorem write_history {n : Nat} {s : State} (h : ReachableU n s) :
    ∀ e ∈ s.hist, ∀ r ∈ s.commitLog, r.tid = e.tid →
      Pre (e.seen ++ [e.op]) (r.base ++ r.ops) ∧ Pre (e.seen ++ [e.op]) s.eng.catalog := by
  intro e he r hr htid
  have hl := write_history_local h.reachable e he
  obtain ⟨hops, hbase⟩ := (zfrz_reachable h).2.2.2.1 r hr
  rw [← htid, hops, hbase] at hl
  refine ⟨hl, ?_⟩
  obtain ⟨i, hi⟩ := List.getElem?_of_mem hr
  obtain ⟨rest, hcat⟩ := ((serializable h.reachable).2 i r hi).2
  rw [hcat]
  exact hl.app rest

/-- the restriction is necessary: with a session shared by two actors, a goroutine that obtained
    `sess.Transaction()` before the other goroutine's `CommitTransaction` can still run its callback
    on the (now committed) transaction object; its acknowledged write never reaches the catalog.
    (MongoDB sessions are not safe for concurrent use, so this is outside the property's domain.) -/
def staleWrite : List (ActorId × Choice) :=
  [(1, .call (.sessStart 5)), (1, .go), (1, .go), (1, .go), (1, .go), (1, .tok), (1, .go), (1, .go),
   (1, .go), (1, .go), (1, .go),                                   -- session 5 has transaction 0
   (2, .call (.useTx true (some 5))), (2, .go), (2, .go),          -- 2 read sess.Transaction() = txn 0
   (1, .call (.sessCommit 5)), (1, .go), (1, .go), (1, .go), (1, .go), (1, .go),   -- 1 commits txn 0
   (2, .cbWrite)]                                                  -- 2's callback writes into txn 0

theorem write_history_fails_shared :
    ∃ s, Reachable 2 s ∧ ∃ e ∈ s.hist, ∃ r ∈ s.commitLog, r.tid = e.tid ∧
      (s.loc 2).res = .ok ∧ ¬ Pre (e.seen ++ [e.op]) s.eng.catalog := by
  have hsome : (run (init 2) staleWrite).isSome = true := by rfl
  refine ⟨(run (init 2) staleWrite).get hsome, run_reachable .init staleWrite _ (by simp), ?_⟩
  refine ⟨⟨0, [], 0⟩, ?_, ⟨0, [], [], 0, []⟩, ?_, rfl, ?_, ?_⟩
  · show _ ∈ ((run (init 2) staleWrite).get hsome).hist
    have : ((run (init 2) staleWrite).get hsome).hist = [⟨0, [], 0⟩] := by rfl
    rw [this]; simp
  · show _ ∈ ((run (init 2) staleWrite).get hsome).commitLog
    have : ((run (init 2) staleWrite).get hsome).commitLog = [⟨0, [], [], 0, []⟩] := by rfl
    rw [this]; simp
  · rfl
  · have : ((run (init 2) staleWrite).get hsome).eng.catalog = [] := by rfl
    rw [this]
    rintro ⟨r, hr⟩
    simp at hr

/-- `real_time`: the log order respects real time.  `rB.before` is the snapshot, taken when the call
    that began `rB` was INVOKED, of `done` = the (transaction, end position) pairs appended whenever a
    call that committed RETURNS.  Every such pair is an actual commit record `rA`, and `rA`'s
    operations end at or before the position where `rB`'s operations start: a transaction whose
    committing call returned before another's call was issued comes first in the log.  Moreover the
    commit point lies inside the call's interval (`rB.invLen ≤ |rB.base|`), and `rB`'s operations are
    in the catalog from the commit step on. -/
theorem real_time {n : Nat} {s : State} (h : Reachable n s) :
    ∀ rB ∈ s.commitLog,
      (∀ p ∈ rB.before, ∃ rA ∈ s.commitLog, rA.tid = p.1 ∧ rA.base.length + rA.ops.length = p.2 ∧
          rA.base.length + rA.ops.length ≤ rB.base.length) ∧
      rB.invLen ≤ rB.base.length ∧ rB.base.length + rB.ops.length ≤ s.eng.catalog.length := by
  intro r hr
  obtain ⟨h1, h2, h3⟩ := (inv3_reachable h).rinv.1 r hr
  refine ⟨fun p hp => ?_, h2, h1⟩
  obtain ⟨rA, hA, hA1, hA2⟩ := (ninv_reachable h).2.2.2 r hr p hp
  exact ⟨rA, hA, hA1, hA2, by rw [hA2]; exact Nat.le_trans (h3 p hp) h2⟩

/-- `real_time`, returned side: every entry of `done` (appended when the committing call returns)
    names an actual commit record whose operations are inside the current log. -/
theorem returned_in_log {n : Nat} {s : State} (h : Reachable n s) :
    ∀ p ∈ s.done, (∃ rA ∈ s.commitLog, rA.tid = p.1 ∧ rA.base.length + rA.ops.length = p.2) ∧
      p.2 ≤ s.eng.catalog.length :=
  fun p hp => ⟨(ninv_reachable h).1 p hp, (inv3_reachable h).rinv.2.1 p hp⟩

/-- `read_prefix`: every finished read-only call observed a prefix of the log whose length lies
    between the log length at its invocation and at its return — the state after a committed
    prefix that was current at some instant during the call (the log is append-only:
    `log_append_only`). -/
theorem read_prefix {n : Nat} {s : State} (h : Reachable n s) :
    ∀ r ∈ s.reads, Pre r.obs s.eng.catalog ∧ r.invLen ≤ r.obs.length ∧ r.obs.length ≤ r.retLen :=
  (inv3_reachable h).pinv.1

/-- the catalog only ever grows by appending -/
theorem log_append_only {n : Nat} {s s' : State} {a : ActorId} {c : Choice} (h : Reachable n s)
    (hs : step s a c = some s') : ∃ ops, s'.eng.catalog = s.eng.catalog ++ ops :=
  catalog_grows h hs

/-! ### non-vacuity: two writers racing for the token, one reader in between -/

/-- actor 1 and actor 2 both issue an auto-commit write; 2 acquires only after 1 released;
    actor 3 takes an unlocked snapshot read between the two commits -/
def writeOnce : List (ActorId × Choice) :=
  [(1, .call (.useTx true none)), (1, .go), (1, .go), (1, .tok), (1, .go), (1, .go), (1, .go),
   (1, .cbWrite), (1, .go), (1, .go), (1, .storeOk), (1, .go), (1, .go), (1, .go), (1, .go)]

def race : List (ActorId × Choice) :=
  [(1, .call (.useTx true none)), (2, .call (.useTx true none)),
   (1, .go), (1, .go), (2, .go), (2, .go), (1, .tok), (1, .go), (1, .go), (1, .go),
   (1, .cbWrite), (1, .go), (1, .go), (1, .storeOk),
   (3, .call (.useTx false none)), (3, .go), (3, .go), (3, .go),
   (2, .tok), (2, .go), (2, .go), (2, .go), (2, .cbWrite),
   (1, .go), (1, .go), (1, .go), (1, .go),
   (2, .go), (2, .go), (2, .storeOk), (2, .go), (2, .go), (2, .go), (2, .go),
   (3, .cbNoop)]

example : ((run (init 3) race).map fun s =>
    (s.eng.catalog, s.commitLog.map (fun r => (r.tid, r.base, r.ops, r.before)), s.done,
      s.reads.map (fun r => (r.obs, r.invLen, r.retLen)), s.eng.token)) =
    some ([0, 1], [(0, [], [0], []), (2, [0], [1], [])], [(0, 1), (2, 2)], [([0], 1, 2)], 1) := by rfl

/-- a later call sees the earlier commit in its `before` list -/
example : ((run (init 3) (writeOnce ++ writeOnce)).map fun s =>
    s.commitLog.map (fun r => (r.base, r.ops, r.before))) =
    some [([], [0], []), ([0], [1], [(0, 1)])] := by rfl

end Lungo.Conc.C04
