/-
  Lungo.Props.C03 — Transactions are all-or-nothing; readers see immutable snapshots.

  Level: histories over ONE heap (Proofs/OwnSys.lean).  An event is: a call of any Transaction write method
  (`Expected.txnPrograms`, tied to /repo/transaction.go) with arbitrary arguments and arbitrary
  nondeterminism — in particular arbitrary PARTIAL in-place mutations by the mongokit.Collection methods and
  failures at any point; Engine.Begin; Engine.Commit with any store outcome; Engine.Abort; a reader keeping
  the transaction's catalog or the engine's catalog (a cursor, a read-only transaction, `Catalog()`).
  Argument documents reach the transaction fresh (the driver `Transform`s every value it is given).

  Trusted: `tidwall/btree.Copy` isolation and Go map/slice copying are what `cloneColl`/`cloneCatalog` say
  (the bodies of the five `Clone` functions are tied textually, `tie_cloneBodies`).
-/
import Lungo.Proofs.OwnSys
import Lungo.Props.C02
namespace Lungo.C03
open Lungo.Own

/-- **snapshot_immutable.**  In every history, every snapshot root recorded at an earlier state observes
    — documents, indexes, oplog, identities erased — exactly what it observed when it was taken, whatever
    happened since: calls that failed half-way, calls that succeeded, publishes, aborts. -/
theorem snapshot_immutable (s : Sys) (g : s.Good) (es : List Ev) :
    ∀ p ∈ (s.run es).snaps, observe (s.run es).heap p.1 = p.2 :=
  fun p hp => ((g.run es).snaps p hp).2

/-- a snapshot step records what the root shows at that moment (so `snapshot_immutable` speaks about the
    value at the time the snapshot was taken) -/
theorem snapshot_records (s : Sys) :
    (s.step .snapTxn).snaps.head? = some (s.txn.catalog, observe s.heap s.txn.catalog) ∧
    (s.step .snapEngine).snaps.head? = some (s.engine, observe s.heap s.engine) := ⟨rfl, rfl⟩

/-- snapshots are never dropped or rewritten by later steps -/
theorem snapshot_kept (s : Sys) (e : Ev) : ∀ p ∈ s.snaps, p ∈ (s.step e).snaps := by
  intro p hp
  cases e with
  | call name handle docs ch => simp only [Sys.step]; split <;> exact hp
  | begin => exact hp
  | commit r =>
    simp only [Sys.step]
    split
    · cases r <;> exact hp
    · exact hp
  | abort => exact hp
  | snapTxn => exact List.mem_cons_of_mem _ hp
  | snapEngine => exact List.mem_cons_of_mem _ hp

/-- the invariant survives every step (closed heap, allocated roots, valid snapshots) -/
theorem good_step (s : Sys) (g : s.Good) (e : Ev) : (s.step e).Good := g.step e

/-- **commit_atomic.**  The engine's catalog pointer changes only at a commit of a dirty transaction whose
    store succeeded, and then equals the transaction's catalog; calls (failed or not), begin, abort, a clean
    commit and a failed or panicking store leave it unchanged. -/
theorem commit_atomic (s : Sys) (e : Ev) :
    (s.step e).engine = s.engine ∨
    (e = .commit .ok ∧ s.txn.dirty = true ∧ (s.step e).engine = s.txn.catalog) := by
  cases e with
  | call name handle docs ch => left; simp only [Sys.step]; split <;> rfl
  | begin => exact .inl rfl
  | commit r =>
    cases hd : s.txn.dirty with
    | false => left; simp [Sys.step, hd]
    | true =>
      cases r with
      | ok => right; exact ⟨rfl, rfl, by simp [Sys.step, hd]⟩
      | fail | failWritten | panic => left; simp [Sys.step, hd]
  | abort => exact .inl rfl
  | snapTxn => exact .inl rfl
  | snapEngine => exact .inl rfl

/-- what a reader WITHOUT the transaction observes changes only at a successful commit: until then every
    write of the transaction — complete or half-done — is invisible -/
theorem visibility (s : Sys) (g : s.Good) (e : Ev) (hne : e ≠ .commit .ok) :
    (s.step e).engine = s.engine ∧ observe (s.step e).heap (s.step e).engine = observe s.heap s.engine := by
  have he : (s.step e).engine = s.engine := by
    rcases commit_atomic s e with h | ⟨h, _⟩
    · exact h
    · exact absurd h hne
  refine ⟨he, ?_⟩
  -- record the engine's catalog as a snapshot and use its immutability
  have g' : (s.step .snapEngine).Good := g.step _
  have := ((g'.step e).snaps (s.engine, observe s.heap s.engine)
    (snapshot_kept _ e _ (List.mem_cons_self ..))).2
  have hh : ((s.step .snapEngine).step e).heap = (s.step e).heap := by
    cases e with
    | call name handle docs ch => simp only [Sys.step]; split <;> rfl
    | commit r => cases hd : s.txn.dirty <;> cases r <;> simp [Sys.step, hd]
    | begin | abort | snapTxn | snapEngine => rfl
  rw [he, ← hh]; exact this

/-- **visibility over histories.**  As long as no commit succeeds — whatever calls (failed half-way or complete),
    begins, aborts, failed/panicking commits and snapshot takings happen, in any number and order — a reader
    without the transaction keeps seeing exactly the same catalog with exactly the same contents: an aborted,
    ended or failed-to-commit transaction is never visible, in whole or in part. -/
theorem visibility_run (s : Sys) (g : s.Good) (es : List Ev) (hne : ∀ e ∈ es, e ≠ .commit .ok) :
    (s.run es).engine = s.engine ∧ observe (s.run es).heap (s.run es).engine = observe s.heap s.engine := by
  induction es generalizing s with
  | nil => exact ⟨rfl, rfl⟩
  | cons e es ih =>
    have h1 := visibility s g e (hne e (List.mem_cons_self ..))
    have h2 := ih (s.step e) (g.step e) (fun x hx => hne x (List.mem_cons_of_mem _ hx))
    simp only [Sys.run]
    exact ⟨h2.1.trans h1.1, h2.2.trans h1.2⟩

/-- a successful commit of a dirty transaction publishes the transaction's catalog as it is at that moment:
    all of the transaction's writes become visible together -/
theorem commit_publishes (s : Sys) (hd : s.txn.dirty = true) :
    (s.step (.commit .ok)).engine = s.txn.catalog ∧
    observe (s.step (.commit .ok)).heap (s.step (.commit .ok)).engine = observe s.heap s.txn.catalog := by
  simp [Sys.step, hd]

theorem run_append (s : Sys) (a b : List Ev) : s.run (a ++ b) = (s.run a).run b := by
  induction a generalizing s with
  | nil => rfl
  | cons e a ih => simp only [List.cons_append, Sys.run]; exact ih _

/-- **all_or_nothing.**  In every history, what the other clients see at the end is exactly what the
    transaction's catalog showed at the moment of the last successful (dirty) commit — every write up to that
    commit, none of the writes after it (those are unpublished: still open, aborted, or their commit failed). -/
theorem all_or_nothing (s : Sys) (g : s.Good) (pre post : List Ev)
    (hd : (s.run pre).txn.dirty = true) (hne : ∀ e ∈ post, e ≠ .commit .ok) :
    observe (s.run (pre ++ .commit .ok :: post)).heap (s.run (pre ++ .commit .ok :: post)).engine
      = observe (s.run pre).heap (s.run pre).txn.catalog := by
  rw [run_append]
  simp only [Sys.run]
  have g1 : ((s.run pre).step (.commit .ok)).Good := (g.run pre).step _
  rw [(visibility_run _ g1 post hne).2]
  exact (commit_publishes _ hd).2

/-- and if no commit ever succeeded the end state shows the initial contents -/
theorem nothing_without_commit (s : Sys) (g : s.Good) (es : List Ev) (hne : ∀ e ∈ es, e ≠ .commit .ok) :
    observe (s.run es).heap (s.run es).engine = observe s.heap s.engine := (visibility_run s g es hne).2

/-! ### every state reachable from a freshly opened engine -/

/-- a freshly opened engine: `NewCatalog()` holds the (empty) oplog collection only; no transaction has written -/
def Sys.fresh : Sys := ⟨⟨[.set [], .coll 0 [], .cat [(0, 1)]]⟩, ⟨2, false⟩, 2, []⟩

theorem fresh_good : Sys.fresh.Good := by
  refine ⟨⟨?_, by decide⟩, by decide, fun p hp => by cases hp⟩
  intro o x hx p hp
  have : o < 3 := Heap.get_lt _ hx
  revert x p
  revert o
  decide +kernel

/-- **snapshot_immutable, unconditional form.**  In every history of a freshly opened engine every snapshot ever
    taken still observes what it observed when it was taken (no hypothesis left to discharge). -/
theorem reachable_snapshot_immutable (es : List Ev) :
    ∀ p ∈ (Sys.fresh.run es).snaps, observe (Sys.fresh.run es).heap p.1 = p.2 :=
  snapshot_immutable _ fresh_good es

/-- **all_or_nothing, unconditional form** for histories of a freshly opened engine -/
theorem reachable_all_or_nothing (pre post : List Ev)
    (hd : (Sys.fresh.run pre).txn.dirty = true) (hne : ∀ e ∈ post, e ≠ .commit .ok) :
    observe (Sys.fresh.run (pre ++ .commit .ok :: post)).heap (Sys.fresh.run (pre ++ .commit .ok :: post)).engine
      = observe (Sys.fresh.run pre).heap (Sys.fresh.run pre).txn.catalog :=
  all_or_nothing _ fresh_good pre post hd hne

/-- the same store-then-publish discipline in the Engine model of C05 (Model/CommitStore.lean):
    `e.catalog` changes only in `commit .ok` of a dirty transaction, to that transaction's catalog -/
theorem commit_atomic_store {C : Type} (e : CommitStore.Engine C) (op : CommitStore.Op C) :
    (CommitStore.step e op).1.catalog = e.catalog ∨
    (∃ t, e.txn = some t ∧ t.dirty = true ∧ op = .commit .ok ∧ (CommitStore.step e op).1.catalog = t.cat) := by
  cases op with
  | begin =>
    left; simp only [CommitStore.step]
    split
    · rfl
    · split <;> rfl
  | write c => left; simp only [CommitStore.step]; split <;> rfl
  | abort => left; simp only [CommitStore.step]; split <;> rfl
  | commit r =>
    simp only [CommitStore.step]
    cases ht : e.txn with
    | none => exact .inl rfl
    | some t =>
      cases hd : t.dirty with
      | false => left; simp [hd]
      | true =>
        cases r with
        | ok => right; exact ⟨t, rfl, hd, rfl, by simp [hd]⟩
        | fail | failWritten | panic => left; simp [hd]

/-! ### non-vacuity -/

open Lungo.Expected in
/-- a concrete history: snapshot, a failing Update (after emptying the cloned Set), a successful Insert,
    publish, another snapshot — the first snapshot still shows document 7 only, the engine shows the insert -/
example :
    let s0 : Sys := ⟨Lungo.C02.hA, ⟨6, false⟩, 6, []⟩
    let es : List Ev := [.snapEngine, .begin,
      .call "Update" 1 [] Lungo.C02.chFail,
      .call "Insert" 1 [("list", [9])] { flags := [false, false, true], iters := [1], muts := [{ newDocs := [], list := some [0, 14] }, ({} : Mut)] },
      .commit .ok, .snapEngine]
    (s0.run es).engine ≠ 6 ∧
    (s0.run es).snaps.map (·.2) =
      [some [(0, some ⟨some [], []⟩), (1, some ⟨some [some 7, some 9], [("_id_", some [some 7])]⟩)],
       some [(0, some ⟨some [], []⟩), (1, some ⟨some [some 7], [("_id_", some [some 7])]⟩)]] := by
  decide +kernel


open Lungo.Expected in
/-- `all_or_nothing` at a concrete history: the insert before the commit is published, the insert after it
    (a failing Update, aborted, then a commit that fails) is not -/
example :
    let s0 : Sys := ⟨Lungo.C02.hA, ⟨6, false⟩, 6, []⟩
    let ins (d : Nat) : Ev := .call "Insert" 1 [("list", [d])] { flags := [false, false, true], iters := [1], muts := [{ newDocs := [], list := some [0, 14] }, ({} : Mut)] }
    let pre : List Ev := [.begin, .call "Update" 1 [] Lungo.C02.chFail, ins 9]
    let post : List Ev := [.begin, .call "Update" 1 [] Lungo.C02.chFail, .abort, .commit .fail]
    (s0.run pre).txn.dirty = true ∧ (∀ e ∈ post, e ≠ .commit .ok) ∧
    observe (s0.run (pre ++ .commit .ok :: post)).heap (s0.run (pre ++ .commit .ok :: post)).engine
      = some [(0, some ⟨some [], []⟩), (1, some ⟨some [some 7, some 9], [("_id_", some [some 7])]⟩)] := by
  refine ⟨by decide +kernel, ?_, by decide +kernel⟩
  intro e he
  simp only [List.mem_cons, List.mem_nil_iff, or_false] at he
  rcases he with rfl | rfl | rfl | rfl <;> simp


/-- `reachable_all_or_nothing` is not vacuous: from a freshly opened engine, `Create` makes the transaction
    dirty; the collection is invisible to others before the commit and visible after it, and a snapshot of the
    engine taken before still shows the oplog only -/
example :
    let pre : List Ev := [.snapEngine, .begin, .call "Create" 1 [] {}]
    (Sys.fresh.run pre).txn.dirty = true ∧
    observe (Sys.fresh.run pre).heap (Sys.fresh.run pre).engine = some [(0, some ⟨some [], []⟩)] ∧
    observe (Sys.fresh.run (pre ++ [.commit .ok, .abort])).heap (Sys.fresh.run (pre ++ [.commit .ok, .abort])).engine
      = some [(1, some ⟨some [], [("_id_", some [])]⟩), (0, some ⟨some [], []⟩)] ∧
    (Sys.fresh.run (pre ++ [.commit .ok, .abort])).snaps.map (·.2) = [some [(0, some ⟨some [], []⟩)]] := by
  decide +kernel

end Lungo.C03
