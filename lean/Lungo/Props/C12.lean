/-
  Lungo.Props.C12 — "BSON value comparison is a total order consistent with the MongoDB type order".

  `V.cmp` is the model of `bsonkit.Compare` (Lungo/Model/Compare.lean).  All proofs are in
  Lungo/Proofs/{Order,CompareLaws}.lean; this file only states the property theorems.

  Hypotheses.  `cmp_refl`, `cmp_swap` and `cmp_rank` hold for ALL values of the model type `V`.
  Transitivity, congruence and numeric exactness need ONE well-formedness fact, `V.i64Ok`
  (Lungo/Spec/I64Ok.lean): every `int64` payload occurring in the value lies in the int64 range (`V.wf` implies it; a Go `int64`
  always satisfies it).  Reason: the model type stores an `i64` payload as an unbounded `Int`, and
  for an out-of-range payload the range checks of `compareInt64ToFloat64` ("double ≥ 2^63 ⇒ less",
  "double < −2^63 ⇒ greater") are simply wrong.  `cmp_trans_needs_i64Ok`, `cmp_congr_needs_i64Ok`
  and `cmp_num_exact_needs_i64Ok` below are the counterexamples.  No other part of `V.wf`
  (int32 range, 12-byte object ids, uint32 timestamps, int64 dates) is needed.
-/
import Lungo.Proofs.CompareLaws
namespace Lungo.C12
open Lungo Lungo.Ord

/-! ### Concrete values used by the non-vacuity examples -/

/-- int64 2^60 -/
def i2p60 : V := .i64 (2 ^ 60)
/-- int64 2^60 + 1 (not representable as a double) -/
def i2p60p1 : V := .i64 (2 ^ 60 + 1)
/-- the double 2^60 (biased exponent 1083, mantissa 0) -/
def f2p60 : V := .f64 0x43B0000000000000
/-- Decimal128 1152921504606847000 — the shortest decimal rendering of the double 2^60, which is
    NOT 2^60 = 1152921504606846976 -/
def dShort : V := .dec 0x3040000000000000 1152921504606847000
/-- Decimal128 1152921504606846976 = 2^60 -/
def d2p60 : V := .dec 0x3040000000000000 1152921504606846976
/-- a double NaN -/
def fNaN : V := .f64 0x7FF8000000000000
/-- Decimal128 NaN -/
def dNaN : V := .dec 0x7C00000000000000 0
/-- Decimal128 -1 -/
def dM1 : V := .dec 0xB040000000000000 1
/-- Decimal128 +Infinity -/
def dInf : V := .dec 0x7800000000000000 0
/-- the double +Inf -/
def fInf : V := .f64 0x7FF0000000000000
/-- the double 2^63 -/
def f2p63 : V := .f64 0x43E0000000000000
/-- the double 0.5 -/
def fHalf : V := .f64 0x3FE0000000000000
/-- int64 2^53 + 1 (first integer that is not a double) -/
def i2p53p1 : V := .i64 (2 ^ 53 + 1)
/-- the double 2^53 -/
def f2p53 : V := .f64 0x4340000000000000
/-- nested arrays that differ only in length, late -/
def arrShort : V := .arr [.i32 1, .arr [.str "x", i2p60], .doc [("k", .arr [.null])]]
def arrLong : V := .arr [.i64 1, .arr [.str "x", f2p60], .doc [("k", .arr [.null, .null])]]
def arrLonger : V := .arr [.f64 0x3FF0000000000000, .arr [.str "x", d2p60], .doc [("k", .arr [.null, .null]), ("l", .bool false)]]
/-- an ill-formed "int64" (payload 2^64), outside the property's domain -/
def iBad : V := .i64 (2 ^ 64)
/-- Decimal128 2^63 + 1 -/
def d2p63p1 : V := .dec 0x3040000000000000 9223372036854775809
/-- Decimal128 2^64 -/
def d2p64 : V := .dec 0x3040000000000001 0

/-! ### Reflexivity -/

/-- Every value compares equal to itself. -/
theorem cmp_refl (a : V) : V.cmp a a = .eq := V.cmp_refl a

example : V.cmp arrLonger arrLonger = .eq ∧ V.cmp fNaN fNaN = .eq ∧ V.cmp dNaN dNaN = .eq := by
  decide +kernel

/-! ### Antisymmetry: swapping the arguments flips the sign -/

theorem cmp_swap (a b : V) : V.cmp b a = (V.cmp a b).swap := V.cmp_swap a b

example : V.cmp i2p60p1 f2p60 = .gt ∧ V.cmp f2p60 i2p60p1 = .lt := by decide +kernel
example : V.cmp arrShort arrLong = .lt ∧ V.cmp arrLong arrShort = .gt := by decide +kernel

/-! ### Type-class order -/

/-- `Class.rank` is the MongoDB comparison order, as stated in the property. -/
example :
    [Class.null, .number, .string, .document, .array, .binary, .objectID, .boolean, .date,
      .timestamp, .regex].map Class.rank = [0, 1, 2, 3, 4, 5, 6, 7, 8, 9, 10] := by decide

/-- The class of each kind of value (missing counts as null; the four numeric types share one class). -/
example :
    [V.null, .missing, .i32 0, .i64 0, .f64 0, .dec 0 0, .str "", .doc [], .arr [], .bin 0 [],
      .oid [], .bool false, .date 0, .ts 0 0, .regex "" ""].map V.cls =
    [.null, .null, .number, .number, .number, .number, .string, .document, .array, .binary,
      .objectID, .boolean, .date, .timestamp, .regex] := by decide

/-- Values of different type classes are ordered by the class order. -/
theorem cmp_rank (a b : V) (h : a.cls.rank < b.cls.rank) : V.cmp a b = .lt := V.cmp_rank a b h

theorem cmp_rank_gt (a b : V) (h : b.cls.rank < a.cls.rank) : V.cmp a b = .gt :=
  V.cmp_of_rank_gt h

example : fInf.cls.rank < (V.str "").cls.rank ∧ V.cmp fInf (.str "") = .lt := by decide +kernel
example : arrLonger.cls.rank < (V.bin 0 []).cls.rank ∧ (V.bool true).cls.rank < (V.date (-5)).cls.rank := by
  decide

/-! ### Numbers: exact mathematical order, NaN lowest -/

/-- `XR.cmp` is the order nan < -inf < finite (by value) < +inf. -/
example :
    XR.cmp .nan .ninf = .lt ∧ XR.cmp .ninf (.fin (-5)) = .lt ∧ XR.cmp (.fin (-5)) (.fin (1/2)) = .lt ∧
    XR.cmp (.fin (1/2)) .pinf = .lt ∧ XR.cmp .nan .nan = .eq ∧ XR.cmp .pinf .pinf = .eq := by
  decide +kernel

/-- Numbers of all four numeric types (with int64 payloads in the int64 range) are ordered by
    their exact mathematical value, NaN lowest, then -Inf, finite values, +Inf. -/
theorem cmp_num_exact (a b : V) (ha : a.isNumber = true) (hb : b.isNumber = true)
    (oa : a.i64Ok = true) (ob : b.i64Ok = true) :
    V.cmp a b = XR.cmp a.numVal b.numVal :=
  V.cmp_num_exact' (eq_of_beq ha) (eq_of_beq hb) oa ob

/-- The same under the model's full well-formedness predicate. -/
theorem cmp_num_exact_wf (a b : V) (ha : a.isNumber = true) (hb : b.isNumber = true)
    (wa : a.wf = true) (wb : b.wf = true) :
    V.cmp a b = XR.cmp a.numVal b.numVal :=
  cmp_num_exact a b ha hb (V.i64Ok_of_wf a wa) (V.i64Ok_of_wf b wb)

-- hypotheses are met by int64 2^60+1 / double 2^60 / decimals, and the answers are the exact ones
example : i2p60p1.isNumber = true ∧ f2p60.isNumber = true ∧ i2p60p1.i64Ok = true ∧ f2p60.i64Ok = true ∧
    V.cmp i2p60p1 f2p60 = .gt ∧ V.cmp i2p60 f2p60 = .eq ∧ V.cmp f2p60 d2p60 = .eq ∧
    V.cmp f2p60 dShort = .lt ∧ V.cmp i2p60 dShort = .lt := by decide +kernel
example : V.cmp i2p53p1 f2p53 = .gt ∧ V.cmp i2p53p1 fHalf = .gt ∧ V.cmp (.i64 (-(2 ^ 63))) f2p63 = .lt ∧
    V.cmp (.i64 (2 ^ 63 - 1)) f2p63 = .lt := by decide +kernel
example : V.cmp fNaN dM1 = .lt ∧ V.cmp fNaN dNaN = .eq ∧ V.cmp dNaN (.i32 (-5)) = .lt ∧
    V.cmp fInf dInf = .eq ∧ V.cmp dInf (.i64 (2 ^ 63 - 1)) = .gt := by decide +kernel

/-- Without `i64Ok` exactness fails: the ill-formed "int64" 2^64 is reported below the double 2^63. -/
theorem cmp_num_exact_needs_i64Ok :
    iBad.isNumber = true ∧ f2p63.isNumber = true ∧ V.cmp iBad f2p63 = .lt ∧
      XR.cmp iBad.numVal f2p63.numVal = .gt := by decide +kernel

/-! ### Transitivity -/

/-- `V.cmp` restricted to values with in-range int64 payloads is a lawful comparator. -/
theorem cmp_laws (a b c : V) (oa : a.i64Ok = true) (ob : b.i64Ok = true) (oc : c.i64Ok = true) :
    LawsAt V.cmp a b c := V.cmp_at a b c oa ob oc

/-- `≤` is transitive. -/
theorem cmp_trans (a b c : V) (oa : a.i64Ok = true) (ob : b.i64Ok = true) (oc : c.i64Ok = true) :
    V.cmp a b ≠ .gt → V.cmp b c ≠ .gt → V.cmp a c ≠ .gt :=
  (V.cmp_at a b c oa ob oc).le_trans

/-- `<` is transitive. -/
theorem cmp_lt_trans (a b c : V) (oa : a.i64Ok = true) (ob : b.i64Ok = true) (oc : c.i64Ok = true) :
    V.cmp a b = .lt → V.cmp b c = .lt → V.cmp a c = .lt :=
  (V.cmp_at a b c oa ob oc).lt_trans

theorem cmp_trans_wf (a b c : V) (wa : a.wf = true) (wb : b.wf = true) (wc : c.wf = true) :
    V.cmp a b ≠ .gt → V.cmp b c ≠ .gt → V.cmp a c ≠ .gt :=
  cmp_trans a b c (V.i64Ok_of_wf a wa) (V.i64Ok_of_wf b wb) (V.i64Ok_of_wf c wc)

theorem cmp_lt_trans_wf (a b c : V) (wa : a.wf = true) (wb : b.wf = true) (wc : c.wf = true) :
    V.cmp a b = .lt → V.cmp b c = .lt → V.cmp a c = .lt :=
  cmp_lt_trans a b c (V.i64Ok_of_wf a wa) (V.i64Ok_of_wf b wb) (V.i64Ok_of_wf c wc)

-- the triple that was intransitive before the fix of compare.go: int64 2^60, double 2^60, the
-- shortest-rendering decimal; and nested arrays differing late and in length
example : i2p60.i64Ok = true ∧ f2p60.i64Ok = true ∧ dShort.i64Ok = true ∧
    V.cmp i2p60 f2p60 ≠ .gt ∧ V.cmp f2p60 dShort ≠ .gt ∧ V.cmp i2p60 dShort = .lt := by
  decide +kernel
example : arrShort.wf = true ∧ arrLong.wf = true ∧ arrLonger.wf = true ∧
    V.cmp arrShort arrLong = .lt ∧ V.cmp arrLong arrLonger = .lt ∧ V.cmp arrShort arrLonger = .lt := by
  decide +kernel
example : V.cmp fNaN (.i32 (-5)) = .lt ∧ V.cmp (.i32 (-5)) dM1 = .lt ∧ V.cmp fNaN dM1 = .lt := by
  decide +kernel

/-- Without `i64Ok` transitivity fails (a strict cycle through an ill-formed "int64" 2^64):
    i64 2^64 < double 2^63 < decimal 2^63+1 < i64 2^64. -/
theorem cmp_trans_needs_i64Ok :
    V.cmp iBad f2p63 = .lt ∧ V.cmp f2p63 d2p63p1 = .lt ∧ V.cmp iBad d2p63p1 = .gt := by
  decide +kernel

/-! ### Congruence: values that compare equal are interchangeable in every comparison -/

theorem cmp_congr (a a' b : V) (oa : a.i64Ok = true) (oa' : a'.i64Ok = true) (ob : b.i64Ok = true) :
    V.cmp a a' = .eq → V.cmp a b = V.cmp a' b :=
  (V.cmp_at a a' b oa oa' ob).congr_l

/-- … also in the right argument. -/
theorem cmp_congr_right (a b b' : V) (oa : a.i64Ok = true) (ob : b.i64Ok = true)
    (ob' : b'.i64Ok = true) : V.cmp b b' = .eq → V.cmp a b = V.cmp a b' :=
  (V.cmp_at a b b' oa ob ob').congr_r

theorem cmp_congr_wf (a a' b : V) (wa : a.wf = true) (wa' : a'.wf = true) (wb : b.wf = true) :
    V.cmp a a' = .eq → V.cmp a b = V.cmp a' b :=
  cmp_congr a a' b (V.i64Ok_of_wf a wa) (V.i64Ok_of_wf a' wa') (V.i64Ok_of_wf b wb)

/-- Equality under `cmp` is an equivalence (symmetric by `cmp_swap`, transitive by `cmp_congr`). -/
theorem cmp_eq_trans (a b c : V) (oa : a.i64Ok = true) (ob : b.i64Ok = true) (oc : c.i64Ok = true) :
    V.cmp a b = .eq → V.cmp b c = .eq → V.cmp a c = .eq := by
  intro h1 h2; rw [cmp_congr a b c oa ob oc h1]; exact h2

example : i2p60.i64Ok = true ∧ f2p60.i64Ok = true ∧ V.cmp i2p60 f2p60 = .eq ∧
    V.cmp i2p60 dShort = .lt ∧ V.cmp f2p60 dShort = .lt ∧
    V.cmp i2p60 i2p60p1 = .lt ∧ V.cmp f2p60 i2p60p1 = .lt := by decide +kernel
example : V.cmp (.arr [.null, i2p60]) (.arr [.missing, d2p60]) = .eq ∧
    V.cmp (.arr [.null, i2p60]) (.arr [.null, f2p60, .null]) = .lt ∧
    V.cmp (.arr [.missing, d2p60]) (.arr [.null, f2p60, .null]) = .lt := by decide +kernel

/-- Without `i64Ok` congruence fails: "int64" 2^64 equals decimal 2^64, yet they disagree on the
    double 2^63. -/
theorem cmp_congr_needs_i64Ok :
    V.cmp iBad d2p64 = .eq ∧ V.cmp iBad f2p63 = .lt ∧ V.cmp d2p64 f2p63 = .gt := by
  decide +kernel

/-! ### `Std` comparator classes on the well-formed values -/

/-- Values whose int64 payloads are in range (every `V.wf` value). -/
abbrev OkV := { v : V // v.i64Ok = true }

/-- `bsonkit.Compare` on the property's domain. -/
def okCmp (a b : OkV) : Ordering := V.cmp a.1 b.1

theorem okCmp_lawful : Lawful okCmp :=
  Lawful.of_at fun a b d => V.cmp_at a.1 b.1 d.1 a.2 b.2 d.2

instance : Std.OrientedCmp okCmp := okCmp_lawful.orientedCmp
instance : Std.TransCmp okCmp := okCmp_lawful.transCmp
instance : Std.ReflCmp okCmp := ⟨fun {a} => V.cmp_refl a.1⟩

end Lungo.C12
