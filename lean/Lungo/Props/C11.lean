/-
  Lungo.Props.C11 — "Update operators transform documents as MongoDB defines".

  The statements are about the executable model of `mongokit.Apply` (Lungo/Model/Apply.lean,
  Access.lean, Arith.lean), which the correspondence streams `apply`, `put`, `arith` tie to the Go
  code.  All proofs are in Lungo/Proofs/{ArithLaws,AccessLaws,ApplyLaws,NoPanic}.lean; this file only
  states the property theorems.  Strings do not reduce in the kernel, so the non-vacuity witnesses
  are evaluated tests (`#guard`, marked TEST) — they are tests of concrete instances, not theorems.

  What is proved (universally, no size bounds):
  * §1 the numeric type-promotion tables of `$inc` / `$mul` (`Add` / `Mul`);
  * §2 laws of path access (`get`/`put`/`Put`/`Unset` over segment lists): read-back, idempotence,
    untouched paths keep their value, field order, no panic;
  * §3 idempotence of `$set $unset $min $max $addToSet $pull $pullAll` at a resolved path and for
    single-operator single-path updates through `Apply`;
  * §4 rejection is total, `Match`/`Apply` never panic; §4b an update in which two literal operator
    paths (incl. `$rename` targets) are equal or prefix-related is rejected up front, for every document
    (`conflict_rejected`, `accepted_conflict_free`) — the former FINDING `conflict-accepted`
    (a conflict escaped when the earlier operator was a no-op), fixed in /repo by `checkPaths`;
    likewise an update in which, at the first differing segment of two literal paths, a positional
    segment (`$`, `$[]`, `$[id]`) meets a field name / index ("a.$[]" with "a.5") — a second FINDING
    (`$min` not idempotent there), fixed in /repo by the second test of `checkPaths`;
  * §4c `$[identifier]` selects exactly the elements that satisfy some array filter BINDING the
    identifier; filters of other identifiers are irrelevant (`array_filter_own`,
    `foreign_filter_irrelevant`) — a third FINDING (every supplied filter was consulted, so a foreign
    filter that holds for a missing field selected everything), fixed in /repo (`resolve`);
  * §5 the change log is conflict free; recorded changes hold in the result for the single-write
    operators (`_partial`: the multi-operator statement is FALSE in the code — see the witness there).

  Side conditions found (each with a counterexample TEST, each confirmed on the Go code):
  * duplicate keys: `$unset` twice ≠ once on `{a:1, a:2}`  → hypothesis `nodupKeys`;
  * numeral aliases: `$set {"a.1": 1, "a.01": 2}` is not a conflict, both write element 1.
  Side condition that is gone: signed numerals.  `put` used to read array indexes with `strconv.Atoi`
  (`$set "a.+1"` wrote element 1 but `Get "a.+1"` read Missing), which forced a `canonPath` hypothesis on
  the read-back theorems — a FINDING, fixed in /repo 8d332af: `put` now uses `ParseIndex` like `get`,
  "a.+1" / "a.-0" on an array are rejected, and `get_put_same` / `changes_hold_partial` hold unconditionally.
-/
import Lungo.Proofs.ArithLaws
import Lungo.Proofs.AccessLaws
import Lungo.Proofs.ApplyLaws
import Lungo.Proofs.NoPanic
namespace Lungo.C11
open Lungo

/-! ### helpers of the TESTS only -/

def ctx0 : ACtx := { sch := schemaUnmodelled, upsert := false, nowDate := .date 0, nowTs := .ts 0 0 }
def okDoc {α} : Res (Doc × α) → Option Doc
  | .ok (d, _) => some d
  | .error _ => none
def okChanges : Res (Doc × List (String × V)) → Option (List (String × V))
  | .ok (_, ch) => some ch
  | .error _ => none
def okV : Res (V × V) → Option V
  | .ok (v, _) => some v
  | .error _ => none
def isErr {α} : Res α → Bool
  | .error .err => true
  | _ => false

/-! ## §1 Numeric type promotion -/

/-- The result type of `Add` (behind `$inc`) as a function of the operand types, for all values:
    int32+int32 → int32 if the exact sum fits, else int64 (never rejected); an int64 operand →
    int64 iff the exact sum is an int64, else Missing (the update is rejected); double with
    int/double → double; decimal with int/decimal → decimal; double with decimal → unmodelled
    (`none`); a non-number → Missing.  See `ArithTable`. -/
theorem add_type_table (a b : V) (wa : a.wf = true) (wb : b.wf = true) :
    ArithTable (· + ·) a b (Add a b) := add_table a b wa wb

/-- The same table for `Mul` (behind `$mul`) with the exact product. -/
theorem mul_type_table (a b : V) (wa : a.wf = true) (wb : b.wf = true) :
    ArithTable (· * ·) a b (Mul a b) := mul_table a b wa wb

/-- int32 ⊕ int32 is exact: int32 when it fits, otherwise promoted to int64. -/
theorem add_int32_exact (a b : Int) (ha : inI32 a = true) (hb : inI32 b = true) :
    Add (.i32 a) (.i32 b) = some (if inI32 (a + b) then .i32 (a + b) else .i64 (a + b)) ∧
      inI64 (a + b) = true :=
  add_table (.i32 a) (.i32 b) ha hb

theorem mul_int32_exact (a b : Int) (ha : inI32 a = true) (hb : inI32 b = true) :
    Mul (.i32 a) (.i32 b) = some (if inI32 (a * b) then .i32 (a * b) else .i64 (a * b)) ∧
      inI64 (a * b) = true :=
  mul_table (.i32 a) (.i32 b) ha hb

/-- int64 ⊕ int64 is exact when the exact result is an int64 … -/
theorem add_int64_exact (a b : Int) (h : inI64 (a + b) = true) :
    Add (.i64 a) (.i64 b) = some (.i64 (a + b)) := by
  simp [Add, intResult_wide, h]

theorem mul_int64_exact (a b : Int) (h : inI64 (a * b) = true) :
    Mul (.i64 a) (.i64 b) = some (.i64 (a * b)) := by
  simp [Mul, intResult_wide, h]

/-- … and rejected (Missing → `$inc` fails) when it is not: no wrap-around. -/
theorem add_int64_overflow (a b : Int) (h : inI64 (a + b) = false) :
    Add (.i64 a) (.i64 b) = some .missing := by
  simp [Add, intResult_wide, h]

theorem mul_int64_overflow (a b : Int) (h : inI64 (a * b) = false) :
    Mul (.i64 a) (.i64 b) = some .missing := by
  simp [Mul, intResult_wide, h]

/-- Whatever the operands, a result of `Add` / `Mul` is a well-formed value (in-range integers). -/
theorem add_result_wf (a b r : V) (h : Add a b = some r) : r.wf = true := Lungo.add_result_wf a b r h
theorem mul_result_wf (a b r : V) (h : Mul a b = some r) : r.wf = true := Lungo.mul_result_wf a b r h

-- non-vacuity (these are kernel-checked: no strings involved)
example : (V.i32 2147483647).wf = true ∧ Add (.i32 2147483647) (.i32 1) = some (.i64 2147483648) := ⟨rfl, rfl⟩
example : Add (.i32 1) (.i32 2) = some (.i32 3) ∧ Mul (.i32 65536) (.i32 65536) = some (.i64 4294967296) :=
  ⟨rfl, rfl⟩
example : Add (.i64 9223372036854775807) (.i32 1) = some .missing ∧
    Mul (.i64 4611686018427387904) (.i64 2) = some .missing ∧
    Add (.i64 9223372036854775806) (.i32 1) = some (.i64 9223372036854775807) := ⟨rfl, rfl, rfl⟩
example : Add (.str "x") (.i32 1) = some .missing ∧ Add (.f64 0) (.dec 0 0) = none := ⟨rfl, rfl⟩

/-! ## §2 Path access (`bsonkit.Get/Put/Unset`) -/

/-- A path string always splits into at least one segment (so `Put` never sees `PathEnd`). -/
theorem splitPath_nonempty (s : String) : splitPath s ≠ [] := splitPath_ne_nil s

/-- `put` has no panic: its only failure is the plain error. -/
theorem put_never_panics (v : V) (p : Path) (x : V) (pre : Bool) (site : String) :
    put v p x pre ≠ .error (.panic site) := by
  intro h; cases put_error_err v p x pre _ h

/-- `bsonkit.Put` on a document: the type assertion `v.(bson.D)` cannot fail for a non-empty path
    (and path strings are never empty lists, `splitPath_nonempty`). -/
theorem Put_never_panics (d : Doc) (p : Path) (x : V) (pre : Bool) (site : String) (hp : p ≠ []) :
    Put d p x pre ≠ .error (.panic site) := by
  intro h; cases Put_error_err d p x pre _ hp h

/-- `put` on a document with a non-empty path returns a document. -/
theorem put_doc_returns_doc (fs : List (String × V)) (key : String) (rest : Path) (x : V) (pre : Bool)
    (nv prev : V) (h : put (.doc fs) (key :: rest) x pre = .ok (nv, prev)) : ∃ fs', nv = .doc fs' :=
  put_doc_isDoc fs key rest x pre nv prev h

/-- `get_put_same`: after a successful write of a present value at ANY path, the path reads the
    value (no side condition on the segments: `put` and `get` both read array indexes with
    `ParseIndex`; the former `get_put_general`, which described the signed-numeral exception, is
    subsumed). -/
theorem get_put_same (v : V) (p : Path) (x : V) (pre : Bool) (nv prev : V) (compact : Bool)
    (h : put v p x pre = .ok (nv, prev)) (hx : x.isMissing = false) :
    get nv p false compact = (x, false) :=
  Lungo.get_put_same v p x pre nv prev compact h hx

/-- `put_other_path_stable` ("untouched fields keep their value"): a successful write or unset at
    `p` leaves the value read at every path `q` that parts from `p` (`diverge`: at some position,
    before either ends, the segments differ even as numerals) unchanged — or, when the write padded
    an array, turns a Missing element into null (`Stab`). -/
theorem put_other_path_stable (v : V) (p : Path) (x : V) (pre : Bool) (nv prev : V) (q : Path)
    (compact : Bool) (h : put v p x pre = .ok (nv, prev)) (hd : diverge p q = true) :
    Stab (get nv q false compact) (get v q false compact) :=
  Lungo.put_other_path_stable v p x pre nv prev q compact h hd

/-- `put_keeps_field_order` ("untouched fields keep … position"): writing at `key.rest` into a
    document keeps the key sequence (or appends the new key at the end) and every field with
    another key keeps its index and its value. -/
theorem put_keeps_field_order (fs : List (String × V)) (key : String) (rest : Path) (x : V)
    (fs' : List (String × V)) (prev : V)
    (h : put (.doc fs) (key :: rest) x false = .ok (.doc fs', prev)) (hx : x.isMissing = false) :
    (fs'.map Prod.fst = fs.map Prod.fst ∨ fs'.map Prod.fst = fs.map Prod.fst ++ [key]) ∧
      ∀ (j : Nat) (k : String) (v : V), fs[j]? = some (k, v) → k ≠ key → fs'[j]? = some (k, v) :=
  put_field_order fs key rest x fs' prev h hx

/-- The exact shape of the result, also for unset and `prepend`. -/
theorem put_result_shape (fs : List (String × V)) (key : String) (rest : Path) (x : V) (pre : Bool)
    (nv prev : V) (h : put (.doc fs) (key :: rest) x pre = .ok (nv, prev)) :
    match fieldIndex fs key with
    | some i => ∃ old, fs[i]? = some (key, old) ∧
        ((x.isMissing = true ∧ nv = .doc (fs.eraseIdx i)) ∨ ∃ nvc, nv = .doc (fs.set i (key, nvc)))
    | none => x.isMissing = false ∧ ∃ nvc, nv = .doc (if pre then (key, nvc) :: fs else fs ++ [(key, nvc)]) :=
  put_doc_shape fs key rest x pre nv prev h

/-- `put_idempotent`: writing the same present value again returns the same tree. No side
    condition (both writes read the segments with ParseIndex). -/
theorem put_idempotent (v : V) (p : Path) (x : V) (pre : Bool) (nv prev : V)
    (h : put v p x pre = .ok (nv, prev)) (hx : x.isMissing = false) :
    put nv p x pre = .ok (nv, x) :=
  Lungo.put_idempotent v p x pre nv prev h hx

theorem Put_idempotent (d d1 : Doc) (p : Path) (x prev : V) (pre : Bool) (hp : p ≠ [])
    (h : Put d p x pre = .ok (d1, prev)) : Put d1 p x pre = .ok (d1, x) :=
  Lungo.Put_idempotent hp h

/-- `unset_then_get_missing`: after a successful unset (no duplicate keys) the path reads Missing
    (field removed) or null (array element). -/
theorem unset_then_get_missing (v : V) (p : Path) (pre : Bool) (nv prev : V) (compact : Bool)
    (h : put v p .missing pre = .ok (nv, prev)) (hn : v.nodupKeys = true) :
    get nv p false compact = (.missing, false) ∨ get nv p false compact = (.null, false) :=
  get_after_unset v p pre nv prev compact h hn

/-- `unset_idempotent` for `bsonkit.Unset`: twice = once, on documents without duplicate keys. -/
theorem unset_idempotent (d : Doc) (p : Path) (hp : p ≠ []) (hn : (V.doc d).nodupKeys = true) :
    (Unset (Unset d p).1 p).1 = (Unset d p).1 :=
  Unset_idempotent d p hp hn

-- TESTS (evaluated, not kernel-checked): instances meeting the hypotheses, and the counterexamples
-- that make the side conditions necessary.
section Tests
def docA : Doc := [("x", .i32 1), ("a", .arr [.i32 0, .doc [("b", .i32 5)]]), ("z", .str "s")]
-- get_put_same on a path through a document, an array index and padding
#guard (okV (put (.doc docA) ["a", "1", "c"] (.i32 7) false)).map (fun nv => (get nv ["a", "1", "c"] false false).1) == some (.i32 7)
#guard (okV (put (.doc docA) ["a", "4"] (.i32 7) false)).map (fun nv => (get nv ["a", "4"] false false).1) == some (.i32 7)
#guard (okV (put (.doc docA) ["a", "01"] (.i32 7) false)).map (fun nv => (get nv ["a", "01"] false false).1) == some (.i32 7)
-- the former COUNTEREXAMPLE (signed numerals "+1" / "-0" indexed the array for put but not for get):
-- put now rejects them on an array, as get never read them as an index; on a document they are plain keys
#guard isErr (put (.doc docA) ["a", "+1"] (.i32 7) false) && isErr (put (.doc docA) ["a", "-0"] (.i32 7) false)
#guard (get (.doc docA) ["a", "+1"] false false).1 == .missing && (get (.doc docA) ["a", "-0"] false false).1 == .missing
#guard (okV (put (.doc docA) ["z2", "+1"] (.i32 7) false)).map (fun nv => (get nv ["z2", "+1"] false false).1) == some (.i32 7)
-- put_other_path_stable: diverging paths; padding turns Missing into null; aliases do not diverge
#guard diverge ["a", "1", "c"] ["a", "0"] && diverge ["a", "4"] ["a", "3"] && !diverge ["a", "1"] ["a", "01"] && !diverge ["a"] ["a", "0"]
#guard (okV (put (.doc docA) ["a", "1", "c"] (.i32 7) false)).map (fun nv => (get nv ["a", "1", "b"] false false).1) == some (.i32 5)
#guard (get (.doc docA) ["a", "3"] false false).1 == .missing
#guard (okV (put (.doc docA) ["a", "4"] (.i32 7) false)).map (fun nv => (get nv ["a", "3"] false false).1) == some .null
-- COUNTEREXAMPLE for aliases: writing "a.01" changes what "a.1" reads
#guard (okV (put (.doc docA) ["a", "01"] (.i32 7) false)).map (fun nv => (get nv ["a", "1"] false false).1) == some (.i32 7)
-- put_keeps_field_order: replace in place / append
#guard (okV (put (.doc docA) ["x"] (.i32 9) false)) == some (.doc [("x", .i32 9), ("a", .arr [.i32 0, .doc [("b", .i32 5)]]), ("z", .str "s")])
#guard (okV (put (.doc docA) ["n", "m"] (.i32 9) false)) == some (.doc (docA ++ [("n", .doc [("m", .i32 9)])]))
-- put_idempotent
#guard (okV (put (.doc docA) ["a", "03", "k"] (.i32 7) false)).isSome
#guard (okV (put (.doc docA) ["a", "03", "k"] (.i32 7) false)).map (fun nv => okV (put nv ["a", "03", "k"] (.i32 7) false)) == (okV (put (.doc docA) ["a", "03", "k"] (.i32 7) false)).map some
-- unset: field removed, array element nulled; idempotent without duplicate keys
#guard (V.doc docA).nodupKeys
#guard (Unset docA ["a", "1", "b"]).1 == [("x", .i32 1), ("a", .arr [.i32 0, .doc []]), ("z", .str "s")]
#guard (Unset docA ["a", "0"]).1 == [("x", .i32 1), ("a", .arr [.null, .doc [("b", .i32 5)]]), ("z", .str "s")]
#guard (Unset (Unset docA ["a", "0"]).1 ["a", "0"]).1 == (Unset docA ["a", "0"]).1
-- COUNTEREXAMPLE with duplicate keys: the second $unset removes the second "a"
def docDup : Doc := [("a", .i32 1), ("a", .i32 2)]
#guard !(V.doc docDup).nodupKeys
#guard (Unset docDup ["a"]).1 == [("a", .i32 2)]
#guard (Unset (Unset docDup ["a"]).1 ["a"]).1 == []
-- put errors are plain errors
#guard isErr (put (.doc docA) ["x", "y"] (.i32 1) false) && isErr (put (.doc docA) ["a", "-1"] (.i32 1) false)
#guard isErr (put (.doc docA) ["a", "9223372036854775807"] (.i32 1) false)
#guard isErr (put (.doc docA) ["a", "1500003"] (.i32 1) false)      -- more than MaxArrayPadding nulls needed
end Tests

/-! ## §3 Idempotence of `$set $unset $min $max $addToSet $pull $pullAll`

`IdemAt c op path v s1` says: applying the operator again at the same resolved path to the result
`s1.doc`, with a fresh change log (a second `Apply` call), SUCCEEDS and returns the same document. -/

theorem set_idempotent (c : ACtx) (s s1 : AState) (path : String) (v : V)
    (h : applyOp c s "$set" path v = .ok s1) : IdemAt c "$set" path v s1 := set_idem c s s1 path v h

/-- `$unset` needs documents without duplicate keys (counterexample in the tests below). -/
theorem unset_idempotent_op (c : ACtx) (s s1 : AState) (path : String) (v : V)
    (hn : (V.doc s.doc).nodupKeys = true)
    (h : applyOp c s "$unset" path v = .ok s1) : IdemAt c "$unset" path v s1 :=
  unset_idem c s s1 path v hn h

/-- `$min`: no hypothesis at all (uses only reflexivity of `Compare`, C12 `cmp_refl`). -/
theorem min_idempotent (c : ACtx) (s s1 : AState) (path : String) (v : V)
    (h : applyOp c s "$min" path v = .ok s1) : IdemAt c "$min" path v s1 := min_idem c s s1 path v h

theorem max_idempotent (c : ACtx) (s s1 : AState) (path : String) (v : V)
    (h : applyOp c s "$max" path v = .ok s1) : IdemAt c "$max" path v s1 := max_idem c s s1 path v h

/-- `$addToSet` (also with `$each`): after the first application every value is present. -/
theorem addToSet_idempotent (c : ACtx) (s s1 : AState) (path : String) (v : V)
    (h : applyOp c s "$addToSet" path v = .ok s1) : IdemAt c "$addToSet" path v s1 :=
  addToSet_idem c s s1 path v h

/-- `$pull`: after removing all matching elements none matches (for every `$jsonSchema` evaluator). -/
theorem pull_idempotent (c : ACtx) (s s1 : AState) (path : String) (v : V)
    (h : applyOp c s "$pull" path v = .ok s1) : IdemAt c "$pull" path v s1 := pull_idem c s s1 path v h

theorem pullAll_idempotent (c : ACtx) (s s1 : AState) (path : String) (v : V)
    (h : applyOp c s "$pullAll" path v = .ok s1) : IdemAt c "$pullAll" path v s1 :=
  pullAll_idem c s s1 path v h

/-- `apply_idempotent` through `Apply`, for an update consisting of ONE of the seven operators on
    ONE literal path (no `$`): applying the update to its own result succeeds and returns the same
    document.
    `apply_idempotent_partial`: the full statement — any update built from these operators on
    pairwise non-prefix-related paths, incl. positional ones — is not proved; it needs
    `put_other_path_stable` lifted through every operator and is false as stated for aliasing
    numerals ("a.1"/"a.01") and for duplicate keys. -/
theorem apply_idempotent_partial (c : ACtx) (d : Doc) (op key : String) (v : V) (afs : List Doc)
    (d1 : Doc) (ch1 : List (String × V)) (hop : op ∈ idemOps) (hk : noDollar key = true)
    (hn : op = "$unset" → (V.doc d).nodupKeys = true)
    (h : Apply c d [(op, .doc [(key, v)])] afs = .ok (d1, ch1)) :
    ∃ ch2, Apply c d1 [(op, .doc [(key, v)])] afs = .ok (d1, ch2) :=
  Apply_idem_single c d op key v afs d1 ch1 hop hk hn h

section Tests
def docB : Doc := [("n", .i32 5), ("a", .arr [.i32 1, .i64 2, .f64 0x4008000000000000, .i32 1])]
def twice (u : Doc) (d : Doc) : Option Doc × Option Doc :=
  let r1 := okDoc (Apply ctx0 d u [])
  (r1, r1.bind fun d1 => okDoc (Apply ctx0 d1 u []))
#guard idemOps == ["$set", "$unset", "$min", "$max", "$addToSet", "$pull", "$pullAll"] && noDollar "a.b"
#guard twice [("$set", .doc [("q.r", .i32 1)])] docB == (some (docB ++ [("q", .doc [("r", .i32 1)])]), some (docB ++ [("q", .doc [("r", .i32 1)])]))
#guard twice [("$min", .doc [("n", .f64 0x4008000000000000)])] docB == (some [("n", .f64 0x4008000000000000), docB[1]!], some [("n", .f64 0x4008000000000000), docB[1]!])
#guard twice [("$max", .doc [("n", .i64 9)])] docB == (some [("n", .i64 9), docB[1]!], some [("n", .i64 9), docB[1]!])
#guard twice [("$addToSet", .doc [("a", .doc [("$each", .arr [.i32 2, .i32 7, .f64 0x401C000000000000])])])] docB
  == (some [docB[0]!, ("a", .arr [.i32 1, .i64 2, .f64 0x4008000000000000, .i32 1, .i32 7])], some [docB[0]!, ("a", .arr [.i32 1, .i64 2, .f64 0x4008000000000000, .i32 1, .i32 7])])
#guard twice [("$pull", .doc [("a", .doc [("$lt", .i32 3)])])] docB == (some [docB[0]!, ("a", .arr [.f64 0x4008000000000000])], some [docB[0]!, ("a", .arr [.f64 0x4008000000000000])])
#guard twice [("$pullAll", .doc [("a", .arr [.i32 1])])] docB == (some [docB[0]!, ("a", .arr [.i64 2, .f64 0x4008000000000000])], some [docB[0]!, ("a", .arr [.i64 2, .f64 0x4008000000000000])])
#guard twice [("$unset", .doc [("a.1", .i32 1)])] docB == (some [docB[0]!, ("a", .arr [.i32 1, .null, .f64 0x4008000000000000, .i32 1])], some [docB[0]!, ("a", .arr [.i32 1, .null, .f64 0x4008000000000000, .i32 1])])
-- COUNTEREXAMPLE ($unset, duplicate keys): the second application changes the document again
#guard twice [("$unset", .doc [("a", .i32 1)])] docDup == (some [("a", .i32 2)], some [])
-- $inc is (of course) not idempotent: the law is specific to the seven operators
#guard twice [("$inc", .doc [("n", .i32 1)])] docB == (some [("n", .i32 6), docB[1]!], some [("n", .i32 7), docB[1]!])
end Tests

/-! ## §4 Rejection as a whole; no panic -/

/-- `apply_error_is_total_rejection`: `Apply` yields either a document with its change log or an
    error without any document (the model-level reading of "or the update is rejected as a
    whole"; that the caller's document is untouched on error is C02/C17). -/
theorem apply_error_is_total_rejection (c : ACtx) (d u : Doc) (afs : List Doc) :
    (∃ d' ch, Apply c d u afs = .ok (d', ch)) ∨ (∃ e, Apply c d u afs = .error e) := by
  cases h : Apply c d u afs with
  | ok r => exact .inl ⟨r.1, r.2, rfl⟩
  | error e => exact .inr ⟨e, rfl⟩

/-- `match_never_panics`: `mongokit.Match` reports no panic if the `$jsonSchema` evaluator doesn't. -/
theorem match_never_panics (sch : SchemaEval) (hs : ∀ a b site, sch a b ≠ .error (.panic site))
    (d q : Doc) (site : String) : Match sch d q ≠ .error (.panic site) :=
  Match_np sch hs d q site

/-- `apply_never_panics`: for every document, update and array-filter list. -/
theorem apply_never_panics (c : ACtx) (hs : ∀ a b site, c.sch a b ≠ .error (.panic site))
    (d u : Doc) (afs : List Doc) (site : String) : Apply c d u afs ≠ .error (.panic site) :=
  Apply_np c hs d u afs site

-- the hypothesis is met by the driver's evaluator
example : ∀ a b site, schemaUnmodelled a b ≠ .error (.panic site) := by
  intro a b site h; cases h

section Tests
#guard isErr (Apply ctx0 docB [("$inc", .doc [("a", .i32 1)])] [])          -- non-numeric target
#guard isErr (Apply ctx0 docB [("$set", .doc [("n", .i32 1), ("n.x", .i32 2)])] [])  -- conflict
#guard isErr (Apply ctx0 docB [("$set", .doc [("a.$[e]", .i32 1)])] [])     -- unbound identifier
#guard isErr (Apply ctx0 docB [] [])
end Tests

/-! ## §4b Conflicting operator paths: the update is rejected as a whole, up front

`updatePaths u` lists the literal paths of the update in the order `checkPaths` visits them: for every
top-level entry whose value is a document, for every field of it, the field key, followed — under the
key "$rename" with a string value — by the rename target.  Two paths are prefix-related when, as
segment lists (`splitPath`), one is a prefix of the other (equal paths included); they clash
positionally (`PositionalClash`) when at the first index where they differ exactly one of the two
segments is positional (`isPositional`: "$" or starting with "$[") — MongoDB's "would create a
conflict at 'a'". -/

/-- every field key of every operator document is a literal path of the update … -/
theorem updatePaths_key_mem (u : Doc) (op : String) (fields : List (String × V)) (key : String) (v : V)
    (ho : (op, V.doc fields) ∈ u) (hf : (key, v) ∈ fields) : key ∈ updatePaths u :=
  Lungo.updatePaths_key_mem u op fields key v ho hf

/-- … and so is every (string) `$rename` target. -/
theorem updatePaths_rename_target_mem (u : Doc) (fields : List (String × V)) (key target : String)
    (ho : ("$rename", V.doc fields) ∈ u) (hf : (key, V.str target) ∈ fields) : target ∈ updatePaths u :=
  Lungo.updatePaths_rename_target_mem u fields key target ho hf

/-- `firstDiff p q = some (a, b)` says: a and b are the segments of p and q at the first index, within
    the common length, where the two differ. -/
theorem firstDiff_some_iff (p q : Path) (a b : String) :
    firstDiff p q = some (a, b) ↔
      ∃ k : Nat, p[k]? = some a ∧ q[k]? = some b ∧ a ≠ b ∧ ∀ m, m < k → p[m]? = q[m]? :=
  Lungo.firstDiff_some_iff p q a b

/-- `PositionalClash p q` (by definition `∃ a b, firstDiff p q = some (a, b) ∧ isPositional a ≠
    isPositional b`), spelled out on indices: at the first index where the paths differ exactly one of
    the two segments is positional (`$`, or starting with `$[`). -/
theorem positionalClash_index_iff (p q : Path) :
    PositionalClash p q ↔
      ∃ (k : Nat) (a b : String), p[k]? = some a ∧ q[k]? = some b ∧ a ≠ b ∧ (∀ m, m < k → p[m]? = q[m]?) ∧
        isPositional a ≠ isPositional b :=
  PositionalClash_index_iff p q

/-- the executable inner loop of `checkPaths` decides it; the relation is symmetric. -/
theorem positionalClash_iff (p q : Path) : positionalClash p q = true ↔ PositionalClash p q :=
  Lungo.positionalClash_iff p q

theorem positionalClash_symm (p q : Path) (h : PositionalClash p q) : PositionalClash q p :=
  PositionalClash_symm h

/-- `pathsConflict_iff`: the executable test of `checkPaths`, started on the empty path tree, fires
    exactly when two paths of the list, at positions i < j, are prefix-related or clash positionally. -/
theorem pathsConflict_iff (ps : List String) :
    pathsConflict [] ps = true ↔
      ∃ (i j : Nat) (p q : String), i < j ∧ ps[i]? = some p ∧ ps[j]? = some q ∧
        (isPrefixOf (splitPath p) (splitPath q) = true ∨ isPrefixOf (splitPath q) (splitPath p) = true ∨
          PositionalClash (splitPath p) (splitPath q)) :=
  Lungo.pathsConflict_iff ps

/-- `conflict_rejected`: for ALL contexts, documents, updates and array filters: if two literal
    paths of the update are prefix-related (equal included), or at their first differing segment
    exactly one is positional, `Apply` rejects the update — whether or not any operator would have
    changed the document (MongoDB's up-front conflict errors). -/
theorem conflict_rejected (c : ACtx) (d u : Doc) (afs : List Doc)
    (h : ∃ (i j : Nat) (p q : String), i < j ∧
      (updatePaths u)[i]? = some p ∧ (updatePaths u)[j]? = some q ∧
      (isPrefixOf (splitPath p) (splitPath q) = true ∨ isPrefixOf (splitPath q) (splitPath p) = true ∨
        PositionalClash (splitPath p) (splitPath q))) :
    Apply c d u afs = .error .err :=
  Apply_conflict c d u afs ((Lungo.pathsConflict_iff _).mpr h)

/-- `accepted_conflict_free` (contrapositive): an accepted update has no two literal paths that are
    prefix-related or clash positionally. -/
theorem accepted_conflict_free (c : ACtx) (d u : Doc) (afs : List Doc) (r : Doc × List (String × V))
    (h : Apply c d u afs = .ok r) (i j : Nat) (p q : String) (hij : i < j)
    (hp : (updatePaths u)[i]? = some p) (hq : (updatePaths u)[j]? = some q) :
    isPrefixOf (splitPath p) (splitPath q) = false ∧ isPrefixOf (splitPath q) (splitPath p) = false ∧
      ¬ PositionalClash (splitPath p) (splitPath q) :=
  Apply_ok_unrelated c d u afs r h i j p q hij hp hq

/-- the same as a `List.Pairwise` statement (convenient with sublists / membership). -/
theorem accepted_paths_pairwise (c : ACtx) (d u : Doc) (afs : List Doc) (r : Doc × List (String × V))
    (h : Apply c d u afs = .ok r) :
    (updatePaths u).Pairwise fun a b =>
      related (splitPath a) (splitPath b) = false ∧ positionalClash (splitPath a) (splitPath b) = false :=
  Apply_ok_pairwise c d u afs r h

section Tests
-- TEST: the old WITNESS of finding `conflict-accepted` — `$rename` of an absent field is a no-op, so
-- nothing was recorded for "a.x.c"/"x" and the later `$inc` of "x" was accepted: now rejected
def docNoAXC : Doc := [("x", .i32 5), ("a", .doc [("y", .i32 1)])]
#guard Get docNoAXC "a.x.c" == .missing
#guard updatePaths [("$rename", .doc [("a.x.c", .str "x")]), ("$inc", .doc [("x", .i32 (-1))])] == ["a.x.c", "x", "x"]
#guard isErr (Apply ctx0 docNoAXC [("$rename", .doc [("a.x.c", .str "x")]), ("$inc", .doc [("x", .i32 (-1))])] [])
#guard isErr (Apply ctx0 [] [("$rename", .doc [("a.x.c", .str "x")]), ("$inc", .doc [("x", .i32 (-1))])] [])
-- TEST: each operator alone is accepted on that document (the hypothesis of `accepted_conflict_free` is met)
#guard okDoc (Apply ctx0 docNoAXC [("$rename", .doc [("a.x.c", .str "x")])] []) == some docNoAXC
#guard okDoc (Apply ctx0 docNoAXC [("$inc", .doc [("x", .i32 (-1))])] []) == some [("x", .i32 4), ("a", .doc [("y", .i32 1)])]
-- TEST: other no-op conflicts: `$unset` of an absent field / `$max` that keeps the value, then a write below / at it
#guard isErr (Apply ctx0 docNoAXC [("$unset", .doc [("q", .i32 1)]), ("$set", .doc [("q.r", .i32 1)])] [])
#guard isErr (Apply ctx0 docNoAXC [("$max", .doc [("x", .i32 0)]), ("$set", .doc [("x", .i32 7)])] [])
#guard isErr (Apply ctx0 docNoAXC [("$setOnInsert", .doc [("a", .i32 0)]), ("$set", .doc [("a.y", .i32 7)])] [])
-- TEST: the `$rename` target counts only under "$rename" and only when it is a string
#guard updatePaths [("$set", .doc [("p", .str "x")]), ("$rename", .doc [("q", .i32 1)]), ("$inc", .i32 1)] == ["p", "q"]
#guard okDoc (Apply ctx0 docNoAXC [("$set", .doc [("p", .str "x")]), ("$inc", .doc [("x", .i32 1)])] [])
  == some [("x", .i32 6), ("a", .doc [("y", .i32 1)]), ("p", .str "x")]
-- TEST: sibling paths and paths that only share a string prefix are not related
#guard okDoc (Apply ctx0 docNoAXC [("$set", .doc [("a.y", .i32 2), ("a.yy", .i32 3)]), ("$inc", .doc [("a.z", .i32 1)])] [])
  == some [("x", .i32 5), ("a", .doc [("y", .i32 2), ("yy", .i32 3), ("z", .i32 1)])]
-- TEST: the WITNESS of the positional finding: `{$min: {"a.$[]": 1, "a.5": date}}` on a 4-element array.
-- The operator loop alone (what `Apply` did before the second test of `checkPaths`) accepts it, pads `a`
-- to 6 elements, and a second run changes the document again (`$[]` now reaches the padded elements)
def docPos : Doc := [("a", .arr [.doc [], .doc [("b", .bool true)], .oid [1,0,0,0,0,0,0,0,0,0,0,0], .null])]
def updPos : Doc := [("$min", .doc [("a.$[]", .i32 1), ("a.5", .date 5)])]
def opsDoc (d u : Doc) : Option Doc :=
  match Apply.ops ctx0 [] { doc := d, changed := [] } u with
  | .ok s => some s.doc
  | .error _ => none
#guard opsDoc docPos updPos == some [("a", .arr [.i32 1, .i32 1, .i32 1, .null, .null, .date 5])]
#guard (opsDoc docPos updPos).bind (fun d1 => opsDoc d1 updPos) == some [("a", .arr [.i32 1, .i32 1, .i32 1, .null, .null, .i32 1])]
-- … `Apply` now rejects it, on every document (`conflict_rejected`: positions 0 < 1, first difference "$[]" / "5")
#guard isErr (Apply ctx0 docPos updPos []) && isErr (Apply ctx0 [] updPos [])
#guard updatePaths updPos == ["a.$[]", "a.5"] && firstDiff (splitPath "a.$[]") (splitPath "a.5") == some ("$[]", "5")
#guard isPositional "$[]" && !isPositional "5" && positionalClash (splitPath "a.$[]") (splitPath "a.5")
-- each operator alone is accepted on that document (documentation)
#guard okDoc (Apply ctx0 docPos [("$min", .doc [("a.$[]", .i32 1)])] []) == some [("a", .arr [.i32 1, .i32 1, .i32 1, .null])]
#guard okDoc (Apply ctx0 docPos [("$min", .doc [("a.5", .date 5)])] [])
  == some [("a", .arr [.doc [], .doc [("b", .bool true)], .oid [1,0,0,0,0,0,0,0,0,0,0,0], .null, .null, .date 5])]
-- TEST: the clash is found in both orders, across operators, below a common prefix, and for `$` / `$[id]`
#guard isErr (Apply ctx0 docPos [("$min", .doc [("a.5", .date 5)]), ("$set", .doc [("a.$[]", .i32 1)])] [])
#guard isErr (Apply ctx0 docPos [("$set", .doc [("a.$[e].x", .i32 1), ("a.0.y", .i32 1)])] [[("e", .doc [("$exists", .bool true)])]])
#guard pathsConflict [] ["q.a.$.x", "q.a.b"] && pathsConflict [] ["a.b", "c", "a.$[i]"]
-- TEST: two positional segments at the first difference are fine: `a.$[i].x` with `a.$[j].y`, `a.$[].x` with `a.$[i].y`
def docIJ : Doc := [("a", .arr [.doc [("k", .i32 1)], .doc [("k", .i32 2)]])]
#guard okDoc (Apply ctx0 docIJ [("$set", .doc [("a.$[i].x", .i32 7), ("a.$[j].y", .i32 8)])]
    [[("i.k", .i32 1)], [("j.k", .i32 2)]])
  == some [("a", .arr [.doc [("k", .i32 1), ("x", .i32 7)], .doc [("k", .i32 2), ("y", .i32 8)]])]
#guard okDoc (Apply ctx0 docIJ [("$set", .doc [("a.$[].x", .i32 7), ("a.$[i].y", .i32 8)])] [[("i.k", .i32 1)]])
  == some [("a", .arr [.doc [("k", .i32 1), ("x", .i32 7), ("y", .i32 8)], .doc [("k", .i32 2), ("x", .i32 7)]])]
#guard !positionalClash (splitPath "a.$[i].x") (splitPath "a.$[j].y") && !positionalClash (splitPath "a.$[].x") (splitPath "a.$[i].y")
-- only the FIRST difference counts; no difference within the common length is no clash (that is the prefix test)
#guard !positionalClash (splitPath "a.b.$[]") (splitPath "a.c.0") && !positionalClash (splitPath "a.$[]") (splitPath "a.$[].b")
-- `splitPath` is `strings.Split(path, ".")`, also on the odd strings
#guard splitPath "" == [""] && splitPath "a." == ["a", ""] && splitPath ".a" == ["", "a"] && splitPath "." == ["", ""]
-- TEST: pathsConflict on the hypotheses' shape
#guard pathsConflict [] ["a.x.c", "x", "x"] && pathsConflict [] ["a.b", "c", "a"] && pathsConflict [] ["a", "c", "a.b"]
#guard !pathsConflict [] ["a.b", "a.c", "ab", "b.a"] && !pathsConflict [] []
end Tests

-- non-vacuity of `conflict_rejected`: an update meeting the hypothesis (positions 1 < 2 hold "x", "x");
-- evaluated, strings do not reduce in the kernel
#guard (updatePaths [("$rename", .doc [("a.x.c", .str "x")]), ("$inc", .doc [("x", .i32 (-1))])])[1]? == some "x" &&
  (updatePaths [("$rename", .doc [("a.x.c", .str "x")]), ("$inc", .doc [("x", .i32 (-1))])])[2]? == some "x" &&
  isPrefixOf (splitPath "x") (splitPath "x")

/-! ## §4c `$[identifier]`: the element is selected by the identifier's OWN array filters

`resolve` at `head.$[id].tail` (the decomposition is `splitDynamicPath`; `identifierOf "$[id]" = id`)
keeps the array filters that bind `id` (`bindsId`: a key equal to `id` or starting with `id.`), fails if
there is none, and expands to the indices whose element — wrapped as `{id: element}` — satisfies one of
them under the query matcher `Match` (`selectedBy`).  Statements are about `resolve` on a document whose
`head` holds the array `array`; `Apply` calls it with the fuel `countDollar key + 1`. -/

/-- `selectedBy`, declaratively: some supplied filter binds `id` and matches the wrapper `{id: item}`. -/
theorem selected_iff (sch : SchemaEval) (id : String) (afs : List Doc) (item : V) :
    selectedBy sch id afs item = true ↔
      ∃ f ∈ afs, bindsId id f = true ∧ Match sch [(id, item)] f = .ok true :=
  selectedBy_iff sch id afs item

/-- `selectedIdx` (a `List.filter` over the indexed array) is the ascending list of exactly the
    indices whose element is selected. -/
theorem selectedIdx_mem (sch : SchemaEval) (id : String) (afs : List Doc) (array : List V) (k : Nat) :
    k ∈ selectedIdx sch id afs array ↔ ∃ item, array[k]? = some item ∧ selectedBy sch id afs item = true :=
  mem_selectedIdx sch id afs array k

theorem selectedIdx_ascending (sch : SchemaEval) (id : String) (afs : List Doc) (array : List V) :
    (selectedIdx sch id afs array).Pairwise (· < ·) :=
  selectedIdx_sorted sch id afs array

/-- `array_filter_own` (single `$[id]`: head and tail without `$`): a successful expansion of
    `head.$[id].tail` is `head.k.tail` for exactly the indices k whose element satisfies some filter
    binding `id`, in ascending order — for every schema evaluator, document and filter list. -/
theorem array_filter_own (sch : SchemaEval) (fuel : Nat) (path head operator : String) (tail : Option String)
    (doc : Doc) (afs : List Doc) (array : List V) (ps : List String)
    (hsp : splitDynamicPath path = (some head, some operator, tail))
    (ha : Get doc head = .arr array)
    (h1 : (operator == "$") = false) (h2 : operator.startsWith "$[" = true) (h3 : operator.endsWith "]" = true)
    (hid : (identifierOf operator == "") = false)
    (hh : noDollar head = true) (ht : ∀ t, tail = some t → noDollar t = true)
    (h : resolve sch (fuel + 2) path doc afs = .ok ps) :
    ps = (selectedIdx sch (identifierOf operator) afs array).map (fun k => buildPath head k tail) :=
  resolve_identified_single sch fuel path head operator tail doc afs array ps hsp ha h1 h2 h3 hid hh ht h

/-- `array_filter_own_rec` (general, the tail may hold further positional operators): the expansion
    is the concatenation, over exactly the selected indices in ascending order, of the expansions of
    `head.k.tail` (`subPaths` = the result of that recursive call). -/
theorem array_filter_own_rec (sch : SchemaEval) (fuel : Nat) (path head operator : String) (tail : Option String)
    (doc : Doc) (afs : List Doc) (array : List V) (ps : List String)
    (hsp : splitDynamicPath path = (some head, some operator, tail))
    (ha : Get doc head = .arr array)
    (h1 : (operator == "$") = false) (h2 : operator.startsWith "$[" = true) (h3 : operator.endsWith "]" = true)
    (hid : (identifierOf operator == "") = false)
    (h : resolve sch (fuel + 1) path doc afs = .ok ps) :
    ps = ((selectedIdx sch (identifierOf operator) afs array).map
        (fun k => subPaths sch fuel doc afs (buildPath head k tail))).flatten :=
  resolve_identified_ok sch fuel path head operator tail doc afs array ps hsp ha h1 h2 h3 hid h

/-- no supplied filter binds the identifier: rejected (as before the repair). -/
theorem unbound_identifier_rejected (sch : SchemaEval) (fuel : Nat) (path head operator : String)
    (tail : Option String) (doc : Doc) (afs : List Doc) (array : List V)
    (hsp : splitDynamicPath path = (some head, some operator, tail))
    (ha : Get doc head = .arr array)
    (h1 : (operator == "$") = false) (h2 : operator.startsWith "$[" = true) (h3 : operator.endsWith "]" = true)
    (hid : (identifierOf operator == "") = false)
    (hb : ∀ f ∈ afs, bindsId (identifierOf operator) f = false) :
    resolve sch (fuel + 1) path doc afs = .error .err := by
  rw [resolve_identified sch fuel path head operator tail doc afs array hsp ha h1 h2 h3 hid]
  have : afs.filter (bindsId (identifierOf operator)) = [] := by
    rw [List.filter_eq_nil_iff]; intro f hf; simp [hb f hf]
  rw [this]; rfl

/-- `foreign_filter_irrelevant` (single `$[id]`): two filter lists with the same filters binding `id`
    give the same expansion (or the same error) — filters of other identifiers do not matter. -/
theorem foreign_filter_irrelevant (sch : SchemaEval) (fuel : Nat) (path head operator : String)
    (tail : Option String) (doc : Doc) (afs afs' : List Doc) (array : List V)
    (hsp : splitDynamicPath path = (some head, some operator, tail))
    (ha : Get doc head = .arr array)
    (h1 : (operator == "$") = false) (h2 : operator.startsWith "$[" = true) (h3 : operator.endsWith "]" = true)
    (hid : (identifierOf operator == "") = false)
    (hh : noDollar head = true) (ht : ∀ t, tail = some t → noDollar t = true)
    (hf : afs.filter (bindsId (identifierOf operator)) = afs'.filter (bindsId (identifierOf operator))) :
    resolve sch (fuel + 2) path doc afs = resolve sch (fuel + 2) path doc afs' :=
  resolve_filters_single sch fuel path head operator tail doc afs afs' array hsp ha h1 h2 h3 hid hh ht hf

/-- in the form "adding or removing one filter `g` that does not bind `id`, anywhere in the list". -/
theorem foreign_filter_irrelevant_insert (sch : SchemaEval) (fuel : Nat) (path head operator : String)
    (tail : Option String) (doc : Doc) (afs₁ afs₂ : List Doc) (g : Doc) (array : List V)
    (hsp : splitDynamicPath path = (some head, some operator, tail))
    (ha : Get doc head = .arr array)
    (h1 : (operator == "$") = false) (h2 : operator.startsWith "$[" = true) (h3 : operator.endsWith "]" = true)
    (hid : (identifierOf operator == "") = false)
    (hh : noDollar head = true) (ht : ∀ t, tail = some t → noDollar t = true)
    (hg : bindsId (identifierOf operator) g = false) :
    resolve sch (fuel + 2) path doc (afs₁ ++ g :: afs₂) = resolve sch (fuel + 2) path doc (afs₁ ++ afs₂) :=
  resolve_filters_single sch fuel path head operator tail doc _ _ array hsp ha h1 h2 h3 hid hh ht
    (filter_bindsId_insert _ afs₁ afs₂ g hg)

/-- general (recursive) step: at one `$[id]` the filter list matters only through the filters binding
    `id` and through the recursive expansions of `head.k.tail`. -/
theorem foreign_filter_irrelevant_step (sch : SchemaEval) (fuel : Nat) (path head operator : String)
    (tail : Option String) (doc : Doc) (afs afs' : List Doc) (array : List V)
    (hsp : splitDynamicPath path = (some head, some operator, tail))
    (ha : Get doc head = .arr array)
    (h1 : (operator == "$") = false) (h2 : operator.startsWith "$[" = true) (h3 : operator.endsWith "]" = true)
    (hid : (identifierOf operator == "") = false)
    (hf : afs.filter (bindsId (identifierOf operator)) = afs'.filter (bindsId (identifierOf operator)))
    (hrec : ∀ k, resolve sch fuel (buildPath head k tail) doc afs = resolve sch fuel (buildPath head k tail) doc afs') :
    resolve sch (fuel + 1) path doc afs = resolve sch (fuel + 1) path doc afs' :=
  resolve_filters_congr sch fuel path head operator tail doc afs afs' array hsp ha h1 h2 h3 hid hf hrec

section Tests
-- TEST: the WITNESS of the finding: `{$set: {"a.$[i]": 0}}`, arrayFilters `[{i: {$gt: 5}}, {j: {$ne: 1}}]`, `a: [1, 7, 9]`.
-- The wrapper `{i: 1}` has no `j`, so the foreign filter `{j: {$ne: 1}}` holds for every element; the code used to
-- consult it and produced [0, 0, 0].  MongoDB and now lungo: [1, 0, 0]
def docF : Doc := [("a", .arr [.i32 1, .i32 7, .i32 9])]
def fI : Doc := [("i", .doc [("$gt", .i32 5)])]
def fJ : Doc := [("j", .doc [("$ne", .i32 1)])]
#guard filterHolds schemaUnmodelled "i" (.i32 1) fJ      -- why every element was selected
#guard okDoc (Apply ctx0 docF [("$set", .doc [("a.$[i]", .i32 0)])] [fI, fJ]) == some [("a", .arr [.i32 1, .i32 0, .i32 0])]
#guard okDoc (Apply ctx0 docF [("$set", .doc [("a.$[i]", .i32 0)])] [fJ, fI]) == some [("a", .arr [.i32 1, .i32 0, .i32 0])]
#guard okDoc (Apply ctx0 docF [("$set", .doc [("a.$[i]", .i32 0)])] [fI]) == some [("a", .arr [.i32 1, .i32 0, .i32 0])]
-- the hypotheses of `array_filter_own` on this instance (non-vacuity; evaluated)
#guard splitDynamicPath "a.$[i]" == (some "a", some "$[i]", none) && identifierOf "$[i]" == "i" && Get docF "a" == .arr [.i32 1, .i32 7, .i32 9]
#guard splitDynamicPath "a.$[elem].b.c" == (some "a", some "$[elem]", some "b.c") && identifierOf "$[elem]" == "elem"
#guard "$[i]".startsWith "$[" && "$[i]".endsWith "]" && noDollar "a" && countDollar "a.$[i]" + 1 == 2
#guard bindsId "i" fI && !bindsId "i" fJ && selectedIdx schemaUnmodelled "i" [fI, fJ] [.i32 1, .i32 7, .i32 9] == [1, 2]
#guard (match resolve schemaUnmodelled 2 "a.$[i]" docF [fI, fJ] with | .ok ps => ps == ["a.1", "a.2"] | _ => false)
-- identifiers that are string prefixes of each other: `i` is bound by "i" and "i.k", not by "i2" / "i2.k"
#guard bindsId "i" [("i.k", .i32 1)] && !bindsId "i" [("i2", .i32 1)] && !bindsId "i" [("i2.k", .i32 1)] && !bindsId "i2" [("i", .i32 1)]
#guard okDoc (Apply ctx0 docF [("$set", .doc [("a.$[i]", .i32 0)])] [[("i2", .doc [("$exists", .bool false)])], fI])
  == some [("a", .arr [.i32 1, .i32 0, .i32 0])]
-- several filters binding the identifier: any of them selects
#guard okDoc (Apply ctx0 docF [("$set", .doc [("a.$[i]", .i32 0)])] [fI, [("i", .i32 1)]]) == some [("a", .arr [.i32 0, .i32 0, .i32 0])]
-- no filter binds the identifier: rejected, whatever else is supplied
#guard isErr (Apply ctx0 docF [("$set", .doc [("a.$[i]", .i32 0)])] [fJ]) && isErr (Apply ctx0 docF [("$set", .doc [("a.$[i]", .i32 0)])] [])
-- two identifiers in one path: each level uses its own filters (`array_filter_own_rec`)
#guard okDoc (Apply ctx0 [("a", .arr [.arr [.i32 1, .i32 7], .arr [.i32 9]])] [("$set", .doc [("a.$[j].$[i]", .i32 0)])]
    [fI, [("j", .doc [("$exists", .bool true)])]])
  == some [("a", .arr [.arr [.i32 1, .i32 0], .arr [.i32 0]])]
end Tests

/-! ## §5 The change log -/

/-- `record_conflict_free`: after any successful `Apply` the recorded paths are pairwise not
    prefix-related (as segment lists).  (The literal paths of the update are pairwise unrelated too:
    `accepted_conflict_free`, §4b — `Record` alone did not give that when an operator recorded nothing.) -/
theorem record_conflict_free (c : ACtx) (d u : Doc) (afs : List Doc) (d' : Doc)
    (ch : List (String × V)) (h : Apply c d u afs = .ok (d', ch)) : ConflictFree ch :=
  Apply_cf c d u afs d' ch h

/-- `changes_hold_partial`: for the operators that perform a single write
    (`$set $setOnInsert $inc $mul $min $max $currentDate $bit $pull $pullAll $addToSet`) applied at
    any path: either
    nothing was recorded, or exactly one entry (path, x) with x present was appended and the result
    document holds x at that path.
    Full statement (NOT provable, false in the code): "after a successful Apply every recorded
    (path, value) satisfies `Get result path = value`".  Witnesses (confirmed on the Go code):
    `{$set: {"a.1": 1, "a.01": 2}}` on `{a:[0,0]}` records a.1 = 1 but the result has a.1 = 2
    (numeral aliases are not detected as a conflict).  (The former second witness, `{$set: {"a.+1": 1}}`
    recording "a.+1" = 1 which read Missing, is gone: the update is rejected since /repo 8d332af, and the
    `canonPath` hypothesis this theorem carried is dropped.)  `$pop` is `pop_change_holds`, `$unset` is `unset_change_holds`; `$push`
    (per-element records) and `$rename` (two records) are not covered. -/
theorem changes_hold_partial (c : ACtx) (s s1 : AState) (op path : String) (v : V)
    (hop : op ∈ scalarOps) (h : applyOp c s op path v = .ok s1) :
    s1 = s ∨ ∃ x, s1.changed = s.changed ++ [(path, x)] ∧ x.isMissing = false ∧ Get s1.doc path = x := by
  rcases applyOp_scalar_shape c s s1 op path v hop h with e | ⟨x, hx⟩
  · exact .inl e
  · obtain ⟨h1, h2, h3⟩ := putRec_holds hx
    exact .inr ⟨x, h1, h2, h3⟩

/-- `$pop`: either nothing is recorded, or one entry whose value is what the path reads in the result. -/
theorem pop_change_holds (c : ACtx) (s s1 : AState) (path : String) (v : V)
    (h : applyOp c s "$pop" path v = .ok s1) :
    s1 = s ∨ ∃ x, s1.changed = s.changed ++ [(path, x)] ∧ Get s1.doc path = x :=
  pop_holds c s s1 path v h

/-- `$unset` (no duplicate keys): either nothing is recorded, or (path, Missing) is recorded and
    the path reads Missing (field) or null (array element) in the result. -/
theorem unset_change_holds (c : ACtx) (s s1 : AState) (path : String) (v : V)
    (hn : (V.doc s.doc).nodupKeys = true) (h : applyOp c s "$unset" path v = .ok s1) :
    s1.changed = s.changed ∨
      (s1.changed = s.changed ++ [(path, .missing)] ∧
        (Get s1.doc path = .missing ∨ Get s1.doc path = .null)) :=
  unset_holds c s s1 path v hn h

section Tests
#guard okChanges (Apply ctx0 docB [("$inc", .doc [("n", .i64 1)]), ("$set", .doc [("a.1", .str "s")])] [])
  == some [("n", .i64 6), ("a.1", .str "s")]
#guard (okDoc (Apply ctx0 docB [("$inc", .doc [("n", .i64 1)])] [])).map (fun d => Get d "n") == some (.i64 6)
#guard okChanges (Apply ctx0 docB [("$pop", .doc [("a", .i32 1)])] []) == some [("a", .arr [.i32 1, .i64 2, .f64 0x4008000000000000])]
#guard okChanges (Apply ctx0 docB [("$pull", .doc [("a", .i32 1)])] []) == some [("a", .arr [.i64 2, .f64 0x4008000000000000])]
-- WITNESS (changes do not hold): numeral aliases — recorded a.1 = 1, result a.1 = 2
#guard okChanges (Apply ctx0 [("a", .arr [.i32 0, .i32 0])] [("$set", .doc [("a.1", .i32 1), ("a.01", .i32 2)])] [])
  == some [("a.1", .i32 1), ("a.01", .i32 2)]
#guard (okDoc (Apply ctx0 [("a", .arr [.i32 0, .i32 0])] [("$set", .doc [("a.1", .i32 1), ("a.01", .i32 2)])] [])).map (fun d => Get d "a.1")
  == some (.i32 2)
-- former WITNESS (signed numeral: recorded "a.+1" = 1 read Missing): the update is now rejected
#guard isErr (Apply ctx0 [("a", .arr [.i32 0, .i32 0])] [("$set", .doc [("a.+1", .i32 1)])] [])
-- changes_hold_partial on a path with a leading-zero index and on a padded index
#guard (okDoc (Apply ctx0 [("a", .arr [.i32 0, .i32 0])] [("$set", .doc [("a.01", .i32 1)])] [])).map (fun d => Get d "a.01") == some (.i32 1)
#guard (okDoc (Apply ctx0 [("a", .arr [.i32 0, .i32 0])] [("$set", .doc [("a.4", .i32 1)])] [])).map (fun d => Get d "a.4") == some (.i32 1)
end Tests

end Lungo.C11
