/-
  Lungo.Props.C09 — change streams deliver each matching event once, in order, without stalls.

  All theorems quantify over ALL reachable states of the transition system `Lungo.StreamTS`
  (any number of actors, streams, commits, any interleaving) and are proved by induction over
  the step relation (Lungo.Proofs.StreamTS*). Ghost fields used in the statements:
    `committed`  full change log, never trimmed; ids are positions + 1 (`committed_ids`)
    `delivered`  events returned by `next` on the stream, in return order
    `startPos`   id after which events count for the stream
    `trimmed`    some commit was asked to trim;  `nilStart`  Watch positioned `last` at nil
    `multi`      two `next` calls on the stream overlapped at some time (not the intended use)
-/
import Lungo.Proofs.StreamTSInv
namespace Lungo.StreamTS

/-! ## ids -/

/-- ids of the change log are positions + 1: "after position p" = "id > p" -/
theorem committed_ids {s : State} (hr : Reachable s) :
    ∀ i e, s.committed[i]? = some e → e.id = i + 1 :=
  (reachable_inv hr).g.1

/-- the oplog is a suffix of the change log (retention removes a prefix only) -/
theorem oplog_suffix {s : State} (hr : Reachable s) :
    ∃ k, k ≤ s.committed.length ∧ s.oplog = s.committed.drop k :=
  (reachable_inv hr).g.2.1

/-! ## no_lost_wakeup -/

/-- the wake-up step `recv` of a parked consumer is enabled iff its signal channel is non-empty -/
theorem recv_enabled {s : State} {a : ActorId} {sid : StreamId} {r : Nat}
    (hpc : (s.actors a).pc = .parked sid r) (hsig : (s.streams sid).signal ≠ .empty) :
    (step s a .recv).isSome = true := by
  simp only [step, hpc, stepRecv]
  cases h : (s.streams sid).signal <;> simp_all

/-- **no_lost_wakeup.** A consumer parked in the select of `next` (single consumer on its stream):
    if any commit happened since its oplog read (`r < version`), or the stream has been
    closed (Stream.Close, Engine.Close), then its wake-up step is enabled, or a Stream.Close holds
    `s.mutex` right before its non-blocking send, that send step is enabled, and after it the
    signal slot is full. -/
theorem no_lost_wakeup {s : State} (hr : Reachable s) {a : ActorId} {sid : StreamId} {r : Nat}
    (hpc : (s.actors a).pc = .parked sid r) (hm : (s.streams sid).multi = false)
    (hnew : r < s.version ∨ (s.streams sid).closed = true) :
    (step s a .recv).isSome = true ∨
    ∃ b, (s.streams sid).mutex = some b ∧ (s.actors b).pc = .cSend sid ∧
         ∃ s', step s b .tau = some s' ∧ (s'.streams sid).signal = .full := by
  have i := reachable_inv hr
  rcases i.w a sid r (.inr hpc) hm hnew with h | h
  · exact .inl (recv_enabled hpc h)
  · right
    obtain ⟨h1, h2, _⟩ := i.sp sid
    have hne := h1 h
    cases hmx : (s.streams sid).mutex with
    | none => exact absurd hmx hne
    | some b =>
      have hb := h2 b h hmx
      have hnc := (i.sg sid).2.2.2.2.2 b hb
      refine ⟨b, rfl, hb, stepCSend s b sid, by simp [step, hb], ?_⟩
      simp only [stepCSend, setBoth, upd_same]
      cases hs : (s.streams sid).signal <;> simp_all

/-- **no_lost_wakeup**, event form: a parked single consumer for which the engine's current oplog
    holds an event after its `last` (or no longer holds `last` at all: `nextEvent ≠ some none`) has
    its wake-up enabled, or the send of a Stream.Close is enabled and fills the slot. -/
theorem no_lost_wakeup_event {s : State} (hr : Reachable s) {a : ActorId} {sid : StreamId} {r : Nat}
    (hpc : (s.actors a).pc = .parked sid r) (hm : (s.streams sid).multi = false)
    (hev : nextEvent (s.streams sid).last s.oplog ≠ some none) :
    (step s a .recv).isSome = true ∨
    ∃ b, (s.streams sid).mutex = some b ∧ (s.actors b).pc = .cSend sid ∧
         ∃ s', step s b .tau = some s' ∧ (s'.streams sid).signal = .full := by
  have ⟨h1, h2⟩ := (reachable_inv hr).u a sid r (.inr hpc) hm
  have : r < s.version := by
    rcases Nat.lt_or_eq_of_le h1 with h | h
    · exact h
    · exact absurd (h2 h) hev
  exact no_lost_wakeup hr hpc hm (.inl this)

/-- **no_lost_wakeup, gap variant.** A consumer between its oplog read and the park (holding
    `s.mutex`, about to unlock and select): if anything was committed since the read, the signal
    slot is full (so the select will not block). -/
theorem no_lost_wakeup_gap {s : State} (hr : Reachable s) {a : ActorId} {sid : StreamId} {r : Nat}
    (hpc : (s.actors a).pc = .nGap sid r) (hm : (s.streams sid).multi = false)
    (hnew : r < s.version) : (s.streams sid).signal = .full := by
  have i := reachable_inv hr
  have hcl := (i.nr a sid).2 r hpc
  have hmx := (i.h a sid).2.2.1 r hpc
  rcases i.w a sid r (.inl hpc) hm (.inl hnew) with h | h
  · cases hs : (s.streams sid).signal with
    | empty => exact absurd hs h
    | full => rfl
    | closed => have := (i.sg sid).1 hs; simp_all
  · have hb := (i.sp sid).2.1 a h hmx
    rw [hpc] at hb; cases hb

/-- context cancellation is always an enabled choice at the wait -/
theorem wake_by_ctx {s : State} {a : ActorId} {sid : StreamId} {r : Nat}
    (hpc : (s.actors a).pc = .parked sid r) :
    ∃ s', step s a .ctxDone = some s' ∧ (s'.actors a).pc = .nCtx sid := by
  refine ⟨_, by simp only [step, hpc]; rfl, by simp [setActor]⟩

/-- **wake by Engine.Close.** After the engine died, every parked single consumer either has its
    wake-up enabled, or a Stream.Close is about to send, or Engine.Close still has the stream in its
    snapshot; and visiting an unclosed stream closes its signal channel (`engine_close_visit`). -/
theorem wake_by_engine_close {s : State} (hr : Reachable s) {a : ActorId} {sid : StreamId} {r : Nat}
    (hpc : (s.actors a).pc = .parked sid r) (hm : (s.streams sid).multi = false)
    (hdead : s.alive = false) :
    (step s a .recv).isSome = true ∨
    (∃ b, (s.streams sid).mutex = some b ∧ (s.actors b).pc = .cSend sid) ∨
    (∃ b rest, (s.actors b).pc = .eLoop rest ∧ sid ∈ rest) := by
  have i := reachable_inv hr
  by_cases hc : (s.streams sid).closed = true
  · rcases no_lost_wakeup hr hpc hm (.inr hc) with h | ⟨b, h1, h2, _⟩
    · exact .inl h
    · exact .inr (.inl ⟨b, h1, h2⟩)
  · have hreg : (s.streams sid).registered = true := by
      rcases (i.sg sid).2.2.1 with h | h
      · exact h
      · exact absurd h hc
    right; right
    obtain ⟨⟨e1, _⟩, e2⟩ := i.e
    cases hcl : s.closer with
    | none => exact absurd hcl (e1 hdead)
    | some b =>
      have := e2 b sid hcl hreg (by simpa using hc)
      cases hb : (s.actors b).pc <;> simp [hb, Pc.eRest] at this
      exact ⟨b, _, hb, this⟩

theorem engine_close_visit {s s' : State} {b : ActorId} {sid : StreamId} {rest : List StreamId}
    (hpc : (s.actors b).pc = .eLoop (sid :: rest)) (hs : step s b .tau = some s')
    (hc : (s.streams sid).closed = false) :
    (s'.streams sid).signal = .closed ∧ (s'.streams sid).closed = true := by
  simp only [step, hpc, stepELoop] at hs
  split at hs
  · cases hs
  · simp only [Option.some.injEq] at hs; subst hs
    simp [setBoth, hc]

/-- **no_send_on_closed.** No send on a closed signal channel ever happens (the Go program would
    panic): neither Commit's broadcast nor Stream.Close's wake-up send. -/
theorem no_send_on_closed {s : State} (hr : Reachable s) (sid : StreamId) :
    (s.streams sid).panic = false :=
  ((reachable_inv hr).sg sid).2.2.2.2.1

/-! ## delivered_exact -/

/-- **delivered_exact** (no retention: no commit trimmed). The delivered sequence of a stream is
    exactly the scope-filtered slice of the change log after the start position up to the stream's
    position (`last`), in commit order. -/
theorem delivered_exact {s : State} (hr : Reachable s) (sid : StreamId) (hnt : s.trimmed = false) :
    (s.streams sid).startPos ≤ (s.streams sid).pos ∧ (s.streams sid).pos ≤ s.committed.length ∧
    (s.streams sid).delivered =
      expected (s.streams sid).handle s.committed (s.streams sid).startPos (s.streams sid).pos :=
  ((reachable_inv hr).d sid).2.2.2.2 (.inl hnt)

/-- `delivered_exact` / `lost_position_explicit_partial` in id form: delivered = the committed events
    `e` with `startPos < e.id ≤ pos` that are in scope, in commit order. -/
theorem delivered_exact_ids {s : State} (hr : Reachable s) (sid : StreamId)
    (hp : s.trimmed = false ∨ (s.streams sid).nilStart = false) :
    (s.streams sid).delivered =
      s.committed.filter (fun e => decide ((s.streams sid).startPos < e.id) &&
        decide (e.id ≤ (s.streams sid).pos) && inScope (s.streams sid).handle e) := by
  have i := reachable_inv hr
  rw [((i.d sid).2.2.2.2 hp).2.2, expected_eq_filter i.g.1]
  rfl

/-- **lost_position_explicit_partial** (retention allowed). For a stream that Watch positioned at an
    existing event (`nilStart = false`: start = now on a non-empty oplog, resume token, start time
    after the first retained event), `last` stays an event forever and NO event is ever skipped:
    delivered is exactly the scope-filtered slice up to its position, whatever retention does.
    (When the position was discarded the lookup fails and `next` sets `error := lost`:
    `lost_lookup_fails`.)
    Missing w.r.t. the full statement: streams with `nilStart = true`; for those the property is
    FALSE in the code, see `lost_position_explicit_fails_for_nil_last`. -/
theorem lost_position_explicit_partial {s : State} (hr : Reachable s) (sid : StreamId)
    (hns : (s.streams sid).nilStart = false) :
    (s.streams sid).last ≠ none ∧
    (s.streams sid).startPos ≤ (s.streams sid).pos ∧ (s.streams sid).pos ≤ s.committed.length ∧
    (s.streams sid).delivered =
      expected (s.streams sid).handle s.committed (s.streams sid).startPos (s.streams sid).pos :=
  ⟨((reachable_inv hr).d sid).2.1 hns, ((reachable_inv hr).d sid).2.2.2.2 (.inr hns)⟩

/-- the explicit failure: when `last` is an event that is no longer in the oplog, the consumer's
    read step moves to the lost-position exit, whose step sets `error := lost`, closes and
    deregisters the stream and returns false -/
theorem lost_lookup_fails {s : State} {a : ActorId} {sid : StreamId} {block : Bool} {e : Event}
    (hpc : (s.actors a).pc = .nRead sid block) (hl : (s.streams sid).last = some e)
    (hgone : e ∉ s.oplog) :
    ∃ s1 s2, step s a .tau = some s1 ∧ step s1 a .tau = some s2 ∧
      (s2.streams sid).error = some .lost ∧ (s2.streams sid).closed = true ∧
      (s2.streams sid).registered = false ∧ (s2.actors a).ret = some false ∧
      (s2.streams sid).delivered = (s.streams sid).delivered := by
  have h1 : stepNRead s a sid block false = setActor s a { pc := .nLost sid, ret := none } := by
    simp [stepNRead, lookupNext, hl, hgone]
  refine ⟨stepNRead s a sid block false, stepNLost (stepNRead s a sid block false) a sid,
    by simp only [step, hpc], ?_, ?_⟩
  · rw [h1]; simp only [step, setActor, upd_same]
  · rw [h1]; simp [setActor, stepNLost, setBoth]

/-- the lost-position error is truthful: it is only ever set on a stream whose `last` is an event
    that retention has removed from the oplog -/
theorem lost_error_truthful {s : State} (hr : Reachable s) (sid : StreamId)
    (he : (s.streams sid).error = some .lost) :
    ∃ e, (s.streams sid).last = some e ∧ e ∉ s.oplog ∧ e ∈ s.committed ∧
      (s.streams sid).closed = true := by
  have i := reachable_inv hr
  obtain ⟨h1, h2⟩ := i.l.2 sid he
  cases hl : (s.streams sid).last with
  | none => exact absurd hl h1
  | some e =>
    exact ⟨e, rfl, h2 e hl, (i.d sid).1 e hl, i.lc sid he⟩

/-- every in-scope committed event between start position and position has been delivered -/
theorem mem_expected {h : Handle} {cm : List Event} (hids : ∀ i e, cm[i]? = some e → e.id = i + 1)
    {lo hi : Nat} {e : Event} (he : e ∈ cm) (hs : inScope h e = true) (h1 : lo < e.id)
    (h2 : e.id ≤ hi) : e ∈ expected h cm lo hi := by
  obtain ⟨hget, _, _⟩ := IdsOK_mem hids he
  unfold expected
  rw [List.mem_filter]
  refine ⟨?_, hs⟩
  rw [List.mem_iff_getElem?]
  refine ⟨e.id - 1 - lo, ?_⟩
  rw [List.getElem?_drop, List.getElem?_take]
  have : lo + (e.id - 1 - lo) = e.id - 1 := by omega
  rw [this, if_pos (by omega)]
  exact hget

/-- **no skipping**, the form used for the negative result: under the hypotheses of
    `delivered_exact` or `lost_position_explicit_partial`, every in-scope committed event with
    `startPos < id ≤ pos` is in `delivered`. -/
theorem no_skip {s : State} (hr : Reachable s) (sid : StreamId)
    (hp : s.trimmed = false ∨ (s.streams sid).nilStart = false)
    {e : Event} (he : e ∈ s.committed) (hs : inScope (s.streams sid).handle e = true)
    (h1 : (s.streams sid).startPos < e.id) (h2 : e.id ≤ (s.streams sid).pos) :
    e ∈ (s.streams sid).delivered := by
  have i := reachable_inv hr
  rw [((i.d sid).2.2.2.2 hp).2.2]
  exact mem_expected i.g.1 he hs h1 h2

/-- delivered events are in commit order, each once (strictly increasing ids), all in scope and
    committed -/
theorem delivered_in_order_once {s : State} (hr : Reachable s) (sid : StreamId)
    (hp : s.trimmed = false ∨ (s.streams sid).nilStart = false) :
    (s.streams sid).delivered.Pairwise (fun x y => x.id < y.id) ∧
    ∀ e ∈ (s.streams sid).delivered, e ∈ s.committed ∧ inScope (s.streams sid).handle e = true ∧
      (s.streams sid).startPos < e.id ∧ e.id ≤ (s.streams sid).pos := by
  have i := reachable_inv hr
  have hids := i.g.1
  simp only [StreamState.pos_eq]
  rw [((i.d sid).2.2.2.2 hp).2.2]
  have hpw : s.committed.Pairwise (fun x y => x.id < y.id) := by
    rw [List.pairwise_iff_getElem]
    intro a b ha hb hab
    have h1 := hids a _ (List.getElem?_eq_getElem ha)
    have h2 := hids b _ (List.getElem?_eq_getElem hb)
    omega
  have hsub : (expected (s.streams sid).handle s.committed (s.streams sid).startPos
      (s.streams sid).pos).Sublist s.committed :=
    (List.filter_sublist.trans (List.drop_sublist _ _)).trans (List.take_sublist _ _)
  refine ⟨hpw.sublist hsub, ?_⟩
  intro e he
  unfold expected at he
  rw [List.mem_filter] at he
  obtain ⟨hm, hsc⟩ := he
  obtain ⟨j, hj⟩ := List.getElem?_of_mem hm
  rw [List.getElem?_drop, List.getElem?_take] at hj
  split at hj
  · have := hids _ _ hj
    exact ⟨List.mem_of_getElem? hj, hsc, by omega, by omega⟩
  · cases hj

/-! ## resume_next -/

/-- **resume_next.** A stream started with the resume token of event `k` (present in the oplog)
    has start position `k`, and what it has delivered is a prefix of the scope-filtered events
    after `k`: its first delivered event is the first in-scope event after `k` (event `k+1` if in
    scope), the second the next one, etc. Holds with retention too (a resumed stream never has a nil
    position); if the position is lost the stream stops with the explicit error instead. -/
theorem resume_next {s : State} (hr : Reachable s) (sid : StreamId) (k : Nat)
    (hspec : (s.streams sid).spec = .token k) :
    (s.streams sid).startPos = k ∧
    ∃ rest, (s.committed.drop k).filter (inScope (s.streams sid).handle) =
      (s.streams sid).delivered ++ rest := by
  have i := reachable_inv hr
  obtain ⟨hk, hns⟩ := (i.d sid).2.2.2.1 k hspec
  obtain ⟨j1, j2, j3⟩ := (i.d sid).2.2.2.2 (.inr hns)
  refine ⟨hk, (s.committed.drop (posOf (s.streams sid).last (s.streams sid).startPos)).filter
    (inScope (s.streams sid).handle), ?_⟩
  rw [j3, hk] at *
  unfold expected
  rw [← List.filter_append]
  congr 1
  have hlen : k ≤ (List.take (posOf (s.streams sid).last k) s.committed).length := by
    rw [List.length_take]; omega
  rw [← List.drop_append_of_le_length hlen, List.take_append_drop]

/-- first delivered event of a resumed stream = first in-scope event after the token -/
theorem resume_first {s : State} (hr : Reachable s) (sid : StreamId) (k : Nat)
    (hspec : (s.streams sid).spec = .token k) (hne : (s.streams sid).delivered ≠ []) :
    (s.streams sid).delivered.head? =
      ((s.committed.drop k).filter (inScope (s.streams sid).handle)).head? := by
  obtain ⟨_, rest, h⟩ := resume_next hr sid k hspec
  rw [h]
  cases hd : (s.streams sid).delivered with
  | nil => exact absurd hd hne
  | cons x xs => rfl

/-! ## invalidate_on_drop -/

/-- `dropped` is set exactly by delivering an in-scope drop (collection stream) / dropDatabase
    event, which is then the last delivered event; before that no delivered event is such a drop -/
theorem dropped_iff_last_delivered {s : State} (hr : Reachable s) (sid : StreamId) :
    ((s.streams sid).dropped = false →
       ∀ e ∈ (s.streams sid).delivered, setsDropped (s.streams sid).handle e = false) ∧
    ((s.streams sid).dropped = true →
       ∃ pre e, (s.streams sid).delivered = pre ++ [e] ∧
         setsDropped (s.streams sid).handle e = true ∧
         ∀ e' ∈ pre, setsDropped (s.streams sid).handle e' = false) :=
  (reachable_inv hr).v sid

/-- **invalidate_on_drop**, step part: once `dropped` is set, the next `next` call that gets the
    mutex (stream neither closed nor in error) returns true with the invalidate event, closes and
    deregisters the stream and delivers no change-log event. -/
theorem invalidate_on_drop {s : State} {a : ActorId} {sid : StreamId} {block : Bool}
    (hpc : (s.actors a).pc = .nLock sid block) (hmx : (s.streams sid).mutex = none)
    (hd : (s.streams sid).dropped = true) (hc : (s.streams sid).closed = false)
    (he : (s.streams sid).error = none) :
    ∃ s', step s a .tau = some s' ∧ (s'.actors a).ret = some true ∧ (s'.actors a).pc = .idle ∧
      (s'.streams sid).event = .invalidate ∧ (s'.streams sid).invalidated = true ∧
      (s'.streams sid).closed = true ∧ (s'.streams sid).registered = false ∧
      (s'.streams sid).delivered = (s.streams sid).delivered := by
  refine ⟨_, by simp only [step, hpc, stepNLock, hmx, hd, hc, he]; simp; rfl, ?_⟩
  simp [setBoth]

/-- **invalidate_on_drop**, history part: after `dropped` is set nothing else is ever delivered on
    the stream (only the synthetic invalidate can follow); an invalidated stream is closed and stays
    invalidated and closed. -/
theorem nothing_after_drop {s s' : State} (hr : Reachable s) (hs : Steps s s') (sid : StreamId)
    (hd : (s.streams sid).dropped = true) :
    (s'.streams sid).delivered = (s.streams sid).delivered ∧ (s'.streams sid).dropped = true :=
  frozen_dropped hr hs sid hd

theorem invalidated_closed {s : State} (hr : Reachable s) (sid : StreamId)
    (hv : (s.streams sid).invalidated = true) :
    (s.streams sid).closed = true ∧ (s.streams sid).dropped = true :=
  (reachable_inv hr).v3 sid hv

theorem invalidated_stable {s s' : State} (hr : Reachable s) (hs : Steps s s') (sid : StreamId)
    (hv : (s.streams sid).invalidated = true) :
    (s'.streams sid).invalidated = true ∧
    (s'.streams sid).delivered = (s.streams sid).delivered :=
  ⟨frozen_invalidated hr hs sid hv,
   (frozen_dropped hr hs sid ((reachable_inv hr).v3 sid hv).2).1⟩

/-- a closed stream (Stream.Close, Engine.Close, lost position, invalidate) delivers nothing more -/
theorem nothing_after_close {s s' : State} (hr : Reachable s) (hs : Steps s s') (sid : StreamId)
    (hc : (s.streams sid).closed = true) (hx : sid ∈ s.created) :
    (s'.streams sid).delivered = (s.streams sid).delivered ∧ (s'.streams sid).closed = true :=
  ⟨(frozen_closed hr hs sid hc hx).1, (frozen_closed hr hs sid hc hx).2.1⟩


/-! ## the negative result: nil start position + retention = silent skipping -/

/-- an insert into collection 0 of database 0 -/
def pIns : Proto := ⟨0, some 0, .normal⟩

/-- Watch(now) on an empty oplog (last = nil, start position 0); commit event 1; commit event 2
    while retention discards event 1; then `Next`. -/
def nilTrace : List (ActorId × Choice) :=
  [ (0, .call (.watch 0 (none, none) .now)),
    (1, .commit [pIns] 0),
    (1, .commit [pIns] 1),
    (0, .call (.next 0 true)), (0, .tau), (0, .tau) ]

/-- **lost_position_explicit is FALSE for a stream whose `last` is nil**: reachable state in which an
    in-scope event committed after the start position (event 1) lies before the stream's position,
    was never delivered, `Next` returned true with event 2 instead, and no error is set. -/
theorem lost_position_explicit_fails_for_nil_last :
    ∃ s, Reachable s ∧ ∃ sid e, e ∈ s.committed ∧ inScope (s.streams sid).handle e = true ∧
      (s.streams sid).startPos < e.id ∧ e.id ≤ (s.streams sid).pos ∧
      e ∉ (s.streams sid).delivered ∧ (s.streams sid).error = none ∧
      (s.streams sid).closed = false ∧ (s.streams sid).nilStart = true ∧
      (s.streams sid).delivered.map (·.id) = [2] ∧ (s.actors 0).ret = some true :=
  ⟨runD nilTrace, runD_reachable (by decide), 0, ⟨1, 0, some 0, .normal⟩, by decide⟩

/-- commit events 1..3, retention keeps only event 3; Watch with start time 2 (≤ first retained
    event, so last = nil); `Next` returns event 3: event 2 (at/after the start time) is skipped
    without an error — the same defect reached through `startAtOperationTime`. -/
def timeTrace : List (ActorId × Choice) :=
  [ (1, .commit [pIns] 0),
    (1, .commit [pIns, pIns] 2),
    (0, .call (.watch 0 (none, none) (.time 2))),
    (0, .call (.next 0 true)), (0, .tau), (0, .tau) ]

theorem start_time_before_oplog_skips_silently :
    ∃ s, Reachable s ∧ ∃ sid e, e ∈ s.committed ∧ inScope (s.streams sid).handle e = true ∧
      (s.streams sid).startPos < e.id ∧ e.id ≤ (s.streams sid).pos ∧
      e ∉ (s.streams sid).delivered ∧ (s.streams sid).error = none ∧
      (s.streams sid).delivered.map (·.id) = [3] :=
  ⟨runD timeTrace, runD_reachable (by decide), 0, ⟨2, 0, some 0, .normal⟩, by decide⟩

/-! ## why `multi = false` is a hypothesis of the wake-up theorems -/

/-- two goroutines block in `Next` on the SAME stream; Stream.Close sends one wake-up token; the
    second consumer stays parked on a closed stream with an empty slot and nobody about to send.
    (mongo-driver's ChangeStream is not safe for concurrent use, so this is outside the intended use;
    it is the reason for the explicit single-consumer hypothesis `multi = false`.) -/
def twoConsumersTrace : List (ActorId × Choice) :=
  [ (0, .call (.watch 0 (none, none) .now)),
    (0, .call (.next 0 true)), (0, .tau), (0, .tau), (0, .tau),
    (1, .call (.next 0 true)), (1, .tau), (1, .tau), (1, .tau),
    (2, .call (.closeStream 0)), (2, .tau), (2, .tau),
    (0, .recv), (0, .tau) ]

theorem single_consumer_needed :
    ∃ s, Reachable s ∧ ∃ a sid r, (s.actors a).pc = .parked sid r ∧
      (s.streams sid).closed = true ∧ (s.streams sid).multi = true ∧
      (s.streams sid).signal = .empty ∧ (s.streams sid).mutex = none ∧
      (step s a .recv).isSome = false :=
  ⟨runD twoConsumersTrace, runD_reachable (by decide), 1, 0, 0, by decide⟩

/-! ## non-vacuity: concrete runs that meet the hypotheses non-trivially -/

/-- consumer parks on an empty stream, then a writer commits -/
def parkTrace : List (ActorId × Choice) :=
  [ (0, .call (.watch 0 (none, none) .now)),
    (0, .call (.next 0 true)), (0, .tau), (0, .tau), (0, .tau),
    (1, .commit [pIns] 0) ]

-- no_lost_wakeup (commit): hypotheses hold, wake-up enabled, and the woken consumer gets event 1
example : (run init parkTrace).isSome = true ∧
    ((runD parkTrace).actors 0).pc = .parked 0 0 ∧ ((runD parkTrace).streams 0).multi = false ∧
    0 < (runD parkTrace).version ∧ (step (runD parkTrace) 0 .recv).isSome = true ∧
    ((runD (parkTrace ++ [(0, .recv), (0, .tau), (0, .tau)])).streams 0).delivered.map (·.id) = [1] := by
  decide

-- no_lost_wakeup_event: the oplog now holds event 1 after the parked consumer's nil position
example : nextEvent ((runD parkTrace).streams 0).last (runD parkTrace).oplog =
    some (some ⟨1, 0, some 0, .normal⟩) := by
  decide

-- no_lost_wakeup (Stream.Close, second disjunct): the closer holds the mutex before its send
example : ((runD (parkTrace.take 5 ++ [(1, .call (.closeStream 0)), (1, .tau)])).actors 0).pc = .parked 0 0 ∧
    ((runD (parkTrace.take 5 ++ [(1, .call (.closeStream 0)), (1, .tau)])).streams 0).closed = true ∧
    ((runD (parkTrace.take 5 ++ [(1, .call (.closeStream 0)), (1, .tau)])).streams 0).signal = .empty ∧
    ((runD (parkTrace.take 5 ++ [(1, .call (.closeStream 0)), (1, .tau)])).actors 1).pc = .cSend 0 ∧
    ((runD (parkTrace.take 5 ++ [(1, .call (.closeStream 0)), (1, .tau), (1, .tau), (0, .recv), (0, .tau)])).actors 0).ret = some false := by
  decide

-- no_lost_wakeup_gap: the writer lands between the consumer's oplog read and its park
example : ((runD (parkTrace.take 4 ++ [(1, .commit [pIns] 0)])).actors 0).pc = .nGap 0 0 ∧
    0 < (runD (parkTrace.take 4 ++ [(1, .commit [pIns] 0)])).version ∧
    ((runD (parkTrace.take 4 ++ [(1, .commit [pIns] 0)])).streams 0).signal = .full := by
  decide

-- wake_by_ctx / wake_by_engine_close: parked consumer, engine closed by actor 1
example : ((runD (parkTrace.take 5 ++ [(1, .call .closeEngine)])).actors 0).pc = .parked 0 0 ∧
    (runD (parkTrace.take 5 ++ [(1, .call .closeEngine)])).alive = false ∧
    ((runD (parkTrace.take 5 ++ [(1, .call .closeEngine)])).actors 1).pc = .eLoop [0] ∧
    ((runD (parkTrace.take 5 ++ [(1, .call .closeEngine), (1, .tau)])).streams 0).signal = .closed ∧
    ((runD (parkTrace.take 5 ++ [(1, .call .closeEngine), (1, .tau), (0, .recv), (0, .tau)])).actors 0).ret = some false ∧
    ((runD (parkTrace.take 5 ++ [(0, .ctxDone), (0, .tau)])).streams 0).error = some .ctx := by
  decide

/-- database stream on db 0; events: db0/c0, db1/c0 (out of scope), db0/c1, consumed one by one -/
def exactTrace : List (ActorId × Choice) :=
  [ (0, .call (.watch 0 (some 0, none) .now)),
    (1, .commit [⟨0, some 0, .normal⟩, ⟨1, some 0, .normal⟩] 0),
    (0, .call (.next 0 false)), (0, .tau), (0, .tau),
    (1, .commit [⟨0, some 1, .normal⟩] 0),
    (0, .call (.next 0 false)), (0, .tau), (0, .tau), (0, .tau), (0, .tau) ]

-- delivered_exact: no trim, delivered = [1, 3] (event 2 out of scope), position 3
example : (run init exactTrace).isSome = true ∧ (runD exactTrace).trimmed = false ∧
    ((runD exactTrace).streams 0).delivered.map (·.id) = [1, 3] ∧
    ((runD exactTrace).streams 0).pos = 3 ∧ ((runD exactTrace).streams 0).startPos = 0 := by
  decide

/-- stream opened at event 1 (now on a non-empty oplog); retention discards event 1 and 2 before the
    consumer reads: explicit lost-position error -/
def lostTrace : List (ActorId × Choice) :=
  [ (1, .commit [pIns] 0),
    (0, .call (.watch 0 (none, none) .now)),
    (1, .commit [pIns, pIns] 2),
    (0, .call (.next 0 true)), (0, .tau), (0, .tau), (0, .tau) ]

-- lost_position_explicit_partial / lost_lookup_fails: nilStart = false, trimmed, error = lost
example : (run init lostTrace).isSome = true ∧ ((runD lostTrace).streams 0).nilStart = false ∧
    (runD lostTrace).trimmed = true ∧ ((runD lostTrace).streams 0).error = some .lost ∧
    ((runD lostTrace).streams 0).delivered = [] ∧ ((runD lostTrace).actors 0).ret = some false ∧
    (runD lostTrace).oplog.map (·.id) = [3] := by
  decide

-- ... and with retention that does not reach the position, delivery continues exactly
example : ((runD [ (1, .commit [pIns, pIns] 0), (0, .call (.watch 0 (none, none) .now)),
      (1, .commit [pIns, pIns] 1), (0, .call (.next 0 true)), (0, .tau), (0, .tau) ]).streams 0).delivered.map (·.id) = [3] ∧
    ((runD [ (1, .commit [pIns, pIns] 0), (0, .call (.watch 0 (none, none) .now)),
      (1, .commit [pIns, pIns] 1), (0, .call (.next 0 true)), (0, .tau), (0, .tau) ]).streams 0).nilStart = false := by
  decide

/-- resume after event 1 with events 1..3 in the oplog (2 out of scope for the collection stream) -/
def resumeTrace : List (ActorId × Choice) :=
  [ (1, .commit [⟨0, some 0, .normal⟩, ⟨0, some 1, .normal⟩, ⟨0, some 0, .normal⟩] 0),
    (0, .call (.watch 0 (some 0, some 0) (.token 1))),
    (0, .call (.next 0 true)), (0, .tau), (0, .tau), (0, .tau), (0, .tau) ]

-- resume_next: spec = token 1, first delivered = event 3 = first in-scope event after 1
example : (run init resumeTrace).isSome = true ∧
    ((runD resumeTrace).streams 0).spec = .token 1 ∧
    ((runD resumeTrace).streams 0).delivered.map (·.id) = [3] := by
  decide

/-- collection stream; its collection is dropped; Next returns the drop, then the invalidate -/
def dropTrace : List (ActorId × Choice) :=
  [ (0, .call (.watch 0 (some 0, some 0) .now)),
    (1, .commit [⟨0, some 0, .drop⟩, ⟨0, some 0, .normal⟩] 0),
    (0, .call (.next 0 true)), (0, .tau), (0, .tau) ]

-- invalidate_on_drop: hypotheses of the step theorem hold after delivering the drop, and the
-- following Next yields the invalidate; event 2 is never delivered
example : (run init dropTrace).isSome = true ∧ ((runD dropTrace).streams 0).dropped = true ∧
    ((runD dropTrace).streams 0).closed = false ∧ ((runD dropTrace).streams 0).error = none ∧
    ((runD dropTrace).streams 0).delivered.map (·.id) = [1] ∧
    ((runD (dropTrace ++ [(0, .call (.next 0 true)), (0, .tau)])).streams 0).event = .invalidate ∧
    ((runD (dropTrace ++ [(0, .call (.next 0 true)), (0, .tau)])).streams 0).invalidated = true ∧
    ((runD (dropTrace ++ [(0, .call (.next 0 true)), (0, .tau)])).actors 0).ret = some true ∧
    ((runD (dropTrace ++ [(0, .call (.next 0 true)), (0, .tau), (0, .call (.next 0 true)), (0, .tau)])).actors 0).ret = some false ∧
    ((runD (dropTrace ++ [(0, .call (.next 0 true)), (0, .tau), (0, .call (.next 0 true)), (0, .tau)])).streams 0).delivered.map (·.id) = [1] := by
  decide

-- a collection stream on db 0 / coll 0 is invalidated by dropDatabase of db 0 (event without ns.coll)
example : ((runD [ (0, .call (.watch 0 (some 0, some 0) .now)), (1, .commit [⟨0, none, .dropDatabase⟩] 0),
      (0, .call (.next 0 true)), (0, .tau), (0, .tau) ]).streams 0).dropped = true := by
  decide

-- no_send_on_closed is not vacuous: Stream.Close after Engine.Close closed the signal skips its send
example : ((runD (parkTrace.take 1 ++ [(1, .call .closeEngine), (1, .tau), (1, .tau),
      (1, .call (.closeStream 0)), (1, .tau)])).streams 0).signal = .closed ∧
    ((runD (parkTrace.take 1 ++ [(1, .call .closeEngine), (1, .tau), (1, .tau),
      (1, .call (.closeStream 0)), (1, .tau)])).actors 1).pc = .idle ∧
    (run init (parkTrace.take 1 ++ [(1, .call .closeEngine), (1, .tau), (1, .tau),
      (1, .call (.closeStream 0)), (1, .tau)])).isSome = true := by
  decide

end Lungo.StreamTS
