/-
  Property C19 — "An expiry pass removes a document if and only if its collection has a TTL index
  on a field whose value in that document is a date (or an array containing a date) older than
  the index's expiry interval; documents with newer dates, non-date values or no such field, and
  all collections without TTL index, are untouched. Each removal is logged as a delete event, and
  a pass that removes nothing changes nothing."

  Model: `Txn.expire sch t nowMs nu` (Transaction.Expire with `time.Now()` = `nowMs` ms).
  Standing assumptions on the catalog (`ExpireReady`), each a stated fact about reachable catalogs:
    * namespace handles are pairwise distinct (a Go map);
    * a collection with a TTL index is not the oplog (`local.*` is read-only: `writable`);
    * document identities (Go pointers / `SDoc.id`) within it are pairwise distinct;
    * the TTL field name is not a `$`-operator key. (With a TTL index on a field named `$…`, e.g.
      `{"$jsonSchema": 1}`, the generated filter `{$or: [{"$jsonSchema": {$lt: …}}]}` is a top-level
      operator; Expire then fails — or evaluates a schema — for the whole pass. Reported.)
  `zero_means_1ns` is a driver-level fact, not a model theorem: indexes.go maps
  `expireAfterSeconds: 0` to an expiry of 1ns so that `Expiry > 0` still marks the index as TTL
  (checked by the harness stream `ttl`: an index created with 0 seconds expires every past date).
-/
import Lungo.Proofs.ExpireLaws
import Lungo.Proofs.IndexColl
namespace Lungo.C19
open Lungo

/-- standing assumptions (see the header) -/
structure ExpireReady (cat : Catalog) : Prop where
  nodup : cat.namespaces.Pairwise (fun a b => a.1 ≠ b.1)
  good : ∀ hc ∈ cat.namespaces, ttlIndexes hc.2 ≠ [] → hc.1 ≠ oplogHandle ∧ DocIdsDistinct hc.2 ∧ TTLFieldsPlain hc.2

theorem get?_of_mem {l : List (Handle × Coll)} (hnd : l.Pairwise (fun a b => a.1 ≠ b.1)) {hc : Handle × Coll}
    (hm : hc ∈ l) : (l.find? (fun a => a.1 == hc.1)).map (·.2) = some hc.2 := by
  induction l with
  | nil => cases hm
  | cons a r ih =>
    rw [List.pairwise_cons] at hnd
    rcases List.mem_cons.mp hm with rfl | hm'
    · simp
    · have : (a.1 == hc.1) = false := by simpa using hnd.1 hc hm'
      simp only [List.find?_cons, this]
      exact ih hnd.2 hm'

/-- The effect of a successful expiry pass on every namespace: the documents that are NOT expired
    remain, unchanged and in their natural order; a collection without TTL index is returned as is
    (documents and indexes). -/
theorem expire_spec (sch : SchemaEval) (t t' : Txn) (nowMs : Int) (nu nu' : Nu) (n : Nat)
    (hready : ExpireReady t.catalog) (hr : Txn.expire sch t nowMs nu = .ok (t', n, nu')) :
    (∀ hc ∈ t.catalog.namespaces, hc.1 ≠ oplogHandle → ∃ c', t'.catalog.get? hc.1 = some c' ∧
        c'.docs = hc.2.docs.filter (fun sd => !expired hc.2 nowMs sd.doc) ∧ (ttlIndexes hc.2 = [] → c' = hc.2)) ∧
    t'.catalog.oplog.map (·.doc)
      = t.catalog.oplog.map (·.doc) ++ evDocs t.catalog.clock (expireSpecs nowMs t.catalog.namespaces) ∧
    n = (expireSpecs nowMs t.catalog.namespaces).length ∧
    (n = 0 → t' = t) ∧ (0 < n → t'.dirty = true) := by
  unfold Txn.expire at hr
  split at hr
  · cases hr
  · rename_i cat nu1 deleted hgo
    have hsync : ∀ hc ∈ t.catalog.namespaces, hc.1 ≠ oplogHandle → t.catalog.get? hc.1 = some hc.2 :=
      fun hc hm _ => get?_of_mem hready.nodup hm
    obtain ⟨ha, _, hc, _, he⟩ := expire_go_spec sch nowMs t.catalog.namespaces t.catalog nu 0 cat nu1 deleted
      hready.nodup hsync hready.good hgo
    simp only [Nat.zero_add] at he
    by_cases hpos : deleted > 0
    · simp only [hpos, ↓reduceIte, Except.ok.injEq, Prod.mk.injEq] at hr
      obtain ⟨rfl, rfl, rfl⟩ := hr
      exact ⟨ha, hc, he, fun h0 => by omega, fun _ => rfl⟩
    · simp only [hpos, ↓reduceIte, Except.ok.injEq, Prod.mk.injEq] at hr
      obtain ⟨rfl, rfl, rfl⟩ := hr
      have hz : expireSpecs nowMs t.catalog.namespaces = [] := by
        apply List.eq_nil_of_length_eq_zero; omega
      refine ⟨?_, by simp [hz, evDocs], by simp [hz], fun _ => rfl, fun h0 => by omega⟩
      intro x hx hxo
      refine ⟨x.2, hsync x hx hxo, ?_, fun _ => rfl⟩
      have hnone : expiredDocs x.2 nowMs = [] := by
        simp only [expireSpecs, List.flatMap_eq_nil_iff, deleteSpecs, List.map_eq_nil_iff] at hz
        exact hz x hx
      symm; rw [List.filter_eq_self]
      intro sd hsd
      simp only [expiredDocs, List.filter_eq_nil_iff] at hnone
      simpa using hnone sd hsd

/-- unfolding of `expired`: some TTL index offers a date before its cutoff -/
theorem expired_iff (c : Coll) (nowMs : Int) (d : Doc) :
    expired c nowMs d = true ↔
      ∃ name i, (name, i) ∈ c.indexes ∧ i.config.expiry > 0 ∧
        ∃ l ∈ offered d (ttlField i), ∃ ms, l = .date ms ∧ ms < nowMs - i.config.expiry / 1000000 := by
  unfold expired expiredBy ttlIndexes ttlCutoff
  simp only [List.any_eq_true, List.mem_filter, decide_eq_true_eq]
  constructor
  · rintro ⟨⟨name, i⟩, ⟨hm, he⟩, l, hl, hd⟩
    refine ⟨name, i, hm, he, l, hl, ?_⟩
    cases l <;> simp_all [isExpiredDate]
  · rintro ⟨name, i, hm, he, l, hl, ms, rfl, hlt⟩
    exact ⟨(name, i), ⟨hm, he⟩, .date ms, hl, by simpa [isExpiredDate] using hlt⟩

/-- `expire_iff`: a document of a namespace is gone after the pass ⇔ its collection has a TTL index
    (expiry > 0, field `f` = first key) for which the matcher is offered — the value at `f`, or its
    elements if it is an array, or the fanned-out candidates — a date `ms` with
    `ms < nowMs − expiry/10⁶`. -/
theorem expire_iff (sch : SchemaEval) (t t' : Txn) (nowMs : Int) (nu nu' : Nu) (n : Nat)
    (hready : ExpireReady t.catalog) (hr : Txn.expire sch t nowMs nu = .ok (t', n, nu'))
    (h : Handle) (c : Coll) (hm : (h, c) ∈ t.catalog.namespaces) (hno : h ≠ oplogHandle)
    (sd : SDoc) (hsd : sd ∈ c.docs) :
    (∀ c', t'.catalog.get? h = some c' → sd ∉ c'.docs) ↔
      ∃ name i, (name, i) ∈ c.indexes ∧ i.config.expiry > 0 ∧
        ∃ l ∈ offered sd.doc (ttlField i), ∃ ms, l = .date ms ∧ ms < nowMs - i.config.expiry / 1000000 := by
  obtain ⟨c', hget, hdocs, _⟩ := (expire_spec sch t t' nowMs nu nu' n hready hr).1 (h, c) hm hno
  rw [← expired_iff]
  constructor
  · intro hall
    have := hall c' hget
    rw [hdocs] at this
    simp only [List.mem_filter, hsd, true_and, Bool.not_eq_true', Bool.not_eq_false] at this
    exact this
  · intro hex c'' hget''
    rw [hget] at hget''
    cases hget''
    rw [hdocs]
    simp [List.mem_filter, hex]

/-- `non_date_untouched`: a document in which no TTL field offers a date (numbers, strings,
    missing field, arrays without dates …) survives the pass, whatever the cutoff. -/
theorem non_date_untouched (sch : SchemaEval) (t t' : Txn) (nowMs : Int) (nu nu' : Nu) (n : Nat)
    (hready : ExpireReady t.catalog) (hr : Txn.expire sch t nowMs nu = .ok (t', n, nu'))
    (h : Handle) (c : Coll) (hm : (h, c) ∈ t.catalog.namespaces) (hno : h ≠ oplogHandle)
    (sd : SDoc) (hsd : sd ∈ c.docs)
    (hnd : ∀ ni ∈ ttlIndexes c, ∀ l ∈ offered sd.doc (ttlField ni.2), ∀ ms, l ≠ .date ms) :
    ∃ c', t'.catalog.get? h = some c' ∧ sd ∈ c'.docs := by
  obtain ⟨c', hget, hdocs, _⟩ := (expire_spec sch t t' nowMs nu nu' n hready hr).1 (h, c) hm hno
  refine ⟨c', hget, ?_⟩
  rw [hdocs, List.mem_filter]
  refine ⟨hsd, ?_⟩
  have : expired c nowMs sd.doc = false := by
    unfold expired expiredBy
    rw [List.any_eq_false]
    intro ni hni
    rw [Bool.not_eq_true, List.any_eq_false]
    intro l hl
    have := hnd ni hni l hl
    cases l <;> simp_all [isExpiredDate]
  simp [this]

/-- newer dates survive as well: all offered dates at or after the cutoff -/
theorem newer_date_untouched (sch : SchemaEval) (t t' : Txn) (nowMs : Int) (nu nu' : Nu) (n : Nat)
    (hready : ExpireReady t.catalog) (hr : Txn.expire sch t nowMs nu = .ok (t', n, nu'))
    (h : Handle) (c : Coll) (hm : (h, c) ∈ t.catalog.namespaces) (hno : h ≠ oplogHandle)
    (sd : SDoc) (hsd : sd ∈ c.docs)
    (hnew : ∀ ni ∈ ttlIndexes c, ∀ l ∈ offered sd.doc (ttlField ni.2), ∀ ms, l = .date ms →
      nowMs - ni.2.config.expiry / 1000000 ≤ ms) :
    ∃ c', t'.catalog.get? h = some c' ∧ sd ∈ c'.docs := by
  obtain ⟨c', hget, hdocs, _⟩ := (expire_spec sch t t' nowMs nu nu' n hready hr).1 (h, c) hm hno
  refine ⟨c', hget, ?_⟩
  rw [hdocs, List.mem_filter]
  refine ⟨hsd, ?_⟩
  have : expired c nowMs sd.doc = false := by
    unfold expired expiredBy
    rw [List.any_eq_false]
    intro ni hni
    rw [Bool.not_eq_true, List.any_eq_false]
    intro l hl
    have := hnew ni hni l hl
    cases l with
    | date ms =>
      have h2 := this ms rfl
      have h3 : ¬ (ms < ttlCutoff ni.2 nowMs) := by unfold ttlCutoff; omega
      simp [isExpiredDate, h3]
    | _ => simp [isExpiredDate]
  simp [this]

/-- `no_ttl_untouched`: a collection without TTL index is returned as it was (documents, order, indexes). -/
theorem no_ttl_untouched (sch : SchemaEval) (t t' : Txn) (nowMs : Int) (nu nu' : Nu) (n : Nat)
    (hready : ExpireReady t.catalog) (hr : Txn.expire sch t nowMs nu = .ok (t', n, nu'))
    (h : Handle) (c : Coll) (hm : (h, c) ∈ t.catalog.namespaces) (hno : h ≠ oplogHandle)
    (httl : ∀ ni ∈ c.indexes, ni.2.config.expiry ≤ 0) :
    t'.catalog.get? h = some c := by
  obtain ⟨c', hget, _, hsame⟩ := (expire_spec sch t t' nowMs nu nu' n hready hr).1 (h, c) hm hno
  have : ttlIndexes c = [] := by
    unfold ttlIndexes
    rw [List.filter_eq_nil_iff]
    intro ni hni
    have := httl ni hni
    simp only [gt_iff_lt, decide_eq_true_eq]
    omega
  rw [hget, hsame this]

/-- `expire_logs_deletes`: the oplog gains exactly one `delete` event per removed document — per
    namespace in iteration order, within a namespace in natural order — with consecutive clock
    values; nothing else is appended; the reported count is the number of removed documents. -/
theorem expire_logs_deletes (sch : SchemaEval) (t t' : Txn) (nowMs : Int) (nu nu' : Nu) (n : Nat)
    (hready : ExpireReady t.catalog) (hr : Txn.expire sch t nowMs nu = .ok (t', n, nu')) :
    t'.catalog.oplog.map (·.doc)
      = t.catalog.oplog.map (·.doc) ++ evDocs t.catalog.clock
          (t.catalog.namespaces.flatMap fun hc =>
            (hc.2.docs.filter fun sd => expired hc.2 nowMs sd.doc).map fun sd => ⟨hc.1, "delete", some sd.doc, none⟩) ∧
    n = ((t.catalog.namespaces.map fun hc => (hc.2.docs.filter fun sd => expired hc.2 nowMs sd.doc).length).sum) := by
  obtain ⟨_, h2, h3, _⟩ := expire_spec sch t t' nowMs nu nu' n hready hr
  refine ⟨h2, ?_⟩
  rw [h3]
  simp only [expireSpecs, deleteSpecs, expiredDocs, List.length_flatMap, List.length_map]

theorem map_sum_zero {α} (l : List α) (f : α → Nat) (h : ∀ x ∈ l, f x = 0) : (l.map f).sum = 0 := by
  induction l with
  | nil => rfl
  | cons a r ih =>
    simp only [List.map_cons, List.sum_cons, h a (List.mem_cons_self ..), Nat.zero_add]
    exact ih fun x hx => h x (List.mem_cons_of_mem _ hx)

/-- `expire_noop_unchanged`: if no document of any namespace is expired, the pass returns the
    transaction itself — same catalog, dirty flag untouched — and reports 0. -/
theorem expire_noop_unchanged (sch : SchemaEval) (t t' : Txn) (nowMs : Int) (nu nu' : Nu) (n : Nat)
    (hready : ExpireReady t.catalog) (hr : Txn.expire sch t nowMs nu = .ok (t', n, nu'))
    (hnone : ∀ hc ∈ t.catalog.namespaces, ∀ sd ∈ hc.2.docs, expired hc.2 nowMs sd.doc = false) :
    t' = t ∧ n = 0 := by
  obtain ⟨_, _, h3, h4, _⟩ := expire_spec sch t t' nowMs nu nu' n hready hr
  have : n = 0 := by
    rw [h3]
    simp only [expireSpecs, deleteSpecs, expiredDocs, List.length_flatMap, List.length_map]
    apply map_sum_zero
    intro hc hm
    rw [List.length_eq_zero_iff, List.filter_eq_nil_iff]
    intro sd hsd
    simp [hnone hc hm sd hsd]
  exact ⟨h4 this, this⟩

/-- `ttl_single_field`: an index with an expiry is never created on a compound key. -/
theorem ttl_single_field (config : IndexConfig) (i : Index) (h : newIndex config = .ok i) (he : config.expiry > 0) :
    ∃ kv, config.key = [kv] := by
  unfold newIndex at h
  split at h
  · cases h
  · rename_i hne
    split at h
    · cases h
    · split at h
      · cases h
      · split at h
        · cases h
        · rename_i hlen
          simp only [he, decide_true, Bool.true_and, decide_eq_true_eq, Nat.not_lt] at hlen
          match hk : config.key with
          | [] => simp [hk] at hne
          | [kv] => exact ⟨kv, rfl⟩
          | _ :: _ :: _ => simp [hk] at hlen

/-! ### where `TTLFieldsPlain` comes from

  Since the repo fix "reject index keys on fields that start with a dollar sign" (mirrored in
  `newIndex`), an index can only be created on plain field names. `TTLFieldsPlain` is therefore
  established at the only two places where indexes come into existence (`newColl`, `Coll.createIndex`)
  and no other collection method touches `config`. It is KEPT as a hypothesis of `ExpireReady`
  because the catalog-wide invariant "every index was made by `newIndex`" is not part of the C07
  `Coherent` predicate (which speaks about entries only); the three lemmas below are what that
  invariant's proof needs. -/

theorem columns_paths : ∀ {key : Doc} {cols : List Column}, columns key = .ok cols → cols.map (·.path) = key.map (·.1)
  | [], cols, h => by simp only [columns, Except.ok.injEq] at h; subst h; rfl
  | (k, v) :: r, cols, h => by
    unfold columns at h
    simp only at h
    cases v <;> simp only at h
    all_goals repeat' split at h
    all_goals first
      | (simp only [Except.ok.injEq] at h; subst h
         simp only [List.map_cons, List.cons.injEq, true_and]
         exact columns_paths (by assumption))
      | cases h

/-- `newIndex` succeeds only on keys all of whose field names are plain (no `$` prefix) -/
theorem newIndex_key_plain (config : IndexConfig) (i : Index) (h : newIndex config = .ok i) :
    (∀ kv ∈ i.config.key, isOpKey kv.1 = false) ∧ isOpKey (ttlField i) = false := by
  have hall : ∀ kv ∈ i.config.key, isOpKey kv.1 = false := by
    unfold newIndex at h
    split at h
    · cases h
    · split at h
      · cases h
      · rename_i cols hc
        split at h
        · cases h
        · rename_i hany
          split at h
          · cases h
          · simp only [Except.ok.injEq] at h; subst h
            intro kv hkv
            have hp := columns_paths hc
            have : kv.1 ∈ cols.map (·.path) := by rw [hp]; exact List.mem_map_of_mem hkv
            simp only [List.mem_map] at this
            obtain ⟨col, hcol, hpath⟩ := this
            simp only [Bool.not_eq_true, List.any_eq_false] at hany
            rw [← hpath]
            simpa using hany col hcol
  refine ⟨hall, ?_⟩
  unfold ttlField
  split
  · rename_i k v r hk
    exact hall (k, v) (by rw [hk]; exact List.mem_cons_self ..)
  · simp [isOpKey]

theorem newColl_ttl_plain (b : Bool) : TTLFieldsPlain (newColl b) := by
  intro ni hni
  cases b <;> simp [ttlIndexes, newColl, idIndexConfig] at hni

/-- creating an index keeps the TTL fields plain: the new index went through `newIndex` -/
theorem createIndex_keeps_ttl_plain (sch : SchemaEval) (c c' : Coll) (name name' : String) (config : IndexConfig)
    (hp : TTLFieldsPlain c) (h : c.createIndex sch name config = .ok (c', name')) : TTLFieldsPlain c' := by
  obtain ⟨_, hcase⟩ := createIndex_spec h
  rcases hcase with ⟨rfl, _⟩ | ⟨index, index', hnew, hbuild, rfl, _, _⟩
  · exact hp
  · intro ni hni
    simp only [ttlIndexes, List.filter_append, List.mem_append, List.mem_filter] at hni
    rcases hni with hni | hni
    · exact hp ni (by simpa [ttlIndexes, List.mem_filter] using hni)
    · simp only [List.mem_cons, List.not_mem_nil, or_false] at hni
      obtain ⟨rfl, _⟩ := hni
      have hcfg := (build_shape hbuild).1
      have := (newIndex_key_plain config index hnew).2
      unfold ttlField at this ⊢
      simp only
      rw [hcfg]
      exact this

/-! ### non-vacuity (evaluated tests)

  collection `db.c` with TTL index on `at` (10 s = 10¹⁰ ns) beside the `_id_` index; now = 100 000 ms,
  cutoff = 90 000 ms. Documents: an old date (expired), a new date, a number below the cutoff, a
  string, no field, an array containing an old date (expired), an array of numbers. -/
private def hC : Handle := ⟨"db", "c"⟩
private def docs7 : List Doc :=
  [[("_id", .i32 1), ("at", .date 50000)], [("_id", .i32 2), ("at", .date 95000)],
   [("_id", .i32 3), ("at", .i64 1)], [("_id", .i32 4), ("at", .str "x")], [("_id", .i32 5)],
   [("_id", .i32 6), ("at", .arr [.i32 7, .date 10])], [("_id", .i32 7), ("at", .arr [.i32 7, .i32 8])]]
private def sys0 : Sys :=
  match Sys.step schemaUnmodelled Sys.init (.insertMany hC docs7 true) [] with
  | .ok (s, _) =>
    (match Sys.step schemaUnmodelled s (.createIndex hC "" { key := [("at", .i32 1)], expiry := 10000000000 }) [] with
     | .ok (s, _) => s
     | .error _ => s)
  | .error _ => Sys.init
private def tx0 : Txn := { catalog := sys0.catalog }
private def idsOf (t : Txn) : List V := ((t.catalog.get? hC).map fun c => c.docs.map fun sd => Get sd.doc "_id").getD []
#guard ((tx0.catalog.get? hC).map fun c => (ttlIndexes c).length) == some 1
#guard (idsOf tx0) == [.i32 1, .i32 2, .i32 3, .i32 4, .i32 5, .i32 6, .i32 7]
#guard (match tx0.expire schemaUnmodelled 100000 (sys0.nu []) with
  | .ok (t', n, _) => n == 2 && idsOf t' == [.i32 2, .i32 3, .i32 4, .i32 5, .i32 7] && t'.dirty
      && (t'.catalog.oplog.length == tx0.catalog.oplog.length + 2)
      && ((t'.catalog.oplog.drop 7).map fun sd => Get sd.doc "operationType") == [.str "delete", .str "delete"]
      && ((t'.catalog.oplog.drop 7).map fun sd => Get sd.doc "documentKey._id") == [.i32 1, .i32 6]
  | .error _ => false)
-- a pass before anything is old enough changes nothing
#guard (match tx0.expire schemaUnmodelled 10000 (sys0.nu []) with
  | .ok (t', n, _) => n == 0 && !t'.dirty && idsOf t' == idsOf tx0 && t'.catalog.clock == tx0.catalog.clock
  | .error _ => false)
-- the values offered for "at": scalar → itself; array → its elements and the array
#guard offered [("at", .date 5)] "at" == [.date 5]
#guard offered [("at", .arr [.i32 7, .date 10])] "at" == [.i32 7, .date 10, .arr [.i32 7, .date 10]]
#guard offered [("x", .i32 1)] "at" == [.missing]
-- compound TTL keys are rejected
#guard (newIndex { key := [("a", .i32 1), ("b", .i32 1)], expiry := 5 }) matches .error _
#guard (newIndex { key := [("a", .i32 1)], expiry := 5 }) matches .ok _
-- `$`-prefixed index fields are rejected (with or without expiry)
#guard (newIndex { key := [("$x", .i32 1)], expiry := 5 }) matches .error _
#guard (newIndex { key := [("a", .i32 1), ("$x", .i32 1)] }) matches .error _

end Lungo.C19
