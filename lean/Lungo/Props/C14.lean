/-
  Lungo.Props.C14 — "Projections return exactly the requested part, unchanged".

  Subject: `Lungo.Project` (Model/Project.lean), the model of `mongokit.Project`
  (validated against the Go code by the `project` stream).  All proofs are in
  Lungo/Proofs/ProjectLaws.lean; this file only states the property theorems.

  Reading guide.
  * `sch : SchemaEval` is the (unmodelled) `$jsonSchema` evaluator that query matching is
    parametric in; it only matters inside `$elemMatch` conditions.
  * A *flag* is a projection value `true/false` or a number of any numeric type equal to 1 / 0
    (`flagOf`).  `isOpKey k` is "k starts with `$`".
  * Dotted paths: `String.splitOn` does not reduce in the kernel, so a top-level path `p` is
    characterised by the hypothesis `splitPath p = [p]` (checked on concrete strings by the `#guard`
    tests at the end); likewise `isOpKey "$slice" = true` is taken as a hypothesis where needed.
  * "projecting never alters the stored document or later results": at the value level of the model
    `Project` is a function returning a NEW value, so this half of the property is trivially true of
    the model and says nothing about the Go code's aliasing.  It is checked on the real code by the
    `project` stream's stored-document monitor (document bytes before/after, and a second projection
    after mutating the first result).  What IS proved here about order-dependence is
    `project_deterministic_order`.
-/
import Lungo.Proofs.ProjectLaws
import Lungo.Proofs.ProjectPaths
namespace Lungo.C14
open Lungo

/-! ### 1. Mixing inclusion and exclusion -/

/-- The order of checks in `mongokit.Project`: (1) the projection document is processed entry by
    entry — an operator key at top level, an unknown operator, a malformed `$slice`/`$elemMatch`
    argument, a non-flag value or an error inside an `$elemMatch` query all fail here, first entry
    first; (2) the inclusion/exclusion mixing check; (3) the copy / unset / overlay phase
    (`projectFinish`), which can still fail in `Put` (e.g. `_id` missing, conflicting paths). -/
theorem project_check_order (sch : SchemaEval) (d proj : Doc) :
    Project sch d proj = match projProcess sch {} d proj with
      | .error e => .error e
      | .ok st => projectFinish d st :=
  Project_eq sch d proj

/-- A projection containing an inclusion flag and an exclusion flag on a path other than `_id` is an
    error, for every document: the mixing error itself if all entries are individually acceptable,
    else the error of the first unacceptable entry. -/
theorem mix_is_error (sch : SchemaEval) (d proj : Doc) (pi pe : String) (vi ve : V)
    (hi : (pi, vi) ∈ proj) (fi : flagOf vi = some true)
    (he : (pe, ve) ∈ proj) (fe : flagOf ve = some false) (hne : pe ≠ "_id") :
    (∀ st, projProcess sch {} d proj = .ok st → Project sch d proj = .error .err) ∧
    (∀ e, projProcess sch {} d proj = .error e → Project sch d proj = .error e) :=
  mix_error sch d proj pi pe vi ve hi fi he fe hne

/-- … in particular it never returns a document. -/
theorem mix_is_never_ok (sch : SchemaEval) (d proj : Doc) (pi pe : String) (vi ve : V)
    (hi : (pi, vi) ∈ proj) (fi : flagOf vi = some true)
    (he : (pe, ve) ∈ proj) (fe : flagOf ve = some false) (hne : pe ≠ "_id") :
    ∃ e, Project sch d proj = .error e := by
  obtain ⟨h1, h2⟩ := mix_is_error sch d proj pi pe vi ve hi fi he fe hne
  cases h : projProcess sch {} d proj with
  | error e => exact ⟨e, h2 e h⟩
  | ok st => exact ⟨.err, h1 st h⟩

/-- `$elemMatch` is inclusion-style: together with an exclusion flag on another path (not `_id`) it
    is the same error. -/
theorem mix_elemMatch_is_error (sch : SchemaEval) (d proj : Doc) (pi pe : String) (q ve : V)
    (hop : isOpKey "$elemMatch" = true)
    (hi : (pi, .doc [("$elemMatch", q)]) ∈ proj)
    (he : (pe, ve) ∈ proj) (fe : flagOf ve = some false) (hne : pe ≠ "_id") :
    (∀ st, projProcess sch {} d proj = .ok st → Project sch d proj = .error .err) ∧
    (∀ e, projProcess sch {} d proj = .error e → Project sch d proj = .error e) :=
  mix_elemMatch_error sch d proj pi pe q ve hop hi he fe hne

/-- For a flag-only projection in which every exclusion flag sits on `_id`, processing succeeds with
    NO exclusion registered, so the mixing check does not fire; `_id: 0` only sets `hideID`.
    (What the result then is: `inclusion_result_toplevel`.) -/
theorem id_exclusion_is_not_mixing (sch : SchemaEval) (d proj : Doc)
    (hk : ∀ kv ∈ proj, isOpKey kv.1 = false ∧ (flagOf kv.2).isSome = true)
    (hex : ∀ kv ∈ proj, flagOf kv.2 = some false → kv.1 = "_id") :
    ∃ st, projProcess sch {} d proj = .ok st ∧ st.excludes = [] ∧
      st.includes = ((flagsOf proj).filter (·.2)).map (·.1) ∧
      st.hideID = (flagsOf proj).any (fun pb => !pb.2 && pb.1 == "_id") := by
  refine ⟨_, projProcess_flags sch d proj hk {}, ?_, ?_, ?_⟩
  · obtain ⟨_, h2, _⟩ := flagsState_fields (flagsOf proj) {}
    rw [h2]
    simp only [List.nil_append, List.map_eq_nil_iff, List.filter_eq_nil_iff]
    intro pb hpb
    obtain ⟨kv, hkv, rfl⟩ := List.mem_map.mp hpb
    cases hf : flagOf kv.2 with
    | none => have := (hk kv hkv).2; simp [hf] at this
    | some b =>
      cases b
      · simp [hex kv hkv hf]
      · simp
  · obtain ⟨h1, _⟩ := flagsState_fields (flagsOf proj) {}
    simpa using h1
  · obtain ⟨_, _, h3, _⟩ := flagsState_fields (flagsOf proj) {}
    simpa using h3

/-! ### 2. `$slice` -/

/-- `$slice: k` (any numeric `k`, converted like Go's `int(k)` by `sliceInt`) on an array `a`
    registers exactly MongoDB's window: the first `min k n` elements for `k > 0`, the last
    `min (-k) n` for `k < 0`, none for `k = 0` (`countWindow`), for ALL integers `k`. -/
theorem slice_window_count (s : PState) (d : Doc) (path : String) (v : V) (k : Int) (a : List V)
    (hk : sliceInt v = some k) (ha : Get d path = .arr a) :
    projectSlice s d path v =
      .ok (s.overlay path (.arr ((a.drop (countWindow a.length k).1).take (countWindow a.length k).2))) ∧
    (countWindow a.length k).1 + (countWindow a.length k).2 ≤ a.length :=
  ⟨projectSlice_count s d path v k a hk ha, count_bounds a.length k⟩

/-- The closed formulas of the count form, case by case. -/
theorem slice_count_formulas (n : Nat) (k : Int) :
    (0 < k → countWindow n k = (0, min k.toNat n)) ∧
    (k < 0 → countWindow n k = (n - min (-k).toNat n, min (-k).toNat n)) ∧
    (k = 0 → countWindow n k = (0, 0)) := by
  refine ⟨fun h => ?_, fun h => ?_, fun h => ?_⟩
  · simp [countWindow, h]
  · have : ¬ k > 0 := by omega
    simp [countWindow, h, this]
  · subst h; simp [countWindow]

/-- `$slice: [skip, limit]` with `limit ≥ 0` registers `limit` elements (clamped to what is left)
    starting at `skip` from the front, or `-skip` from the end for negative `skip` (clamped to the
    array), for ALL integers `skip` and `limit ≥ 0`. -/
theorem slice_window_pair (s : PState) (d : Doc) (path : String) (va vb : V) (sk l : Int) (a : List V)
    (hs : sliceInt va = some sk) (hl : sliceInt vb = some l) (hl0 : 0 ≤ l) (ha : Get d path = .arr a) :
    projectSlice s d path (.arr [va, vb]) =
      .ok (s.overlay path (.arr ((a.drop (pairStart a.length sk)).take (pairLen a.length sk l)))) ∧
    pairStart a.length sk + pairLen a.length sk l ≤ a.length :=
  ⟨projectSlice_pair s d path va vb sk l a hs hl hl0 ha, pair_bounds a.length sk l⟩

/-- The closed formulas of the pair form. -/
theorem slice_pair_formulas (n : Nat) (s l : Int) :
    (0 ≤ s → pairStart n s = min s.toNat n) ∧
    (s < 0 → pairStart n s = n - min (-s).toNat n) ∧
    pairLen n s l = min l.toNat (n - pairStart n s) := by
  refine ⟨fun h => ?_, fun h => ?_, rfl⟩
  · have : ¬ s < 0 := by omega
    simp [pairStart, this]
  · simp only [pairStart, h, ↓reduceIte]; omega

/-- A negative limit in the pair form is rejected. -/
theorem slice_pair_negative_limit (s : PState) (d : Doc) (path : String) (va vb : V) (sk l : Int)
    (hs : sliceInt va = some sk) (hl : sliceInt vb = some l) (hl0 : l < 0) :
    projectSlice s d path (.arr [va, vb]) = .error .err := by
  simp [projectSlice, hs, hl, hl0]

/-- Both windows are contiguous parts of the array: `a = before ++ window ++ after` with
    `before.length = start`; hence sublists, and element `i` of the window is element `start + i`
    of the array. -/
theorem slice_is_contiguous_sublist (a : List V) (w : Nat × Nat) :
    a = a.take w.1 ++ (a.drop w.1).take w.2 ++ (a.drop w.1).drop w.2 ∧
    ((a.drop w.1).take w.2).Sublist a ∧
    (∀ i, i < w.2 → ((a.drop w.1).take w.2)[i]? = a[w.1 + i]?) ∧
    (w.1 + w.2 ≤ a.length → ((a.drop w.1).take w.2).length = w.2) :=
  ⟨window_contiguous a w, window_sublist a w, fun i h => window_getElem? a w i h,
   fun h => window_length a w h⟩

/-- `$slice` leaves non-arrays alone (no overlay is registered). -/
theorem slice_nonarray (s : PState) (d : Doc) (path : String) (v : V) (k : Int)
    (hk : sliceInt v = some k) (ha : ∀ a, Get d path ≠ .arr a) : projectSlice s d path v = .ok s :=
  projectSlice_nonarray_count s d path v k hk ha

/-- The integer arguments are int64s (doubles are truncated / saturated by `sliceInt`), and on
    int64 arguments and array lengths none of the intermediate values of the Go arithmetic leaves
    the int64 range — including `skip, k = MinInt64` and `limit = MaxInt64`, where the Go code used
    to overflow.  So the model's `Int` arithmetic is the machine arithmetic. -/
theorem slice_no_overflow (n skip limit k : Int) (hn : 0 ≤ n ∧ n ≤ i64Max)
    (hs : i64Min ≤ skip ∧ skip ≤ i64Max) (hl : 0 ≤ limit ∧ limit ≤ i64Max)
    (hk : i64Min ≤ k ∧ k ≤ i64Max) :
    (let start : Int :=
        if skip < 0 then (if n + skip < 0 then 0 else n + skip) else (if skip > n then n else skip)
     (skip < 0 → i64Min ≤ n + skip ∧ n + skip ≤ i64Max) ∧
     (0 ≤ start ∧ start ≤ n) ∧ (0 ≤ n - start ∧ n - start ≤ i64Max) ∧
     (limit < n - start → 0 ≤ start + limit ∧ start + limit ≤ n)) ∧
    ((i64Min ≤ -n ∧ -n ≤ i64Max) ∧ (k < 0 → k > -n → 0 ≤ n + k ∧ n + k ≤ n)) :=
  ⟨slice_pair_no_overflow n skip limit hn hs hl, slice_count_no_overflow n k hn hk⟩

theorem slice_argument_is_int64 (v : V) (k : Int) (hw : v.wf = true) (hk : sliceInt v = some k) :
    i64Min ≤ k ∧ k ≤ i64Max :=
  sliceInt_range v k hw hk

/-- End to end: the projection `{p: {$slice: k}}` of a document whose top-level field `p` is the
    array `a` is the document with that field replaced in place by the window, everything else as
    stored. -/
theorem slice_project_toplevel (sch : SchemaEval) (d : Doc) (p : String) (v : V) (k : Int) (a : List V)
    (hop : isOpKey "$slice" = true) (hp : isOpKey p = false) (hs : splitPath p = [p]) (hne : p ≠ "")
    (hk : sliceInt v = some k) (ha : Get d p = .arr a) :
    Project sch d [(p, .doc [("$slice", v)])] =
      .ok (upsert d p (.arr ((a.drop (countWindow a.length k).1).take (countWindow a.length k).2))) :=
  project_slice_count_toplevel sch d p v k a hop hp hs hne hk ha

/-! ### 3. `$elemMatch` -/

/-- `elemMatches sch q x` is the verdict of a projection `$elemMatch` on one element: the element
    must be ELIGIBLE — a query consisting of field conditions only (no `$` key) applies to embedded
    documents only, every other element is skipped without evaluating the query — and the query
    must accept the virtual document `{item: x}`. -/
theorem elemMatch_eligibility (sch : SchemaEval) (query : Doc) (x : V) :
    (elemEligible query x = !((query.all fun (k, _) => !isOpKey k) && !x.isDoc)) ∧
    (elemMatches sch query x = .ok () ↔
      elemEligible query x = true ∧ mProcess sch [("item", x)] query "item" false = .ok ()) ∧
    (elemMatches sch query x = .error .notMatched ↔
      elemEligible query x = false ∨
        mProcess sch [("item", x)] query "item" false = .error .notMatched) :=
  ⟨rfl, elemMatches_ok_iff sch query x, elemMatches_notMatched_iff sch query x⟩

/-- The element picked by `$elemMatch` is the FIRST element that is eligible and on which the query
    matches: it matches, and every element before it is ineligible or rejected
    (`elemMatches … = .error .notMatched`, see `elemMatch_eligibility`). -/
theorem elemMatch_first (sch : SchemaEval) (query : Doc) (arr : List V) (x : V) :
    firstElemMatch sch query arr = .ok (some x) ↔
      ∃ pre post, arr = pre ++ x :: post ∧
        (∀ y ∈ pre, elemMatches sch query y = .error .notMatched) ∧
        elemMatches sch query x = .ok () :=
  firstElemMatch_some

/-- Nothing is picked iff every element is ineligible or rejected. -/
theorem elemMatch_none (sch : SchemaEval) (query : Doc) (arr : List V) :
    firstElemMatch sch query arr = .ok none ↔
      ∀ y ∈ arr, elemMatches sch query y = .error .notMatched :=
  firstElemMatch_none

/-- A query error on an ELIGIBLE element aborts — unless an earlier element already matched;
    ineligible elements are never evaluated, so they cannot raise an error. -/
theorem elemMatch_error (sch : SchemaEval) (query : Doc) (arr : List V) (e : Err) :
    firstElemMatch sch query arr = .error e ↔
      ∃ pre x post, arr = pre ++ x :: post ∧
        (∀ y ∈ pre, elemMatches sch query y = .error .notMatched) ∧
        elemMatches sch query x = .error e ∧ e ≠ .notMatched :=
  firstElemMatch_error

/-- What `projectElemMatch` registers: the path is included but never copied from the document
    (`elemMatchMark`); the overlay is `[x]` for the first matching element `x`; absent if none
    matches or the value is not an array; a non-document argument is an error. -/
theorem elemMatch_overlay (sch : SchemaEval) (s : PState) (d : Doc) (path : String) (query : Doc) :
    (∀ a x, Get d path = .arr a → firstElemMatch sch query a = .ok (some x) →
      projectElemMatch sch s d path (.doc query) =
        .ok ((s.elemMatchMark path).overlay path (.arr [x]))) ∧
    (∀ a, Get d path = .arr a → firstElemMatch sch query a = .ok none →
      projectElemMatch sch s d path (.doc query) = .ok (s.elemMatchMark path)) ∧
    ((∀ a, Get d path ≠ .arr a) →
      projectElemMatch sch s d path (.doc query) = .ok (s.elemMatchMark path)) ∧
    (∀ v, (∀ q, v ≠ .doc q) → projectElemMatch sch s d path v = .error .err) :=
  ⟨fun a x ha hx => projectElemMatch_found sch s d path query a x ha hx,
   fun a ha hx => projectElemMatch_notfound sch s d path query a ha hx,
   fun ha => projectElemMatch_nonarray sch s d path query ha,
   fun v hv => projectElemMatch_nondoc sch s d path v hv⟩

/-- End to end: `{p: {$elemMatch: q}}` returns `_id` and, if some element of the top-level array
    `p` matches, `p: [first matching element]`; nothing else. -/
theorem elemMatch_project_toplevel (sch : SchemaEval) (d : Doc) (p : String) (q : Doc) (a : List V)
    (hop : isOpKey "$elemMatch" = true) (hp : isOpKey p = false) (hs : splitPath p = [p])
    (hne : p ≠ "") (hpid : p ≠ "_id") (hid : (Get d "_id").isMissing = false)
    (ha : Get d p = .arr a) :
    (∀ x, firstElemMatch sch q a = .ok (some x) →
      Project sch d [(p, .doc [("$elemMatch", .doc q)])] =
        .ok [("_id", Get d "_id"), (p, .arr [x])]) ∧
    (firstElemMatch sch q a = .ok none →
      Project sch d [(p, .doc [("$elemMatch", .doc q)])] = .ok [("_id", Get d "_id")]) ∧
    (∀ e, firstElemMatch sch q a = .error e →
      Project sch d [(p, .doc [("$elemMatch", .doc q)])] = .error e) :=
  project_elemMatch_toplevel sch d p q a hop hp hs hne hpid hid ha

/-! ### 4. Exclusion -/

/-- An exclusion-only projection (every value a 0/false flag) returns the document with the
    excluded paths (other than `_id`) unset one after the other in projection order, and `_id`
    unset last if `_id: 0` is present.  (`Unset` follows dotted paths through embedded documents —
    and, outside the property's domain, array indexes — and is a no-op on absent paths.) -/
theorem exclusion_result (sch : SchemaEval) (d proj : Doc)
    (hk : ∀ kv ∈ proj, isOpKey kv.1 = false ∧ flagOf kv.2 = some false) :
    Project sch d proj = .ok
      (let r := ((proj.map (·.1)).filter (· != "_id")).foldl
          (fun acc p => (Unset acc (splitPath p)).1) d
       if proj.any (·.1 == "_id") then (Unset r ["_id"]).1 else r) :=
  exclusion_project sch d proj hk

/-- Unsetting a top-level field removes the first field of that name and nothing else. -/
theorem unset_toplevel (d : Doc) (k : String) (hk : k ≠ "") :
    (Unset d [k]).1 = d.eraseP (·.1 == k) :=
  Unset_single d k hk

/-- Top-level exclusion on a document with distinct field names: exactly the fields not named in
    the projection remain — in stored order, with stored values (`_id: 0` included). -/
theorem exclusion_toplevel (sch : SchemaEval) (d proj : Doc)
    (hk : ∀ kv ∈ proj, isOpKey kv.1 = false ∧ flagOf kv.2 = some false)
    (hs : ∀ kv ∈ proj, splitPath kv.1 = [kv.1] ∧ kv.1 ≠ "")
    (nd : (d.map (·.1)).Nodup) :
    Project sch d proj = .ok (d.filter fun kv => !(proj.map (·.1)).contains kv.1) :=
  Lungo.exclusion_toplevel sch d proj hk hs nd

/-- … so every field of the result is a field of the stored document, unchanged. -/
theorem exclusion_toplevel_values (sch : SchemaEval) (d proj res : Doc)
    (hk : ∀ kv ∈ proj, isOpKey kv.1 = false ∧ flagOf kv.2 = some false)
    (hs : ∀ kv ∈ proj, splitPath kv.1 = [kv.1] ∧ kv.1 ≠ "")
    (nd : (d.map (·.1)).Nodup) (h : Project sch d proj = .ok res) :
    res.Sublist d ∧ ∀ kv ∈ d, (kv ∈ res ↔ kv.1 ∉ proj.map (·.1)) := by
  rw [exclusion_toplevel sch d proj hk hs nd] at h
  cases h
  refine ⟨List.filter_sublist, fun kv hkv => ?_⟩
  simp [List.mem_filter, hkv]

/-! ### 5. Inclusion -/

/-- Top-level inclusion (flags only, `_id: 0` allowed) on a document that has an `_id`:
    the result is `_id` first, then — in projection order — each included field that is present in
    the document, with the value stored at it (`Get d k`).  Exact behaviour in the corner cases:
    a name listed twice is emitted once, at its first position (`newKeys`); `_id: 1` listed
    explicitly changes nothing (`_id` stays first); included names absent from the document are
    skipped; `_id: 0` removes `_id` from the finished result. -/
theorem inclusion_result_toplevel (sch : SchemaEval) (d proj : Doc)
    (hk : ∀ kv ∈ proj, isOpKey kv.1 = false ∧ (flagOf kv.2).isSome = true)
    (hex : ∀ kv ∈ proj, flagOf kv.2 = some false → kv.1 = "_id")
    (hinc : ((flagsOf proj).filter (·.2)).map (·.1) ≠ [])
    (hs : ∀ kv ∈ proj, splitPath kv.1 = [kv.1] ∧ kv.1 ≠ "")
    (hid : (Get d "_id").isMissing = false) :
    Project sch d proj = .ok
      (let incs := ((flagsOf proj).filter (·.2)).map (·.1)
       let present := incs.filter fun p => !(Get d p).isMissing
       let full := ("_id" :: newKeys ["_id"] present).map fun k => (k, Get d k)
       if (flagsOf proj).any (fun pb => !pb.2 && pb.1 == "_id") then full.tail else full) :=
  inclusion_toplevel sch d proj hk hex hinc hs hid

/-- `newKeys seen ps` is `ps` without repetitions and without the names in `seen`, in order of
    first occurrence; it is `ps` itself when `ps` has no repetitions and avoids `seen`. -/
theorem newKeys_is_dedup (seen ps : List String) :
    (newKeys seen ps).Nodup ∧ (∀ p ∈ newKeys seen ps, p ∈ ps ∧ p ∉ seen) ∧
    (∀ p ∈ ps, p ∈ seen ∨ p ∈ newKeys seen ps) ∧
    (ps.Nodup → (∀ p ∈ ps, p ∉ seen) → newKeys seen ps = ps) :=
  ⟨(newKeys_spec ps seen).1, (newKeys_spec ps seen).2.1, (newKeys_spec ps seen).2.2,
   fun nd h => newKeys_fresh ps seen nd h⟩

/-- The stored value at a top-level path is the value of the first field of that name. -/
theorem stored_value_toplevel (d : Doc) (k : String) (hs : splitPath k = [k]) (hk : k ≠ "") :
    Get d k = (d.find? k).getD .missing :=
  Get_top d k hs hk

/-- Top-level flag-only inclusion, field by field: each field `(k, v)` of the result has
    `v = Get d k`, `v` is present, no name occurs twice, and every name is `_id` or an included name. -/
theorem inclusion_toplevel_values (sch : SchemaEval) (d proj res : Doc)
    (hk : ∀ kv ∈ proj, isOpKey kv.1 = false ∧ (flagOf kv.2).isSome = true)
    (hex : ∀ kv ∈ proj, flagOf kv.2 = some false → kv.1 = "_id")
    (hinc : ((flagsOf proj).filter (·.2)).map (·.1) ≠ [])
    (hs : ∀ kv ∈ proj, splitPath kv.1 = [kv.1] ∧ kv.1 ≠ "")
    (hid : (Get d "_id").isMissing = false) (h : Project sch d proj = .ok res) :
    (∀ kv ∈ res, kv.2 = Get d kv.1 ∧ kv.2.isMissing = false ∧
      (kv.1 = "_id" ∨ kv.1 ∈ ((flagsOf proj).filter (·.2)).map (·.1))) ∧
    (res.map (·.1)).Nodup := by
  rw [inclusion_result_toplevel sch d proj hk hex hinc hs hid] at h
  simp only [Except.ok.injEq] at h
  obtain ⟨nd, hmem, _⟩ := newKeys_spec
    ((((flagsOf proj).filter (·.2)).map (·.1)).filter fun p => !(Get d p).isMissing) ["_id"]
  have hfull : ∀ kv ∈ (("_id" :: newKeys ["_id"]
      ((((flagsOf proj).filter (·.2)).map (·.1)).filter fun p => !(Get d p).isMissing)).map
        fun k => (k, Get d k)),
      kv.2 = Get d kv.1 ∧ kv.2.isMissing = false ∧
      (kv.1 = "_id" ∨ kv.1 ∈ ((flagsOf proj).filter (·.2)).map (·.1)) := by
    intro kv hkv
    obtain ⟨k, hk', rfl⟩ := List.mem_map.mp hkv
    rcases List.mem_cons.mp hk' with rfl | hk''
    · exact ⟨rfl, hid, Or.inl rfl⟩
    · have := List.mem_filter.mp (hmem k hk'').1
      exact ⟨rfl, by simpa using this.2, Or.inr this.1⟩
  have hnd : ((("_id" :: newKeys ["_id"]
      ((((flagsOf proj).filter (·.2)).map (·.1)).filter fun p => !(Get d p).isMissing)).map
        fun k => (k, Get d k)).map (·.1)).Nodup := by
    rw [List.map_map]
    have : ((fun kv : String × V => kv.1) ∘ fun k => (k, Get d k)) = id := rfl
    rw [this, List.map_id]
    exact List.nodup_cons.mpr ⟨fun hm => (hmem _ hm).2 (by simp), nd⟩
  subst h
  split
  · exact ⟨fun kv hkv => hfull kv (List.mem_of_mem_tail hkv),
      hnd.sublist ((List.tail_sublist _).map _)⟩
  · exact ⟨hfull, hnd⟩

/-- "Every value present in a projected result equals the stored value at that path" — inclusion
    mode, dotted paths.  For a flag-only inclusion projection (`_id: 0` allowed) all of whose paths
    descend through embedded documents only in `d` (no empty segment, no array met before the end:
    `noArrayBefore`), a successful result `res` is a projection of `d`: reading ANY path (without
    empty segments) in `res` gives nothing, or a value that is a projection (`SubV`) of the value
    stored at the same path in `d` — and if it is not a document, exactly the stored value.
    (`splitPath "_id" = ["_id"]` and `splitPath p ≠ []` are facts about `String.splitOn`, which does
    not reduce in the kernel; see the tests.)

    Not covered by a theorem (covered by the `project` stream only): results that also carry
    `$slice`/`$elemMatch` overlays BELOW or ABOVE an included path (for a single operator entry see
    `slice_project_toplevel`, `elemMatch_project_toplevel`), inclusion paths that fan out over
    arrays of sub-documents (outside the property's domain), and the value-equality reading of
    EXCLUSION on dotted paths (`exclusion_result` gives the result as iterated `Unset`;
    `exclusion_toplevel_values` is the top-level statement).  For exclusion the path-wise law needs
    field names to be unique inside every embedded document: unsetting `a` in `{a: 1, a: 2}` exposes
    the shadowed `a: 2` (Go and model agree), so `getP res ["a"] ≠ getP d ["a"]` there. -/
theorem inclusion_values_are_stored (sch : SchemaEval) (d proj res : Doc)
    (hk : ∀ kv ∈ proj, isOpKey kv.1 = false ∧ (flagOf kv.2).isSome = true)
    (hex : ∀ kv ∈ proj, flagOf kv.2 = some false → kv.1 = "_id")
    (hinc : ((flagsOf proj).filter (·.2)).map (·.1) ≠ [])
    (hdom : ∀ kv ∈ proj, "" ∉ splitPath kv.1 ∧ splitPath kv.1 ≠ [] ∧
      noArrayBefore (.doc d) (splitPath kv.1))
    (hidp : splitPath "_id" = ["_id"])
    (h : Project sch d proj = .ok res) :
    SubV (.doc res) (.doc d) ∧
    ∀ path, "" ∉ path → (getP res path).isMissing = false →
      SubV (getP res path) (getP d path) ∧ ((getP res path).isDoc = false → getP res path = getP d path) := by
  have hsub := inclusion_sub sch d proj res hk hex hinc hdom hidp h
  refine ⟨hsub, fun path hne hm => ?_⟩
  have := SubV.get path hsub hne
  simp only [getP] at hm ⊢
  rcases this with h0 | h1
  · rw [h0] at hm; simp [V.isMissing] at hm
  · exact ⟨h1, fun hd => h1.eq_of_not_doc hd⟩

/-- What "projection of" means, unfolded one level: equal, or both documents and every visible
    field of the smaller one is a projection of the field of the same name of the larger one. -/
theorem subdocument_unfold (x y : V) :
    SubV x y ↔ x = y ∨ ∃ fs gs, x = .doc fs ∧ y = .doc gs ∧
      (∀ k v, Doc.find? fs k = some v → (Doc.find? gs k).isSome = true) ∧
      (∀ k v w, Doc.find? fs k = some v → Doc.find? gs k = some w → SubV v w) := by
  constructor
  · intro h
    cases h with
    | refl => exact Or.inl rfl
    | doc fs gs hdom hsub => exact Or.inr ⟨fs, gs, rfl, rfl, hdom, hsub⟩
  · rintro (rfl | ⟨fs, gs, rfl, rfl, hdom, hsub⟩)
    · exact SubV.refl _
    · exact SubV.doc fs gs hdom hsub

/-- The Access lemma behind it ("get after put"): writing the value stored at `q` in `y` into a
    projection of `y` at `q` yields a projection of `y`. -/
theorem put_stored_value_keeps_projection (q : Path) (x y x' prev : V) (hx : x = .missing ∨ SubV x y)
    (hne : "" ∉ q) (hna : noArrayBefore y q) (hv : ((get y q false false).1).isMissing = false)
    (h : put x q (get y q false false).1 false = .ok (x', prev)) : SubV x' y :=
  put_preserves_sub q x y x' prev hx hne hna hv h

/-! ### 6. Determinism of overlays -/

/-- Overlays (`$slice` / `$elemMatch` values) are kept in registration order: registering a path
    again keeps its FIRST position and takes the LAST value, other entries are untouched — and
    `Project` writes them into the result one after the other in that order (`putAll` is a
    left-to-right fold, see `project_check_order` / `projectFinish`).  So the result does not depend
    on Go's map iteration order. -/
theorem project_deterministic_order (m : List (String × V)) (p : String) (v : V) :
    ((mergeSet m p v).map (·.1) =
      if (m.map (·.1)).contains p then m.map (·.1) else m.map (·.1) ++ [p]) ∧
    (∀ x, (p, x) ∈ mergeSet m p v → x = v) ∧
    (∀ q x, q ≠ p → ((q, x) ∈ mergeSet m p v ↔ (q, x) ∈ m)) ∧
    (∀ res a b, putAll res (a ++ b) = match putAll res a with
      | .error e => .error e
      | .ok r => putAll r b) :=
  ⟨mergeSet_keys m p v, fun x h => mergeSet_same m p v x h, fun q x hq => mergeSet_other m p v q x hq,
   fun res a b => putAll_append res a b⟩

/-! ### Tests (evaluated; strings do not reduce in the kernel, so these are `#guard`s, not proofs).
    They show the hypotheses of the theorems above are met by concrete non-trivial instances and
    that the stated results are the computed ones. -/

section tests
def sch0 : SchemaEval := schemaUnmodelled

def isOk (r : Res Doc) (d : Doc) : Bool := match r with | .ok x => x == d | _ => false
def isErr (r : Res Doc) : Bool := match r with | .error .err => true | _ => false

def nums : List V := [.i32 1, .i32 2, .i32 3, .i32 4, .i32 5]

def doc1 : Doc :=
  [("_id", .i32 7), ("a", .arr nums), ("b", .str "x"),
   ("c", .doc [("d", .i32 1), ("e", .i32 2)]), ("f", .arr [.doc [("g", .i32 1)], .doc [("g", .i32 5)]])]

-- string facts used as hypotheses
#guard isOpKey "$slice" && isOpKey "$elemMatch" && !isOpKey "a" && !isOpKey "_id"
#guard splitPath "a" == ["a"] && splitPath "_id" == ["_id"] && splitPath "c.d" == ["c", "d"]
-- flags: numbers of every numeric type and booleans
#guard flagOf (.i32 1) == some true && flagOf (.f64 0x3FF0000000000000) == some true &&
       flagOf (.i64 0) == some false && flagOf (.bool false) == some false &&
       flagOf (.i32 2) == none && flagOf (.str "1") == none
-- 1. mixing
#guard isErr (Project sch0 doc1 [("a", .i32 1), ("b", .i32 0)])
#guard isErr (Project sch0 doc1 [("b", .bool false), ("a", .f64 0x3FF0000000000000)])
#guard isOk (Project sch0 doc1 [("_id", .i32 0), ("b", .i32 1)]) [("b", .str "x")]
#guard isErr (Project sch0 doc1 [("a", .doc [("$elemMatch", .doc [("$gt", .i32 2)])]), ("b", .i32 0)])
-- 2. $slice: counts, pairs, extremes
#guard countWindow 5 2 == (0, 2) && countWindow 5 (-2) == (3, 2) && countWindow 5 0 == (0, 0)
#guard countWindow 5 i64Max == (0, 5) && countWindow 5 i64Min == (0, 5) && countWindow 5 (-7) == (0, 5)
#guard (pairStart 5 1, pairLen 5 1 2) == (1, 2) && (pairStart 5 (-2), pairLen 5 (-2) 9) == (3, 2)
#guard (pairStart 5 i64Min, pairLen 5 i64Min i64Max) == (0, 5) && (pairStart 5 i64Max, pairLen 5 i64Max 1) == (5, 0)
#guard isOk (Project sch0 doc1 [("a", .doc [("$slice", .i32 (-2))])])
        (upsert doc1 "a" (.arr [.i32 4, .i32 5]))
#guard isOk (Project sch0 doc1 [("a", .doc [("$slice", .arr [.i64 i64Min, .i64 i64Max])])])
        (upsert doc1 "a" (.arr nums))
#guard isOk (Project sch0 doc1 [("a", .doc [("$slice", .arr [.i32 1, .i32 2])]), ("b", .i32 1)])
        [("_id", .i32 7), ("b", .str "x"), ("a", .arr [.i32 2, .i32 3])]
#guard isErr (Project sch0 doc1 [("a", .doc [("$slice", .arr [.i32 1, .i32 (-1)])])])
-- 3. $elemMatch: first match, no match
#guard isOk (Project sch0 doc1 [("a", .doc [("$elemMatch", .doc [("$gt", .i32 2)])])])
        [("_id", .i32 7), ("a", .arr [.i32 3])]
#guard isOk (Project sch0 doc1 [("f", .doc [("$elemMatch", .doc [("g", .i32 5)])])])
        [("_id", .i32 7), ("f", .arr [.doc [("g", .i32 5)]])]
#guard isOk (Project sch0 doc1 [("a", .doc [("$elemMatch", .doc [("$gt", .i32 9)])])]) [("_id", .i32 7)]
-- a field-only query skips non-document elements (here: a scalar before the matching document)
#guard isOk (Project sch0 [("_id", .i32 1), ("f", .arr [.i32 5, .doc [("g", .i32 5)]])]
          [("f", .doc [("$elemMatch", .doc [("g", .i32 5)])])])
        [("_id", .i32 1), ("f", .arr [.doc [("g", .i32 5)]])]
#guard !elemEligible [("g", .i32 5)] (.i32 5) && elemEligible [("g", .i32 5)] (.doc []) &&
       elemEligible [("$gt", .i32 2)] (.i32 5)
-- 4. exclusion
#guard isOk (Project sch0 doc1 [("a", .i32 0), ("f", .bool false)])
        [("_id", .i32 7), ("b", .str "x"), ("c", .doc [("d", .i32 1), ("e", .i32 2)])]
#guard isOk (Project sch0 doc1 [("c.d", .i32 0), ("_id", .i32 0), ("a", .i32 0), ("f", .i32 0)])
        [("b", .str "x"), ("c", .doc [("e", .i32 2)])]
#guard (doc1.map (·.1)).Nodup
-- 5. inclusion: order, duplicates, explicit _id, absent names, dotted paths
#guard isOk (Project sch0 doc1 [("b", .i32 1), ("zz", .i32 1), ("a", .bool true), ("b", .i32 1), ("_id", .i32 1)])
        [("_id", .i32 7), ("b", .str "x"), ("a", .arr nums)]
#guard newKeys ["_id"] ["b", "a", "b", "_id"] == ["b", "a"]
#guard isOk (Project sch0 doc1 [("c.e", .i32 1)]) [("_id", .i32 7), ("c", .doc [("e", .i32 2)])]
#guard isOk (Project sch0 doc1 [("c.e", .i32 1), ("c.d", .i32 1), ("_id", .i32 0)]) [("c", .doc [("e", .i32 2), ("d", .i32 1)])]
#guard (splitPath "c.e" != []) && !(splitPath "c.e").contains ""
-- duplicate field names: unsetting exposes the shadowed field (why the exclusion law needs unique names)
#guard isOk (Project sch0 [("_id", .i32 1), ("a", .i32 1), ("a", .i32 2)] [("a", .i32 0)]) [("_id", .i32 1), ("a", .i32 2)]
-- _id missing from the stored document: inclusion fails (Put of Missing)
#guard isErr (Project sch0 [("a", .i32 1)] [("a", .i32 1)])
end tests

end Lungo.C14
