/-
  Lungo.Props.C13 — "Sort, skip, limit and distinct".

  This file holds the LIST-LEVEL part of the property: what `bsonkit.Sort` / `mongokit.Sort`
  (model: `sortDocs`, `order`, `sortKey`, `columns`) and `mongokit.Distinct` (model: `Distinct`,
  `collect`, `dedupSorted`) do to a list of documents.  The find/skip/limit window theorems over the
  collection model are added in their own section below the list level.

  All proofs are in Lungo/Proofs/SortLaws.lean; the order laws come from C12 (`V.cmp` is a lawful
  total preorder on values whose int64 payloads are in range, `V.i64Ok`).  Accordingly the theorems
  that need transitivity carry the hypothesis `∀ d ∈ list, (V.doc d).i64Ok = true` (implied by
  `V.wf`; every Go document satisfies it).

  Modelling notes (trusted, see Model/Sort.lean): Go's `sort.SliceStable` is modelled by core's
  `List.mergeSort`; the theorems below pin its result down uniquely (`sort_unique`), so any stable
  sorting routine yields the same list.  `sort.Slice` inside `Collect` (unstable) is modelled by the
  same function; its output is only used modulo `cmp = .eq`.
-/
import Lungo.Proofs.SortLaws
import Lungo.Proofs.FindLaws
import Lungo.Props.C12
namespace Lungo.C13
open Lungo Lungo.Ord

/-! # ===== list level (begin) ===== -/

/-! ### The comparison `order` (bsonkit.Order) is a total preorder -/

/-- Every document ties with itself. -/
theorem order_refl (cols : List Column) (a : Doc) : order a a cols = .eq := Lungo.order_refl cols a

/-- Swapping the documents flips the result (totality: one of `a ≤ b`, `b ≤ a` always holds). -/
theorem order_swap (cols : List Column) (a b : Doc) : order b a cols = (order a b cols).swap :=
  Lungo.order_swap cols a b

/-- `≤` is transitive on documents with in-range int64 payloads. -/
theorem order_trans (cols : List Column) (a b d : Doc)
    (oa : (V.doc a).i64Ok = true) (ob : (V.doc b).i64Ok = true) (od : (V.doc d).i64Ok = true) :
    order a b cols ≠ .gt → order b d cols ≠ .gt → order a d cols ≠ .gt :=
  Lungo.order_trans cols a b d oa ob od

/-- Tied documents are interchangeable in every comparison. -/
theorem order_congr (cols : List Column) (a a' b : Doc)
    (oa : (V.doc a).i64Ok = true) (oa' : (V.doc a').i64Ok = true) (ob : (V.doc b).i64Ok = true) :
    order a a' cols = .eq → order a b cols = order a' b cols :=
  Lungo.order_congr cols a a' b oa oa' ob

/-- The specification's per-field rule: compare the columns lexicographically; each column compares
    the sort keys in BSON order, reversed for a descending column. -/
theorem order_lexicographic (l r : Doc) (col : Column) (cols : List Column) :
    order l r (col :: cols) =
      ((if col.reverse then (V.cmp (sortKey (Get l col.path) col.reverse)
                                   (sortKey (Get r col.path) col.reverse)).swap
        else V.cmp (sortKey (Get l col.path) col.reverse) (sortKey (Get r col.path) col.reverse)).then
        (order l r cols)) :=
  Lungo.order_cons l r col cols

/-- One ascending column is the BSON order of the ascending sort keys … -/
theorem order_ascending (l r : Doc) (p : String) :
    order l r [⟨p, false⟩] = V.cmp (sortKey (Get l p) false) (sortKey (Get r p) false) :=
  order_single_asc l r p

/-- … and one descending column is the reversed BSON order of the descending sort keys. -/
theorem order_reverse (l r : Doc) (p : String) :
    order l r [⟨p, true⟩] = (V.cmp (sortKey (Get l p) true) (sortKey (Get r p) true)).swap :=
  order_single_desc l r p

/-! ### Sort keys: arrays by smallest element ascending, largest descending; missing as null -/

/-- Ascending: the key of a non-empty array is one of its elements and no element is smaller. -/
theorem sortKey_spec_ascending (x : V) (rest : List V) (ok : (V.arr (x :: rest)).i64Ok = true) :
    sortKey (.arr (x :: rest)) false ∈ x :: rest ∧
      ∀ y ∈ x :: rest, V.cmp (sortKey (.arr (x :: rest)) false) y ≠ .gt :=
  sortKey_asc_spec x rest (by simpa [V.i64Ok] using ok)

/-- Descending: the key of a non-empty array is one of its elements and no element is larger. -/
theorem sortKey_spec_descending (x : V) (rest : List V) (ok : (V.arr (x :: rest)).i64Ok = true) :
    sortKey (.arr (x :: rest)) true ∈ x :: rest ∧
      ∀ y ∈ x :: rest, V.cmp y (sortKey (.arr (x :: rest)) true) ≠ .gt :=
  sortKey_desc_spec x rest (by simpa [V.i64Ok] using ok)

/-- Non-arrays (including Missing) and the empty array are their own key, in both directions. -/
theorem sortKey_spec_other (v : V) (r : Bool) (h : v.isArr = false ∨ v = .arr []) : sortKey v r = v := by
  rcases h with h | rfl
  · exact sortKey_nonarr v r h
  · rfl

/-- Missing and null compare equal, and Missing behaves like null against every value. -/
theorem missing_is_null (x : V) :
    V.cmp .missing .null = .eq ∧ V.cmp .missing x = V.cmp .null x ∧ V.cmp x .missing = V.cmp x .null :=
  ⟨V.cmp_missing_null, V.cmp_missing_left x, V.cmp_missing_right x⟩

/-- A document lacking sort fields sorts exactly like the document holding `null` at them:
    if `l'` agrees with `l` on every sort path except that missing ones read `null`,
    the two are indistinguishable for `order` (left argument; the right one follows by `order_swap`). -/
theorem order_missing_as_null (l l' r : Doc) (cols : List Column)
    (h : ∀ c ∈ cols, Get l' c.path = nullify (Get l c.path)) : order l r cols = order l' r cols :=
  Lungo.order_missing_as_null l l' r cols h

/-! ### Sort: a permutation, non-decreasing, stable — and uniquely determined by that -/

/-- The sorted list has exactly the input documents (as a multiset). -/
theorem sort_perm (list : List Doc) (cols : List Column) : (sortDocs list cols).Perm list :=
  sortDocs_perm list cols

/-- No earlier result is greater than a later one (all pairs, hence consecutive ones). -/
theorem sort_nondecreasing (list : List Doc) (cols : List Column)
    (ok : ∀ d ∈ list, (V.doc d).i64Ok = true) :
    (sortDocs list cols).Pairwise (fun a b => order a b cols ≠ .gt) :=
  sortDocs_pairwise list cols ok

/-- The same by positions. -/
theorem sort_nondecreasing_index (list : List Doc) (cols : List Column)
    (ok : ∀ d ∈ list, (V.doc d).i64Ok = true) (i j : Nat) (hij : i < j)
    (hj : j < (sortDocs list cols).length) :
    order ((sortDocs list cols)[i]'(Nat.lt_trans hij hj)) ((sortDocs list cols)[j]) cols ≠ .gt :=
  List.pairwise_iff_getElem.mp (sort_nondecreasing list cols ok) i j (Nat.lt_trans hij hj) hj hij

/-- Consecutive results never decrease. -/
theorem sort_consecutive (list : List Doc) (cols : List Column)
    (ok : ∀ d ∈ list, (V.doc d).i64Ok = true) (i : Nat) (hi : i + 1 < (sortDocs list cols).length) :
    order ((sortDocs list cols)[i]'(Nat.lt_of_succ_lt hi)) ((sortDocs list cols)[i + 1]) cols ≠ .gt :=
  sort_nondecreasing_index list cols ok i (i + 1) (Nat.lt_succ_self i) hi

/-- Stability, pairwise: if `a` precedes `b` in the input and `a` is not greater than `b`
    (in particular if they tie), `a` precedes `b` in the result. -/
theorem sort_stable (list : List Doc) (cols : List Column) (ok : ∀ d ∈ list, (V.doc d).i64Ok = true)
    (a b : Doc) (hab : order a b cols ≠ .gt) (h : [a, b].Sublist list) :
    [a, b].Sublist (sortDocs list cols) :=
  sortDocs_sublist list cols ok (List.pairwise_pair.mpr hab) h

/-- Ties are kept in insertion order: the documents tied with `a` occur in the result exactly as in
    the input (same documents, same multiplicity, same relative order). -/
theorem ties_in_insertion_order (list : List Doc) (cols : List Column)
    (ok : ∀ d ∈ list, (V.doc d).i64Ok = true) (a : Doc) (oa : (V.doc a).i64Ok = true) :
    (sortDocs list cols).filter (fun b => order a b cols == .eq) =
      list.filter (fun b => order a b cols == .eq) :=
  sortDocs_ties list cols ok a oa

/-- Every non-decreasing sublist of the input survives as a sublist of the output. -/
theorem sort_keeps_sorted_sublists (list : List Doc) (cols : List Column)
    (ok : ∀ d ∈ list, (V.doc d).i64Ok = true) (ys : List Doc)
    (hp : ys.Pairwise (fun a b => order a b cols ≠ .gt)) (hs : ys.Sublist list) :
    ys.Sublist (sortDocs list cols) :=
  sortDocs_sublist list cols ok hp hs

/-- The three facts above determine the result: ANY list that is a permutation of the input,
    non-decreasing, and keeps every tie class in input order is `sortDocs list cols`.  Hence the
    choice of core's `List.mergeSort` as the model of Go's `sort.SliceStable` is immaterial. -/
theorem sort_unique (list : List Doc) (cols : List Column) (ok : ∀ d ∈ list, (V.doc d).i64Ok = true)
    (l' : List Doc) (hp : l'.Perm list) (hs : l'.Pairwise (fun a b => order a b cols ≠ .gt))
    (ht : ∀ a ∈ list, l'.filter (fun b => order a b cols == .eq) =
      list.filter (fun b => order a b cols == .eq)) :
    l' = sortDocs list cols :=
  sortDocs_unique list cols ok l' hp hs ht

/-- `mongokit.Sort`: a valid specification sorts by its columns; an invalid one is an error and
    nothing else happens. -/
theorem sortBySpec_spec (list : List Doc) (spec : Doc) :
    (∀ cols, columns spec = .ok cols → sortBySpec list spec = .ok (sortDocs list cols)) ∧
    (∀ e, columns spec = .error e → sortBySpec list spec = .error e) := by
  constructor <;> intro x h <;> simp [sortBySpec, h]

/-- A specification of int32 directions ±1 yields one column per entry, `-1` descending. -/
theorem columns_int32 (spec : List (String × Int)) (h : ∀ kv ∈ spec, kv.2 = 1 ∨ kv.2 = -1) :
    columns (spec.map fun kv => (kv.1, V.i32 kv.2)) =
      .ok (spec.map fun kv => { path := kv.1, reverse := kv.2 == -1 }) := by
  induction spec with
  | nil => rfl
  | cons kv r ih =>
    have h1 := h kv (by simp)
    have ih' := ih (fun kv hkv => h kv (by simp [hkv]))
    simp only [List.map_cons, columns, ih']
    rcases h1 with e | e <;> simp [e]

/-! ### Distinct: each occurring value exactly once, ascending -/

/-- The result is strictly ascending in BSON order — so no two results are `cmp`-equal
    ("exactly once") and adjacent results increase. -/
theorem distinct_ascending (list : List Doc) (path : String)
    (ok : ∀ d ∈ list, (V.doc d).i64Ok = true) :
    (Distinct list path).Pairwise (fun a b => V.cmp a b = .lt) :=
  Distinct_strict list path ok

/-- Every result is one of the collected values (the value at the path, array elements
    individually, in the given documents). -/
theorem distinct_sound (list : List Doc) (path : String) :
    ∀ v ∈ Distinct list path, v ∈ collected list path :=
  Distinct_sound list path

/-- Every collected value is represented: some result compares equal to it. -/
theorem distinct_complete (list : List Doc) (path : String) :
    ∀ v ∈ collected list path, ∃ w ∈ Distinct list path, V.cmp v w = .eq :=
  Distinct_complete list path

/-- What is collected.  For a path (without empty segments) that meets no array strictly inside
    the documents, each document contributes: nothing if the path is missing, the elements if the
    value is an array, else the value itself — in document order.

    `collect_elements_partial`: the full statement would also describe paths that fan out over
    arrays of sub-documents (`All` with merge); there `collected` is defined by the model function
    `All` (validated against bsonkit.All by the `distinct` stream) and no independent
    characterisation is proved.  Missing: a closed form of `get _ _ (collect := true) (compact := true)`
    across arrays (`getCollect`). -/
theorem collect_elements_partial (list : List Doc) (path : String) (hne : "" ∉ splitPath path)
    (h : ∀ d ∈ list, noArrayBefore (.doc d) (splitPath path)) :
    collected list path = list.flatMap (fun d => plainContribution (Get d path)) :=
  collected_noArray list path hne h

/-- `Distinct` is `Collect` with compact, merge, flatten, distinct; its pre-deduplication list is
    `Collect` without `distinct`. -/
theorem distinct_is_collect (list : List Doc) (path : String) :
    Distinct list path = dedupSorted ((collect list path true true true false).mergeSort cmpLe) := by
  rw [collect_nodistinct]; exact Distinct_eq list path

/-! ### Tests (evaluated; strings do not reduce in the kernel, so these are `#guard`s, not proofs) -/

section tests
/-- documents: ids 1..6 with a field `a` (numbers of mixed type, an array, null, missing) and `b` -/
def docs : List Doc :=
  [ [("_id", .i32 1), ("a", .i32 3), ("b", .str "x")],
    [("_id", .i32 2), ("a", .arr [.i32 5, .i32 1]), ("b", .str "y")],
    [("_id", .i32 3), ("b", .str "x")],
    [("_id", .i32 4), ("a", .null), ("b", .str "y")],
    [("_id", .i32 5), ("a", .f64 0x4008000000000000), ("b", .str "x")],   -- 3.0
    [("_id", .i32 6), ("a", .i64 2), ("b", .str "x")] ]

def ids (l : List Doc) : List V := l.map (Get · "_id")

-- hypotheses of the theorems hold on the sample
#guard docs.all fun d => (V.doc d).i64Ok
-- ascending by a: missing/null first (tie 3,4 in insertion order), array by its minimum 1, then 2, then 3 = 3.0 (tie 1,5)
#guard ids (sortDocs docs [⟨"a", false⟩]) == [.i32 3, .i32 4, .i32 2, .i32 6, .i32 1, .i32 5]
-- descending by a: array by its maximum 5 first, ties 1,5 and 3,4 still in insertion order
#guard ids (sortDocs docs [⟨"a", true⟩]) == [.i32 2, .i32 1, .i32 5, .i32 6, .i32 3, .i32 4]
-- two columns: b ascending then a descending
#guard ids (sortDocs docs [⟨"b", false⟩, ⟨"a", true⟩]) == [.i32 1, .i32 5, .i32 6, .i32 3, .i32 2, .i32 4]
-- sort keys
#guard sortKey (.arr [.i32 5, .i32 1, .i32 3]) false == .i32 1
#guard sortKey (.arr [.i32 5, .i32 1, .i32 3]) true == .i32 5
#guard sortKey (.arr []) true == .arr [] && sortKey .missing false == .missing
-- the specification parser
#guard (match columns [("b", .i32 1), ("a", .f64 0xBFF0000000000000)] with
        | .ok cs => cs == [⟨"b", false⟩, ⟨"a", true⟩] | _ => false)
#guard (match columns [("b", .i32 2)] with | .error _ => true | _ => false)
-- distinct: 3 and 3.0 once, array elements individually, missing skipped, null kept, ascending
#guard Distinct docs "a" == [.null, .i32 1, .i64 2, .i32 3, .i32 5]
#guard collected docs "a" == [.i32 3, .i32 5, .i32 1, .null, .f64 0x4008000000000000, .i64 2]
#guard docs.flatMap (fun d => plainContribution (Get d "a")) == collected docs "a"
#guard splitPath "a" == ["a"]
end tests

/-! ### Non-vacuity of the hypotheses (kernel-checked where no string operation is involved) -/

example : (V.arr [.i32 5, .i64 1, .f64 0x4008000000000000]).i64Ok = true := by decide
example : ∃ a b : V, V.cmp a b = .lt := ⟨.i32 1, .i32 2, by decide +kernel⟩

/-! # ===== list level (end) ===== -/

/-! # ===== collection level (begin) =====

  `selectDocs sch c q sort skip limit` is the common prefix of mongokit.Collection.Find / Update /
  Replace / Delete: sort the stored documents (stable), scan them with the filter until
  `limit + skip` matches are found (`filterDocs`, limit 0 = no limit), drop `skip`.
  `Coll.find` is `selectDocs`; `runCall … (.find/.count/.distinct …)` are the driver calls.

  Vocabulary (Proofs/FindLaws.lean): `matchesB sch q sd` — `Match` returns true on the stored
  document; `noMatchError sch q l` — `Match` raises an error on no document of `l`;
  `sortBy sort docs` — `docs` itself for no / an empty sort document, the stable sort by the columns
  of the sort document otherwise (an invalid sort document is an error);
  `windowOf skip limit l` — `l` after dropping `skip`, cut to `limit` elements if `limit > 0`.
-/

/-- `windowOf` is the specification's `take' limit (drop skip ·)`. -/
theorem window_def {α} (skip limit : Int) (l : List α) :
    windowOf skip limit l =
      if limit > 0 then (l.drop skip.toNat).take limit.toNat else l.drop skip.toNat := rfl

/-- `sortBy`, case by case. -/
theorem sortBy_cases (docs : List SDoc) :
    sortBy none docs = .ok docs ∧
    (∀ s, s.isEmpty = true → sortBy (some s) docs = .ok docs) ∧
    (∀ s cols, s.isEmpty = false → columns s = .ok cols →
      sortBy (some s) docs = .ok (sortSDocs docs cols)) ∧
    (∀ s e, s.isEmpty = false → columns s = .error e → sortBy (some s) docs = .error e) := by
  refine ⟨rfl, fun s h => by simp [sortBy, h], fun s cols h hc => by simp [sortBy, h, hc],
    fun s e h hc => by simp [sortBy, h, hc]⟩

/-- The stable sort of stored documents is the list-level sort of their documents (identities
    ride along), and satisfies the list-level laws: permutation, non-decreasing, ties in
    insertion order. -/
theorem sortSDocs_is_sortDocs (list : List SDoc) (cols : List Column)
    (ok : ∀ sd ∈ list, (V.doc sd.doc).i64Ok = true) :
    (sortSDocs list cols).map (·.doc) = sortDocs (list.map (·.doc)) cols ∧
    (sortSDocs list cols).Perm list ∧
    (sortSDocs list cols).Pairwise (fun a b => order a.doc b.doc cols ≠ .gt) ∧
    (∀ a ∈ list, (sortSDocs list cols).filter (fun b => order a.doc b.doc cols == .eq) =
      list.filter (fun b => order a.doc b.doc cols == .eq)) :=
  ⟨sortSDocs_map_doc list cols, stableSort_perm list,
   stableSort_pairwise (sorder_preorder cols) list ok,
   fun a ha => stableSort_ties (sorder_preorder cols) list ok a (ok a ha)⟩

/-- Filtering commutes with the stable sort (for ANY predicate): sorting the matching documents
    gives the matching documents of the sorted list, in the same order. -/
theorem filter_sort_comm (docs : List SDoc) (cols : List Column)
    (ok : ∀ sd ∈ docs, (V.doc sd.doc).i64Ok = true) (p : SDoc → Bool) :
    (sortSDocs docs cols).filter p = sortSDocs (docs.filter p) cols :=
  filter_sortSDocs docs cols ok p

/-- … also through the sort-document parser. -/
theorem filter_sortBy_comm (sort : Option Doc) (docs L : List SDoc)
    (ok : ∀ sd ∈ docs, (V.doc sd.doc).i64Ok = true) (p : SDoc → Bool)
    (h : sortBy sort docs = .ok L) : sortBy sort (docs.filter p) = .ok (L.filter p) :=
  sortBy_filter sort docs L ok p h

/-- A negative skip is an error (the Go code would re-slice with it). -/
theorem negative_skip_rejected (sch : SchemaEval) (c : Coll) (q : Doc) (sort : Option Doc)
    (skip limit : Int) (h : skip < 0) : selectDocs sch c q sort skip limit = .error .err := by
  simp [selectDocs, h]

/-- **find_window.**  If `Match` raises an error on no stored document, a successful find returns
    exactly the window `take' limit (drop skip ·)` of the stably sorted list of the matching
    documents. -/
theorem find_window (sch : SchemaEval) (c : Coll) (q : Doc) (sort : Option Doc) (skip limit : Int)
    (ok : ∀ sd ∈ c.docs, (V.doc sd.doc).i64Ok = true) (hne : noMatchError sch q c.docs)
    (l : List SDoc) (h : selectDocs sch c q sort skip limit = .ok l) :
    0 ≤ skip ∧ ∃ S, sortBy sort (c.docs.filter (matchesB sch q)) = .ok S ∧ l = windowOf skip limit S :=
  selectDocs_window sch c q sort skip limit ok hne l h

/-- … and conversely the find succeeds whenever the skip is non-negative and the sort document is
    valid; the same window, written over the sorted list of ALL documents. -/
theorem find_window_total (sch : SchemaEval) (c : Coll) (q : Doc) (sort : Option Doc)
    (skip limit : Int) (hs : 0 ≤ skip) (L : List SDoc) (hL : sortBy sort c.docs = .ok L)
    (hne : noMatchError sch q c.docs) :
    selectDocs sch c q sort skip limit = .ok (windowOf skip limit (L.filter (matchesB sch q))) :=
  selectDocs_noerr sch c q sort skip limit hs L hL
    (noMatchError_perm sch q (sortBy_perm sort c.docs L hL) hne)

/-- An invalid sort document fails the find before anything is scanned. -/
theorem find_bad_sort (sch : SchemaEval) (c : Coll) (q : Doc) (sort : Option Doc) (skip limit : Int)
    (hs : 0 ≤ skip) (e : Err) (hL : sortBy sort c.docs = .error e) :
    selectDocs sch c q sort skip limit = .error e := by
  have : ¬ skip < 0 := by omega
  rw [selectDocs_eq, sortedList_eq, hL]; simp [this]

/-- **When `Match` does raise errors.**  Let `L` be the sorted list, `ms` the matching documents
    among those that precede the first erroring document of `L`, and `n = limit + skip` for
    `limit > 0` (else "no limit").  The scan stops at the `n`-th match, so:
    if `limit > 0` and `ms` has at least `limit + skip` elements the find SUCCEEDS with the window of
    `ms` (the error is never reached); otherwise the error of the first erroring document of `L`
    (in sorted order, not insertion order) is returned; with no erroring document, the window. -/
theorem find_with_match_errors (sch : SchemaEval) (c : Coll) (q : Doc) (sort : Option Doc)
    (skip limit : Int) (hs : 0 ≤ skip) (L : List SDoc) (hL : sortBy sort c.docs = .ok L) :
    let ms := (L.takeWhile fun sd => (matchErr sch q sd).isNone).filter (matchesB sch q)
    selectDocs sch c q sort skip limit =
      if scanLimit skip limit ≠ 0 ∧ scanLimit skip limit ≤ ms.length then .ok (windowOf skip limit ms)
      else match L.findSome? (matchErr sch q) with
        | none => .ok (windowOf skip limit ms)
        | some e => .error e := by
  have := selectDocs_scan sch c q sort skip limit hs L hL
  rw [scan_eq] at this
  exact this

/-- the scan limit: `limit + skip` matches are needed for a positive limit, else all -/
theorem scanLimit_def (skip limit : Int) :
    scanLimit skip limit = if limit > 0 then (limit + skip).toNat else 0 := rfl

/-- A limit of zero (or a negative one) returns everything from `skip` on. -/
theorem limit_zero_is_all {α} (skip limit : Int) (hl : limit ≤ 0) (l : List α) :
    windowOf skip limit l = l.drop skip.toNat := by
  have : ¬ limit > 0 := by omega
  simp [windowOf, this]

/-- `find` of the driver without projection replies with the documents of the window. -/
theorem find_api (sch : SchemaEval) (t0 : Txn) (nu : Nu) (h : Handle) (c : Coll) (q : Doc)
    (o : FindOpts) (hp : o.proj = none) (hv : h.validate true = .ok ())
    (hg : t0.catalog.get? h = some c) :
    runCall sch t0 nu (.find h q o) =
      match selectDocs sch c q o.sort o.skip o.limit with
      | .error e => .error e
      | .ok l => .ok (t0, nu, .docs (l.map (·.doc))) :=
  runCall_find sch t0 nu h c q o hp hv hg

/-- `CountDocuments` replies with the length of the (unsorted) window; the transaction and ν are
    unchanged. -/
theorem count_is_window_length (sch : SchemaEval) (t0 : Txn) (nu : Nu) (h : Handle) (c : Coll)
    (q : Doc) (skip limit : Int) (hv : h.validate true = .ok ()) (hg : t0.catalog.get? h = some c)
    (hs : 0 ≤ skip) (hne : noMatchError sch q c.docs) :
    runCall sch t0 nu (.count h q skip limit) =
      .ok (t0, nu, .num (windowOf skip limit (c.docs.filter (matchesB sch q))).length) := by
  rw [runCall_count sch t0 nu h c q skip limit hv hg,
    find_window_total sch c q none skip limit hs c.docs rfl hne]

/-- `Distinct` of the driver is `mongokit.Distinct` over the matching documents in insertion order
    (no sort, no window). -/
theorem distinct_api (sch : SchemaEval) (t0 : Txn) (nu : Nu) (h : Handle) (c : Coll) (q : Doc)
    (field : String) (hv : h.validate true = .ok ()) (hg : t0.catalog.get? h = some c)
    (hne : noMatchError sch q c.docs) :
    runCall sch t0 nu (.distinct h field q) =
      .ok (t0, nu, .vals (Distinct ((c.docs.filter (matchesB sch q)).map (·.doc)) field)) := by
  rw [runCall_distinct sch t0 nu h c q field hv hg,
    find_window_total sch c q none 0 0 (by omega) c.docs rfl hne, windowOf_zero_zero]

/-- **one_doc_write_targets_head.**  `selectDocs … 0 1` — the selection made by Replace, by Update
    with limit 1 and by Delete with limit 1 — returns the head of the full sorted list of matching
    documents (what `selectDocs … 0 0` returns), or nothing if that list is empty. -/
theorem one_doc_write_targets_head (sch : SchemaEval) (c : Coll) (q : Doc) (sort : Option Doc)
    (L : List SDoc) (hL : sortBy sort c.docs = .ok L) (hne : noMatchError sch q c.docs) :
    selectDocs sch c q sort 0 0 = .ok (L.filter (matchesB sch q)) ∧
    selectDocs sch c q sort 0 1 = .ok ((L.filter (matchesB sch q)).take 1) := by
  constructor
  · rw [find_window_total sch c q sort 0 0 (by omega) L hL hne, windowOf_zero_zero]
  · rw [find_window_total sch c q sort 0 1 (by omega) L hL hne, windowOf_zero_one]

/-- The documents a write reports as matched are exactly its selection: `Delete` returns it,
    `Update` records it in `matched`, `Replace` records the (at most one) selected document. -/
theorem write_targets_selection :
    (∀ (sch : SchemaEval) (c c' : Coll) (q : Doc) (sort : Option Doc) (skip limit : Int)
        (list : List SDoc), Coll.delete sch c q sort skip limit = .ok (c', list) →
        selectDocs sch c q sort skip limit = .ok list) ∧
    (∀ (ac : ACtx) (c : Coll) (q u : Doc) (sort : Option Doc) (skip limit : Int) (fs : List Doc)
        (nu nu' : Nu) (r : CResult), Coll.update ac c q u sort skip limit fs nu = .ok (r, nu') →
        selectDocs ac.sch c q sort skip limit = .ok r.matched) ∧
    (∀ (sch : SchemaEval) (c : Coll) (q repl : Doc) (sort : Option Doc) (nu nu' : Nu) (r : CResult),
        Coll.replace sch c q repl sort nu = .ok (r, nu') →
        ∃ l, selectDocs sch c q sort 0 1 = .ok l ∧ r.matched = l.take 1) :=
  ⟨fun sch c c' q sort skip limit list h => delete_matched sch c c' q sort skip limit list h,
   fun ac c q u sort skip limit fs nu nu' r h => update_matched ac c q u sort skip limit fs nu nu' r h,
   fun sch c q repl sort nu nu' r h => replace_matched sch c q repl sort nu nu' r h⟩

/-! ### Tests (evaluated) -/

section colltests
def sds : List SDoc := docs.zipIdx.map fun (d, i) => { id := i, doc := d }
def coll0 : Coll := { docs := sds, indexes := [] }
def sidsOf (r : Res (List SDoc)) : Option (List V) :=
  match r with | .ok l => some (l.map fun sd => Get sd.doc "_id") | .error _ => none

-- b = "x": ids 1,3,5,6; sorted by a descending: 1 (3), 5 (3.0), 6 (2), 3 (missing)
#guard sidsOf (selectDocs schemaUnmodelled coll0 [("b", .str "x")] (some [("a", .i32 (-1))]) 0 0) ==
  some [.i32 1, .i32 5, .i32 6, .i32 3]
#guard sidsOf (selectDocs schemaUnmodelled coll0 [("b", .str "x")] (some [("a", .i32 (-1))]) 1 2) ==
  some [.i32 5, .i32 6]
#guard sidsOf (selectDocs schemaUnmodelled coll0 [("b", .str "x")] (some [("a", .i32 (-1))]) 0 1) ==
  some [.i32 1]
#guard sidsOf (selectDocs schemaUnmodelled coll0 [("b", .str "x")] none 3 0) == some [.i32 6]
#guard sidsOf (selectDocs schemaUnmodelled coll0 [("b", .str "x")] none 9 5) == some []
#guard sidsOf (selectDocs schemaUnmodelled coll0 [] none (-1) 0) == none
#guard sidsOf (selectDocs schemaUnmodelled coll0 [] (some [("a", .i32 2)]) 0 0) == none
-- a filter that raises an error only on some documents: {$or: [{k: 1}, {e: 1, z: {$bad: 1}}]}
def errDocs : List SDoc :=
  [ ⟨0, [("_id", .i32 1), ("k", .i32 1)]⟩, ⟨1, [("_id", .i32 2), ("k", .i32 1)]⟩,
    ⟨2, [("_id", .i32 3), ("e", .i32 1)]⟩, ⟨3, [("_id", .i32 4), ("k", .i32 1)]⟩ ]
def errQ : Doc := [("$or", .arr [.doc [("k", .i32 1)], .doc [("e", .i32 1), ("z", .doc [("$bad", .i32 1)])]])]
def collE : Coll := { docs := errDocs, indexes := [] }
#guard errDocs.map (fun sd => (matchErr schemaUnmodelled errQ sd).isSome) == [false, false, true, false]
-- the limit cuts the scan before the erroring third document …
#guard sidsOf (selectDocs schemaUnmodelled collE errQ none 0 2) == some [.i32 1, .i32 2]
#guard sidsOf (selectDocs schemaUnmodelled collE errQ none 1 1) == some [.i32 2]
-- … but not here: limit + skip = 3 matches are needed, or no limit at all
#guard sidsOf (selectDocs schemaUnmodelled collE errQ none 0 3) == none
#guard sidsOf (selectDocs schemaUnmodelled collE errQ none 1 2) == none
#guard sidsOf (selectDocs schemaUnmodelled collE errQ none 0 0) == none
-- sorted descending by _id the erroring document is met after ONE match
#guard sidsOf (selectDocs schemaUnmodelled collE errQ (some [("_id", .i32 (-1))]) 0 1) == some [.i32 4]
#guard sidsOf (selectDocs schemaUnmodelled collE errQ (some [("_id", .i32 (-1))]) 0 2) == none
end colltests

/-! # ===== collection level (end) ===== -/

end Lungo.C13
