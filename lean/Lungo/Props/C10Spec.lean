/-
  Property C10, agreement part — "matching returns the truth value defined by MongoDB's query
  semantics" on the core domain (DESIGN §8.2): the matcher model `Match` (validated against
  mongokit.Match by stream `match`) agrees with the reference semantics `Spec.matches`
  (lean/Lungo/Spec/Query.lean, validated against the real code by stream `specmatch`).

  Reading guide.
  * `PathDom d path`  = the document has no arrays in arrays (and no `missing` values) and the
    path has non-empty segments whose index reading is the canonical-numeral reading.
  * `fans (.doc d) p` = the path fans out over an array (All's `nested` flag: `All_nested_eq_fans`).
  * `toRes b`         = `.ok ()` if `b` else `.error .notMatched`.
  * every operator theorem says: lungo's operator = the §8.3 predicate over `Spec.leafs`/`Spec.cand`.

  KNOWN DEVIATION of lungo from §8.3 INSIDE the core domain (observed on the real code by stream
  `specmatch`, witnesses in its corpus, recorded as a known finding): D3 `$size` below two
  fan-outs. Therefore the full statement

      -- theorem match_agrees_core : core d q = true → Match sch d q = Spec.matches sch d q

  is FALSE for the current code, and what is proved is `match_agrees_core_partial` on
  `coreProved` = `core` minus exactly D3 (`Spec.coreC` with `ex = true`); the operator theorem
  concerned is named `_partial` and carries the excluding hypothesis explicitly.
  (History — deviations found here and since FIXED IN THE CODE, now inside the proved domain:
  D1 `$type` null on absent fields, D2 `$exists` over fan-outs reaching only empty arrays,
  D4 `$elemMatch` field form on non-document elements, D5 `$all` over a fan-out with array-valued
  candidates, D6 Decimal128 `$exists` arguments (lungo took every Decimal128, also zero, as truthy;
  now ±0 of any exponent is falsy, NaN/Inf truthy: `existsArg_truthy` holds for every value),
  D7 `$all` with array-valued members (`{a: {$all: [[1,2], 1]}}` on `a: [1,2]`). D5 and D7
  disappeared together when `matchAll` was rewritten as the conjunction of the `$eq` conditions
  of the members — law `all_is_conj_eq` in Props/C10.lean — so `$all` needs exactly the
  restriction of `$eq` on each member.)
-/
import Lungo.Proofs.SpecAgreeRec
import Lungo.Proofs.MatchTotal
import Lungo.Props.C10
namespace Lungo.C10
open Lungo Lungo.Spec

/-! ### the leaf lemma (values offered to an operator = leaves) -/

/-- (a) no fan-out: for EVERY test `pr`, testing lungo's offered values = testing the leaves -/
theorem offered_eq_leafs_noFanOut (d : Doc) (path : String) (pr : V → Bool) (hd : PathDom d path)
    (hf : fans (.doc d) (splitPath path) = false) :
    unwindAny d path true false pr = (leafs d (splitPath path)).any pr :=
  leaf_noFan d path pr hd.nna hd.segs hf

/-- (b) fan-out: the same for tests that are false on `missing` and on arrays -/
theorem offered_eq_leafs_fanOut (d : Doc) (path : String) (pr : V → Bool) (hd : PathDom d path)
    (hf : fans (.doc d) (splitPath path) = true) (hm : pr .missing = false) (ha : ∀ xs, pr (.arr xs) = false) :
    unwindAny d path true false pr = (leafs d (splitPath path)).any pr :=
  leaf_fan d path pr hd.nna hd.segs hf hm ha

/-- All's `nested` flag is the reference semantics' "the path fans out" -/
theorem nested_is_fanOut (d : Doc) (path : String) (hd : PathDom d path) :
    (All d (splitPath path) true true).2 = fans (.doc d) (splitPath path) :=
  All_nested_eq_fans d _ hd.nna hd.segs

/-! ### operator by operator -/

/-- `$eq v`: some leaf of the class of `v` compares equal (fan-out: non-null scalar `v`) -/
theorem eq_agrees (sch : SchemaEval) (d : Doc) (path : String) (v : V) (hd : PathDom d path)
    (hv : fans (.doc d) (splitPath path) = true → scalarOperand v = true) :
    mOp sch d "$eq" path v = toRes (holdsC (.doc d) (splitPath path) (.cmp .eq v)) := by
  rw [mOp_leaf sch d "$eq" path v _ rfl, holdsC]; exact matchComp_agrees hd .eq v hv

/-- the literal form `{path: v}` -/
theorem literal_agrees (d : Doc) (path : String) (v : V) (hd : PathDom d path)
    (hv : fans (.doc d) (splitPath path) = true → scalarOperand v = true) :
    matchComp d "" path v = toRes (holdsC (.doc d) (splitPath path) (.cmp .eq v)) := by
  rw [holdsC]; exact matchLit_agrees hd v hv

/-- `$gt/$gte/$lt/$lte v`: type-bracketed -/
theorem cmp_agrees (sch : SchemaEval) (d : Doc) (path : String) (o : CmpOp) (v : V) (hd : PathDom d path)
    (hv : fans (.doc d) (splitPath path) = true → scalarOperand v = true) :
    mOp sch d (cmpName o) path v = toRes (holdsC (.doc d) (splitPath path) (.cmp o v)) := by
  have : leafOp d (cmpName o) path v = some (matchComp d (cmpName o) path v) := by cases o <;> rfl
  rw [mOp_leaf sch d _ path v _ this, holdsC]; exact matchComp_agrees hd o v hv

/-- `$ne v`: exact negation of `$eq v` -/
theorem ne_agrees (sch : SchemaEval) (d : Doc) (path : String) (v : V) (hd : PathDom d path)
    (hv : fans (.doc d) (splitPath path) = true → scalarOperand v = true) :
    mOp sch d "$ne" path v = toRes (holdsC (.doc d) (splitPath path) (.ne v)) := by
  rw [ne_is_not_eq, eq_agrees sch d path v hd hv, negate_toRes, holdsC, holdsC]

/-- `$in vs`: some leaf equals some member -/
theorem in_agrees (sch : SchemaEval) (d : Doc) (path : String) (vs : List V) (hd : PathDom d path)
    (hv : fans (.doc d) (splitPath path) = true → vs.all scalarOperand = true) :
    mOp sch d "$in" path (.arr vs) = toRes (holdsC (.doc d) (splitPath path) (.in_ vs)) := by
  rw [mOp_leaf sch d "$in" path _ _ rfl, holdsC]; exact matchIn_agrees hd vs hv

/-- `$nin vs`: exact negation of `$in vs` -/
theorem nin_agrees (sch : SchemaEval) (d : Doc) (path : String) (vs : List V) (hd : PathDom d path)
    (hv : fans (.doc d) (splitPath path) = true → vs.all scalarOperand = true) :
    mOp sch d "$nin" path (.arr vs) = toRes (holdsC (.doc d) (splitPath path) (.nin vs)) := by
  rw [nin_is_not_in, in_agrees sch d path vs hd hv, negate_toRes, holdsC, holdsC]

/-- lungo's reading of the `$exists` argument is MongoDB's truthiness (false, null and numeric zero
    of any of the four numeric types are falsy) — for EVERY value -/
theorem exists_arg_is_truthiness (arg : V) : existsArg arg = truthy arg :=
  existsArg_truthy arg

/-- `$exists arg`: `arg` truthy ⇔ there is a candidate (any `arg`, Decimal128 included) -/
theorem exists_agrees (sch : SchemaEval) (d : Doc) (path : String) (arg : V) (hd : PathDom d path) :
    mOp sch d "$exists" path arg = toRes (holdsC (.doc d) (splitPath path) (.exists_ arg)) := by
  rw [mOp_leaf sch d "$exists" path arg _ rfl, holdsC]; exact matchExists_agrees hd arg

/-- `$type ts`: some PRESENT leaf has one of the types (`missing` has no type); on a fan-out path
    the types are neither null nor array (§8.2(2)) -/
theorem type_agrees (sch : SchemaEval) (d : Doc) (path : String) (v : V) (number : Bool) (ts : List Nat)
    (hd : PathDom d path) (hp : parseType v = some (.type number ts))
    (hfan : fans (.doc d) (splitPath path) = true → scalarTypes ts = true) :
    mOp sch d "$type" path v = toRes (holdsC (.doc d) (splitPath path) (.type number ts)) := by
  rw [mOp_leaf sch d "$type" path v _ rfl, holdsC]; exact matchType_agrees hd v number ts hp hfan

/-- `{path: {$type: "null"}}` does not match a document in which the path reaches nothing
    (the former deviation D1, now excluded by the code): both sides say "no". -/
theorem type_null_skips_missing (sch : SchemaEval) (d : Doc) (path : String) (hd : PathDom d path)
    (hf : fans (.doc d) (splitPath path) = false) (hc : cand (.doc d) (splitPath path) = []) :
    mOp sch d "$type" path (.str "null") = .error .notMatched ∧
    holdsC (.doc d) (splitPath path) (.type false [0x0A]) = false := by
  have hp : parseType (.str "null") = some (.type false [0x0A]) := by
    simp [parseType, resolveTypes, resolveType, alias2Type]
  have h2 : holdsC (.doc d) (splitPath path) (.type false [0x0A]) = false := by
    simp [holdsC, leafsAt, hc, typeHolds, V.isMissing]
  refine ⟨?_, h2⟩
  rw [type_agrees sch d path _ false [0x0A] hd hp (by simp [hf]), h2]
  rfl

/-
  theorem size_agrees : … is FALSE at D3 ({a: [{b: [{c: 1}, {c: 2}]}]} vs {"a.b.c": {$size: 2}}).
-/
/-- `$size n`: some candidate is an array of length `n`. Missing for the full statement: paths
    that fan out twice (D3). -/
theorem size_agrees_partial (sch : SchemaEval) (d : Doc) (path : String) (v : V) (n : Int) (hd : PathDom d path)
    (hp : parseSize v = some (.size n)) (h2 : fans2 (.doc d) (splitPath path) = false) :
    mOp sch d "$size" path v = toRes (holdsC (.doc d) (splitPath path) (.size n)) := by
  rw [mOp_leaf sch d "$size" path v _ rfl, holdsC]; exact matchSize_agrees hd v n hp h2

/-- `$all vs`: `vs ≠ []` and every member equals some leaf — any members without a fan-out
    (array-valued ones included: such a member equals the whole array value or an element), non-null
    scalar members on a fan-out path (the restriction of `$eq`, §8.2(2)) -/
theorem all_agrees (sch : SchemaEval) (d : Doc) (path : String) (vs : List V) (hd : PathDom d path)
    (hfan : fans (.doc d) (splitPath path) = true → vs.all scalarOperand = true) :
    mOp sch d "$all" path (.arr vs) = toRes (holdsC (.doc d) (splitPath path) (.all vs)) := by
  rw [mOp_leaf sch d "$all" path _ _ rfl, holdsC]; exact matchAll_agrees hd vs hfan

/-- `$mod [dv, r]`: some numeric leaf truncates to `n` with `n rem dv = r` (no Decimal128 leaves: §8.2(4)) -/
theorem mod_agrees (sch : SchemaEval) (d : Doc) (path : String) (v : V) (dv r : Int) (hd : PathDom d path)
    (hp : parseMod v = some (.mod dv r))
    (hdec : (leafs d (splitPath path)).all (fun l => !isDec l) = true) :
    mOp sch d "$mod" path v = toRes (holdsC (.doc d) (splitPath path) (.mod dv r)) := by
  rw [mOp_leaf sch d "$mod" path v _ rfl, holdsC]; exact matchMod_agrees hd v dv r hp hdec

/-- `$bitsAllSet/AllClear/AnySet/AnyClear mask` -/
theorem bits_agrees (sch : SchemaEval) (d : Doc) (path : String) (o : BitsOp) (v : V) (ps : List Nat)
    (hd : PathDom d path) (hp : parseBits o v = some (.bits o ps)) :
    mOp sch d (bitsName o) path v = toRes (holdsC (.doc d) (splitPath path) (.bits o ps)) := by
  have : leafOp d (bitsName o) path v = some (matchBits d (bitsName o) path v) := by cases o <;> rfl
  rw [mOp_leaf sch d _ path v _ this, holdsC]; exact matchBits_agrees hd o v ps hp

/-- any single expression operator (including `$not` and `$elemMatch`, recursively) on the proved domain -/
theorem operator_agrees (sch : SchemaEval) (d : Doc) (path op : String) (v : V) (c : Cond)
    (hp : parseCond op v = some c) (hd : PathDom d path)
    (hc : coreC true (.doc d) (splitPath path) (fans (.doc d) (splitPath path)) c = true) :
    mOp sch d op path v = toRes (holdsC (.doc d) (splitPath path) c) :=
  cond_agrees sch op v d path c hp hd hc

/-- `$not e`: exact negation of the operator document `e` -/
theorem not_agrees (sch : SchemaEval) (d : Doc) (path : String) (q : List (String × V)) (cs : List Cond)
    (hq : q ≠ []) (hp : parseConds q = some cs) (hd : PathDom d path)
    (hc : coreCs true (.doc d) (splitPath path) (fans (.doc d) (splitPath path)) cs = true) :
    mOp sch d "$not" path (.doc q) = toRes (holdsC (.doc d) (splitPath path) (.not cs)) := by
  rw [not_is_negation sch d path q hq, (conds_agree sch q d path cs hp hd hc).2, negate_toRes, holdsC]

/-- `$elemMatch q`: some candidate is an array with an element satisfying `q` — operator form: as
    conditions on the element; field form: as a filter on the element, which must be a document.
    No fan-out (§8.2(2)); the conditions inside `q` on their own (proved) domain. -/
theorem elemMatch_agrees (sch : SchemaEval) (d : Doc) (path : String) (q : List (String × V)) (c : Cond)
    (hp : parseCond "$elemMatch" (.doc q) = some c) (hd : PathDom d path)
    (hc : coreC true (.doc d) (splitPath path) (fans (.doc d) (splitPath path)) c = true) :
    mOp sch d "$elemMatch" path (.doc q) = toRes (holdsC (.doc d) (splitPath path) c) :=
  cond_agrees sch "$elemMatch" (.doc q) d path c hp hd hc

/-- `$and fs` / `$or fs`: all / some member filter holds, left to right with short-circuit -/
theorem and_or_agree (sch : SchemaEval) (d : Doc) (items : List V) (fs : List Filter)
    (hp : parseFilters items = some fs) (hd : noNestedArrays (.doc d) = true) (hc : coreFs true d fs = true) :
    mAndLoop sch d items = resU (allF sch d fs) ∧ mOrLoop sch d items = resU (anyF sch d fs) :=
  ⟨(filters_agree sch items d fs hp hd hc).1.1, (filters_agree sch items d fs hp hd hc).2.1⟩

/-- `$nor fs`: exact negation of `$or fs` -/
theorem nor_agrees (sch : SchemaEval) (d : Doc) (v : V) (e : Entry)
    (hp : parseEntry "$nor" v = some e) (hd : noNestedArrays (.doc d) = true) (hc : coreE true d e = true) :
    mExpr sch d "" "$nor" v true = resU (holdsE sch d e) :=
  (entry_agrees sch "$nor" v d e hp hd hc).1

/-! ### the recursive combination -/

/-
  FULL STATEMENT (false for the current code because of D3, see the header):
  theorem match_agrees_core (sch : SchemaEval) (d q : Doc) (h : core d q = true) :
      Match sch d q = Spec.matches sch d q
-/
/-- AGREEMENT on the core domain minus the one known deviation point D3: the matcher returns the
    truth value (or the `$jsonSchema` evaluator's error) the reference semantics defines. -/
theorem match_agrees_core_partial (sch : SchemaEval) (d q : Doc) (h : coreProved d q = true) :
    Match sch d q = Spec.matches sch d q := by
  unfold coreProved outsideX at h
  unfold Spec.matches
  cases hp : parseFilter q with
  | none => simp [hp] at h
  | some f =>
    simp only [hp] at h ⊢
    unfold parseFilter at hp
    simp only [Option.map_eq_some_iff] at hp
    obtain ⟨es, hes, rfl⟩ := hp
    by_cases h1 : noNestedArrays (.doc d) = true
    · by_cases h2 : noNumeralKeys false (.doc d) = true
      · by_cases h3 : coreF true d (.mk es) = true
        · obtain ⟨hm, hne⟩ := entries_agree sch q d es hes h1 (by simpa [coreF] using h3)
          unfold Match
          rw [hm, holdsF]
          cases hr : holdsEs sch d es with
          | ok b => cases b <;> rfl
          | error e =>
            have : e ≠ .notMatched := by intro he; subst he; exact hne hr
            cases e <;> first | rfl | exact absurd rfl this
        · simp [h1, h2, h3] at h
      · simp [h1, h2] at h
    · simp [h1] at h

/-- TOTALITY: on a well-formed filter (§8.2(5): `parseFilter q = some f`) matching returns a truth
    value, not an error — for EVERY document (no domain restriction), provided the `$jsonSchema`
    evaluator itself never fails (`SchTotal`; errors of the evaluator are passed through by design). -/
theorem match_total_on_wellformed (sch : SchemaEval) (hs : SchTotal sch) (d q : Doc) (f : Filter)
    (hp : parseFilter q = some f) : ∃ b, Match sch d q = .ok b := by
  unfold parseFilter at hp
  simp only [Option.map_eq_some_iff] at hp
  obtain ⟨es, hes, _⟩ := hp
  obtain ⟨b, hb⟩ := entries_tv sch hs q d es hes
  refine ⟨b, ?_⟩
  unfold Match
  rw [hb]
  cases b <;> rfl

/-- non-vacuity of `SchTotal`: the evaluator that accepts everything -/
example : SchTotal (fun _ _ => .ok ()) := fun _ _ => ⟨true, rfl⟩

/-! ### non-vacuity

  `String.splitOn` does not reduce in the kernel, so concrete instances are given for any path
  string that splits into the stated segments (e.g. "a.b"), and whole pairs are checked by
  evaluation (`#guard`: tests, not theorems). -/

/-- a fan-out instance of the hypotheses of `eq_agrees`: {a: [{b: 1}, {b: [2, 3]}, {c: 4}, 5]}, "a.b", operand 2 -/
example (path : String) (h : splitPath path = ["a", "b"]) :
    PathDom [("a", .arr [.doc [("b", .i32 1)], .doc [("b", .arr [.i32 2, .i32 3])], .doc [("c", .i32 4)], .i32 5])] path ∧
    fans (.doc [("a", .arr [.doc [("b", .i32 1)], .doc [("b", .arr [.i32 2, .i32 3])], .doc [("c", .i32 4)], .i32 5])]) (splitPath path) = true ∧
    scalarOperand (.i32 2) = true := by
  refine ⟨⟨by decide, by rw [h]; decide⟩, by rw [h]; decide, rfl⟩

/-- a no-fan-out instance with an index segment: {a: [[…] is excluded], so {a: [1, {b: null}]}, "a.1.b" -/
example (path : String) (h : splitPath path = ["a", "1", "b"]) :
    PathDom [("a", .arr [.i32 1, .doc [("b", .null)]])] path ∧
    fans (.doc [("a", .arr [.i32 1, .doc [("b", .null)]])]) (splitPath path) = false := by
  refine ⟨⟨by decide, by rw [h]; decide⟩, by rw [h]; decide⟩

/-- an instance of the hypotheses of `type_null_skips_missing`: {b: 1} has no field "a" -/
example (path : String) (h : splitPath path = ["a"]) :
    PathDom [("b", .i32 1)] path ∧ fans (.doc [("b", .i32 1)]) (splitPath path) = false ∧
    cand (.doc [("b", .i32 1)]) (splitPath path) = [] := by
  refine ⟨⟨by decide, by rw [h]; decide⟩, by rw [h]; decide, by rw [h]; decide⟩

/-- a fan-out instance of the hypotheses of `all_agrees` (the former D5 witness):
    {a: [{b: [1]}, {b: 2}]}, "a.b", members [1, 2] -/
example (path : String) (h : splitPath path = ["a", "b"]) :
    PathDom [("a", .arr [.doc [("b", .arr [.i32 1])], .doc [("b", .i32 2)]])] path ∧
    fans (.doc [("a", .arr [.doc [("b", .arr [.i32 1])], .doc [("b", .i32 2)]])]) (splitPath path) = true ∧
    [V.i32 1, V.i32 2].all scalarOperand = true := by
  refine ⟨⟨by decide, by rw [h]; decide⟩, by rw [h]; decide, rfl⟩

/-- a no-fan-out instance with an array-valued member (the former D7 witness): {a: [1, 2]}, "a",
    members [[1, 2], 1] — the hypothesis about members is vacuous here, nothing is required of them -/
example (path : String) (h : splitPath path = ["a"]) :
    PathDom [("a", .arr [.i32 1, .i32 2])] path ∧
    (fans (.doc [("a", .arr [.i32 1, .i32 2])]) (splitPath path) = true →
      [V.arr [.i32 1, .i32 2], V.i32 1].all scalarOperand = true) := by
  refine ⟨⟨by decide, by rw [h]; decide⟩, ?_⟩
  rw [h]; intro hf; exact absurd hf (by decide)

-- whole pairs inside the proved domain, both sides evaluated (true and false outcomes, fan-out, $elemMatch, $nor)
#guard coreProved [("a", .arr [.doc [("b", .i32 1)], .doc [("b", .arr [.i32 2, .i32 3])], .i32 5])] [("a.b", .doc [("$gt", .i32 2)])]
#guard (Match schemaUnmodelled [("a", .arr [.doc [("b", .i32 1)], .doc [("b", .arr [.i32 2, .i32 3])], .i32 5])] [("a.b", .doc [("$gt", .i32 2)])]) matches .ok true
#guard (Spec.matches schemaUnmodelled [("a", .arr [.doc [("b", .i32 1)], .doc [("b", .arr [.i32 2, .i32 3])], .i32 5])] [("a.b", .doc [("$gt", .i32 2)])]) matches .ok true
#guard coreProved [("a", .arr [.doc [("b", .i32 1)]])] [("$nor", .arr [.doc [("a", .doc [("$elemMatch", .doc [("b", .doc [("$lt", .i32 1)])])])]])]
#guard (Match schemaUnmodelled [("a", .arr [.doc [("b", .i32 1)]])] [("$nor", .arr [.doc [("a", .doc [("$elemMatch", .doc [("b", .doc [("$lt", .i32 1)])])])]])]) matches .ok true
#guard (Spec.matches schemaUnmodelled [("a", .arr [.doc [("b", .i32 1)]])] [("$nor", .arr [.doc [("a", .doc [("$elemMatch", .doc [("b", .doc [("$lt", .i32 1)])])])]])]) matches .ok true
-- the former deviations D1, D2, D4 on their witnesses: now inside the proved domain, both sides agree
#guard coreProved [("b", .i32 1)] [("a", .doc [("$type", .str "null")])]
#guard (Match schemaUnmodelled [("b", .i32 1)] [("a", .doc [("$type", .str "null")])]) matches .ok false
#guard (Spec.matches schemaUnmodelled [("b", .i32 1)] [("a", .doc [("$type", .str "null")])]) matches .ok false
#guard coreProved [("a", .arr [.doc [("b", .arr [])]])] [("a.b", .doc [("$exists", .bool true)])]
#guard (Match schemaUnmodelled [("a", .arr [.doc [("b", .arr [])]])] [("a.b", .doc [("$exists", .bool true)])]) matches .ok true
#guard (Spec.matches schemaUnmodelled [("a", .arr [.doc [("b", .arr [])]])] [("a.b", .doc [("$exists", .bool true)])]) matches .ok true
#guard coreProved [("a", .arr [.i32 1])] [("a", .doc [("$elemMatch", .doc [("b", .null)])])]
#guard (Match schemaUnmodelled [("a", .arr [.i32 1])] [("a", .doc [("$elemMatch", .doc [("b", .null)])])]) matches .ok false
#guard (Spec.matches schemaUnmodelled [("a", .arr [.i32 1])] [("a", .doc [("$elemMatch", .doc [("b", .null)])])]) matches .ok false
-- the one remaining deviation D3 on a concrete pair: inside `core`, outside `coreProved`, the two sides differ
#guard core [("a", .arr [.doc [("b", .arr [.doc [("c", .i32 1)], .doc [("c", .i32 2)]])]])] [("a.b.c", .doc [("$size", .i32 2)])]
#guard !coreProved [("a", .arr [.doc [("b", .arr [.doc [("c", .i32 1)], .doc [("c", .i32 2)]])]])] [("a.b.c", .doc [("$size", .i32 2)])]
#guard (Match schemaUnmodelled [("a", .arr [.doc [("b", .arr [.doc [("c", .i32 1)], .doc [("c", .i32 2)]])]])] [("a.b.c", .doc [("$size", .i32 2)])]) matches .ok true
#guard (Spec.matches schemaUnmodelled [("a", .arr [.doc [("b", .arr [.doc [("c", .i32 1)], .doc [("c", .i32 2)]])]])] [("a.b.c", .doc [("$size", .i32 2)])]) matches .ok false
-- the former deviations D5, D6, D7 on their witnesses: now inside the proved domain, both sides agree
-- D5: {a: [{b: [1]}, {b: 2}]} vs {"a.b": {$all: [1, 2]}}
#guard coreProved [("a", .arr [.doc [("b", .arr [.i32 1])], .doc [("b", .i32 2)]])] [("a.b", .doc [("$all", .arr [.i32 1, .i32 2])])]
#guard (Match schemaUnmodelled [("a", .arr [.doc [("b", .arr [.i32 1])], .doc [("b", .i32 2)]])] [("a.b", .doc [("$all", .arr [.i32 1, .i32 2])])]) matches .ok true
#guard (Spec.matches schemaUnmodelled [("a", .arr [.doc [("b", .arr [.i32 1])], .doc [("b", .i32 2)]])] [("a.b", .doc [("$all", .arr [.i32 1, .i32 2])])]) matches .ok true
#guard coreProved [("a", .arr [.doc [("b", .arr [.i32 1])], .doc [("b", .i32 2)]])] [("a.b", .doc [("$all", .arr [.i32 1, .i32 3])])]
#guard (Match schemaUnmodelled [("a", .arr [.doc [("b", .arr [.i32 1])], .doc [("b", .i32 2)]])] [("a.b", .doc [("$all", .arr [.i32 1, .i32 3])])]) matches .ok false
#guard (Spec.matches schemaUnmodelled [("a", .arr [.doc [("b", .arr [.i32 1])], .doc [("b", .i32 2)]])] [("a.b", .doc [("$all", .arr [.i32 1, .i32 3])])]) matches .ok false
-- D6: {a: 1} vs {a: {$exists: <decimal>}} for 0, -0, 0E+3, the "11" combination form (read as 0), 1, NaN, Infinity, -Infinity
#guard coreProved [("a", .i32 1)] [("a", .doc [("$exists", .dec 0x3040000000000000 0)])]
#guard (Match schemaUnmodelled [("a", .i32 1)] [("a", .doc [("$exists", .dec 0x3040000000000000 0)])]) matches .ok false
#guard (Spec.matches schemaUnmodelled [("a", .i32 1)] [("a", .doc [("$exists", .dec 0x3040000000000000 0)])]) matches .ok false
#guard coreProved [("a", .i32 1)] [("a", .doc [("$exists", .dec 0xB040000000000000 0)])]
#guard (Match schemaUnmodelled [("a", .i32 1)] [("a", .doc [("$exists", .dec 0xB040000000000000 0)])]) matches .ok false
#guard (Spec.matches schemaUnmodelled [("a", .i32 1)] [("a", .doc [("$exists", .dec 0xB040000000000000 0)])]) matches .ok false
#guard coreProved [("a", .i32 1)] [("a", .doc [("$exists", .dec 0x3046000000000000 0)])]
#guard (Match schemaUnmodelled [("a", .i32 1)] [("a", .doc [("$exists", .dec 0x3046000000000000 0)])]) matches .ok false
#guard (Spec.matches schemaUnmodelled [("a", .i32 1)] [("a", .doc [("$exists", .dec 0x3046000000000000 0)])]) matches .ok false
#guard coreProved [("a", .i32 1)] [("a", .doc [("$exists", .dec 0x6000000000000000 5)])]
#guard (Match schemaUnmodelled [("a", .i32 1)] [("a", .doc [("$exists", .dec 0x6000000000000000 5)])]) matches .ok false
#guard (Spec.matches schemaUnmodelled [("a", .i32 1)] [("a", .doc [("$exists", .dec 0x6000000000000000 5)])]) matches .ok false
#guard coreProved [("a", .i32 1)] [("a", .doc [("$exists", .dec 0x3040000000000000 1)])]
#guard (Match schemaUnmodelled [("a", .i32 1)] [("a", .doc [("$exists", .dec 0x3040000000000000 1)])]) matches .ok true
#guard (Spec.matches schemaUnmodelled [("a", .i32 1)] [("a", .doc [("$exists", .dec 0x3040000000000000 1)])]) matches .ok true
#guard coreProved [("a", .i32 1)] [("a", .doc [("$exists", .dec 0x7C00000000000000 0)])]
#guard (Match schemaUnmodelled [("a", .i32 1)] [("a", .doc [("$exists", .dec 0x7C00000000000000 0)])]) matches .ok true
#guard (Spec.matches schemaUnmodelled [("a", .i32 1)] [("a", .doc [("$exists", .dec 0x7C00000000000000 0)])]) matches .ok true
#guard coreProved [("a", .i32 1)] [("a", .doc [("$exists", .dec 0x7800000000000000 0)])]
#guard (Match schemaUnmodelled [("a", .i32 1)] [("a", .doc [("$exists", .dec 0x7800000000000000 0)])]) matches .ok true
#guard (Spec.matches schemaUnmodelled [("a", .i32 1)] [("a", .doc [("$exists", .dec 0x7800000000000000 0)])]) matches .ok true
#guard coreProved [("a", .i32 1)] [("a", .doc [("$exists", .dec 0xF800000000000000 0)])]
#guard (Match schemaUnmodelled [("a", .i32 1)] [("a", .doc [("$exists", .dec 0xF800000000000000 0)])]) matches .ok true
#guard (Spec.matches schemaUnmodelled [("a", .i32 1)] [("a", .doc [("$exists", .dec 0xF800000000000000 0)])]) matches .ok true
#guard coreProved [("b", .i32 1)] [("a", .doc [("$exists", .dec 0x3040000000000000 0)])]
#guard (Match schemaUnmodelled [("b", .i32 1)] [("a", .doc [("$exists", .dec 0x3040000000000000 0)])]) matches .ok true
#guard (Spec.matches schemaUnmodelled [("b", .i32 1)] [("a", .doc [("$exists", .dec 0x3040000000000000 0)])]) matches .ok true
-- D7: {a: [1, 2]} vs {a: {$all: [[1, 2], 1]}} (the member [1, 2] equals the whole array, 1 an element)
#guard coreProved [("a", .arr [.i32 1, .i32 2])] [("a", .doc [("$all", .arr [.arr [.i32 1, .i32 2], .i32 1])])]
#guard (Match schemaUnmodelled [("a", .arr [.i32 1, .i32 2])] [("a", .doc [("$all", .arr [.arr [.i32 1, .i32 2], .i32 1])])]) matches .ok true
#guard (Spec.matches schemaUnmodelled [("a", .arr [.i32 1, .i32 2])] [("a", .doc [("$all", .arr [.arr [.i32 1, .i32 2], .i32 1])])]) matches .ok true
#guard coreProved [("a", .arr [.i32 1, .i32 2])] [("a", .doc [("$all", .arr [.arr [.i32 2, .i32 1], .i32 1])])]
#guard (Match schemaUnmodelled [("a", .arr [.i32 1, .i32 2])] [("a", .doc [("$all", .arr [.arr [.i32 2, .i32 1], .i32 1])])]) matches .ok false
#guard (Spec.matches schemaUnmodelled [("a", .arr [.i32 1, .i32 2])] [("a", .doc [("$all", .arr [.arr [.i32 2, .i32 1], .i32 1])])]) matches .ok false
#guard coreProved [("a", .arr [.i32 1, .i32 2])] [("a", .doc [("$all", .arr [.arr [.i32 1, .i32 2], .i32 3])])]
#guard (Match schemaUnmodelled [("a", .arr [.i32 1, .i32 2])] [("a", .doc [("$all", .arr [.arr [.i32 1, .i32 2], .i32 3])])]) matches .ok false
#guard (Spec.matches schemaUnmodelled [("a", .arr [.i32 1, .i32 2])] [("a", .doc [("$all", .arr [.arr [.i32 1, .i32 2], .i32 3])])]) matches .ok false

end Lungo.C10
