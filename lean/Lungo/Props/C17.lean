/-
  Lungo.Props.C17 — caller-owned values and database state never alias each other.

  What gives the translator fact `ApiFlow` (one row per driver method: how each caller value enters,
  how each result component leaves) a meaning.  A tiny identity-aware heap in the style of DESIGN §3.4 /
  Appendix D (G2 nodes = `bson.D`/`bson.A` backing arrays and `Binary.Data`):

  * `St.mem`     the heap; node `i` has contents `mem[i]`; allocation appends (fresh = index ≥ old length);
  * `St.db`      the nodes reachable from the engine state (catalog documents, index entries/configs, oplog);
  * `St.caller`  the nodes reachable from values the caller holds (everything it built, every result it got).

  A driver call with flow row `r` is `entry` + `internal` + `exit`:
    entry     every argument node enters through a copy that allocates fresh nodes iff no parameter of `r`
              is `raw` (`Transform`, `TransformList`); otherwise the argument nodes themselves enter;
    internal  the call keeps any sub-list of the old database nodes, stores any prefix of the entered
              nodes and any number of freshly allocated nodes, and writes in place ONLY to nodes it obtained
              in this call (entered + fresh) — the G2 discipline of Appendix D;
    exit      every handed-back node leaves through a copy allocating fresh nodes iff no result of `r` is `raw`
              (`Decode`, `DecodeList`, `bson.Marshal`, `copyValue`); otherwise the stored nodes themselves
              become caller-owned.
  All choices (which nodes, how many, which values) are universally quantified data of the step.

  Theorems (all for arbitrary histories, by induction over the history):
    `separation`              after every history of caller allocations, caller writes and calls whose rows are
                              all `flowSafe`: caller nodes and database nodes are disjoint (`Inv`);
    `caller_writes_invisible` in such a state any sequence of caller writes leaves `observe` (the contents of
                              the database nodes) and the database node list unchanged, and `Inv` still holds;
    `args_unchanged`          a safe call leaves the contents of every caller-owned node as it was;
    `separation_erase`        the database observed after a safe history is the same as after the history in
                              which any caller writes to nodes that are never passed to a call again (dead
                              arguments, results) are left out — DESIGN §9 C17 `separation` in full;
    `expected_flow_safe`      every row of `Expected.apiFlow` (tied to /repo by `tie_ApiFlow_apiFlow`) is safe;
    `raw_result_leaks`, `raw_entry_leaks`, `raw_entry_modifies_args`   negative examples: with one raw row
                              there are histories where a caller write changes `observe`, resp. a call
                              changes an argument.
-/
import Lungo.Model.ApiFlow
import Lungo.Expected.ApiFlow

namespace Lungo.C17
open Lungo.ApiFlow

/-! ## Flow safety -/

def Entry.safe : Entry → Bool
  | .raw _ => false
  | _ => true

def Exit.safe : Exit → Bool
  | .raw _ => false
  | _ => true

/-- no parameter enters raw -/
def entrySafe (r : Flow) : Bool := r.params.all (fun p => Entry.safe p.2)
/-- no result leaves raw -/
def exitSafe (r : Flow) : Bool := r.results.all (fun p => Exit.safe p.2)
def flowSafe (r : Flow) : Bool := entrySafe r && exitSafe r

/-! ## Heap, calls, histories -/

-- nodes (heap addresses) and node contents are natural numbers

structure St where
  mem : List Nat
  db : List Nat
  caller : List Nat
  deriving DecidableEq, Repr

def St.init : St := ⟨[], [], []⟩

def rd (m : List Nat) (x : Nat) : Nat := m.getD x 0

/-- What a dump of the database sees: the contents of the database nodes (ids erased). -/
def observe (s : St) : List Nat := s.db.map (rd s.mem)

/-- The freely chosen data of one call. -/
structure CallData where
  args : List Nat            -- the nodes of the values passed (only caller-owned nodes count)
  keep : List Nat            -- which old database nodes stay reachable
  nStore : Nat                -- how many of the entered nodes are stored
  fresh : List Nat            -- nodes allocated and stored by the call itself
  writes : List (Nat × Nat)   -- in-place writes, addressed by position in (entered ++ fresh nodes)
  ret : List Nat             -- stored nodes handed back
  deriving DecidableEq, Repr

def writeOne (own : List Nat) (m : List Nat) (w : Nat × Nat) : List Nat :=
  match own[w.1]? with
  | some x => m.set x w.2
  | none => m

def applyWrites (own : List Nat) (m : List Nat) (ws : List (Nat × Nat)) : List Nat :=
  ws.foldl (writeOne own) m

def call (s : St) (r : Flow) (c : CallData) : St :=
  let args := c.args.filter (· ∈ s.caller)
  let mem1 := if entrySafe r then s.mem ++ args.map (rd s.mem) else s.mem
  let entered := if entrySafe r then List.range' s.mem.length args.length else args
  let freshNodes := List.range' mem1.length c.fresh.length
  let mem2 := mem1 ++ c.fresh
  let mem3 := applyWrites (entered ++ freshNodes) mem2 c.writes
  let db' := c.keep.filter (· ∈ s.db) ++ entered.take c.nStore ++ freshNodes
  let ret := c.ret.filter (· ∈ db')
  if exitSafe r then
    { mem := mem3 ++ ret.map (rd mem3), db := db', caller := s.caller ++ List.range' mem3.length ret.length }
  else
    { mem := mem3, db := db', caller := s.caller ++ ret }

inductive Step
  | alloc (vals : List Nat)        -- the caller builds values
  | write (x : Nat) (v : Nat)     -- the caller writes to a node it owns
  | call (r : Flow) (c : CallData)
  deriving DecidableEq, Repr

def step (s : St) : Step → St
  | .alloc vals => { s with mem := s.mem ++ vals, caller := s.caller ++ List.range' s.mem.length vals.length }
  | .write x v => if x ∈ s.caller then { s with mem := s.mem.set x v } else s
  | .call r c => call s r c

def runFrom (s : St) (h : List Step) : St := h.foldl step s
def run (h : List Step) : St := runFrom St.init h

def Step.safe : Step → Bool
  | .call r _ => flowSafe r
  | _ => true

/-! ## The invariant -/

structure Inv (s : St) : Prop where
  callerLt : ∀ x ∈ s.caller, x < s.mem.length
  dbLt : ∀ x ∈ s.db, x < s.mem.length
  disj : ∀ x ∈ s.caller, x ∉ s.db

theorem inv_init : Inv St.init := ⟨by simp [St.init], by simp [St.init], by simp [St.init]⟩

theorem writeOne_length (own : List Nat) (m : List Nat) (w : Nat × Nat) : (writeOne own m w).length = m.length := by
  unfold writeOne; split <;> simp

theorem applyWrites_length (own : List Nat) (ws : List (Nat × Nat)) :
    ∀ m, (applyWrites own m ws).length = m.length := by
  induction ws with
  | nil => intro m; rfl
  | cons w ws ih =>
    intro m
    have := ih (writeOne own m w)
    simp only [applyWrites, List.foldl_cons] at this ⊢
    rw [this, writeOne_length]

theorem writeOne_rd (own : List Nat) (y : Nat) (hy : y ∉ own) (m : List Nat) (w : Nat × Nat) :
    rd (writeOne own m w) y = rd m y := by
  unfold writeOne
  split
  · rename_i x hx
    have hne : x ≠ y := by
      intro h
      subst h
      exact hy (List.mem_of_getElem? hx)
    simp [rd, List.getD_eq_getElem?_getD, List.getElem?_set_ne hne]
  · rfl

/-- Writes addressed into `own` leave every node outside `own` alone. -/
theorem applyWrites_rd (own : List Nat) (y : Nat) (hy : y ∉ own) (ws : List (Nat × Nat)) :
    ∀ m, rd (applyWrites own m ws) y = rd m y := by
  induction ws with
  | nil => intro m; rfl
  | cons w ws ih =>
    intro m
    have := ih (writeOne own m w)
    simp only [applyWrites, List.foldl_cons] at this ⊢
    rw [this, writeOne_rd own y hy]

theorem rd_append_left (m e : List Nat) (x : Nat) (h : x < m.length) : rd (m ++ e) x = rd m x := by
  simp [rd, List.getD_eq_getElem?_getD, List.getElem?_append_left h]

theorem mem_range' {x a n : Nat} : x ∈ List.range' a n ↔ a ≤ x ∧ x < a + n := by
  simp [List.mem_range']
  constructor
  · rintro ⟨i, hi, rfl⟩; omega
  · rintro ⟨h1, h2⟩; exact ⟨x - a, by omega, by omega⟩

/-- A safe call preserves the invariant. -/
theorem inv_call (s : St) (r : Flow) (c : CallData) (hs : flowSafe r = true) (hi : Inv s) : Inv (call s r c) := by
  have hE : entrySafe r = true := by simp [flowSafe] at hs; exact hs.1
  have hX : exitSafe r = true := by simp [flowSafe] at hs; exact hs.2
  simp only [call, hE, hX, if_true]
  -- abbreviations
  generalize hargs : c.args.filter (· ∈ s.caller) = args
  generalize hm1 : s.mem ++ args.map (rd s.mem) = mem1
  have hl1 : mem1.length = s.mem.length + args.length := by rw [← hm1]; simp
  generalize hown : List.range' s.mem.length args.length ++ List.range' mem1.length c.fresh.length = own
  generalize hm3 : applyWrites own (mem1 ++ c.fresh) c.writes = mem3
  have hl3 : mem3.length = s.mem.length + args.length + c.fresh.length := by
    rw [← hm3, applyWrites_length]; simp [hl1]
  generalize hdb : c.keep.filter (· ∈ s.db) ++ (List.range' s.mem.length args.length).take c.nStore
      ++ List.range' mem1.length c.fresh.length = db'
  have hdbLt : ∀ x ∈ db', x < mem3.length := by
    intro x hx
    rw [← hdb] at hx
    simp only [List.mem_append, List.mem_filter, decide_eq_true_eq] at hx
    rcases hx with (⟨_, h⟩ | h) | h
    · have := hi.dbLt x h; omega
    · have := mem_range'.1 (List.mem_of_mem_take h); omega
    · have := mem_range'.1 h; omega
  have hdbOld : ∀ x ∈ db', x < s.mem.length → x ∈ s.db := by
    intro x hx hlt
    rw [← hdb] at hx
    simp only [List.mem_append, List.mem_filter, decide_eq_true_eq] at hx
    rcases hx with (⟨_, h⟩ | h) | h
    · exact h
    · have := mem_range'.1 (List.mem_of_mem_take h); omega
    · have := mem_range'.1 h; omega
  generalize hret : c.ret.filter (· ∈ db') = ret
  refine ⟨?_, ?_, ?_⟩
  · intro x hx
    simp only [List.mem_append] at hx
    simp only [List.length_append, List.length_map]
    rcases hx with h | h
    · have := hi.callerLt x h; omega
    · have := mem_range'.1 h; omega
  · intro x hx
    have := hdbLt x hx
    simp only [List.length_append, List.length_map]
    omega
  · intro x hx hdb'
    simp only [List.mem_append] at hx
    rcases hx with h | h
    · exact hi.disj x h (hdbOld x hdb' (hi.callerLt x h))
    · have h1 := mem_range'.1 h
      have h2 := hdbLt x hdb'
      omega

theorem inv_step (s : St) (st : Step) (hs : st.safe = true) (hi : Inv s) : Inv (step s st) := by
  cases st with
  | alloc vals =>
    refine ⟨?_, ?_, ?_⟩
    · intro x hx
      simp only [step, List.mem_append] at hx
      simp only [step, List.length_append]
      rcases hx with h | h
      · have := hi.callerLt x h; omega
      · have := mem_range'.1 h; omega
    · intro x hx
      have := hi.dbLt x hx
      simp only [step, List.length_append]; omega
    · intro x hx hd
      simp only [step, List.mem_append] at hx
      rcases hx with h | h
      · exact hi.disj x h hd
      · have := mem_range'.1 h
        have := hi.dbLt x hd
        omega
  | write x v =>
    simp only [step]
    split
    · exact ⟨by simpa using hi.callerLt, by simpa using hi.dbLt, hi.disj⟩
    · exact hi
  | call r c => exact inv_call s r c hs hi

theorem inv_runFrom (h : List Step) : ∀ s, Inv s → (∀ st ∈ h, st.safe = true) → Inv (runFrom s h) := by
  induction h with
  | nil => intro s hi _; exact hi
  | cons st h ih =>
    intro s hi hs
    exact ih (step s st) (inv_step s st (hs st (by simp)) hi) (fun t ht => hs t (by simp [ht]))

/-- **separation** (invariant form): after any history whose calls all have safe flow rows, no node is
    both caller-owned and reachable from the database. -/
theorem separation (h : List Step) (hs : ∀ st ∈ h, st.safe = true) : Inv (run h) :=
  inv_runFrom h St.init inv_init hs

/-! ## Consequences -/

theorem observe_write (s : St) (hi : Inv s) (x : Nat) (v : Nat) :
    observe (step s (.write x v)) = observe s ∧ (step s (.write x v)).db = s.db := by
  simp only [step]
  split
  · rename_i hx
    refine ⟨?_, rfl⟩
    simp only [observe]
    apply List.map_congr_left
    intro y hy
    have hne : x ≠ y := fun h => hi.disj x hx (h ▸ hy)
    simp [rd, List.getD_eq_getElem?_getD, List.getElem?_set_ne hne]
  · exact ⟨rfl, rfl⟩

/-- **caller writes are invisible**: in a state reached by a safe history, ANY sequence of caller writes
    leaves the database observation and the database node list unchanged (and the invariant intact, so the
    statement keeps holding along the continued history). -/
theorem caller_writes_invisible (h : List Step) (hs : ∀ st ∈ h, st.safe = true) (ws : List (Nat × Nat)) :
    let s := run h
    let s' := runFrom s (ws.map fun w => Step.write w.1 w.2)
    observe s' = observe s ∧ s'.db = s.db ∧ Inv s' := by
  have hi := separation h hs
  generalize run h = s at hi
  induction ws generalizing s with
  | nil => exact ⟨rfl, rfl, hi⟩
  | cons w ws ih =>
    simp only [List.map_cons, runFrom, List.foldl_cons]
    have h1 := observe_write s hi w.1 w.2
    have hi' := inv_step s (.write w.1 w.2) rfl hi
    have h2 := ih (step s (.write w.1 w.2)) hi'
    simp only [runFrom] at h2
    exact ⟨h2.1.trans h1.1, h2.2.1.trans h1.2, h2.2.2⟩

/-- **args_unchanged**: a call with a safe flow row never writes to a caller-owned node — the contents of
    every node the caller owned before the call (in particular of every argument) are the same afterwards. -/
theorem args_unchanged (s : St) (hi : Inv s) (r : Flow) (c : CallData) (hs : flowSafe r = true) :
    ∀ x ∈ s.caller, rd (call s r c).mem x = rd s.mem x := by
  intro x hx
  have hE : entrySafe r = true := by simp [flowSafe] at hs; exact hs.1
  have hX : exitSafe r = true := by simp [flowSafe] at hs; exact hs.2
  have hlt := hi.callerLt x hx
  simp only [call, hE, hX, if_true]
  generalize c.args.filter (· ∈ s.caller) = args
  generalize hm1 : s.mem ++ args.map (rd s.mem) = mem1
  have hl1 : mem1.length = s.mem.length + args.length := by rw [← hm1]; simp
  generalize hown : List.range' s.mem.length args.length ++ List.range' mem1.length c.fresh.length = own
  have hxo : x ∉ own := by
    rw [← hown]
    simp only [List.mem_append, not_or]
    exact ⟨fun h => by have := mem_range'.1 h; omega, fun h => by have := mem_range'.1 h; omega⟩
  have hl3 : (applyWrites own (mem1 ++ c.fresh) c.writes).length = mem1.length + c.fresh.length := by
    rw [applyWrites_length]; simp
  rw [rd_append_left _ _ _ (by omega), applyWrites_rd own x hxo, rd_append_left _ _ _ (by omega), ← hm1,
    rd_append_left _ _ _ hlt]

/-! ## Independence of the database from dead caller nodes (`separation_erase`)

Two runs that differ only in the contents of a set `D` of caller-owned nodes that are never passed to a
call again stay in lock step: same allocation pointer, same database nodes, same caller nodes, same
contents outside `D`.  Since `D` is disjoint from the database, the observations agree. -/

/-- a step does not pass (or write through the history itself to) a node of `D` -/
def Step.avoids (D : List Nat) : Step → Prop
  | .call _ c => ∀ x ∈ c.args, x ∉ D
  | .write x _ => x ∉ D
  | .alloc _ => True

structure Agree (D : List Nat) (s t : St) : Prop where
  len : s.mem.length = t.mem.length
  db : s.db = t.db
  caller : s.caller = t.caller
  mem : ∀ x, x ∉ D → rd s.mem x = rd t.mem x
  dead : ∀ x ∈ D, x ∈ s.caller

theorem rd_append_right_eq (m1 m2 e1 e2 : List Nat) (hl : m1.length = m2.length) (x : Nat)
    (hx : m1.length ≤ x) (he : ∀ i, e1.getD i 0 = e2.getD i 0) : rd (m1 ++ e1) x = rd (m2 ++ e2) x := by
  simp only [rd, List.getD_eq_getElem?_getD]
  rw [List.getElem?_append_right hx, List.getElem?_append_right (by omega), hl]
  have := he (x - m2.length)
  simpa [List.getD_eq_getElem?_getD] using this

theorem rd_append_cases (m e : List Nat) (x : Nat) :
    rd (m ++ e) x = if x < m.length then rd m x else e.getD (x - m.length) 0 := by
  split
  · rename_i h; exact rd_append_left m e x h
  · rename_i h
    simp only [rd, List.getD_eq_getElem?_getD]
    rw [List.getElem?_append_right (by omega)]

theorem set_agree (D : List Nat) (m1 m2 : List Nat) (hl : m1.length = m2.length) (y : Nat) (v : Nat)
    (h : ∀ x, x ∉ D → rd m1 x = rd m2 x) : ∀ x, x ∉ D → rd (m1.set y v) x = rd (m2.set y v) x := by
  intro x hx
  by_cases hxy : y = x
  · subst hxy
    simp only [rd, List.getD_eq_getElem?_getD]
    by_cases hlt : y < m1.length
    · rw [List.getElem?_set_self hlt, List.getElem?_set_self (by omega)]
    · rw [List.getElem?_eq_none (by simp; omega), List.getElem?_eq_none (by simp; omega)]
  · have := h x hx
    simp only [rd, List.getD_eq_getElem?_getD] at this ⊢
    rw [List.getElem?_set_ne hxy, List.getElem?_set_ne hxy]
    exact this

/-- Lock-step lemma for writes performed by a call. -/
theorem applyWrites_agree (D own : List Nat) (ws : List (Nat × Nat)) :
    ∀ m1 m2 : List Nat, m1.length = m2.length → (∀ x, x ∉ D → rd m1 x = rd m2 x) →
      ∀ x, x ∉ D → rd (applyWrites own m1 ws) x = rd (applyWrites own m2 ws) x := by
  induction ws with
  | nil => intro m1 m2 _ h; exact h
  | cons w ws ih =>
    intro m1 m2 hl h
    simp only [applyWrites, List.foldl_cons]
    have hstep : (writeOne own m1 w).length = (writeOne own m2 w).length := by
      rw [writeOne_length, writeOne_length, hl]
    refine ih (writeOne own m1 w) (writeOne own m2 w) hstep ?_
    unfold writeOne
    split
    · exact set_agree D m1 m2 hl _ _ h
    · exact h

theorem agree_call (D : List Nat) (s t : St) (r : Flow) (c : CallData) (hs : flowSafe r = true)
    (hi : Inv s) (ha : Agree D s t) (hav : ∀ x ∈ c.args, x ∉ D) : Agree D (call s r c) (call t r c) := by
  have hE : entrySafe r = true := by simp [flowSafe] at hs; exact hs.1
  have hX : exitSafe r = true := by simp [flowSafe] at hs; exact hs.2
  have hDlt : ∀ x ∈ D, x < s.mem.length := fun x hx => hi.callerLt x (ha.dead x hx)
  simp only [call, hE, hX, if_true, ← ha.db, ← ha.caller, ← ha.len]
  generalize hargs : c.args.filter (· ∈ s.caller) = args
  have hargsD : ∀ x ∈ args, x ∉ D := by
    intro x hx; rw [← hargs] at hx; exact hav x (List.mem_filter.1 hx).1
  -- entry copies agree
  have hcopy : args.map (rd s.mem) = args.map (rd t.mem) :=
    List.map_congr_left (fun x hx => ha.mem x (hargsD x hx))
  rw [← hcopy]
  have hl1 : (s.mem ++ args.map (rd s.mem)).length = (t.mem ++ args.map (rd s.mem)).length := by
    simp [ha.len]
  rw [← hl1]
  generalize hown : List.range' s.mem.length args.length
      ++ List.range' (s.mem ++ args.map (rd s.mem)).length c.fresh.length = own
  have hownD : ∀ x ∈ own, x ∉ D := by
    intro x hx hD
    have := hDlt x hD
    rw [← hown] at hx
    simp only [List.mem_append] at hx
    rcases hx with h | h
    · have := mem_range'.1 h; omega
    · have := mem_range'.1 h; simp at this; omega
  have hm2 : ∀ x, x ∉ D → rd (s.mem ++ args.map (rd s.mem) ++ c.fresh) x = rd (t.mem ++ args.map (rd s.mem) ++ c.fresh) x := by
    intro x hx
    rw [List.append_assoc, List.append_assoc, rd_append_cases, rd_append_cases, ha.len]
    split
    · exact ha.mem x hx
    · rfl
  have hl2 : (s.mem ++ args.map (rd s.mem) ++ c.fresh).length = (t.mem ++ args.map (rd s.mem) ++ c.fresh).length := by
    simp [ha.len]
  have hm3 := applyWrites_agree D own c.writes _ _ hl2 hm2
  have hl3 : (applyWrites own (s.mem ++ args.map (rd s.mem) ++ c.fresh) c.writes).length
      = (applyWrites own (t.mem ++ args.map (rd s.mem) ++ c.fresh) c.writes).length := by
    rw [applyWrites_length, applyWrites_length, hl2]
  generalize hM3 : applyWrites own (s.mem ++ args.map (rd s.mem) ++ c.fresh) c.writes = M3 at hm3 hl3
  generalize hN3 : applyWrites own (t.mem ++ args.map (rd s.mem) ++ c.fresh) c.writes = N3 at hm3 hl3
  generalize hdb : c.keep.filter (· ∈ s.db) ++ (List.range' s.mem.length args.length).take c.nStore
      ++ List.range' (s.mem ++ args.map (rd s.mem)).length c.fresh.length = db'
  -- database nodes are outside D
  have hdbD : ∀ x ∈ db', x ∉ D := by
    intro x hx hD
    have hlt := hDlt x hD
    rw [← hdb] at hx
    simp only [List.mem_append, List.mem_filter, decide_eq_true_eq] at hx
    rcases hx with (⟨_, h⟩ | h) | h
    · exact hi.disj x (ha.dead x hD) h
    · have := mem_range'.1 (List.mem_of_mem_take h); omega
    · have := mem_range'.1 h; simp at this; omega
  generalize hret : c.ret.filter (· ∈ db') = ret
  have hretD : ∀ x ∈ ret, x ∉ D := by
    intro x hx; rw [← hret] at hx
    have := List.mem_filter.1 hx
    exact hdbD x (by simpa using this.2)
  have hrcopy : ret.map (rd M3) = ret.map (rd N3) :=
    List.map_congr_left (fun x hx => hm3 x (hretD x hx))
  refine ⟨?_, rfl, ?_, ?_, ?_⟩
  · simp [hl3]
  · rw [hl3]
  · intro x hx
    rw [← hrcopy, rd_append_cases, rd_append_cases, hl3]
    split
    · exact hm3 x hx
    · rfl
  · intro x hx
    exact List.mem_append_left _ (ha.dead x hx)

theorem agree_step (D : List Nat) (s t : St) (st : Step) (hs : st.safe = true) (hi : Inv s)
    (ha : Agree D s t) (hav : st.avoids D) : Agree D (step s st) (step t st) := by
  cases st with
  | alloc vals =>
    refine ⟨by simp [step, ha.len], ha.db, by simp [step, ha.caller, ha.len], ?_, ?_⟩
    · intro x hx
      simp only [step]
      rw [rd_append_cases, rd_append_cases, ha.len]
      split
      · exact ha.mem x hx
      · rfl
    · intro x hx
      exact List.mem_append_left _ (ha.dead x hx)
  | write y v =>
    simp only [step, ← ha.caller]
    split
    · refine ⟨by simp [ha.len], ha.db, rfl, ?_, ha.dead⟩
      intro x hx
      by_cases hxy : y = x
      · subst hxy
        simp only [rd, List.getD_eq_getElem?_getD]
        by_cases hlt : y < s.mem.length
        · rw [List.getElem?_set_self hlt, List.getElem?_set_self (by rw [← ha.len]; exact hlt)]
        · rw [List.getElem?_eq_none (by simp; omega), List.getElem?_eq_none (by simp; rw [← ha.len]; omega)]
      · have := ha.mem x hx
        simp only [rd, List.getD_eq_getElem?_getD] at this ⊢
        rw [List.getElem?_set_ne hxy, List.getElem?_set_ne hxy]
        exact this
    · exact ha
  | call r c => exact agree_call D s t r c hs hi ha hav

theorem agree_observe (D : List Nat) (s t : St) (hi : Inv s) (ha : Agree D s t) : observe s = observe t := by
  simp only [observe, ← ha.db]
  apply List.map_congr_left
  intro x hx
  exact ha.mem x (fun hD => hi.disj x (ha.dead x hD) hx)

theorem agree_runFrom (D : List Nat) (h : List Step) : ∀ s t, Inv s → Agree D s t →
    (∀ st ∈ h, st.safe = true) → (∀ st ∈ h, st.avoids D) → Agree D (runFrom s h) (runFrom t h) ∧ Inv (runFrom s h) := by
  induction h with
  | nil => intro s t hi ha _ _; exact ⟨ha, hi⟩
  | cons st h ih =>
    intro s t hi ha hs hav
    exact ih (step s st) (step t st) (inv_step s st (hs st (by simp)) hi)
      (agree_step D s t st (hs st (by simp)) hi ha (hav st (by simp)))
      (fun u hu => hs u (by simp [hu])) (fun u hu => hav u (by simp [hu]))

/-- **separation** (DESIGN §9 C17, full form).  Take any safe history `h₁`, then let the caller perform
    arbitrary writes `ws` to nodes `D` it owns, then continue with any safe history `h₂` that never passes a
    node of `D` to a call again (the caller may keep writing to other nodes).  The database observed at the
    end is exactly the one observed in the history WITHOUT those writes. -/
theorem separation_erase (h₁ h₂ : List Step) (ws : List (Nat × Nat))
    (hs₁ : ∀ st ∈ h₁, st.safe = true) (hs₂ : ∀ st ∈ h₂, st.safe = true)
    (hD : ∀ w ∈ ws, w.1 ∈ (run h₁).caller)
    (hav : ∀ st ∈ h₂, st.avoids (ws.map (·.1))) :
    observe (run (h₁ ++ ws.map (fun w => Step.write w.1 w.2) ++ h₂)) = observe (run (h₁ ++ h₂)) := by
  have hi := separation h₁ hs₁
  simp only [run, runFrom, List.foldl_append] at hi hD ⊢
  generalize List.foldl step St.init h₁ = s at hi hD
  -- the writes produce a state that agrees with `s` outside D
  have hw : ∀ (ws' : List (Nat × Nat)) (u : St), Agree (ws.map (·.1)) u s → Inv u →
      (∀ w ∈ ws', w.1 ∈ ws.map (·.1)) →
      Agree (ws.map (·.1)) (List.foldl step u (ws'.map fun w => Step.write w.1 w.2)) s
        ∧ Inv (List.foldl step u (ws'.map fun w => Step.write w.1 w.2)) := by
    intro ws'
    induction ws' with
    | nil => intro u ha hiu _; exact ⟨ha, hiu⟩
    | cons w ws' ih =>
      intro u ha hiu hmem
      simp only [List.map_cons, List.foldl_cons]
      refine ih _ ?_ (inv_step u (.write w.1 w.2) rfl hiu) (fun w' hw' => hmem w' (by simp [hw']))
      simp only [step]
      split
      · refine ⟨by simp [ha.len], ha.db, ha.caller, ?_, ha.dead⟩
        intro x hx
        have hne : w.1 ≠ x := fun h => hx (h ▸ hmem w (by simp))
        have := ha.mem x hx
        simp only [rd, List.getD_eq_getElem?_getD] at this ⊢
        rw [List.getElem?_set_ne hne]
        exact this
      · exact ha
  have hself : Agree (ws.map (·.1)) s s := ⟨rfl, rfl, rfl, fun _ _ => rfl, by
    intro x hx
    obtain ⟨w, hw1, rfl⟩ := List.mem_map.1 hx
    exact hD w hw1⟩
  obtain ⟨ha, hiu⟩ := hw ws s hself hi (fun w hw' => List.mem_map.2 ⟨w, hw', rfl⟩)
  have := agree_runFrom (ws.map (·.1)) h₂ _ s hiu ha hs₂ hav
  simp only [runFrom] at this
  exact agree_observe _ _ _ this.2 this.1

/-! ## The extracted table is safe -/

/-- Every row of the expected driver flow table — which `tie_ApiFlow_apiFlow` equates with the table
    regenerated from /repo — lets no argument in and no result out without a copy. -/
theorem expected_flow_safe : ∀ r ∈ Expected.apiFlow, flowSafe r = true := by decide

/-! ## Non-vacuity and negative examples -/

def safeRow : Flow :=
  { name := "Collection.InsertOne"
    params := [("document", .transform)]
    results := [("InsertedID", .copyValue)] }

def rawResultRow : Flow :=
  { name := "Collection.InsertOne (pre-fix)"
    params := [("document", .transform)]
    results := [("InsertedID", (.raw "bsonkit.Get(result.Modified[0], _id)"))] }

def rawEntryRow : Flow :=
  { name := "InsertOne without Transform"
    params := [("document", (.raw "document.(bson.D)"))]
    results := [("InsertedID", .copyValue)] }

/-- the caller builds a two-node document, inserts it (both nodes stored, one handed back), then writes to
    the result and to the argument -/
def demo (r : Flow) : List Step :=
  [ .alloc [10, 11],
    .call r { args := [0, 1], keep := [], nStore := 2, fresh := [], writes := [], ret := [2, 0] },
    .write 4 99, .write 0 77 ]

/-- with the safe row the hypotheses of `separation` hold for a history that really stores and returns
    nodes, and the database keeps the inserted contents whatever the caller writes afterwards -/
example : (∀ st ∈ demo safeRow, st.safe = true) ∧ observe (run (demo safeRow)) = [10, 11]
    ∧ (run (demo safeRow)).caller = [0, 1, 4] ∧ (run (demo safeRow)).db = [2, 3] := by decide

/-- **negative**: a raw result (the pre-fix `InsertedID`) admits a history where a caller write to the
    result changes the database observation -/
theorem raw_result_leaks :
    observe (run [.alloc [10, 11], .call rawResultRow { args := [0, 1], keep := [], nStore := 2, fresh := [], writes := [], ret := [2] }])
      = [10, 11] ∧
    observe (run [.alloc [10, 11], .call rawResultRow { args := [0, 1], keep := [], nStore := 2, fresh := [], writes := [], ret := [2] },
      .write 2 99]) = [99, 11] ∧ flowSafe rawResultRow = false := by decide

/-- **negative**: a raw entry (a `Transform` replaced by a type assertion) stores the caller's own nodes:
    a later caller write to its argument changes the database observation -/
theorem raw_entry_leaks :
    observe (run [.alloc [10, 11], .call rawEntryRow { args := [0, 1], keep := [], nStore := 2, fresh := [], writes := [], ret := [] },
      .write 0 77]) = [77, 11] ∧ flowSafe rawEntryRow = false := by decide

/-- **negative**: with a raw entry the call's in-place writes (e.g. `Put(doc, "_id", …)`) hit the argument -/
theorem raw_entry_modifies_args :
    rd (run [.alloc [10, 11], .call rawEntryRow { args := [0, 1], keep := [], nStore := 2, fresh := [], writes := [(0, 55)], ret := [] }]).mem 0
      = 55 := by decide

end Lungo.C17
