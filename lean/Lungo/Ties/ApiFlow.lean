/- Tie (T): regenerated facts of /repo's current source equal the expectations the model was written against. -/
import Lungo.Gen.ApiFlow
import Lungo.Expected.ApiFlow
namespace Lungo

theorem tie_ApiFlow_apiFlow : Gen.apiFlow = Expected.apiFlow := rfl

end Lungo
