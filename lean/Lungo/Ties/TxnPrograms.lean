/- Tie (T): the clone/mutate/publish programs of the Transaction write methods and the write structure of
   the mongokit.Collection methods, regenerated from /repo/transaction.go and /repo/mongokit/collection.go by
   go/cmd/extract/txnprog.go, equal the terms the C02/C03 theorems are proved about. -/
import Lungo.Gen.TxnPrograms
import Lungo.Expected.TxnPrograms
namespace Lungo

theorem tie_txnPrograms : Gen.txnPrograms = Expected.txnPrograms := by decide +kernel

theorem tie_collPrograms : Gen.collPrograms = Expected.collPrograms := by decide +kernel

theorem tie_cloneBodies : Gen.cloneBodies = Expected.cloneBodies := by decide +kernel

/-- hence the regenerated programs pass the ownership check -/
theorem gen_owned : ∀ p ∈ Gen.txnPrograms, Own.ownedOK p.2 = true := by
  rw [tie_txnPrograms]; exact Expected.expected_owned

end Lungo
