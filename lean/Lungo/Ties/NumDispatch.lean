/- Tie (T): regenerated facts of /repo's current source equal the expectations the model was written against. -/
import Lungo.Gen.NumDispatch
import Lungo.Expected.NumDispatch
namespace Lungo

theorem tie_NumDispatch_compareNumbers : Gen.compareNumbers = Expected.compareNumbers := rfl

theorem tie_NumDispatch_add : Gen.add = Expected.add := rfl

theorem tie_NumDispatch_mul : Gen.mul = Expected.mul := rfl

theorem tie_NumDispatch_compareHelpers : Gen.compareHelpers = Expected.compareHelpers := rfl

end Lungo
