/- Tie (T): the call/defer/error-edge sequence of dbkit.AtomicWriteFile regenerated from /repo equals the
   program `Expected.atomicWriteSteps` the C05 theorems are proved about. -/
import Lungo.Gen.AtomicWrite
import Lungo.Expected.AtomicWrite
namespace Lungo

theorem tie_atomicWrite : Gen.atomicWriteSteps = Expected.atomicWriteSteps := by decide

/-- the temporary name the calls operate on is `path + ".tmp"` (≠ `path`: hypothesis `hne` of the C05 theorems) -/
theorem tie_atomicWriteTmp : Gen.atomicWriteTmpDistinct = Expected.atomicWriteTmpDistinct := by decide

end Lungo
