/- Tie (T): the synchronisation skeleton (lock / unlock / acquire / release / alive? / kill / wait /
   tracked assignments, calls and channel operations / control structure) of the Engine, Session,
   Stream and Semaphore functions regenerated from /repo equals `Expected.skeleton`, the skeleton the
   transition systems `Lungo.Conc` (C04, C16) and `Lungo.StreamTS` (C09) were written against.
   One tie per function, so a failure names the function; `tie_skeleton` is the whole list. -/
import Lungo.Gen.Skeleton
import Lungo.Expected.Skeleton
namespace Lungo

theorem tie_skeleton_Engine_Catalog : some Gen.sk_Engine_Catalog = Expected.find? "Engine.Catalog" := by decide
theorem tie_skeleton_Engine_Begin : some Gen.sk_Engine_Begin = Expected.find? "Engine.Begin" := by decide
theorem tie_skeleton_Engine_Commit : some Gen.sk_Engine_Commit = Expected.find? "Engine.Commit" := by decide
theorem tie_skeleton_Engine_Abort : some Gen.sk_Engine_Abort = Expected.find? "Engine.Abort" := by decide
theorem tie_skeleton_Engine_Watch : some Gen.sk_Engine_Watch = Expected.find? "Engine.Watch" := by decide
theorem tie_skeleton_Engine_Close : some Gen.sk_Engine_Close = Expected.find? "Engine.Close" := by decide
theorem tie_skeleton_Engine_expire : some Gen.sk_Engine_expire = Expected.find? "Engine.expire" := by decide
theorem tie_skeleton_Session_startTransaction : some Gen.sk_Session_startTransaction = Expected.find? "Session.startTransaction" := by decide
theorem tie_skeleton_Session_CommitTransaction : some Gen.sk_Session_CommitTransaction = Expected.find? "Session.CommitTransaction" := by decide
theorem tie_skeleton_Session_AbortTransaction : some Gen.sk_Session_AbortTransaction = Expected.find? "Session.AbortTransaction" := by decide
theorem tie_skeleton_Session_EndSession : some Gen.sk_Session_EndSession = Expected.find? "Session.EndSession" := by decide
theorem tie_skeleton_Session_Transaction : some Gen.sk_Session_Transaction = Expected.find? "Session.Transaction" := by decide
theorem tie_skeleton_Session_WithTransaction : some Gen.sk_Session_WithTransaction = Expected.find? "Session.WithTransaction" := by decide
theorem tie_skeleton_useTransaction : some Gen.sk_useTransaction = Expected.find? "useTransaction" := by decide
theorem tie_skeleton_Stream_next : some Gen.sk_Stream_next = Expected.find? "Stream.next" := by decide
theorem tie_skeleton_Stream_Close : some Gen.sk_Stream_Close = Expected.find? "Stream.Close" := by decide
theorem tie_skeleton_Semaphore_Acquire : some Gen.sk_Semaphore_Acquire = Expected.find? "Semaphore.Acquire" := by decide
theorem tie_skeleton_Semaphore_Release : some Gen.sk_Semaphore_Release = Expected.find? "Semaphore.Release" := by decide

theorem tie_skeleton : Gen.skeleton = Expected.skeleton := by decide

end Lungo
