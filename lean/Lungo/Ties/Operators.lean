/- Tie (T): regenerated facts of /repo's current source equal the expectations the model was written against. -/
import Lungo.Gen.Operators
import Lungo.Expected.Operators
namespace Lungo

theorem tie_Operators_operators : Gen.operators = Expected.operators := rfl

end Lungo
