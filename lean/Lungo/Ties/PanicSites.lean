/- Tie (T): regenerated facts of /repo's current source equal the expectations the model was written against. -/
import Lungo.Gen.PanicSites
import Lungo.Expected.PanicSites
namespace Lungo

theorem tie_PanicSites_panicSites : Gen.panicSites = Expected.panicSites := rfl

end Lungo
