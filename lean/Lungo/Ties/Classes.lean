/- Tie (T): regenerated facts of /repo's current source equal the expectations the model was written against. -/
import Lungo.Gen.Classes
import Lungo.Expected.Classes
namespace Lungo

theorem tie_Classes_classOrder : Gen.classOrder = Expected.classOrder := rfl

theorem tie_Classes_inspectArms : Gen.inspectArms = Expected.inspectArms := rfl

end Lungo
