HOOK_COMMITS = ["d639aa3"]
NOT_APPLICABLE = {f"C{i:02d}": "check under construction (framework being built breadth-first, see DESIGN.md §13); not yet claimed" for i in range(1, 21)}
TEXT = {
    "C10": {
        "text": "The ten logical laws ($nor/$ne/$nin/$not exact negations, $and/$or short-circuit conjunction/disjunction, $in = disjunction of $eq, $gte/$lte = $gt/$lt or $eq, document = $and of entries) are Lean theorems over the executable model of mongokit.Match for ALL documents, ALL filter values and every $jsonSchema evaluator; the model is tied to the code by the operator-table/class facts regenerated from source and by a differential correspondence on generated (document, filter) pairs incl. malformed filters; the laws are additionally monitored on the implementation's own answers.",
        "note": "Trusted: Lean kernel; extractor+harness; Compare model (C12); $jsonSchema is a parameter (regex keywords unmodelled). Agreement with the DESIGN §8 reference semantics on the core domain is validated by correspondence of the model only (Spec agreement theorem not yet proved).",
    },
    "C12": {
        "text": "Reflexivity, antisymmetry (swap), transitivity, congruence of equal values, class-rank order and exactness of the numeric order (all four numeric types, NaN lowest) are Lean theorems over the model of bsonkit.Compare for ALL values; tie: class order + compareNumbers dispatch + helper bodies regenerated from source, differential correspondence on collision-rich pairs/triples plus an independent big.Rat oracle and order-law monitors on the implementation.",
        "note": "Trusted: Lean kernel; Go float comparison/conversion semantics as modelled; shopspring decimal.Cmp exact; strings valid UTF-8.",
    },
    "C06": {
        "text": "codec_roundtrip (byte-level BSON encode/decode of every supported value incl. NaN payloads, -0, Decimal128 specials, binary subtypes), file_roundtrip and reload_identity (buildCatalog ∘ decodeFile ∘ encodeFile ∘ buildFile = id on well-formed catalogs; the necessity of dot-free database names is itself a theorem) are Lean theorems; the model codec is compared byte for byte with bson.Marshal/Unmarshal and the model's load/store with the real FileStore on generated API histories (reopen, canonical dump, duplicate probes against every unique index).",
        "note": "Trusted: Lean kernel; the real BSON codec (compared, not verified); index rebuild on load enters reload_identity as parameter indexOk (C15 covers index content); Go map order (decode is order-insensitive; exercised on real files).",
    },
    "C05": {
        "text": "crash_old_or_new, kill_old_or_new, durable_after_return, fault_reports, rerun_after_crash/fault and visible_le_durable are Lean theorems for every old/new content, every split of the writes, every prefix of system calls, every fault plan and every outcome of a POSIX-style crash adversary (any subset of un-synced directory operations, arbitrary un-synced data), about the program Expected.atomicWriteSteps; that program is regenerated from dbkit/atomic.go on every run (call order, error edges, defers, O_EXCL) and compared in Lean; negative theorems show that dropping either fsync or reordering the rename breaks the property. The real code is validated by killing a real writer process at every syscall of a commit (strace injection), by loading every model-enumerated power-loss image with the real FileStore.Load, and by failing/panicking Store calls.",
        "note": "Partial w.r.t. real kernels/file systems/disks (represented by the stated crash model). Corner recorded: a failure of the directory open/fsync AFTER the rename returns an error although the file already shows the new state.",
    },
    "C18": {
        "text": "upload_chunks (chunks 0..n-1, all but the last full, exact length and chunk size), upload_partition_independent, download_simulates (a simulation between DownloadStream and an in-memory reader for every read/skip/seek script incl. invalid whence), upload_then_download, abort/delete_leaves_nothing, resume_equivalent (suspend/resume at arbitrary points) and write_never_diverges are Lean theorems for all contents, chunk sizes 0 < c <= buffer, partitions and scripts; the model of bucket.go is tied by a differential stream through the real Bucket over an in-memory engine (contents up to and around the 16 MiB buffer, tracked and untracked lifecycles) with independent monitors (bytes.Reader replay, chunk numbering, leftovers).",
        "note": "Trusted: Lean kernel; the engine below the bucket; no extractor fact yet for bucket.go (tie is correspondence only).",
    },
    "C13": {
        "text": "sort_perm, sort_nondecreasing (all pairs), sort_stable / ties_in_insertion_order, sort_unique (any permutation that is non-decreasing and tie-preserving equals the model's sort), the sort-key lemmas (arrays by minimum ascending / maximum descending, missing as null, empty array as itself), order_lexicographic/reverse, distinct_ascending (strict), distinct_sound/complete are Lean theorems about the model of bsonkit.Sort / mongokit.Sort / Collect for all lists and specifications; differential streams on generated lists with independent monitors (permutation, non-decreasing, stability, distinct set equality). The find/skip/limit window theorems are being added on the collection model.",
        "note": "Trusted: Lean kernel; Go sort contracts as stated; Compare laws (C12). collect_elements is partial for fan-out paths.",
    },
}
