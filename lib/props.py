"""Per-property configuration of ./check: Lean modules holding the property theorems, audit
files, tie (T) modules, and correspondence (C) streams with their quick budgets."""

TRUSTED_BASE = [
    "Lean 4.33 kernel (thorough tier: re-checked by leanchecker)",
    "axioms at most propext, Classical.choice, Quot.sound (audited per theorem by #print axioms)",
    "statements in lean/Lungo/Props and lean/Lungo/Spec",
    "translator go/cmd/extract (facts compared in Lean by rfl/decide) and harness go/internal (generators, canonicaliser, differ)",
    "modelled-not-verified: mongo-driver/bson codec, shopspring/decimal, tidwall/btree, Go sort/map/append, sync/channels/tomb, kernel file system (DESIGN §6)",
]

PROPS = {
    "C12": {
        "props_modules": ["Lungo.Props.C12"],
        "audit_files": ["Lungo/Audit/C12.lean"],
        "tie_modules": ["Lungo.Ties.Classes", "Lungo.Ties.NumDispatch"],
        "streams": [("cmp", 40000)],
        "thorough_mult": 40,
        "trusted": ["Go float comparison/conversion semantics as stated in Model/Compare.lean", "decimal.Decimal.Cmp exact"],
        "assumptions": ["strings are valid UTF-8 (byte-wise order = code-point order)"],
    },
    "C10": {
        "props_modules": ["Lungo.Props.C10"],
        "audit_files": ["Lungo/Audit/C10.lean"],
        "tie_modules": ["Lungo.Ties.Operators", "Lungo.Ties.Classes"],
        "streams": [("match", 40000)],
        "thorough_mult": 50,
        "trusted": ["$jsonSchema evaluation is a parameter of the laws; regex keywords unmodelled"],
        "assumptions": ["MongoDB semantics = DESIGN §8 reference semantics (no server available offline)"],
    },
    "C06": {
        "props_modules": ["Lungo.Props.C06"],
        "audit_files": ["Lungo/Audit/C06.lean"],
        "tie_modules": [],
        "streams": [("codec", 20000), ("reload", 150)],
        "thorough_mult": 30,
        "trusted": ["mongo-driver/bson Marshal/Unmarshal (compared byte for byte with the model codec)", "index build on load is the parameter indexOk of reload_identity"],
        "assumptions": ["strings/keys are valid UTF-8; BSON types outside the 13 supported ones do not occur"],
    },
    "C05": {
        "props_modules": ["Lungo.Props.C05"],
        "audit_files": ["Lungo/Audit/C05.lean"],
        "tie_modules": ["Lungo.Ties.AtomicWrite"],
        "streams": [("crash", 8)],
        "thorough_mult": 8,
        "trusted": ["POSIX-style crash model of Model/FS.lean stands for the kernel/file system/disk (stricter than ext4/xfs ordered mode; disks that lie about fsync are out of scope)",
                    "kill points validated on the real kernel via strace fault injection; power-loss images only through the model",
                    "Model/CommitStore.lean (store-then-publish of Engine.Commit) is hand-written"],
        "assumptions": ["strace/ptrace available (else the stream degrades to images + store faults and says so)"],
    },
    "C18": {
        "props_modules": ["Lungo.Props.C18"],
        "audit_files": ["Lungo/Audit/C18.lean"],
        "tie_modules": [],
        "streams": [("gridfs", 150)],
        "thorough_mult": 12,
        "trusted": ["the lungo collection engine under the bucket (its own properties C01..C17)", "gridfs.UploadBufferSize and DefaultChunkSize read from source and passed to the model"],
        "assumptions": ["single goroutine per stream (mutexes not modelled)"],
    },
    "C13": {
        "props_modules": ["Lungo.Props.C13"],
        "audit_files": ["Lungo/Audit/C13.lean"],
        "tie_modules": [],
        "streams": [("sort", 15000), ("distinct", 15000)],
        "thorough_mult": 40,
        "trusted": ["sort.SliceStable = the unique stable sort (sort_unique shows List.mergeSort loses nothing)", "sort.Slice inside Collect is only observed modulo Compare = 0"],
        "assumptions": ["int64 payloads in range (V.i64Ok) for transitivity of the order"],
    },
}
