#!/bin/bash
# tools/trial_all.sh [seed-id ...] — run every stored seeded change (or the named ones) through
# tools/try_seed.sh and record the outcome in seeded/<id>/trial.txt (VIOLATION lines + exit code).
cd /verif
ids=("$@"); [ ${#ids[@]} -eq 0 ] && ids=($(ls seeded))
for s in "${ids[@]}"; do
  p=$(jq -r .property seeded/$s/meta.json)
  out=$(tools/try_seed.sh "$p" seeded/$s/patch.diff quick 2>&1)
  rc=$?
  { echo "seed=$s property=$p check='./check $p --tier quick' exit=$rc repo=$(git -C /repo rev-parse --short HEAD) verif=$(git rev-parse --short HEAD)";
    rp=$(echo "$out" | grep -oE 'replay=[^ ]+' | head -1 | cut -d= -f2)
    [ -n "$rp" ] && [ -f "$rp" ] && jq -c '{kind, stream, what, n_disagreements: ((.disagreements // [])|length), broken: [.broken[]? | .kind + ":" + ((.module // .stream // "")|tostring)]}' "$rp" | sed 's/^/detected: /'
    echo "$out" | grep -E '^(VIOLATION|KNOWN-FINDING|BROKEN|broken|  witness|witness)' | sed 's#/tmp/seed-evidence-[0-9]*#evidence#' | head -12; } > seeded/$s/trial.txt
  echo "$s exit=$rc $(grep -c '^VIOLATION' seeded/$s/trial.txt) violation line(s)$(grep -q no-failing-input-found seeded/$s/trial.txt && echo ' NO-FAILING-INPUT')"
done
