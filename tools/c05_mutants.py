#!/usr/bin/env python3
"""Scratch protocol mutants of dbkit/atomic.go for the C05 counterexample search (model op `fs.search`).

For every mutant: copy /repo to a scratch directory under /tmp, rewrite dbkit/atomic.go, check that the package
still compiles (`go build ./dbkit/`), run `go/bin/extract -repo <copy> -out <scratch gen dir>`, send the regenerated
step list (<gen>/AtomicWrite.json) to `lungo_model` op `fs.search` with the corpus shapes, print the first
counterexample, compare its kind with the expected one; delete the copy. /repo itself is never touched.
The unchanged protocol must be safe on every shape.

  tools/c05_mutants.py [name ...]        (default: unchanged + all mutants; a few seconds each)
  tools/c05_mutants.py --stream name     additionally run the harness stream `crash` corpus on the mutant's
                                         Gen directory (LUNGO_GEN_DIR) and print the violation it reports
Needs go/bin/extract, go/bin/harness and lean/.lake/build/bin/lungo_model (./check --setup, or the build commands of CONVENTIONS).
"""
import json, os, shutil, subprocess, sys, tempfile

ROOT = os.path.dirname(os.path.dirname(os.path.abspath(__file__)))
REPO = os.environ.get("VERIF_REPO", "/repo")
MODEL = os.environ.get("LUNGO_MODEL", os.path.join(ROOT, "lean/.lake/build/bin/lungo_model"))
EXTRACT = os.path.join(ROOT, "go/bin/extract")
HARNESS = os.path.join(ROOT, "go/bin/harness")
ENV = dict(os.environ, GOFLAGS="-mod=mod", GOPROXY="off")
ENV.pop("GOSUMDB", None)

MUTANTS = {}


def mutant(name, what, expect):
    """expect: set of acceptable counterexample kinds, 'safe', or 'unrepresentable'"""
    def deco(f):
        MUTANTS[name] = (what, expect, f)
        return f
    return deco


def patcher(root):
    def P(old, new, count=1):
        p = os.path.join(root, "dbkit/atomic.go")
        s = open(p).read()
        assert s.count(old) == count, (old, s.count(old))
        open(p, "w").write(s.replace(old, new))
    return P


RENAME = '''	// rename temporary file
	err = os.Rename(tempPath, path)
	if err != nil {
		return fmt.Errorf("failed to rename temporary file from %q to %q: %v", tempPath, path, err)
	}

'''
DIRSYNC = '''	// fsync parent directory so the rename is durable across crashes
	dir, err := os.Open(filepath.Dir(path))
	if err != nil {
		return fmt.Errorf("failed to open parent directory of %q: %v", path, err)
	}
	defer dir.Close()
	if err := dir.Sync(); err != nil {
		return fmt.Errorf("failed to sync parent directory of %q: %v", path, err)
	}

'''
FSYNC = '''	// sync temporary file
	err = tempFile.Sync()
	if err != nil {
		return fmt.Errorf("failed to sync temporary file %q: %v", tempPath, err)
	}

'''
CLOSE = '''	// close temporary file
	err = tempFile.Close()
	if err != nil {
		return fmt.Errorf("failed to close temporary file %q: %v", tempPath, err)
	}

'''
REMOVE = '''	// delete existing file (might not exist)
	err := os.Remove(tempPath)
	if err != nil && !os.IsNotExist(err) {
		return fmt.Errorf("failed to remove existing temporary file %q: %v", tempPath, err)
	}

'''


@mutant('unchanged', 'the protocol of /repo as it is', 'safe')
def _unchanged(P):
    pass


@mutant('dirsync_before_rename', 'the directory fsync moved before the rename (seeded change C05-m3)', {'ackedLost'})
def _m_dirsync_first(P):
    P(RENAME, '')
    P(DIRSYNC, DIRSYNC + RENAME)


@mutant('no_fsync_tmp', 'no fsync of the temp file before the rename', {'notOldOrNew'})
def _m_no_fsync(P):
    P(FSYNC, '')


@mutant('rename_before_fsync', 'rename first, then fsync + close of the (already renamed) file', {'notOldOrNew'})
def _m_rename_first(P):
    P(RENAME, '')
    P(FSYNC, RENAME + FSYNC)


@mutant('no_dirsync', 'no fsync of the parent directory', {'ackedLost'})
def _m_no_dirsync(P):
    P(DIRSYNC, '')
    P('\t"path/filepath"\n', '')


@mutant('ignore_write_error', 'the result of io.Copy is ignored', {'notOldOrNew'})
def _m_ignore_write(P):
    P('''	_, err = io.Copy(tempFile, r)
	if err != nil {
		return fmt.Errorf("failed to write temporary file %q: %v", tempPath, err)
	}
''', '''	_, _ = io.Copy(tempFile, r)
''')


@mutant('ignore_fsync_error', 'the result of tempFile.Sync is ignored', {'notOldOrNew'})
def _m_ignore_fsync(P):
    P('''	err = tempFile.Sync()
	if err != nil {
		return fmt.Errorf("failed to sync temporary file %q: %v", tempPath, err)
	}
''', '''	_ = tempFile.Sync()
''')


@mutant('ignore_dirsync_error', 'the result of dir.Sync is ignored', {'ackedLost'})
def _m_ignore_dirsync(P):
    P('''	if err := dir.Sync(); err != nil {
		return fmt.Errorf("failed to sync parent directory of %q: %v", path, err)
	}
''', '''	_ = dir.Sync()
''')


@mutant('ignore_close_error', 'the result of tempFile.Close is ignored (harmless in the model: the data was fsynced before)', 'safe')
def _m_ignore_close(P):
    P('''	err = tempFile.Close()
	if err != nil {
		return fmt.Errorf("failed to close temporary file %q: %v", tempPath, err)
	}
''', '''	_ = tempFile.Close()
''')


@mutant('in_place', 'no temp file: tempPath := path (remove, create, write, fsync, "rename" all hit the store file)', {'notOldOrNew'})
def _m_in_place(P):
    P('tempPath := path + ".tmp"', 'tempPath := path')


@mutant('no_initial_remove', 'a stale temp file is not removed first (O_EXCL then fails for ever)', {'rerunFails'})
def _m_no_remove(P):
    P(REMOVE, '')
    P('tempFile, err := os.OpenFile(', 'var err error\n\ttempFile, err := os.OpenFile(')


@mutant('no_cleanup_remove', 'the deferred cleanup no longer removes the temp file (harmless: the next run removes it first)', 'safe')
def _m_no_cleanup_remove(P):
    P('		_ = os.Remove(tempPath)\n', '')


@mutant('no_excl', 'O_EXCL dropped and the stale temp not removed (seeded change C05-m1): overwriting a longer stale file in place '
        'is outside the append-only file model, the extractor emits an unknown call', 'unrepresentable')
def _m_no_excl(P):
    P(REMOVE, '')
    P('tempFile, err := os.OpenFile(tempPath, os.O_WRONLY|os.O_CREATE|os.O_EXCL, mode)',
      'tempFile, err := os.OpenFile(tempPath, os.O_WRONLY|os.O_CREATE, mode)')


@mutant('open_path_trunc', 'write in place through os.OpenFile(path, O_TRUNC): a call outside the vocabulary', 'unrepresentable')
def _m_open_trunc(P):
    P(REMOVE, '')
    P('tempFile, err := os.OpenFile(tempPath, os.O_WRONLY|os.O_CREATE|os.O_EXCL, mode)',
      'tempFile, err := os.OpenFile(path, os.O_WRONLY|os.O_CREATE|os.O_TRUNC, mode)')
    P(RENAME, '')
    P('		_ = os.Remove(tempPath)\n', '')


class Model:
    def __init__(self):
        self.p = subprocess.Popen([MODEL], stdin=subprocess.PIPE, stdout=subprocess.PIPE, text=True)

    def ask(self, req):
        self.p.stdin.write(json.dumps(req) + "\n")
        self.p.stdin.flush()
        return json.loads(self.p.stdout.readline())

    def close(self):
        self.p.stdin.close()
        self.p.wait()


def pattern(n, seed):
    return bytes((i * 7 + seed * 31 + i // 251) % 256 for i in range(n)).hex()


def shapes(model):
    out = [dict(s, name="lean%d" % i) for i, s in enumerate(model.ask({"op": "fs.shapes"})["ok"])]
    out += [
        {"name": "absent_multichunk_stale", "old": None, "chunks": ["0102", "030405"], "stale": True},
        {"name": "empty_new", "old": "0102", "chunks": [], "stale": False},
        {"name": "large_to_smaller", "old": pattern(6000, 1), "chunks": [pattern(2500, 2)], "stale": True},
        {"name": "small_to_large_3chunks", "old": pattern(40, 3), "chunks": [pattern(3000, 4), pattern(3000, 5), pattern(700, 6)], "stale": False},
    ]
    return out


def short(ce):
    if ce.get("loads") and len(ce["loads"]) > 32:
        ce = dict(ce, loads=ce["loads"][:32] + "…(%d bytes)" % (len(ce["loads"]) // 2))
    if ce.get("tmpLoads") and len(ce["tmpLoads"]) > 32:
        ce = dict(ce, tmpLoads=ce["tmpLoads"][:32] + "…")
    return json.dumps(ce, sort_keys=True)


def run_one(name, model, with_stream):
    what, expect, f = MUTANTS[name]
    scratch = tempfile.mkdtemp(prefix="c05-mutant-", dir="/tmp")
    ok = True
    try:
        copy = os.path.join(scratch, "repo")
        shutil.copytree(REPO, copy, ignore=shutil.ignore_patterns(".git"))
        f(patcher(copy))
        b = subprocess.run(["go", "build", "./dbkit/"], cwd=copy, env=ENV, stdout=subprocess.PIPE, stderr=subprocess.STDOUT, text=True)
        if b.returncode != 0:
            print(f"{name}: MUTANT DOES NOT COMPILE\n{b.stdout}")
            return False
        gen = os.path.join(scratch, "gen")
        os.makedirs(gen)
        x = subprocess.run([EXTRACT, "-repo", copy, "-out", gen], stdout=subprocess.PIPE, stderr=subprocess.STDOUT, text=True)
        if x.returncode != 0 or not os.path.exists(os.path.join(gen, "AtomicWrite.json")):
            print(f"{name}: extractor failed: {x.stdout}")
            return False
        g = json.load(open(os.path.join(gen, "AtomicWrite.json")))
        steps = " ".join(("defer[" + ",".join(s["defer"]) + "]") if "defer" in s else f"{s['call']}:{s['onErr']}" for s in g["steps"])
        print(f"== {name}: {what}\n   tmp={g['tmp']} steps: {steps}")
        kinds = {}
        first = None
        for sh in shapes(model):
            r = model.ask({"op": "fs.search", "steps": g["steps"], "tmp": g["tmp"], "old": sh["old"], "chunks": sh["chunks"], "stale": sh["stale"]})
            if "ce" in r:
                k = r["ce"]["kind"]
                first = first or (sh["name"], r["ce"])
            elif r.get("ok") == "safe":
                k = "safe"
            elif "unrepresentable" in r:
                k = "unrepresentable"
                first = first or (sh["name"], r)
            else:
                k = "BAD:" + json.dumps(r)
            kinds.setdefault(k, []).append(sh["name"])
        print("   result per shape: " + "; ".join(f"{k}: {','.join(v)}" for k, v in kinds.items()))
        if first:
            print(f"   first counterexample (shape {first[0]}): {short(first[1])}")
        got = set(kinds)
        if expect == 'safe':
            ok = got == {"safe"}
        elif expect == 'unrepresentable':
            ok = got == {"unrepresentable"}
        else:
            ok = bool(got & expect) and got <= (expect | {"safe"})
        print(f"   expected {expect if isinstance(expect, str) else sorted(expect)}: {'OK' if ok else 'MISMATCH'}")
        if with_stream:
            out = os.path.join(scratch, "crash.json")
            env = dict(ENV, LUNGO_GEN_DIR=gen, LUNGO_MODEL=MODEL)
            subprocess.run([HARNESS, "-stream", "crash", "-seed", "1", "-n", "0", "-out", out], cwd=os.path.join(ROOT, "go"), env=env,
                           stdout=subprocess.PIPE, stderr=subprocess.STDOUT, text=True)
            res = json.load(open(out))
            ws = sorted({v["witness"] for v in res.get("violations") or []})
            print(f"   stream crash corpus (LUNGO_GEN_DIR=<mutant gen>): violations={res['n_violations']} witnesses={ws}")
            for v in (res.get("violations") or [])[:1]:
                print("   what: " + v["what"][:700])
    finally:
        shutil.rmtree(scratch, ignore_errors=True)
    return ok


def main():
    args = sys.argv[1:]
    with_stream = "--stream" in args
    names = [a for a in args if not a.startswith("--")] or list(MUTANTS)
    model = Model()
    bad = [n for n in names if not run_one(n, model, with_stream)]
    model.close()
    print("ALL AS EXPECTED" if not bad else "MISMATCH: " + ", ".join(bad))
    return 1 if bad else 0


if __name__ == "__main__":
    sys.exit(main())
