#!/usr/bin/env python3
"""Scratch mutants for the monitor stream `ttlclock` (C19): shows that the real-time monitors have teeth.

For every mutant: copy /repo to a scratch directory under /tmp, apply the patch, build the harness against the
copy through a temporary modfile, run `harness -nomodel -stream ttlclock`, print the witness classes that fired,
delete the copy and the binary. /repo itself is never touched.

  tools/ttlclock_mutants.py [-n 32] [--seed 7] [name ...]        (default: all mutants; about 35 s each)
"""
import argparse, collections, json, os, shutil, subprocess, sys

ROOT = os.path.dirname(os.path.dirname(os.path.abspath(__file__)))
MUTANTS = {}


def mutant(name, what):
    def deco(f):
        MUTANTS[name] = (what, f)
        return f
    return deco


def patcher(root):
    def P(file, old, new, count=1):
        p = os.path.join(root, file)
        s = open(p).read()
        assert s.count(old) == count, (file, old, s.count(old))
        open(p, "w").write(s.replace(old, new))
    return P


@mutant('m1', 'expiry goroutine skips the pass when the catalog pointer did not change since the last pass')
def _m1(P):
    P('engine.go','''	for {
		// await next interval
		select {
		case <-e.tomb.Dying():
			return
		case <-ticker.C:
		}
''','''	var last *Catalog
	for {
		// await next interval
		select {
		case <-e.tomb.Dying():
			return
		case <-ticker.C:
		}
		if cur := e.Catalog(); cur == last {
			continue
		} else {
			last = cur
		}
''')


@mutant('m1b', 'same, remembering the catalog after the own commit')
def _m1b(P):
    P('engine.go','''	for {
		// await next interval
		select {
		case <-e.tomb.Dying():
			return
		case <-ticker.C:
		}
''','''	var last *Catalog
	for {
		// await next interval
		select {
		case <-e.tomb.Dying():
			return
		case <-ticker.C:
		}
		if e.Catalog() == last {
			continue
		}
		defer func() {}()
''')
    P('engine.go','''		// commit transaction
		err = e.Commit(txn)
		if err != nil {
			if reporter != nil {
				reporter(err)
			}
			continue
		}
''','''		// commit transaction
		err = e.Commit(txn)
		if err != nil {
			if reporter != nil {
				reporter(err)
			}
			continue
		}
		last = e.Catalog()
''')


@mutant('m2', 'ttl index list not reset per namespace (a TTL condition leaks into the next collections)')
def _m2(P):
    P('transaction.go','''	for handle, namespace := range clone.Namespaces {
		// check indexes
		var ttlIndexes []*mongokit.Index
''','''	var ttlIndexes []*mongokit.Index
	for handle, namespace := range clone.Namespaces {
		// check indexes
''')


@mutant('m3', 'expiry goroutine returns for good after a failed Begin (bounded wait of 2 intervals)')
def _m3(P):
    P('engine.go','''		txn, err := e.Begin(nil, true)
		if err != nil {
			if reporter != nil {
				reporter(err)
			}
			continue
		}
''','''		bctx, bcancel := context.WithTimeout(context.Background(), 2*interval)
		txn, err := e.Begin(bctx, true)
		bcancel()
		if err != nil {
			if reporter != nil {
				reporter(err)
			}
			return
		}
''')


@mutant('m3b', 'expiry goroutine parks for good after a failed Begin (bounded wait of 2 intervals)')
def _m3b(P):
    P('engine.go','''		txn, err := e.Begin(nil, true)
		if err != nil {
			if reporter != nil {
				reporter(err)
			}
			continue
		}
''','''		bctx, bcancel := context.WithTimeout(context.Background(), 2*interval)
		txn, err := e.Begin(bctx, true)
		bcancel()
		if err != nil {
			if reporter != nil {
				reporter(err)
			}
			<-e.tomb.Dying()
			return
		}
''')


@mutant('m4', 'expireAfterSeconds 0 mapped to "never"')
def _m4(P):
    P('indexes.go','''			expiry = time.Nanosecond
''','''			expiry = 0
''')


@mutant('m5', 'sign error in the cutoff (now + expiry)')
def _m5(P):
    P('transaction.go','"$lt": time.Now().Add(-expiry),','"$lt": time.Now().Add(expiry),')


@mutant('m6a', 'expiry removals are not logged')
def _m6a(P):
    P('transaction.go','''		res, err := t.delete(handle, oplog, namespace, bsonkit.MustConvert(bson.M{
			"$or": conditions,
		}), nil, 0, 0)''','''		res, err := namespace.Delete(bsonkit.MustConvert(bson.M{
			"$or": conditions,
		}), nil, 0, 0)''')


@mutant('m6b', 'a document matched by two TTL indexes is logged twice')
def _m6b(P):
    P('transaction.go','''		// increment
		deletions += len(res.Matched)
''','''		// increment
		deletions += len(res.Matched)
		if len(conditions) > 1 {
			for _, doc := range res.Matched {
				n := 0
				for _, cond := range conditions {
					q := bsonkit.MustConvert(cond.(bson.M))
					if ok, _ := mongokit.Match(doc, q); ok {
						n++
					}
				}
				for ; n > 1; n-- {
					_ = t.append(oplog, handle, "delete", doc, nil)
				}
			}
		}
''')


@mutant('m7', 'no type bracketing for $lt')
def _m7(P):
    P('mongokit/match.go','''		case "$lt":
			ok = comp && res < 0''','''		case "$lt":
			ok = res < 0''')


@mutant('m8', 'only one TTL index per collection is honoured')
def _m8(P):
    P('transaction.go','''		// check if any
		if len(ttlIndexes) == 0 {
			continue
		}
''','''		// check if any
		if len(ttlIndexes) == 0 {
			continue
		}
		for len(ttlIndexes) > 1 {
			if (*ttlIndexes[0].Config().Key)[0].Key < (*ttlIndexes[1].Config().Key)[0].Key {
				ttlIndexes = append(ttlIndexes[:1], ttlIndexes[2:]...)
			} else {
				ttlIndexes = ttlIndexes[1:]
			}
		}
''')


@mutant('m9', 'one-shot timer instead of a ticker')
def _m9(P):
    P('engine.go','''	ticker := time.NewTicker(interval)
	defer ticker.Stop()''','''	ticker := time.NewTimer(interval)
	defer ticker.Stop()''')


@mutant('m10', 'a pass that removed fewer than three documents is not published')
def _m10(P):
    P('transaction.go','''	if deletions > 0 {
		t.catalog = clone
		t.dirty = true
	}

	return nil
}''','''	if deletions > 2 {
		t.catalog = clone
		t.dirty = true
	}

	return nil
}''')


@mutant('m10b', 'a pass that removed exactly one document is not published')
def _m10b(P):
    P('transaction.go','''	if deletions > 0 {
		t.catalog = clone
		t.dirty = true
	}

	return nil
}''','''	if deletions > 1 {
		t.catalog = clone
		t.dirty = true
	}

	return nil
}''')


@mutant('m12', 'the expiry loop ignores the dying tomb')
def _m12(P):
    P('engine.go','''		select {
		case <-e.tomb.Dying():
			return
		case <-ticker.C:
		}
''','''		<-ticker.C
''')


@mutant('m13', 'arrays containing an expired date do not expire')
def _m13(P):
    P('transaction.go','''			conditions = append(conditions, bson.M{
				field: bson.M{
					// due to type bracketing this only matches date time values
					"$lt": time.Now().Add(-expiry),
				},
			})''','''			conditions = append(conditions, bson.M{
				field: bson.M{
					// due to type bracketing this only matches date time values
					"$lt": time.Now().Add(-expiry), "$not": bson.M{"$type": "array"},
				},
			})''')


@mutant('m14', 'Collection.Delete forgets the partial indexes')
def _m14(P):
    P('mongokit/collection.go','''		for name, index := range c.Indexes {
			ok, err := index.Remove(doc)
			if err != nil {
				return nil, err
			} else if !ok {
				return nil, fmt.Errorf("unable to remove document from index %q", name)
			}
		}
	}

	// remove documents
	for _, doc := range list {
		if !c.Documents.Remove(doc) {
			return nil, fmt.Errorf("unable to remove document from collection")
		}
	}

	return &Result{
		Matched: list,
	}, nil''','''		for name, index := range c.Indexes {
			if index.Config().Partial != nil {
				continue
			}
			ok, err := index.Remove(doc)
			if err != nil {
				return nil, err
			} else if !ok {
				return nil, fmt.Errorf("unable to remove document from index %q", name)
			}
		}
	}

	// remove documents
	for _, doc := range list {
		if !c.Documents.Remove(doc) {
			return nil, fmt.Errorf("unable to remove document from collection")
		}
	}

	return &Result{
		Matched: list,
	}, nil''')


@mutant('m15', 'expireAfterSeconds halved')
def _m15(P):
    P('indexes.go','expiry = time.Duration(*index.Options.ExpireAfterSeconds) * time.Second','expiry = time.Duration(*index.Options.ExpireAfterSeconds) * time.Second / 2')


@mutant('m16', 'a collection without TTL index borrows the TTL indexes of a same-named collection in another database')
def _m16(P):
    P('transaction.go','''		// check if any
		if len(ttlIndexes) == 0 {
			continue
		}
''','''		// check if any
		if len(ttlIndexes) == 0 {
			for other, ons := range clone.Namespaces {
				if other[1] == handle[1] && other != handle {
					for _, index := range ons.Indexes {
						if index.Config().Expiry > 0 {
							ttlIndexes = append(ttlIndexes, index)
						}
					}
				}
			}
		}
		if len(ttlIndexes) == 0 {
			continue
		}
''')


@mutant('m17', 'the cutoff clock is read once per process')
def _m17(P):
    P('transaction.go','"$lt": time.Now().Add(-expiry),','"$lt": expireEpoch.Add(-expiry),')
    P('transaction.go','''// Expire will remove documents that are expired due to a TTL index.''','''var expireEpoch = time.Now()

// Expire will remove documents that are expired due to a TTL index.''')


@mutant('m19', 'a pass stops after the first namespace with deletions')
def _m19(P):
    P('transaction.go','''		// increment
		deletions += len(res.Matched)
''','''		// increment
		deletions += len(res.Matched)
		if deletions > 0 {
			break
		}
''')


@mutant('m20', 'documents expire 40 ms early')
def _m20(P):
    P('transaction.go','"$lt": time.Now().Add(-expiry),','"$lt": time.Now().Add(-expiry + 40*time.Millisecond),')


@mutant('m21', 'a pass removes at most one document per namespace')
def _m21(P):
    P('transaction.go','''			"$or": conditions,
		}), nil, 0, 0)''','''			"$or": conditions,
		}), nil, 0, 1)''')


@mutant('m25', 'delete events carry the wrong collection')
def _m25(P):
    P('transaction.go','''		res, err := t.delete(handle, oplog, namespace, bsonkit.MustConvert(bson.M{''','''		res, err := t.delete(Handle{handle[0], "e1"}, oplog, namespace, bsonkit.MustConvert(bson.M{''')


@mutant('m26', 'Engine.Abort does not clear the active transaction')
def _m26(P):
    P('engine.go','''	// unset transaction
	e.txn = nil

	// release token
	e.token.Release()
}''','''	// release token
	e.token.Release()
}''')


# ---- the expiry goroutine as a WRITER (Property C04: lost-update / ack-lost / ack-not-logged / log-order) ----

@mutant('c1', 'the expiry pass computes on a catalog snapshot taken BEFORE it holds the write token and publishes it')
def _c1(P):
    P('engine.go', """		// get transaction
		txn, err := e.Begin(nil, true)
		if err != nil {
			if reporter != nil {
				reporter(err)
			}
			continue
		}
""", """		// get transaction
		stale := e.Catalog()
		txn, err := e.Begin(nil, true)
		if err != nil {
			if reporter != nil {
				reporter(err)
			}
			continue
		}
		txn.catalog = stale
""")


@mutant('c2', 'the expiry pass does not take the write token: unlocked transaction, result published directly')
def _c2(P):
    P('engine.go', """		// get transaction
		txn, err := e.Begin(nil, true)
		if err != nil {
			if reporter != nil {
				reporter(err)
			}
			continue
		}
""", """		// get transaction
		txn, err := e.Begin(nil, false)
		if err != nil {
			if reporter != nil {
				reporter(err)
			}
			continue
		}
		if err = txn.Expire(); err == nil && txn.Dirty() {
			e.mutex.Lock()
			if err = e.store.Store(txn.Catalog()); err == nil {
				e.catalog = txn.Catalog()
			}
			e.mutex.Unlock()
		}
		continue
""")


@mutant('c3', 'Commit releases the write token before the catalog is stored and published')
def _c3(P):
    P('engine.go', """	// ensure token is released
	defer e.token.Release()

	// unset transaction
	e.txn = nil
""", """	// unset transaction
	e.txn = nil
	e.token.Release()
	e.mutex.Unlock()
	time.Sleep(2 * time.Millisecond)
	e.mutex.Lock()
""")


@mutant('c4', 'update events are logged one position too early (swapped with the previous event)')
def _c4(P):
    P('transaction.go', """	// insert event
	_, err := oplog.Insert(bsonkit.MustConvert(event))
	if err != nil {
		return err
	}
""", """	// insert event
	_, err := oplog.Insert(bsonkit.MustConvert(event))
	if err != nil {
		return err
	}
	if l := oplog.Documents.List; op == "update" && len(l) >= 2 {
		n := len(l)
		l[n-1], l[n-2] = l[n-2], l[n-1]
		oplog.Documents.Index[l[n-1]] = n - 1
		oplog.Documents.Index[l[n-2]] = n - 2
	}
""")


# ---- recovery from a transient fault (mode fault, witness ttl-clock:stalled-after-fault) ----

@mutant('f1', 'a timer re-armed only at the end of the loop body: the continue on an error path skips the re-arm')
def _f1(P):
    P('engine.go', """	ticker := time.NewTicker(interval)
	defer ticker.Stop()
""", """	ticker := time.NewTimer(interval)
	defer ticker.Stop()
""")
    P('engine.go', """		// commit transaction
		err = e.Commit(txn)
		if err != nil {
			if reporter != nil {
				reporter(err)
			}
			continue
		}
""", """		// commit transaction
		err = e.Commit(txn)
		if err != nil {
			if reporter != nil {
				reporter(err)
			}
			continue
		}
		ticker.Reset(interval)
""")
    # the other error paths re-arm, only the commit error path forgets it
    P('engine.go', """			if reporter != nil {
				reporter(err)
			}
			continue
		}

		// expire documents""", """			if reporter != nil {
				reporter(err)
			}
			ticker.Reset(interval)
			continue
		}

		// expire documents""")


@mutant('f2', 'the expiry loop parks for good after the first commit error')
def _f2(P):
    P('engine.go', """		err = e.Commit(txn)
		if err != nil {
			if reporter != nil {
				reporter(err)
			}
			continue
		}
""", """		err = e.Commit(txn)
		if err != nil {
			if reporter != nil {
				reporter(err)
			}
			<-e.tomb.Dying()
			return
		}
""")


@mutant('f3', 'Commit does not release the write token when the store fails')
def _f3(P):
    P('engine.go', """	// ensure token is released
	defer e.token.Release()

	// unset transaction
	e.txn = nil
""", """	// unset transaction
	e.txn = nil
	released := false
	defer func() {
		if !released {
			_ = released
		}
	}()
""")
    P('engine.go', """	// broadcast change
	for stream := range e.streams {""", """	e.token.Release()
	released = true

	// broadcast change
	for stream := range e.streams {""")
    P('engine.go', """	// check if dirty
	if !txn.Dirty() {
		return nil
	}
""", """	// check if dirty
	if !txn.Dirty() {
		e.token.Release()
		return nil
	}
""")


@mutant('f4', 'Commit leaves the failed transaction registered as the active one')
def _f4(P):
    P('engine.go', """	// unset transaction
	e.txn = nil

	// check if dirty
	if !txn.Dirty() {
		return nil
	}
""", """	// check if dirty
	if !txn.Dirty() {
		e.txn = nil
		return nil
	}
""")
    P('engine.go', """	// set new catalog
	e.catalog = txn.Catalog()""", """	// set new catalog
	e.txn = nil
	e.catalog = txn.Catalog()""")


@mutant('f5', 'the error callback is invoked under the engine lock (a callback that looks at the engine wedges the loop)')
def _f5(P):
    P('engine.go', """		err = e.Commit(txn)
		if err != nil {
			if reporter != nil {
				reporter(err)
			}
			continue
		}
""", """		err = e.Commit(txn)
		if err != nil {
			if reporter != nil {
				e.mutex.Lock()
				reporter(err)
				e.mutex.Unlock()
			}
			continue
		}
""")


@mutant('f6', 'after a failed commit the next pass starts from the catalog of the failed transaction (its removals are never logged again)')
def _f6(P):
    P('engine.go', """	err := e.store.Store(txn.Catalog())
	verifAt("commit.stored", err == nil)
	if err != nil {
		return err
	}
""", """	err := e.store.Store(txn.Catalog())
	verifAt("commit.stored", err == nil)
	if err != nil {
		e.catalog = NewTransaction(txn.Catalog()).Catalog()
		if ns := e.catalog.Namespaces[Oplog]; ns != nil {
			keep := e.catalog.Clone()
			keep.Namespaces[Oplog] = ns.Clone()
			for len(keep.Namespaces[Oplog].Documents.List) > 0 && bsonkit.Get(keep.Namespaces[Oplog].Documents.List[len(keep.Namespaces[Oplog].Documents.List)-1], "operationType") == "delete" {
				l := keep.Namespaces[Oplog].Documents.List
				keep.Namespaces[Oplog].Documents.Remove(l[len(l)-1])
			}
			e.catalog = keep
		}
		return err
	}
""")


# Delay-only mutants: they DELAY the removal within the slack the stream has to grant on a loaded machine
# (must-be-gone = expired for 10 intervals + 500 ms, re-checked after another 10 intervals + 400 ms); a tighter
# latency monitor produced a false positive under load and is a distribution tag only (median-latency:*). They
# are expected to be missed and are not part of the default set.
SLOW = {}


def slow(name, what):
    def deco(f):
        SLOW[name] = (what, f)
        return f
    return deco


@slow('s1', 'the expiry runs only on every 4th tick')
def _s1(P):
    P('engine.go', """		case <-ticker.C:
		}
""", """		case <-ticker.C:
		}
		if tickNo++; tickNo%4 != 0 {
			continue
		}
""")
    P('engine.go', """	for {
		// await next interval
""", """	tickNo := 0
	for {
		// await next interval
""")


@slow('s2', 'ExpireInterval below 500 ms is clamped to 500 ms')
def _s2(P):
    P('engine.go', """	ticker := time.NewTicker(interval)""", """	if interval < 500*time.Millisecond {
		interval = 500 * time.Millisecond
	}
	ticker := time.NewTicker(interval)""")


def run(name, n, seed):
    what, f = MUTANTS.get(name) or SLOW[name]
    copy = "/tmp/ttlclock-mut-" + name
    shutil.rmtree(copy, ignore_errors=True)
    shutil.copytree("/repo", copy, ignore=shutil.ignore_patterns(".git"))
    binary, mod, out = copy + ".harness", copy + ".mod", copy + ".json"
    try:
        f(patcher(copy))
        go = os.path.join(ROOT, "go")
        open(mod, "w").write(open(os.path.join(go, "go.mod")).read().replace("=> /repo", "=> " + copy))
        shutil.copy("/repo/go.sum", copy + ".sum")
        env = dict(os.environ, GOFLAGS="-mod=mod", GOPROXY="off")
        subprocess.run(["go", "build", "-modfile=" + mod, "-tags", "verif", "-o", binary, "./cmd/harness"], cwd=go, env=env, check=True)
        subprocess.run([binary, "-nomodel", "-stream", "ttlclock", "-seed", str(seed), "-n", str(n), "-out", out], stdout=subprocess.DEVNULL, check=False, timeout=600)
        r = json.load(open(out))
        c = collections.Counter()
        for k, v in r["distribution"].items():
            if k.startswith("VIOLATION:") and not k.startswith("VIOLATION/"):
                c[k[10:]] += v
        c04 = sorted(k.split("/", 2)[2] for k in r["distribution"] if k.startswith("VIOLATION/C04/"))
        if c04:
            c["C04 by mode"] = c04
        verdict = "CAUGHT" if r["n_violations"] else "MISSED"
        print("%-5s %-6s cases=%d violations=%d %s  -- %s" % (name, verdict, r["evaluations"], r["n_violations"], dict(c), what), flush=True)
        return r["n_violations"] > 0
    finally:
        shutil.rmtree(copy, ignore_errors=True)
        for p in (binary, mod, out, copy + ".sum"):
            if os.path.exists(p):
                os.remove(p)


if __name__ == "__main__":
    ap = argparse.ArgumentParser()
    ap.add_argument("-n", type=int, default=32)
    ap.add_argument("--seed", type=int, default=7)
    ap.add_argument("names", nargs="*")
    a = ap.parse_args()
    missed = [m for m in (a.names or list(MUTANTS)) if not run(m, a.n, a.seed)]
    print("missed:", missed)
    sys.exit(1 if missed else 0)
