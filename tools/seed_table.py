#!/usr/bin/env python3
"""Prints the DESIGN §0.3 table (markdown) from seeded/*/meta.json and seeded/*/trial.txt."""
import json, os, re, glob
root = os.path.join(os.path.dirname(os.path.abspath(__file__)), "..", "seeded")
print("| seed | what it needs to manifest | `./check <id>` (quick) | caught by |")
print("|---|---|---|---|")
for d in sorted(glob.glob(os.path.join(root, "*"))):
    sid = os.path.basename(d)
    meta = json.load(open(os.path.join(d, "meta.json")))
    t = open(os.path.join(d, "trial.txt")).read() if os.path.exists(os.path.join(d, "trial.txt")) else ""
    m = re.search(r"exit=(\d+)", t)
    rc = m.group(1) if m else "?"
    det = re.search(r"^detected: (.*)$", t, flags=re.M)
    by = ""
    if det:
        j = json.loads(det.group(1))
        if j.get("kind") == "failing-input":
            by = f"failing input from stream `{j.get('stream')}`: {j.get('what')}"
        else:
            by = "no failing input found"
        ties = sorted({b.split(':', 1)[1] for b in j.get("broken", []) if b.startswith("proof-obligation:")})
        if ties:
            by += "; broken tie " + ", ".join(f"`{x.replace('Lungo.Ties.', '')}`" for x in ties)
        if any(b.startswith("correspondence") for b in j.get("broken", [])):
            by += "; model/implementation correspondence broken"
    res = {"1": "VIOLATION", "0": "**missed**"}.get(rc, rc)
    if meta.get("obsolete") and rc == "0":
        res = "silent (rightly)"
        by = "no longer a violation: " + meta["obsolete"]
    if "no-failing-input-found" in t:
        res += " (no-failing-input-found)"
    needs = meta.get('needs_to_manifest', '').replace('|', '¦')
    print(f"| {sid} | {needs} | {res} | {by} |")
