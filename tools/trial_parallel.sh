#!/bin/bash
# tools/trial_parallel.sh <k> [seed-id ...] — run the seeded-change trials in k parallel pipelines, each in its own copy of
# /verif (the check regenerates lean/Lungo/Gen, so one tree cannot serve two trials at once) against its own scratch copy
# of /repo; results are written back to /verif/seeded/<id>/trial.txt. Copies live under /root/vc<i> and are removed.
k=$1; shift
ids=("$@"); [ ${#ids[@]} -eq 0 ] && ids=($(ls /verif/seeded))
for i in $(seq 1 $k); do rm -rf /root/vc$i; cp -r /verif /root/vc$i; done
run_one() { # $1 = copy index, rest = ids
  i=$1; shift; V=/root/vc$i
  for s in "$@"; do
    p=$(jq -r .property $V/seeded/$s/meta.json)
    copy=$(mktemp -d /tmp/seedrepo$i.XXXXXX)
    git -C /repo archive HEAD | tar -x -C "$copy"
    ( cd "$copy" && git init -q && git apply --whitespace=nowarn "$V/seeded/$s/patch.diff" ) || { echo "$s patch does not apply"; rm -rf "$copy"; continue; }
    out=$(cd $V && VERIF_REPO="$copy" VERIF_EVIDENCE_DIR=/tmp/seed-evidence-$i ./check "$p" --tier quick 2>&1); rc=$?
    rm -rf "$copy" /tmp/seed-evidence-$i
    { echo "seed=$s property=$p check='./check $p --tier quick' exit=$rc repo=$(git -C /repo rev-parse --short HEAD) verif=$(git -C /verif rev-parse --short HEAD)";
      rp=$(echo "$out" | grep -oE 'replay=[^ ]+' | head -1 | cut -d= -f2)
      [ -n "$rp" ] && [ -f "$rp" ] && jq -c '{kind, stream, what, n_disagreements: ((.disagreements // [])|length), broken: [.broken[]? | .kind + ":" + ((.module // .stream // "")|tostring)]}' "$rp" | sed 's/^/detected: /'
      echo "$out" | grep -E '^(VIOLATION|KNOWN-FINDING)' | sed "s#$V#/verif#" | head -8; } > /verif/seeded/$s/trial.txt
    echo "$s exit=$rc $(grep -c '^VIOLATION' /verif/seeded/$s/trial.txt) violation line(s)$(grep -q no-failing-input-found /verif/seeded/$s/trial.txt && echo ' NO-FAILING-INPUT')"
  done
}
n=${#ids[@]}
for i in $(seq 1 $k); do
  part=(); for ((j=i-1; j<n; j+=k)); do part+=("${ids[$j]}"); done
  run_one $i "${part[@]}" > /root/trial_par_$i.log 2>&1 &
done
wait
for i in $(seq 1 $k); do rm -rf /root/vc$i; done
cat /root/trial_par_*.log | sort
