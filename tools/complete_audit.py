#!/usr/bin/env python3
"""tools/complete_audit.py <Cxx> [<PropsModuleBase>]: append a `#print axioms` line to lean/Lungo/Audit/<base>.lean for every
theorem of lean/Lungo/Props/<base>.lean that is not listed yet (the check requires the audit to be complete)."""
import re, sys, os
root = os.path.join(os.path.dirname(os.path.abspath(__file__)), "..", "lean", "Lungo")
base = sys.argv[2] if len(sys.argv) > 2 else sys.argv[1]
src = open(os.path.join(root, "Props", base + ".lean")).read()
src = re.sub(r"/-.*?-/", "", src, flags=re.S); src = re.sub(r"--.*", "", src)
ths = re.findall(r"^\s*(?:protected\s+)?theorem\s+([\w.'?!]+)", src, flags=re.M)
ap = os.path.join(root, "Audit", base + ".lean")
aud = open(ap).read()
have = set(re.findall(r"#print axioms\s+([\w.'?!]+)", aud))
have_short = {h.split(".")[-1] for h in have}
missing = [t for t in ths if t.split(".")[-1] not in have_short]
if missing:
    open(ap, "a").write("\n".join("#print axioms " + t for t in missing) + "\n")
print("added", missing)
