#!/bin/bash
# tools/sweep.sh [tier] [ids...] — run every registered check against /repo and print one line per property.
cd /verif
tier=${1:-quick}; shift
ids=("$@"); [ ${#ids[@]} -eq 0 ] && ids=($(jq -r '.checks[].property_id' MANIFEST.json | sort -u))
for id in "${ids[@]}"; do
  t0=$(date +%s)
  out=$(./check "$id" --tier "$tier" 2>&1); rc=$?
  echo "$id exit=$rc $(($(date +%s)-t0))s $(echo "$out" | grep -E '^VIOLATION' | head -2 | tr '\n' ' ') $(echo "$out" | grep -c '^KNOWN-FINDING') known"
done
