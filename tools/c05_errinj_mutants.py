#!/usr/bin/env python3
"""Scratch mutants for the real-kernel ERROR-INJECTION part of stream `crash` (C05): "a system call of the write
protocol fails (or is short) and the error is swallowed".

For every mutant: copy /repo to a scratch directory under /tmp, rewrite dbkit/atomic.go, build `harness` and
`crashwriter` against the copy through a temporary modfile into the scratch directory, run the corpus of stream
`crash` (`harness -stream crash -n 0`, LUNGO_CRASHWRITER = the mutant's writer), print the witness classes that
fired and compare with the expected ones; delete everything. /repo itself is never touched.

  tools/c05_errinj_mutants.py [name ...]        (default: unchanged + all mutants; about 20 s each)
Needs lean/.lake/build/bin/lungo_model (the corpus also runs the model search) — or pass --nomodel.
"""
import collections, json, os, shutil, subprocess, sys, tempfile

ROOT = os.path.dirname(os.path.dirname(os.path.abspath(__file__)))
REPO = os.environ.get("VERIF_REPO", "/repo")
MODEL = os.environ.get("LUNGO_MODEL", os.path.join(ROOT, "lean/.lake/build/bin/lungo_model"))
ENV = dict(os.environ, GOFLAGS="-mod=mod", GOPROXY="off")
ENV.pop("GOSUMDB", None)
MUTANTS = {}


def mutant(name, what, expect):
    """expect: set of witness classes that must fire (others of the error-injection monitors may fire too); empty = none may fire"""
    def deco(f):
        MUTANTS[name] = (what, expect, f)
        return f
    return deco


def patcher(root):
    def P(old, new, count=1):
        p = os.path.join(root, "dbkit/atomic.go")
        s = open(p).read()
        assert s.count(old) == count, (old, s.count(old))
        open(p, "w").write(s.replace(old, new))
    return P


COPY = '''	_, err = io.Copy(tempFile, r)
	if err != nil {
		return fmt.Errorf("failed to write temporary file %q: %v", tempPath, err)
	}
'''


@mutant('unchanged', 'the protocol of /repo as it is', set())
def _unchanged(P):
    pass


@mutant('bufio_flush_ignored', 'buffered writer (64 KiB) whose final Flush error is ignored (seeded change C05-m5): only files below the buffer size',
        {'swallowed-error:write', 'not-old-or-new'})
def _bufio(P):
    P('import (\n', 'import (\n\t"bufio"\n')
    P(COPY, '''	w := bufio.NewWriterSize(tempFile, 64<<10)
	_, err = io.Copy(w, r)
	if err != nil {
		return fmt.Errorf("failed to write temporary file %q: %v", tempPath, err)
	}
	w.Flush()
''')


@mutant('write_error_ignored', 'the result of io.Copy is dropped', {'swallowed-error:write', 'not-old-or-new'})
def _write_ignored(P):
    P(COPY, '	_, _ = io.Copy(tempFile, r)\n')


@mutant('short_write_ignored', 'one raw write(2) whose byte count is not compared with the length (errors are still checked)',
        {'swallowed-error:write', 'not-old-or-new'})
def _short_write(P):
    P('import (\n', 'import (\n\t"syscall"\n')
    P(COPY, '''	data, err := io.ReadAll(r)
	if err != nil {
		return fmt.Errorf("failed to read: %v", err)
	}
	_, err = syscall.Write(int(tempFile.Fd()), data)
	if err != nil {
		return fmt.Errorf("failed to write temporary file %q: %v", tempPath, err)
	}
''')


@mutant('fsync_error_ignored', 'the result of tempFile.Sync is dropped', {'swallowed-error:fsync'})
def _fsync_ignored(P):
    P('''	err = tempFile.Sync()
	if err != nil {
		return fmt.Errorf("failed to sync temporary file %q: %v", tempPath, err)
	}
''', '	_ = tempFile.Sync()\n')


@mutant('close_error_ignored', 'the result of tempFile.Close is dropped', {'swallowed-error:close'})
def _close_ignored(P):
    P('''	err = tempFile.Close()
	if err != nil {
		return fmt.Errorf("failed to close temporary file %q: %v", tempPath, err)
	}
''', '	_ = tempFile.Close()\n')


@mutant('rename_error_ignored', 'the result of os.Rename is dropped', {'swallowed-error:rename', 'acked-but-old'})
def _rename_ignored(P):
    P('''	err = os.Rename(tempPath, path)
	if err != nil {
		return fmt.Errorf("failed to rename temporary file from %q to %q: %v", tempPath, path, err)
	}
''', '	_ = os.Rename(tempPath, path)\n')


@mutant('error_after_write_keeps_temp_and_renames', 'a failed write no longer returns: the partial temp file is synced and renamed, the error is returned at the end',
        {'not-old-or-new'})
def _late_error(P):
    P(COPY, '''	_, werr := io.Copy(tempFile, r)
	defer func() { _ = werr }()
''')
    P('\treturn nil\n}', '\tif werr != nil {\n\t\treturn werr\n\t}\n\treturn nil\n}')


INJ_CLASSES = ('swallowed-error', 'not-old-or-new', 'acked-but-old', 'failed-commit-damaged')


def run_one(name, nomodel):
    what, expect, f = MUTANTS[name]
    scratch = tempfile.mkdtemp(prefix="c05-errinj-mutant-", dir="/tmp")
    try:
        copy = os.path.join(scratch, "repo")
        shutil.copytree(REPO, copy, ignore=shutil.ignore_patterns(".git"))
        f(patcher(copy))
        b = subprocess.run(["go", "build", "./dbkit/"], cwd=copy, env=ENV, stdout=subprocess.PIPE, stderr=subprocess.STDOUT, text=True)
        if b.returncode != 0:
            print(f"{name}: MUTANT DOES NOT COMPILE\n{b.stdout}")
            return False
        mod = open(os.path.join(ROOT, "go/go.mod")).read().replace("=> /repo", "=> " + copy)
        modfile = os.path.join(scratch, "mutant.mod")
        open(modfile, "w").write(mod)
        shutil.copy(os.path.join(copy, "go.sum"), os.path.join(scratch, "mutant.sum"))
        bindir = os.path.join(scratch, "bin")
        os.makedirs(bindir)
        b = subprocess.run(["go", "build", "-tags", "verif", "-modfile=" + modfile, "-o", bindir + "/", "./cmd/harness", "./cmd/crashwriter"],
                           cwd=os.path.join(ROOT, "go"), env=ENV, stdout=subprocess.PIPE, stderr=subprocess.STDOUT, text=True)
        if b.returncode != 0:
            print(f"{name}: harness does not build against the mutant\n{b.stdout[-2000:]}")
            return False
        out = os.path.join(scratch, "crash.json")
        env = dict(ENV, LUNGO_MODEL=MODEL, LUNGO_CRASHWRITER=os.path.join(bindir, "crashwriter"))
        cmd = [os.path.join(bindir, "harness"), "-stream", "crash", "-seed", "1", "-n", "0", "-out", out] + (["-nomodel"] if nomodel else [])
        subprocess.run(cmd, cwd=os.path.join(ROOT, "go"), env=env, stdout=subprocess.PIPE, stderr=subprocess.STDOUT, text=True)
        res = json.load(open(out))
        ws = collections.Counter(v["witness"] for v in res.get("violations") or [] if v["witness"].split(":")[0] in INJ_CLASSES)
        dist = res.get("distribution") or {}
        outcomes = {k.split(":", 1)[1]: v for k, v in dist.items() if k.startswith("errinj_outcome:") and ("success/" in k and not k.startswith("errinj_outcome:removeTmp") or "/load-error" in k or "/third" in k)}
        print(f"== {name}: {what}")
        print(f"   error-injection runs: {dist.get('error_injection', 0)}  violations (first 50 stored): {dict(ws)}  n_violations={res['n_violations']}")
        if outcomes:
            print(f"   suspicious outcomes: {outcomes}")
        for v in (res.get("violations") or []):
            if v["witness"].split(":")[0] in INJ_CLASSES:
                print(f"   e.g. {v['witness']}: {v['what']} — {v['req']}")
                break
        ok = (set(ws) == set()) if not expect else expect <= set(ws)
        print(f"   expected {sorted(expect) or 'no violation'}: {'OK' if ok else 'MISMATCH'}")
        return ok
    finally:
        shutil.rmtree(scratch, ignore_errors=True)


def main():
    args = sys.argv[1:]
    nomodel = "--nomodel" in args
    names = [a for a in args if not a.startswith("--")] or list(MUTANTS)
    bad = [n for n in names if not run_one(n, nomodel)]
    print("ALL AS EXPECTED" if not bad else "MISMATCH: " + ", ".join(bad))
    return 1 if bad else 0


if __name__ == "__main__":
    sys.exit(main())
