#!/bin/bash
# tools/ingest_seed.sh <Cxx> <mK> "<what it needs to manifest>" — confirm a seeded change delivered in /tmp/mut/<Cxx>/out/<mK>
# independently (tools/confirm_seed.sh) and store it as seeded/<Cxx>-<mK>/ with meta.json.
set -u
c=$1; m=$2; needs=$3
src=/tmp/mut/$c/out/$m; dst=/verif/seeded/$c-$m
line=$(/verif/tools/confirm_seed.sh "$src" 2>&1 | tail -1); echo "$c $line"
echo "$line" | grep -q "demo_without=0 suite_with=0 demo_with=[1-9]" || { echo "NOT CONFIRMED: $c-$m"; exit 1; }
rm -rf "$dst"; cp -r "$src" "$dst"
python3 - "$c" "$m" "$needs" "$dst" <<'PY'
import json,sys
c,m,needs,dst=sys.argv[1:]
json.dump({"property":c,"seed":m,"breaks":c,"needs_to_manifest":needs,
 "confirmed":"tools/confirm_seed.sh: applies to a scratch copy of /repo HEAD; go build ./... ok; go test -vet=off -count=1 ./bsonkit/ ./dbkit/ green with the change; demo exits 0 without and 1 with the change",
 "author":"fresh sub-agent given only the property text and a scratch worktree of /repo"},open(dst+"/meta.json","w"),indent=1)
PY
