#!/usr/bin/env python3
"""
retain_mutants.py — teeth test of stream `retain` (C08 retention): scratch mutants of Transaction.Clean /
Engine.Commit applied to a temporary COPY of /repo (never to /repo); the harness is built against the copy
with a temporary modfile and run with `-stream retain`.  Every mutant must give disagreements > 0 (model
comparison) and, where the property text itself is broken, a monitor violation class.  The copy is deleted.

  tools/retain_mutants.py [mutant-name ...]
"""
import json, os, shutil, subprocess, sys, tempfile

ROOT = os.path.dirname(os.path.dirname(os.path.abspath(__file__)))
GO = os.path.join(ROOT, "go")
REPO = os.environ.get("VERIF_REPO", "/repo")
TMP = tempfile.mkdtemp(prefix="retain-mut-")
COPY = os.path.join(TMP, "repo")
shutil.copytree(REPO, COPY, ignore=shutil.ignore_patterns(".git"))
MOD = os.path.join(TMP, "x.mod")
open(MOD, "w").write(open(os.path.join(GO, "go.mod")).read().replace("=> /repo", "=> " + COPY))
shutil.copy(os.path.join(REPO, "go.sum"), os.path.join(TMP, "x.sum"))
BIN = os.path.join(TMP, "harness")
ENV = dict(os.environ, GOFLAGS="-mod=mod", GOPROXY="off", LUNGO_MODEL=os.path.join(ROOT, "lean/.lake/build/bin/lungo_model"))
ENV.pop("GOSUMDB", None)
T = open(os.path.join(COPY, "transaction.go")).read()
E = open(os.path.join(COPY, "engine.go")).read()

REMOVE_LOOP = """	for i := 0; i < dropped; i++ {
		oplog.Documents.Remove(oplog.Documents.List[0])
	}
"""

MUT = [
    ("minIndex+1", "t", "minIndex := len(oplog.Documents.List) - minSize", "minIndex := len(oplog.Documents.List) - minSize + 1"),
    ("minIndex-1", "t", "minIndex := len(oplog.Documents.List) - minSize", "minIndex := len(oplog.Documents.List) - minSize - 1"),
    ("maxIndex+1", "t", "maxIndex := len(oplog.Documents.List) - maxSize", "maxIndex := len(oplog.Documents.List) - maxSize + 1"),
    ("maxIndex-1", "t", "maxIndex := len(oplog.Documents.List) - maxSize", "maxIndex := len(oplog.Documents.List) - maxSize - 1"),
    ("remove-while-ranging", "t", "		dropped++\n	}\n", "		dropped++\n		oplog.Documents.Remove(doc)\n	}\n	if dropped > 0 {\n		t.catalog = clone\n		t.dirty = true\n	}\n	if dropped >= 0 {\n		return\n	}\n"),
    ("reslice-no-index-delete", "t", REMOVE_LOOP, "	oplog.Documents.List = oplog.Documents.List[dropped:]\n"),
    ("reslice-index-shift-only", "t", REMOVE_LOOP, "	oplog.Documents.List = oplog.Documents.List[dropped:]\n	for i, d := range oplog.Documents.List {\n		oplog.Documents.Index[d] = i\n	}\n"),
    ("beyondMax-uses-minTimestamp", "t", "beyondMax := i < maxIndex || bsonkit.Compare(ts, maxTimestamp) < 0", "_ = maxTimestamp\n		beyondMax := i < maxIndex || bsonkit.Compare(ts, minTimestamp) < 0"),
    ("afterMin-uses-maxTimestamp", "t", "afterMin := i < minIndex && (minAge == 0 || bsonkit.Compare(ts, minTimestamp) < 0)", "_ = minTimestamp\n		afterMin := i < minIndex && (minAge == 0 || bsonkit.Compare(ts, maxTimestamp) < 0)"),
    ("afterMin-le", "t", "bsonkit.Compare(ts, minTimestamp) < 0)", "bsonkit.Compare(ts, minTimestamp) <= 0)"),
    ("beyondMax-le", "t", "bsonkit.Compare(ts, maxTimestamp) < 0", "bsonkit.Compare(ts, maxTimestamp) <= 0"),
    ("maxTimestamp-no-I", "t", "T: now.T - uint32(maxAge/time.Second), I: now.I}", "T: now.T - uint32(maxAge/time.Second)}"),
    ("minTimestamp-with-I", "t", "minTimestamp := primitive.Timestamp{T: now.T - uint32(minAge/time.Second)}", "minTimestamp := primitive.Timestamp{T: now.T - uint32(minAge/time.Second), I: now.I}"),
    ("no-oplog-clone", "t", "oplog := clone.Namespaces[Oplog].Clone()\n	clone.Namespaces[Oplog] = oplog\n\n	// derive", "oplog := clone.Namespaces[Oplog]\n	clone.Namespaces[Oplog] = oplog\n\n	// derive"),
    ("always-dirty", "t", "	if dropped > 0 {\n		t.catalog = clone\n		t.dirty = true\n	}\n}\n\n// Expire", "	if dropped >= 0 {\n		t.catalog = clone\n		t.dirty = true\n	}\n}\n\n// Expire"),
    ("never-dirty", "t", "	if dropped > 0 {\n		t.catalog = clone\n		t.dirty = true\n	}\n}\n\n// Expire", "	if dropped > 0 {\n		t.catalog = clone\n	}\n}\n\n// Expire"),
    ("continue-instead-of-break", "t", "		if !(afterMin && beyondMax) {\n			break\n		}\n		dropped++\n	}\n\n" + "	// remove the prefix in one pass\n" + REMOVE_LOOP,
     "		if !(afterMin && beyondMax) {\n			continue\n		}\n		dropped++\n		defer oplog.Documents.Remove(doc)\n	}\n\n"),
    ("minAge-zero-check-dropped", "t", "(minAge == 0 || bsonkit.Compare(ts, minTimestamp) < 0)", "(bsonkit.Compare(ts, minTimestamp) < 0)"),
    ("minAge-sub-second-disables", "t", "(minAge == 0 || bsonkit.Compare", "(minAge < time.Second || bsonkit.Compare"),
    ("or-instead-of-and", "t", "if !(afterMin && beyondMax) {", "if !(afterMin || beyondMax) {"),
    ("age-ms-instead-of-s", "t", "now.T - uint32(maxAge/time.Second)", "now.T - uint32(maxAge/time.Millisecond)"),
    ("remove-last-instead-of-first", "t", "oplog.Documents.Remove(oplog.Documents.List[0])", "oplog.Documents.Remove(oplog.Documents.List[len(oplog.Documents.List)-1])"),
    ("drop-one-less", "t", "for i := 0; i < dropped; i++ {\n		oplog.Documents.Remove", "for i := 1; i < dropped; i++ {\n		oplog.Documents.Remove"),
    ("drops-at-most-one", "t", "		dropped++\n	}\n", "		dropped++\n		break\n	}\n"),
    ("in-place-no-clones", "t", "	// clone catalog\n	clone := t.catalog.Clone()\n\n	// clone oplog\n	oplog := clone.Namespaces[Oplog].Clone()\n	clone.Namespaces[Oplog] = oplog\n\n	// derive",
     "	clone := t.catalog\n	oplog := t.catalog.Namespaces[Oplog]\n\n	// derive"),
    ("in-place-when-dirty", "t", "	// clone catalog\n	clone := t.catalog.Clone()\n\n	// clone oplog\n	oplog := clone.Namespaces[Oplog].Clone()\n	clone.Namespaces[Oplog] = oplog\n\n	// derive",
     "	// a dirty transaction already works on its own copies\n	clone := t.catalog\n	oplog := clone.Namespaces[Oplog]\n	if !t.dirty {\n		clone = t.catalog.Clone()\n		oplog = clone.Namespaces[Oplog].Clone()\n		clone.Namespaces[Oplog] = oplog\n	}\n\n	// derive"),
    ("commit-swaps-sizes", "e", "txn.Clean(e.opts.MinOplogSize, e.opts.MaxOplogSize,", "txn.Clean(e.opts.MaxOplogSize, e.opts.MinOplogSize,"),
    ("commit-cleans-after-store", "e", "	// clean oplog\n	txn.Clean(e.opts.MinOplogSize, e.opts.MaxOplogSize, e.opts.MinOplogAge, e.opts.MaxOplogAge)\n\n	// write catalog\n	verifAt(\"commit.store\")\n	err := e.store.Store(txn.Catalog())",
     "	// write catalog\n	verifAt(\"commit.store\")\n	err := e.store.Store(txn.Catalog())\n	txn.Clean(e.opts.MinOplogSize, e.opts.MaxOplogSize, e.opts.MinOplogAge, e.opts.MaxOplogAge)"),
    ("commit-no-clean", "e", "	txn.Clean(e.opts.MinOplogSize, e.opts.MaxOplogSize, e.opts.MinOplogAge, e.opts.MaxOplogAge)\n", ""),
    ("commit-minAge-zero", "e", "e.opts.MinOplogAge, e.opts.MaxOplogAge)", "0, e.opts.MaxOplogAge)"),
]

only = sys.argv[1:]
rows = []
for name, which, old, new in MUT:
    if only and name not in only:
        continue
    t, e = T, E
    src = t if which == "t" else e
    if src.count(old) != 1:
        print(name, "PATCH DOES NOT APPLY (count=%d)" % src.count(old)); continue
    if which == "t":
        t = t.replace(old, new)
    else:
        e = e.replace(old, new)
    open(os.path.join(COPY, "transaction.go"), "w").write(t)
    open(os.path.join(COPY, "engine.go"), "w").write(e)
    p = subprocess.run(["go", "build", "-modfile=" + MOD, "-tags", "verif", "-o", BIN, "./cmd/harness"], cwd=GO, env=ENV, capture_output=True, text=True)
    if p.returncode != 0:
        print(name, "BUILD FAILED", p.stderr[-400:]); continue
    out = os.path.join(TMP, "mut-%s.json" % name)
    p = subprocess.run([BIN, "-stream", "retain", "-seed", "7", "-n", "4000", "-out", out], cwd=GO, env=ENV, capture_output=True, text=True, timeout=900)
    try:
        r = json.load(open(out))
    except Exception as ex:
        print(name, "NO RESULT", p.stdout[-300:], p.stderr[-600:]); continue
    if os.environ.get("RETAIN_MUT_KEEP"):
        shutil.copy(out, os.path.join(os.environ["RETAIN_MUT_KEEP"], "mut-%s.json" % name))
    classes = {k[5:]: v for k, v in r["distribution"].items() if k.startswith("viol:")}
    print("%-30s disagreements=%-6d violations=%-6d %s" % (name, r["n_disagreements"], r["n_violations"], classes))
shutil.rmtree(TMP, ignore_errors=True)
