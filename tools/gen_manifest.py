#!/usr/bin/env python3
"""Regenerates /verif/MANIFEST.json from lib/props.py (claimed checks) and lib/na.py (not_applicable)."""
import json, os, sys
root = os.path.join(os.path.dirname(os.path.abspath(__file__)), "..")
sys.path.insert(0, os.path.join(root, "lib"))
from props import PROPS
from manifest_text import TEXT, NOT_APPLICABLE, HOOK_COMMITS
checks = []
for pid in sorted(PROPS):
    t = TEXT[pid]
    checks.append({
        "property_id": pid,
        "quick_cmd": f"./check {pid} --tier quick",
        "thorough_cmd": f"./check {pid} --tier thorough",
        "evidence_file": f"/verif/evidence/{pid}.json",
        "replay_cmd_template": f"./check {pid} --replay {{path}}",
        "engine": "lean4-proof+correspondence",
        "level_claimed": {"category": PROPS[pid].get("level", "proof"), "text": t["text"], "design_ref": t.get("ref", "DESIGN.md §9 " + pid)},
        "level_note": t["note"],
        "technique": t.get("technique", "Lean 4 theorems over an executable model; model tied to /repo by regenerated facts (rfl in Lean) and an in-process differential correspondence check"),
    })
m = {
    "version": 1,
    "setup_cmd": "./check --setup",
    "hooks": {"guard": "verif", "enable": "go build -tags verif (harness module replaces github.com/256dpi/lungo => /repo)",
              "baseline_off_cmd": "cd /repo && go test -vet=off -count=1 ./bsonkit/ ./dbkit/",
              "source_commits": HOOK_COMMITS, "add_only": True},
    "engines": [{"name": "lean4-proof+correspondence", "path": "/verif/check", "serves_properties": sorted(PROPS),
                 "kind_free_text": "Lean 4 model + theorems (lean/), Go translator (go/cmd/extract) and differential harness (go/cmd/harness)"}],
    "checks": checks,
    "not_applicable": [{"property_id": p, "reason": r} for p, r in sorted(NOT_APPLICABLE.items()) if p not in PROPS],
    "notes": "See DESIGN.md. Every check rebuilds harness+translator against /repo's working tree, regenerates Lungo/Gen, rebuilds the property's Lean modules, audits axioms, then runs the correspondence streams and property monitors.",
}
json.dump(m, open(os.path.join(root, "MANIFEST.json"), "w"), indent=1)
print("claimed:", sorted(PROPS), "n/a:", [x["property_id"] for x in m["not_applicable"]])
