#!/bin/bash
# tools/try_seed.sh <Cxx> <patch.diff> [tier]  — trial of a seeded change against a SCRATCH COPY of /repo
# (used while other work shares /repo; final confirmation applies the patch to /repo itself).
set -u
id=$1; patch=$(readlink -f "$2"); tier=${3:-quick}
copy=$(mktemp -d /tmp/seedrepo.XXXXXX)
trap 'rm -rf "$copy" /tmp/seed-evidence-$$' EXIT
git -C /repo archive HEAD | tar -x -C "$copy"
( cd "$copy" && git init -q && git apply --whitespace=nowarn "$patch" ) || { echo "patch does not apply"; exit 3; }
( cd "$copy" && GOFLAGS=-mod=mod GOPROXY=off go build ./... ) || { echo "seed does not compile"; exit 3; }
VERIF_REPO="$copy" VERIF_EVIDENCE_DIR=/tmp/seed-evidence-$$ /verif/check "$id" --tier "$tier"
rc=$?
echo "try_seed: $id $(basename $(dirname "$patch")) exit=$rc"
exit $rc
