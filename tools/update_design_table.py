#!/usr/bin/env python3
"""Replaces the block between the SEED-TABLE markers of DESIGN.md with the output of tools/seed_table.py."""
import os, subprocess, re
root = os.path.join(os.path.dirname(os.path.abspath(__file__)), "..")
t = subprocess.check_output(["python3", os.path.join(root, "tools", "seed_table.py")], text=True)
p = os.path.join(root, "DESIGN.md")
s = open(p).read()
repl = "<!-- SEED-TABLE-BEGIN -->\n" + t + "<!-- SEED-TABLE-END -->"
s = re.sub(r"<!-- SEED-TABLE-BEGIN -->.*?<!-- SEED-TABLE-END -->", lambda m: repl, s, flags=re.S)
open(p, "w").write(s)
print("table rows:", t.count("\n") - 2)
