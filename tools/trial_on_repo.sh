#!/bin/bash
# tools/trial_on_repo.sh [seed-id ...] — FINAL confirmation: apply each stored seeded change to /repo ITSELF
# (git -C /repo apply), run the registered quick check of its property, and undo it straight afterwards
# (git -C /repo checkout -- .). Writes seeded/<id>/trial_repo.txt. Evidence written by these runs goes to a scratch
# directory (VERIF_EVIDENCE_DIR) so that the committed evidence keeps describing the unchanged tree.
cd /verif
[ -n "$(git -C /repo status --porcelain)" ] && { echo "/repo is not clean"; exit 2; }
ids=("$@"); [ ${#ids[@]} -eq 0 ] && ids=($(ls seeded))
ev=$(mktemp -d /tmp/trial-evidence.XXXXXX)
trap 'git -C /repo checkout -- . ; rm -rf "$ev"' EXIT
for s in "${ids[@]}"; do
  p=$(jq -r .property seeded/$s/meta.json)
  git -C /repo apply --whitespace=nowarn /verif/seeded/$s/patch.diff || { echo "$s patch does not apply"; continue; }
  out=$(VERIF_EVIDENCE_DIR=$ev ./check "$p" --tier quick 2>&1); rc=$?
  git -C /repo checkout -- .
  { echo "seed=$s property=$p applied-to=/repo check='./check $p --tier quick' exit=$rc repo=$(git -C /repo rev-parse --short HEAD) verif=$(git rev-parse --short HEAD)";
    rp=$(echo "$out" | grep -oE 'replay=[^ ]+' | head -1 | cut -d= -f2)
    [ -n "$rp" ] && [ -f "$rp" ] && jq -c '{kind, stream, what, broken: [.broken[]? | .kind + ":" + ((.module // .stream // "")|tostring)]}' "$rp" | sed 's/^/detected: /'
    echo "$out" | grep -E '^VIOLATION' | head -3; } > seeded/$s/trial_repo.txt
  echo "$s exit=$rc $(grep -c '^VIOLATION' seeded/$s/trial_repo.txt) violation line(s)$(grep -q no-failing-input-found seeded/$s/trial_repo.txt && echo ' NO-FAILING-INPUT')"
done
[ -z "$(git -C /repo status --porcelain)" ] && echo "/repo clean"
