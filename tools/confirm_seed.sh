#!/bin/bash
# tools/confirm_seed.sh <out-dir containing patch.diff and mutdemo_*/>  — independent confirmation of a seeded change:
# compiles, baseline suite green with it, demo fails with it and passes without it. Uses a scratch copy of /repo.
set -u
d=$(readlink -f "$1")
copy=$(mktemp -d /tmp/confirm.XXXXXX); trap 'rm -rf "$copy"' EXIT
git -C /repo archive HEAD | tar -x -C "$copy"
demo=$(ls -d "$d"/mutdemo_* | head -1); name=$(basename "$demo")
cp -r "$demo" "$copy/$name"
export GOFLAGS=-mod=mod GOPROXY=off
cd "$copy"
go run ./$name >/dev/null 2>&1; base=$?
git init -q . && git apply --whitespace=nowarn "$d/patch.diff" || { echo "CONFIRM $d: patch does not apply"; exit 2; }
go build ./... || { echo "CONFIRM $d: does not compile"; exit 2; }
go test -vet=off -count=1 ./bsonkit/ ./dbkit/ >/dev/null 2>&1; suite=$?
go run ./$name >/dev/null 2>&1; mut=$?
echo "CONFIRM $(basename $(dirname $d))/$(basename $d): demo_without=$base suite_with=$suite demo_with=$mut"
[ $base -eq 0 ] && [ $suite -eq 0 ] && [ $mut -ne 0 ]
