package streams

import (
	"context"
	"crypto/sha1"
	"encoding/hex"
	"encoding/json"
	"errors"
	"fmt"
	"hash"
	"io"
	"math"
	"reflect"
	"sort"
	"strconv"
	"strings"

	"go.mongodb.org/mongo-driver/bson"
	"go.mongodb.org/mongo-driver/bson/primitive"
	"go.mongodb.org/mongo-driver/mongo"
	"go.mongodb.org/mongo-driver/mongo/options"

	"github.com/256dpi/lungo"

	"verifharness/internal/gen"
	"verifharness/internal/run"
	"verifharness/internal/vj"
)

// Stream "alias" (C17): caller-owned values and database state never alias each other.
//
// One generated case is a short history of driver calls on an in-memory engine ("side A"),
// mirrored on a twin engine ("side B") that only ever sees fresh deep copies of every argument
// and whose arguments/results are never touched afterwards. Every step is one driver method
// (all methods that take or return BSON values) followed by a second call that REUSES the very
// same argument objects. Monitors per step (no model side; the Lean side of C17 is the flow
// theorem over the extracted fact Gen.ApiFlow):
//
//	args_unchanged      every argument is deep-equal (canonical form + pointer/len/cap/spare
//	                    fingerprint) to its snapshot after each call          arg-modified:<m>
//	disjointness        byte ranges of all backing arrays / map headers / pointees reachable from
//	                    arguments and results do not overlap those reachable from
//	                    engine.Catalog() (documents, index trees and configs, oplog)
//	                                                              shares-memory:<m>:<arg|result>
//	mutation            every container position reachable from the arguments, then from the
//	                    results, is overwritten (whole capacity; map entries replaced and added;
//	                    binary bytes flipped); the exact catalog dump must stay the same
//	                                                        mutation-reaches-db:<m>:<arg|result>
//	                    and a Find-all before/after as well as results decoded by other calls
//	                    must stay the same                              mutation-reaches-results
//	reuse / twin        results and (normalised) dumps of side A equal those of side B after the
//	                    first call (twin-diverged:<m>) and after the reusing call (reuse-differs:<m>)

const (
	aliasSentinel = "ALIAS_MUT"
	aliasSpareKey = "alias_spare"
)

var aliasNS = [][2]string{{"d1", "c"}, {"d1", "e"}, {"d2", "r"}}

var aliasOIDs = []primitive.ObjectID{
	{0, 0, 0, 0, 0, 0, 0, 0, 0, 0, 0, 1}, {0, 0, 0, 0, 0, 0, 0, 0, 0, 0, 0, 2}, {1, 0, 0, 0, 0, 0, 0, 0, 0, 0, 0, 0},
}

func aliasKnownOID(o primitive.ObjectID) bool {
	for _, k := range aliasOIDs {
		if k == o {
			return true
		}
	}
	return false
}

// ---------------------------------------------------------------------------------------------
// sides

type aliasSide struct {
	client lungo.IClient
	engine *lungo.Engine
}

func aliasNewSide() *aliasSide {
	client, engine, err := lungo.Open(nil, lungo.Options{Store: lungo.NewMemoryStore()})
	if err != nil {
		panic(err)
	}
	return &aliasSide{client: client, engine: engine}
}

func (s *aliasSide) coll(i int) lungo.ICollection {
	return s.client.Database(aliasNS[i][0]).Collection(aliasNS[i][1])
}

// ---------------------------------------------------------------------------------------------
// canonical form (order-insensitive for maps, shape-insensitive) of arbitrary caller values

type aliasNorm struct {
	oid  bool // replace generated ObjectIDs
	time bool // replace timestamps and datetimes
}

func aliasCanonValue(v reflect.Value, n aliasNorm, depth int) interface{} {
	if depth > 100 {
		return "<deep>"
	}
	if !v.IsValid() {
		return nil
	}
	switch x := aliasIface(v).(type) {
	case primitive.ObjectID:
		if n.oid && !aliasKnownOID(x) {
			return primitive.ObjectID{0xff}
		}
		return x
	case primitive.Timestamp:
		if n.time {
			return primitive.Timestamp{}
		}
		return x
	case primitive.DateTime:
		if n.time {
			return primitive.DateTime(0)
		}
		return x
	case primitive.Binary:
		return primitive.Binary{Subtype: x.Subtype, Data: append([]byte{}, x.Data...)}
	case primitive.Decimal128, primitive.Regex, primitive.Null:
		return x
	}
	switch v.Kind() {
	case reflect.Interface, reflect.Ptr:
		if v.IsNil() {
			return nil
		}
		return aliasCanonValue(v.Elem(), n, depth+1)
	case reflect.Map:
		if v.IsNil() {
			return nil
		}
		keys := v.MapKeys()
		ks := make([]string, len(keys))
		idx := map[string]reflect.Value{}
		for i, k := range keys {
			ks[i] = fmt.Sprint(aliasIface(k))
			idx[ks[i]] = k
		}
		sort.Strings(ks)
		d := bson.D{}
		for _, k := range ks {
			d = append(d, bson.E{Key: k, Value: aliasCanonValue(v.MapIndex(idx[k]), n, depth+1)})
		}
		return bson.D{{Key: "$map", Value: d}}
	case reflect.Slice:
		if v.Type().Elem().Kind() == reflect.Uint8 {
			return primitive.Binary{Data: append([]byte{}, v.Bytes()...)}
		}
		if v.Type() == reflect.TypeOf(bson.D{}) {
			d := make(bson.D, 0, v.Len())
			for i := 0; i < v.Len(); i++ {
				e := v.Index(i)
				d = append(d, bson.E{Key: e.Field(0).String(), Value: aliasCanonValue(e.Field(1), n, depth+1)})
			}
			return d
		}
		a := make(bson.A, 0, v.Len())
		for i := 0; i < v.Len(); i++ {
			a = append(a, aliasCanonValue(v.Index(i), n, depth+1))
		}
		return a
	case reflect.Struct:
		d := bson.D{}
		for i := 0; i < v.NumField(); i++ {
			if v.Type().Field(i).PkgPath != "" {
				continue
			}
			d = append(d, bson.E{Key: v.Type().Field(i).Name, Value: aliasCanonValue(v.Field(i), n, depth+1)})
		}
		return d
	case reflect.Array:
		a := make(bson.A, 0, v.Len())
		for i := 0; i < v.Len(); i++ {
			a = append(a, aliasCanonValue(v.Index(i), n, depth+1))
		}
		return a
	case reflect.String:
		return v.String()
	case reflect.Bool:
		return v.Bool()
	case reflect.Int32:
		return int32(v.Int())
	case reflect.Int, reflect.Int64, reflect.Int16, reflect.Int8:
		return v.Int()
	case reflect.Uint, reflect.Uint8, reflect.Uint16, reflect.Uint32, reflect.Uint64:
		return int64(v.Uint())
	case reflect.Float64, reflect.Float32:
		return v.Float()
	}
	return "<" + v.Kind().String() + ">"
}

func aliasIface(v reflect.Value) interface{} {
	if v.IsValid() && v.CanInterface() {
		return v.Interface()
	}
	return nil
}

// aliasCanon renders any value canonically. A map renders as {"$map": sorted fields}; callers
// that need shape-insensitive equality (twin comparison of results decoded into the same target
// type) always compare like with like.
func aliasCanon(v interface{}, n aliasNorm) (out string) {
	defer func() {
		if p := recover(); p != nil {
			out = "nonstd:" + fmt.Sprint(p)
		}
	}()
	return vj.Enc(aliasCanonValue(reflect.ValueOf(v), n, 0))
}

// ---------------------------------------------------------------------------------------------
// memory walk: spans of every backing array / map header / pointee; containers for mutation

type aliasSpan struct{ lo, hi uintptr }

type aliasKey struct {
	p uintptr
	n int
	t reflect.Type
}

type aliasWalker struct {
	spans    []aliasSpan
	seen     map[aliasKey]bool
	conts    []reflect.Value // slices and maps, in discovery order
	fields   []reflect.Value // settable interface-typed struct fields (result structs)
	nonEmpty int             // non-empty containers
	finger   strings.Builder // structure fingerprint (pointer, len, cap, spare content)
	wantFP   bool
	spanOnly bool // engine side: spans only
}

func aliasNewWalker(fp bool) *aliasWalker {
	return &aliasWalker{seen: map[aliasKey]bool{}, wantFP: fp}
}

func aliasSkipStruct(t reflect.Type) bool {
	switch t.PkgPath() {
	case "time", "sync", "sync/atomic":
		return true
	}
	return false
}

func (w *aliasWalker) walk(v reflect.Value, depth int) {
	if depth > 400 || !v.IsValid() {
		return
	}
	switch v.Kind() {
	case reflect.Interface:
		if !v.IsNil() {
			w.walk(v.Elem(), depth+1)
		}
	case reflect.Ptr:
		if v.IsNil() {
			return
		}
		k := aliasKey{v.Pointer(), 0, v.Type()}
		if w.seen[k] {
			return
		}
		w.seen[k] = true
		if sz := v.Type().Elem().Size(); sz > 0 {
			w.spans = append(w.spans, aliasSpan{v.Pointer(), v.Pointer() + sz})
		}
		if w.wantFP {
			fmt.Fprintf(&w.finger, "P%x;", v.Pointer())
		}
		w.walk(v.Elem(), depth+1)
	case reflect.Slice:
		if v.IsNil() {
			if w.wantFP {
				w.finger.WriteString("S-nil;")
			}
			return
		}
		if w.wantFP {
			fmt.Fprintf(&w.finger, "S%x,%d,%d;", v.Pointer(), v.Len(), v.Cap())
			if v.Cap() > v.Len() {
				fmt.Fprintf(&w.finger, "spare=%s;", aliasCanon(aliasIface(v.Slice(v.Len(), v.Cap())), aliasNorm{}))
			}
		}
		if v.Cap() == 0 {
			return
		}
		k := aliasKey{v.Pointer(), v.Cap(), v.Type()}
		if w.seen[k] {
			return
		}
		w.seen[k] = true
		w.spans = append(w.spans, aliasSpan{v.Pointer(), v.Pointer() + uintptr(v.Cap())*v.Type().Elem().Size()})
		if !w.spanOnly {
			w.conts = append(w.conts, v)
		}
		if v.Len() > 0 {
			w.nonEmpty++
		}
		switch v.Type().Elem().Kind() {
		case reflect.Interface, reflect.Ptr, reflect.Slice, reflect.Map, reflect.Struct, reflect.Array:
			for i := 0; i < v.Len(); i++ {
				w.walk(v.Index(i), depth+1)
			}
		}
	case reflect.Map:
		if v.IsNil() {
			return
		}
		k := aliasKey{v.Pointer(), 0, v.Type()}
		if w.seen[k] {
			return
		}
		w.seen[k] = true
		w.spans = append(w.spans, aliasSpan{v.Pointer(), v.Pointer() + 1})
		if !w.spanOnly {
			w.conts = append(w.conts, v)
		}
		if v.Len() > 0 {
			w.nonEmpty++
		}
		if w.wantFP {
			fmt.Fprintf(&w.finger, "M%x,%d;", v.Pointer(), v.Len())
		}
		keys := v.MapKeys()
		if v.Type().Key().Kind() == reflect.String {
			sort.Slice(keys, func(i, j int) bool { return keys[i].String() < keys[j].String() })
		}
		for _, mk := range keys {
			if mk.Kind() == reflect.Ptr || mk.Kind() == reflect.Interface {
				w.walk(mk, depth+1)
			}
			w.walk(v.MapIndex(mk), depth+1)
		}
	case reflect.Struct:
		if aliasSkipStruct(v.Type()) {
			return
		}
		for i := 0; i < v.NumField(); i++ {
			f := v.Field(i)
			if f.Kind() == reflect.Interface && f.CanSet() {
				w.fields = append(w.fields, f)
			}
			w.walk(f, depth+1)
		}
	case reflect.Array:
		switch v.Type().Elem().Kind() {
		case reflect.Interface, reflect.Ptr, reflect.Slice, reflect.Map, reflect.Struct, reflect.Array:
			for i := 0; i < v.Len(); i++ {
				w.walk(v.Index(i), depth+1)
			}
		}
	}
}

func (w *aliasWalker) roots(vals ...interface{}) *aliasWalker {
	for _, v := range vals {
		w.walk(reflect.ValueOf(v), 0)
	}
	return w
}

// aliasOverlap reports whether any span of a overlaps a span of b.
func aliasOverlap(a, b []aliasSpan) (bool, string) {
	if len(a) == 0 || len(b) == 0 {
		return false, ""
	}
	bs := append([]aliasSpan{}, b...)
	sort.Slice(bs, func(i, j int) bool { return bs[i].lo < bs[j].lo })
	// prefix maximum of hi makes the lookup exact for nested/overlapping db spans
	maxHi := make([]uintptr, len(bs))
	var m uintptr
	for i, s := range bs {
		if s.hi > m {
			m = s.hi
		}
		maxHi[i] = m
	}
	for _, s := range a {
		// last db span starting before s.hi
		i := sort.Search(len(bs), func(i int) bool { return bs[i].lo >= s.hi })
		if i > 0 && maxHi[i-1] > s.lo {
			return true, fmt.Sprintf("caller span [%x,%x) overlaps engine memory", s.lo, s.hi)
		}
	}
	return false, ""
}

// aliasDBSpans walks everything reachable from the engine's current catalog.
func aliasDBSpans(e *lungo.Engine) []aliasSpan {
	w := aliasNewWalker(false)
	w.spanOnly = true
	w.spans = make([]aliasSpan, 0, 8192)
	cat := e.Catalog()
	for _, coll := range cat.Namespaces {
		w.walk(reflect.ValueOf(coll), 0)
		// the lists the indexes hand out (fresh slices of the stored document pointers)
		for _, ix := range coll.Indexes {
			for _, d := range ix.List() {
				w.walk(reflect.ValueOf(d), 0)
			}
		}
	}
	return w.spans
}

// aliasPoke overwrites one settable position.
func aliasPoke(e reflect.Value, depth int) {
	if !e.CanSet() || depth > 4 {
		return
	}
	switch e.Kind() {
	case reflect.Interface:
		if e.NumMethod() == 0 {
			e.Set(reflect.ValueOf(aliasSentinel))
		} else {
			e.Set(reflect.Zero(e.Type()))
		}
	case reflect.Uint8:
		e.SetUint(e.Uint() ^ 0xff)
	case reflect.String:
		e.SetString(aliasSentinel)
	case reflect.Int, reflect.Int8, reflect.Int16, reflect.Int32, reflect.Int64:
		e.SetInt(0x5a)
	case reflect.Uint, reflect.Uint16, reflect.Uint32, reflect.Uint64:
		e.SetUint(0x5a)
	case reflect.Bool:
		e.SetBool(!e.Bool())
	case reflect.Float32, reflect.Float64:
		e.SetFloat(-12345.5)
	case reflect.Struct:
		for i := 0; i < e.NumField(); i++ {
			aliasPoke(e.Field(i), depth+1)
		}
	default:
		e.Set(reflect.Zero(e.Type()))
	}
}

// aliasMutate overwrites every position of every collected container (full capacity), replaces
// and adds map entries and overwrites settable result fields. Returns the number of writes.
func aliasMutate(w *aliasWalker) int {
	n := 0
	for _, c := range w.conts {
		switch c.Kind() {
		case reflect.Slice:
			full := c.Slice(0, c.Cap())
			for i := 0; i < full.Len(); i++ {
				e := full.Index(i)
				if e.CanSet() {
					aliasPoke(e, 0)
					n++
				}
			}
		case reflect.Map:
			func() {
				defer func() { _ = recover() }()
				et := c.Type().Elem()
				for _, k := range c.MapKeys() {
					nv := reflect.New(et).Elem()
					aliasPoke(nv, 0)
					c.SetMapIndex(k, nv)
					n++
				}
				nk := reflect.New(c.Type().Key()).Elem()
				aliasPoke(nk, 0)
				nv := reflect.New(et).Elem()
				aliasPoke(nv, 0)
				c.SetMapIndex(nk, nv)
				n++
			}()
		}
	}
	for _, f := range w.fields {
		aliasPoke(f, 0)
		n++
	}
	return n
}

// ---------------------------------------------------------------------------------------------
// catalog dump and read-back

// aliasHasher is an allocation-free canonical encoder for values of lungo's standard types
// (type tag + length-prefixed content, same information as vj.Enc) feeding SHA-1. Anything outside
// the standard types is rendered with its Go type name, so a foreign value smuggled into the
// database changes the fingerprint as well.
type aliasHasher struct {
	buf []byte
	n   aliasNorm
	h   hash.Hash
}

func (h *aliasHasher) flush() {
	if h.h == nil {
		h.h = sha1.New()
	}
	h.h.Write(h.buf)
	h.buf = h.buf[:0]
}

func (h *aliasHasher) u64(x uint64) {
	h.buf = append(h.buf, byte(x), byte(x>>8), byte(x>>16), byte(x>>24), byte(x>>32), byte(x>>40), byte(x>>48), byte(x>>56))
}

func (h *aliasHasher) str(s string) {
	h.u64(uint64(len(s)))
	h.buf = append(h.buf, s...)
}

func (h *aliasHasher) val(v interface{}) {
	if len(h.buf) > 3500 {
		h.flush()
	}
	switch x := v.(type) {
	case nil:
		h.buf = append(h.buf, 'n')
	case bson.D:
		h.buf = append(h.buf, 'd')
		h.u64(uint64(len(x)))
		for _, e := range x {
			h.str(e.Key)
			h.val(e.Value)
		}
	case bson.A:
		h.buf = append(h.buf, 'a')
		h.u64(uint64(len(x)))
		for _, e := range x {
			h.val(e)
		}
	case string:
		h.buf = append(h.buf, 's')
		h.str(x)
	case int32:
		h.buf = append(h.buf, 'i')
		h.u64(uint64(int64(x)))
	case int64:
		h.buf = append(h.buf, 'l')
		h.u64(uint64(x))
	case float64:
		h.buf = append(h.buf, 'f')
		h.u64(math.Float64bits(x))
	case bool:
		if x {
			h.buf = append(h.buf, 'T')
		} else {
			h.buf = append(h.buf, 'F')
		}
	case primitive.ObjectID:
		if h.n.oid && !aliasKnownOID(x) {
			x = primitive.ObjectID{0xff}
		}
		h.buf = append(h.buf, 'o')
		h.buf = append(h.buf, x[:]...)
	case primitive.Binary:
		h.buf = append(h.buf, 'b', x.Subtype)
		h.u64(uint64(len(x.Data)))
		h.buf = append(h.buf, x.Data...)
	case primitive.DateTime:
		if h.n.time {
			x = 0
		}
		h.buf = append(h.buf, 't')
		h.u64(uint64(x))
	case primitive.Timestamp:
		if h.n.time {
			x = primitive.Timestamp{}
		}
		h.buf = append(h.buf, 'S')
		h.u64(uint64(x.T)<<32 | uint64(x.I))
	case primitive.Decimal128:
		hi, lo := x.GetBytes()
		h.buf = append(h.buf, 'D')
		h.u64(hi)
		h.u64(lo)
	case primitive.Regex:
		h.buf = append(h.buf, 'r')
		h.str(x.Pattern)
		h.str(x.Options)
	case primitive.Null:
		h.buf = append(h.buf, 'n')
	case *bson.D:
		if x == nil {
			h.buf = append(h.buf, 'n')
		} else {
			h.val(*x)
		}
	case []bson.D:
		h.buf = append(h.buf, 'L')
		h.u64(uint64(len(x)))
		for _, e := range x {
			h.val(e)
		}
	case *[]bson.D:
		h.val(*x)
	case []*bson.D:
		h.buf = append(h.buf, 'L')
		h.u64(uint64(len(x)))
		for _, e := range x {
			h.val(e)
		}
	case []interface{}:
		h.buf = append(h.buf, 'V')
		h.u64(uint64(len(x)))
		for _, e := range x {
			h.val(e)
		}
	default:
		h.buf = append(h.buf, 'X')
		h.str(fmt.Sprintf("%T:%v", v, v))
	}
}

func (h *aliasHasher) sum() string {
	h.flush()
	s := h.h.Sum(nil)
	h.h.Reset()
	return hex.EncodeToString(s[:10])
}

// aliasFP fingerprints a standard-typed value.
func aliasFP(v interface{}, n aliasNorm) string {
	h := aliasHasher{n: n, buf: make([]byte, 0, 4096)}
	h.val(v)
	return h.sum()
}

// aliasDump renders the catalog as one line per namespace and index: names, sizes, index
// definitions verbatim (vj.Enc) and a SHA-1 over the canonical documents in natural order (the
// exact text would be tens of kilobytes per dump because the oplog carries every full document).
// twin = normalised for comparison across two engines (generated ObjectIDs, oplog times,
// address-ordered index lists).
func aliasDump(e *lungo.Engine, twin bool) (out string) {
	defer func() {
		if p := recover(); p != nil {
			out = "nonstd:" + fmt.Sprint(p)
		}
	}()
	cat := e.Catalog()
	handles := make([]lungo.Handle, 0, len(cat.Namespaces))
	for h := range cat.Namespaces {
		handles = append(handles, h)
	}
	sort.Slice(handles, func(i, j int) bool {
		if handles[i][0] != handles[j][0] {
			return handles[i][0] < handles[j][0]
		}
		return handles[i][1] < handles[j][1]
	})
	var sb strings.Builder
	hs := aliasHasher{buf: make([]byte, 0, 4096)}
	hashDocs := func(list []*bson.D, n aliasNorm) string {
		hs.n = n
		for _, d := range list {
			hs.val(d)
		}
		return hs.sum()
	}
	for _, h := range handles {
		coll := cat.Namespaces[h]
		n := aliasNorm{oid: twin, time: twin && h == lungo.Oplog}
		sb.WriteString(fmt.Sprintf("ns %s.%s n=%d docs=%s\n", h[0], h[1], len(coll.Documents.List), hashDocs(coll.Documents.List, n)))
		names := make([]string, 0, len(coll.Indexes))
		for name := range coll.Indexes {
			names = append(names, name)
		}
		sort.Strings(names)
		for _, name := range names {
			ix := coll.Indexes[name]
			cfg := ix.Config()
			part := "null"
			if cfg.Partial != nil {
				part = vj.Enc(*cfg.Partial)
			}
			sb.WriteString(fmt.Sprintf(" idx %s key=%s unique=%v partial=%s expiry=%d", name, vj.Enc(*cfg.Key), cfg.Unique, part, int64(cfg.Expiry)))
			list := ix.List()
			if twin {
				// equal keys are ordered by document address: only the size is comparable across engines
				sb.WriteString(fmt.Sprintf(" n=%d\n", len(list)))
			} else {
				sb.WriteString(fmt.Sprintf(" n=%d docs=%s\n", len(list), hashDocs(list, aliasNorm{})))
			}
		}
	}
	return sb.String()
}

// aliasReadAll runs Find({}) on every namespace of the stream and decodes into []bson.D.
func aliasReadAll(s *aliasSide) (canon string, vals []interface{}) {
	var sb strings.Builder
	for i := range aliasNS {
		func() {
			defer func() {
				if p := recover(); p != nil {
					sb.WriteString("panic;")
				}
			}()
			csr, err := s.coll(i).Find(context.Background(), bson.D{})
			if err != nil {
				sb.WriteString("err;")
				return
			}
			out := []bson.D{}
			if err := csr.All(context.Background(), &out); err != nil {
				sb.WriteString("decode-err;")
				return
			}
			vals = append(vals, &out)
			sb.WriteString(aliasFP(out, aliasNorm{}) + ";")
		}()
	}
	return sb.String(), vals
}

// ---------------------------------------------------------------------------------------------
// generators

type aliasGen struct {
	r     *gen.R
	style int // 0 = bson.D/bson.A only, 1 = maps and []interface{} wherever allowed, 2 = mixed
	feat  map[string]bool
}

func (g *aliasGen) bin() primitive.Binary {
	r := g.r
	n := 1 + r.N(3)
	b := make([]byte, n)
	for i := range b {
		b[i] = byte(r.N(3))
	}
	return primitive.Binary{Subtype: []byte{0, 0, 128}[r.N(3)], Data: b}
}

func (g *aliasGen) id() interface{} {
	r := g.r
	switch r.N(12) {
	case 0, 1, 2, 3:
		return int32(r.N(6))
	case 4:
		return gen.Strings[r.N(4)]
	case 5:
		return aliasOIDs[r.N(len(aliasOIDs))]
	case 6, 7, 8:
		return bson.D{{Key: "k", Value: int32(r.N(3))}, {Key: "s", Value: bson.A{int32(r.N(2)), bson.D{{Key: "z", Value: "q"}}}}}
	case 9, 10:
		return primitive.Binary{Subtype: []byte{0, 128}[r.N(2)], Data: []byte{byte(r.N(3)), 7}}
	default:
		return int64(r.N(6))
	}
}

// nested returns a document with containers and a binary below depth 2.
func (g *aliasGen) nested() bson.D {
	r := g.r
	return bson.D{
		{Key: "k", Value: int32(r.N(3))},
		{Key: "d", Value: bson.D{{Key: "b", Value: g.bin()}, {Key: "l", Value: bson.A{int32(r.N(3)), bson.D{{Key: "q", Value: r.Scalar()}}, bson.A{r.Scalar()}}}}},
		{Key: "v", Value: r.Value(2, true)},
	}
}

func (g *aliasGen) elem() interface{} {
	r := g.r
	if r.P(25) {
		return r.Scalar()
	}
	return bson.D{{Key: "k", Value: int32(r.N(3))}, {Key: "v", Value: g.nested()}, {Key: "t", Value: bson.A{int32(r.N(3)), r.Scalar()}}}
}

func (g *aliasGen) storedDoc(withID bool) bson.D {
	r := g.r
	d := bson.D{}
	if withID {
		d = append(d, bson.E{Key: "_id", Value: g.id()})
	}
	d = append(d, bson.E{Key: "a", Value: int32(r.N(4))})
	if r.P(70) {
		d = append(d, bson.E{Key: "b", Value: gen.Strings[r.N(len(gen.Strings))]})
	}
	arr := bson.A{}
	for i, n := 0, r.N(4); i < n; i++ {
		arr = append(arr, g.elem())
	}
	d = append(d, bson.E{Key: "arr", Value: arr})
	d = append(d, bson.E{Key: "n", Value: bson.D{
		{Key: "d", Value: bson.D{{Key: "k", Value: int32(r.N(3))}, {Key: "b", Value: g.bin()}, {Key: "l", Value: r.Arr(1, true)}}},
		{Key: "e", Value: r.Arr(2, true)},
	}})
	if r.P(60) {
		d = append(d, bson.E{Key: "x", Value: r.Value(3, true)})
	}
	if r.P(40) {
		d = append(d, bson.E{Key: "bin", Value: g.bin()})
	}
	if r.P(40) {
		d = append(d, bson.E{Key: "g", Value: r.Doc(2, true, false)})
	}
	return d
}

func (g *aliasGen) filter() bson.D {
	r := g.r
	switch r.N(13) {
	case 0, 1:
		return bson.D{}
	case 2, 3:
		return bson.D{{Key: "_id", Value: g.id()}}
	case 4:
		return bson.D{{Key: "_id", Value: bson.D{{Key: "$in", Value: bson.A{g.id(), g.id(), g.id()}}}}}
	case 5:
		return bson.D{{Key: "a", Value: bson.D{{Key: "$gte", Value: int32(r.N(3))}}}}
	case 6:
		return bson.D{{Key: "arr", Value: bson.D{{Key: "$elemMatch", Value: bson.D{{Key: "k", Value: int32(r.N(3))}}}}}}
	case 7:
		return bson.D{{Key: "$or", Value: bson.A{bson.D{{Key: "a", Value: int32(r.N(4))}}, bson.D{{Key: "n.d.k", Value: int32(r.N(3))}}}}}
	case 8:
		return bson.D{{Key: "n.d.b", Value: g.bin()}}
	case 9:
		return bson.D{{Key: "x", Value: r.Value(2, true)}}
	case 10:
		return bson.D{{Key: "arr.k", Value: bson.D{{Key: "$in", Value: bson.A{int32(r.N(3)), int32(r.N(3))}}}}}
	case 11:
		return bson.D{{Key: "$and", Value: bson.A{bson.D{{Key: "a", Value: bson.D{{Key: "$lt", Value: int32(1 + r.N(4))}}}}, bson.D{{Key: "b", Value: bson.D{{Key: "$exists", Value: true}}}}}}}
	default:
		return bson.D{{Key: "n.d", Value: bson.D{{Key: "$ne", Value: g.nested()}}}}
	}
}

// update returns an update document and, if it uses identifiers, its array filters.
func (g *aliasGen) update() (bson.D, bson.A) {
	r := g.r
	switch r.N(13) {
	case 0:
		return bson.D{{Key: "$set", Value: bson.D{{Key: "x", Value: g.nested()}, {Key: "n.d.k", Value: int32(r.N(3))}}}}, nil
	case 1:
		return bson.D{{Key: "$set", Value: bson.D{{Key: "n.d", Value: g.nested()}}}}, nil
	case 2:
		return bson.D{{Key: "$push", Value: bson.D{{Key: "arr", Value: g.elem()}}}}, nil
	case 3:
		return bson.D{{Key: "$push", Value: bson.D{{Key: "arr", Value: bson.D{{Key: "$each", Value: bson.A{g.elem(), g.elem()}}, {Key: "$position", Value: int32(r.N(2))}}}}}}, nil
	case 4:
		return bson.D{{Key: "$addToSet", Value: bson.D{{Key: "n.e", Value: g.nested()}}}}, nil
	case 5:
		return bson.D{{Key: "$set", Value: bson.D{{Key: "arr.$[e].v", Value: g.nested()}}}}, bson.A{bson.D{{Key: "e.k", Value: int32(r.N(3))}}}
	case 6:
		return bson.D{{Key: "$set", Value: bson.D{{Key: "n.e.$[]", Value: bson.A{int32(r.N(3)), bson.D{{Key: "w", Value: g.bin()}}}}}}}, nil
	case 7:
		return bson.D{{Key: "$unset", Value: bson.D{{Key: "x", Value: ""}}}, {Key: "$inc", Value: bson.D{{Key: "a", Value: int32(1)}}}}, nil
	case 8:
		return bson.D{{Key: "$setOnInsert", Value: bson.D{{Key: "s", Value: g.nested()}}}, {Key: "$set", Value: bson.D{{Key: "b", Value: "u"}, {Key: "y", Value: bson.A{g.nested()}}}}}, nil
	case 9:
		return bson.D{{Key: "$pull", Value: bson.D{{Key: "arr", Value: bson.D{{Key: "k", Value: int32(r.N(3))}}}}}}, nil
	case 10:
		if r.P(50) {
			return bson.D{{Key: "$rename", Value: bson.D{{Key: "x", Value: "y"}}}}, nil
		}
		return bson.D{{Key: "$max", Value: bson.D{{Key: "n.d", Value: g.nested()}}}}, nil
	case 11:
		return bson.D{{Key: "$push", Value: bson.D{{Key: "n.e", Value: bson.D{{Key: "$each", Value: bson.A{g.nested(), bson.A{g.bin()}}}, {Key: "$slice", Value: int32(-3)}}}}}}, nil
	default:
		return bson.D{{Key: "$set", Value: bson.D{{Key: "arr.$[e]", Value: g.elem()}}}}, bson.A{bson.D{{Key: "e.k", Value: bson.D{{Key: "$gte", Value: int32(r.N(3))}}}}}
	}
}

func (g *aliasGen) projection() bson.D {
	r := g.r
	switch r.N(9) {
	case 0:
		return bson.D{{Key: "a", Value: int32(1)}, {Key: "n.d", Value: int32(1)}}
	case 1:
		return bson.D{{Key: "n", Value: int32(0)}}
	case 2:
		return bson.D{{Key: "arr", Value: bson.D{{Key: "$slice", Value: int32(r.N(4) - 1)}}}}
	case 3:
		return bson.D{{Key: "arr", Value: bson.D{{Key: "$slice", Value: bson.A{int32(r.N(2)), int32(1 + r.N(2))}}}}}
	case 4:
		return bson.D{{Key: "arr", Value: bson.D{{Key: "$elemMatch", Value: bson.D{{Key: "k", Value: int32(r.N(3))}}}}}}
	case 5:
		return bson.D{{Key: "n", Value: int32(1)}, {Key: "n.e", Value: bson.D{{Key: "$slice", Value: int32(1)}}}}
	case 6:
		return bson.D{{Key: "n.d.b", Value: int32(1)}, {Key: "arr", Value: bson.D{{Key: "$slice", Value: int32(-1)}}}}
	case 7:
		return bson.D{{Key: "_id", Value: int32(0)}, {Key: "arr.v", Value: int32(1)}}
	default:
		return bson.D{{Key: "x", Value: int32(1)}, {Key: "bin", Value: int32(1)}, {Key: "_id", Value: int32(1)}}
	}
}

func (g *aliasGen) sortDoc() bson.D {
	r := g.r
	switch r.N(3) {
	case 0:
		return bson.D{{Key: "a", Value: int32(1)}}
	case 1:
		return bson.D{{Key: "_id", Value: int32(-1)}}
	default:
		return bson.D{{Key: "n.d.k", Value: int32(1)}, {Key: "a", Value: int32(-1)}}
	}
}

func (g *aliasGen) indexKeys() bson.D {
	r := g.r
	switch r.N(5) {
	case 0:
		return bson.D{{Key: "a", Value: int32(1)}}
	case 1:
		return bson.D{{Key: "n.d.k", Value: int32(-1)}}
	case 2:
		return bson.D{{Key: "b", Value: int32(1)}, {Key: "a", Value: int32(-1)}}
	case 3:
		return bson.D{{Key: "arr.k", Value: int32(1)}}
	default:
		return bson.D{{Key: "x", Value: int32(1)}}
	}
}

func (g *aliasGen) partial() bson.D {
	r := g.r
	switch r.N(4) {
	case 0:
		return bson.D{{Key: "a", Value: bson.D{{Key: "$gte", Value: int32(r.N(3))}}}}
	case 1:
		return bson.D{{Key: "x", Value: bson.D{{Key: "$exists", Value: true}}}}
	case 2:
		return bson.D{{Key: "n.d.b", Value: g.bin()}}
	default:
		return bson.D{{Key: "$and", Value: bson.A{bson.D{{Key: "n.d", Value: bson.D{{Key: "$ne", Value: g.nested()}}}}, bson.D{{Key: "a", Value: bson.D{{Key: "$lt", Value: int32(9)}}}}}}}
	}
}

// ---------------------------------------------------------------------------------------------
// shapes: a deep rebuild of a generated value with the container types of the chosen style

func (g *aliasGen) mapish() bool {
	return g.style == 1 || (g.style == 2 && g.r.P(50))
}

func (g *aliasGen) spare() int {
	if g.r.P(25) {
		g.feat["spare"] = true
		return 1 + g.r.N(2)
	}
	return 0
}

func (g *aliasGen) shape(v interface{}) interface{} {
	r := g.r
	switch x := v.(type) {
	case bson.D:
		if len(x) <= 1 && g.mapish() {
			g.feat["map"] = true
			if r.P(50) {
				m := bson.M{}
				for _, e := range x {
					m[e.Key] = g.shape(e.Value)
				}
				return m
			}
			m := map[string]interface{}{}
			for _, e := range x {
				m[e.Key] = g.shape(e.Value)
			}
			return m
		}
		sp := g.spare()
		d := make(bson.D, 0, len(x)+sp)
		for _, e := range x {
			d = append(d, bson.E{Key: e.Key, Value: g.shape(e.Value)})
		}
		full := d[:cap(d)]
		for i := len(d); i < len(full); i++ {
			full[i] = bson.E{Key: aliasSpareKey, Value: aliasSpareKey}
		}
		return d
	case bson.A:
		allDocs := len(x) > 0
		small := true
		for _, e := range x {
			d, ok := e.(bson.D)
			if !ok {
				allDocs = false
				break
			}
			if len(d) > 1 {
				small = false
			}
		}
		if allDocs && g.mapish() && r.P(40) {
			g.feat["typedslice"] = true
			if small && r.P(50) {
				out := make([]bson.M, 0, len(x))
				for _, e := range x {
					m := bson.M{}
					for _, f := range e.(bson.D) {
						m[f.Key] = g.shape(f.Value)
					}
					out = append(out, m)
				}
				return out
			}
			out := make([]bson.D, 0, len(x))
			for _, e := range x {
				d := bson.D{}
				for _, f := range e.(bson.D) {
					d = append(d, bson.E{Key: f.Key, Value: g.shape(f.Value)})
				}
				out = append(out, d)
			}
			return out
		}
		sp := g.spare()
		if g.mapish() {
			out := make([]interface{}, 0, len(x)+sp)
			for _, e := range x {
				out = append(out, g.shape(e))
			}
			full := out[:cap(out)]
			for i := len(out); i < len(full); i++ {
				full[i] = aliasSpareKey
			}
			return out
		}
		out := make(bson.A, 0, len(x)+sp)
		for _, e := range x {
			out = append(out, g.shape(e))
		}
		full := out[:cap(out)]
		for i := len(out); i < len(full); i++ {
			full[i] = aliasSpareKey
		}
		return out
	case primitive.Binary:
		g.feat["bin"] = true
		data := make([]byte, len(x.Data), len(x.Data)+g.spare())
		copy(data, x.Data)
		if x.Subtype == 0 && g.mapish() && r.P(40) {
			g.feat["bytes"] = true
			return data
		}
		return primitive.Binary{Subtype: x.Subtype, Data: data}
	default:
		return v
	}
}

// top shapes an argument document; occasionally hands it over as *bson.D.
func (g *aliasGen) top(d bson.D) interface{} {
	v := g.shape(d)
	if dd, ok := v.(bson.D); ok && g.style != 0 && g.r.P(15) {
		g.feat["ptr"] = true
		return &dd
	}
	return v
}

// aliasCopy is a deep copy preserving the shape types (fresh memory for the twin side).
func aliasCopy(v interface{}) interface{} {
	switch x := v.(type) {
	case bson.D:
		d := make(bson.D, len(x))
		for i, e := range x {
			d[i] = bson.E{Key: e.Key, Value: aliasCopy(e.Value)}
		}
		return d
	case *bson.D:
		d := aliasCopy(*x).(bson.D)
		return &d
	case bson.M:
		m := bson.M{}
		for k, e := range x {
			m[k] = aliasCopy(e)
		}
		return m
	case map[string]interface{}:
		m := map[string]interface{}{}
		for k, e := range x {
			m[k] = aliasCopy(e)
		}
		return m
	case bson.A:
		a := make(bson.A, len(x))
		for i, e := range x {
			a[i] = aliasCopy(e)
		}
		return a
	case []interface{}:
		a := make([]interface{}, len(x))
		for i, e := range x {
			a[i] = aliasCopy(e)
		}
		return a
	case []bson.D:
		a := make([]bson.D, len(x))
		for i, e := range x {
			a[i] = aliasCopy(e).(bson.D)
		}
		return a
	case []bson.M:
		a := make([]bson.M, len(x))
		for i, e := range x {
			a[i] = aliasCopy(e).(bson.M)
		}
		return a
	case primitive.Binary:
		return primitive.Binary{Subtype: x.Subtype, Data: append([]byte{}, x.Data...)}
	case []byte:
		return append([]byte{}, x...)
	default:
		return v
	}
}

// ---------------------------------------------------------------------------------------------
// calls

type aliasArg struct {
	name string
	val  interface{}
}

type aliasBulkOp struct {
	kind   string // insert | replace | updateOne | updateMany | deleteOne | deleteMany
	upsert bool
}

type aliasCall struct {
	method  string
	ns      int
	args    []aliasArg
	skip    int64
	limit   int64
	upsert  bool
	after   bool
	ordered bool
	unique  bool
	field   string
	name    string
	decode  int // 0 bson.D, 1 bson.M, 2 raw bytes / Next+Decode
	bulk    []aliasBulkOp
	nIdx    int
}

func (c *aliasCall) arg(name string) interface{} {
	for _, a := range c.args {
		if a.name == name {
			return a.val
		}
	}
	return nil
}

func (c *aliasCall) set(name string, v interface{}) {
	c.args = append(c.args, aliasArg{name, v})
}

func (c *aliasCall) vals() []interface{} {
	out := make([]interface{}, len(c.args))
	for i, a := range c.args {
		out[i] = a.val
	}
	return out
}

// fresh returns the same call over deep copies of all arguments.
func (c *aliasCall) fresh() *aliasCall {
	d := *c
	d.args = make([]aliasArg, len(c.args))
	for i, a := range c.args {
		d.args[i] = aliasArg{a.name, aliasCopy(a.val)}
	}
	return &d
}

type aliasRes struct {
	class string
	vals  []interface{} // the values handed back (pointers to result structs / decode targets)
	canon strings.Builder
	note  string
}

func aliasErrClass(err error) string {
	switch {
	case err == nil:
		return "ok"
	case errors.Is(err, mongo.ErrNoDocuments):
		return "nodocs"
	case errors.Is(err, io.EOF):
		return "eof"
	}
	var bwe mongo.WriteErrors
	if errors.As(err, &bwe) {
		return "werr"
	}
	return "err"
}

func (res *aliasRes) put(name string, v interface{}, n aliasNorm) {
	res.vals = append(res.vals, v)
	res.canon.WriteString(name + "=" + aliasCanon(v, n) + ";")
}

func (res *aliasRes) scalar(name string, v interface{}) {
	res.canon.WriteString(fmt.Sprintf("%s=%v;", name, v))
}

var aliasOIDNorm = aliasNorm{oid: true}

func (res *aliasRes) single(sr lungo.ISingleResult, decode int) error {
	switch decode {
	case 1:
		out := bson.M{}
		if err := sr.Decode(&out); err != nil {
			return err
		}
		res.put("doc", &out, aliasOIDNorm)
	case 2:
		raw, err := sr.DecodeBytes()
		if err != nil {
			return err
		}
		var chk bson.D
		if err := bson.Unmarshal(raw, &chk); err != nil {
			return err
		}
		res.vals = append(res.vals, &raw)
		res.canon.WriteString("raw=" + aliasCanon(chk, aliasOIDNorm) + ";")
	default:
		out := bson.D{}
		if err := sr.Decode(&out); err != nil {
			return err
		}
		res.put("doc", &out, aliasOIDNorm)
	}
	return nil
}

func (res *aliasRes) cursor(csr lungo.ICursor, decode int) error {
	ctx := context.Background()
	switch decode {
	case 1:
		out := []bson.M{}
		if err := csr.All(ctx, &out); err != nil {
			return err
		}
		res.put("docs", &out, aliasOIDNorm)
	case 2:
		out := []*bson.D{}
		for csr.Next(ctx) {
			d := bson.D{}
			if err := csr.Decode(&d); err != nil {
				return err
			}
			out = append(out, &d)
		}
		_ = csr.Close(ctx)
		res.put("docs", &out, aliasOIDNorm)
	default:
		// a target with spare capacity that the decoder may reuse
		out := make([]bson.D, 0, 3)
		if err := csr.All(ctx, &out); err != nil {
			return err
		}
		res.put("docs", &out, aliasOIDNorm)
	}
	return nil
}

func aliasArrayFilters(v interface{}) options.ArrayFilters {
	f, _ := v.([]interface{})
	return options.ArrayFilters{Filters: f}
}

// exec performs one driver call; panics become class "panic".
func (s *aliasSide) exec(c *aliasCall) (res *aliasRes) {
	res = &aliasRes{}
	defer func() {
		if p := recover(); p != nil {
			res.class = "panic"
			res.note = fmt.Sprint(p)
		}
	}()
	ctx := context.Background()
	coll := s.coll(c.ns)
	fail := func(err error) *aliasRes {
		res.class = aliasErrClass(err)
		return res
	}
	updOpts := func() *options.UpdateOptions {
		o := options.Update()
		if c.upsert {
			o.SetUpsert(true)
		}
		if af := c.arg("arrayFilters"); af != nil {
			o.SetArrayFilters(aliasArrayFilters(af))
		}
		return o
	}
	updRes := func(ur *mongo.UpdateResult, err error) *aliasRes {
		if err != nil {
			return fail(err)
		}
		res.scalar("counts", fmt.Sprint(ur.MatchedCount, ur.ModifiedCount, ur.UpsertedCount))
		res.put("res", ur, aliasOIDNorm)
		return fail(nil)
	}
	switch c.method {
	case "InsertOne":
		r, err := coll.InsertOne(ctx, c.arg("doc"))
		if err != nil {
			return fail(err)
		}
		res.put("res", r, aliasOIDNorm)
	case "InsertMany":
		docs, _ := c.arg("docs").([]interface{})
		r, err := coll.InsertMany(ctx, docs, options.InsertMany().SetOrdered(c.ordered))
		if r != nil {
			res.put("res", r, aliasOIDNorm)
		}
		if err != nil {
			return fail(err)
		}
	case "Find":
		o := options.Find()
		if v := c.arg("sort"); v != nil {
			o.SetSort(v)
		}
		if v := c.arg("projection"); v != nil {
			o.SetProjection(v)
		}
		if c.skip > 0 {
			o.SetSkip(c.skip)
		}
		if c.limit > 0 {
			o.SetLimit(c.limit)
		}
		csr, err := coll.Find(ctx, c.arg("filter"), o)
		if err != nil {
			return fail(err)
		}
		if err := res.cursor(csr, c.decode); err != nil {
			return fail(err)
		}
	case "FindOne":
		o := options.FindOne()
		if v := c.arg("sort"); v != nil {
			o.SetSort(v)
		}
		if v := c.arg("projection"); v != nil {
			o.SetProjection(v)
		}
		if c.skip > 0 {
			o.SetSkip(c.skip)
		}
		if err := res.single(coll.FindOne(ctx, c.arg("filter"), o), c.decode); err != nil {
			return fail(err)
		}
	case "CountDocuments":
		n, err := coll.CountDocuments(ctx, c.arg("filter"))
		if err != nil {
			return fail(err)
		}
		res.scalar("n", n)
	case "Distinct":
		vals, err := coll.Distinct(ctx, c.field, c.arg("filter"))
		if err != nil {
			return fail(err)
		}
		res.put("values", &vals, aliasOIDNorm)
	case "UpdateOne":
		return updRes(coll.UpdateOne(ctx, c.arg("filter"), c.arg("update"), updOpts()))
	case "UpdateMany":
		return updRes(coll.UpdateMany(ctx, c.arg("filter"), c.arg("update"), updOpts()))
	case "UpdateByID":
		return updRes(coll.UpdateByID(ctx, c.arg("id"), c.arg("update"), updOpts()))
	case "ReplaceOne":
		return updRes(coll.ReplaceOne(ctx, c.arg("filter"), c.arg("repl"), options.Replace().SetUpsert(c.upsert)))
	case "DeleteOne":
		r, err := coll.DeleteOne(ctx, c.arg("filter"))
		if err != nil {
			return fail(err)
		}
		res.scalar("n", r.DeletedCount)
	case "DeleteMany":
		r, err := coll.DeleteMany(ctx, c.arg("filter"))
		if err != nil {
			return fail(err)
		}
		res.scalar("n", r.DeletedCount)
	case "FindOneAndDelete":
		o := options.FindOneAndDelete()
		if v := c.arg("sort"); v != nil {
			o.SetSort(v)
		}
		if v := c.arg("projection"); v != nil {
			o.SetProjection(v)
		}
		if err := res.single(coll.FindOneAndDelete(ctx, c.arg("filter"), o), c.decode); err != nil {
			return fail(err)
		}
	case "FindOneAndReplace":
		o := options.FindOneAndReplace().SetUpsert(c.upsert)
		if c.after {
			o.SetReturnDocument(options.After)
		}
		if v := c.arg("sort"); v != nil {
			o.SetSort(v)
		}
		if v := c.arg("projection"); v != nil {
			o.SetProjection(v)
		}
		if err := res.single(coll.FindOneAndReplace(ctx, c.arg("filter"), c.arg("repl"), o), c.decode); err != nil {
			return fail(err)
		}
	case "FindOneAndUpdate":
		o := options.FindOneAndUpdate().SetUpsert(c.upsert)
		if c.after {
			o.SetReturnDocument(options.After)
		}
		if v := c.arg("sort"); v != nil {
			o.SetSort(v)
		}
		if v := c.arg("projection"); v != nil {
			o.SetProjection(v)
		}
		if af := c.arg("arrayFilters"); af != nil {
			o.SetArrayFilters(aliasArrayFilters(af))
		}
		if err := res.single(coll.FindOneAndUpdate(ctx, c.arg("filter"), c.arg("update"), o), c.decode); err != nil {
			return fail(err)
		}
	case "BulkWrite":
		var models []mongo.WriteModel
		for i, op := range c.bulk {
			p := "m" + strconv.Itoa(i) + "."
			switch op.kind {
			case "insert":
				models = append(models, mongo.NewInsertOneModel().SetDocument(c.arg(p+"doc")))
			case "replace":
				models = append(models, mongo.NewReplaceOneModel().SetFilter(c.arg(p+"filter")).SetReplacement(c.arg(p+"repl")).SetUpsert(op.upsert))
			case "updateOne":
				m := mongo.NewUpdateOneModel().SetFilter(c.arg(p + "filter")).SetUpdate(c.arg(p + "update")).SetUpsert(op.upsert)
				if af := c.arg(p + "arrayFilters"); af != nil {
					m.SetArrayFilters(aliasArrayFilters(af))
				}
				models = append(models, m)
			case "updateMany":
				m := mongo.NewUpdateManyModel().SetFilter(c.arg(p + "filter")).SetUpdate(c.arg(p + "update")).SetUpsert(op.upsert)
				if af := c.arg(p + "arrayFilters"); af != nil {
					m.SetArrayFilters(aliasArrayFilters(af))
				}
				models = append(models, m)
			case "deleteOne":
				models = append(models, mongo.NewDeleteOneModel().SetFilter(c.arg(p+"filter")))
			case "deleteMany":
				models = append(models, mongo.NewDeleteManyModel().SetFilter(c.arg(p+"filter")))
			}
		}
		r, err := coll.BulkWrite(ctx, models, options.BulkWrite().SetOrdered(c.ordered))
		if r != nil {
			res.scalar("counts", fmt.Sprint(r.InsertedCount, r.MatchedCount, r.ModifiedCount, r.DeletedCount, r.UpsertedCount))
			res.put("res", r, aliasOIDNorm)
		}
		if err != nil {
			return fail(err)
		}
	case "CreateOne":
		o := options.Index().SetUnique(c.unique)
		if c.name != "" {
			o.SetName(c.name)
		}
		if v := c.arg("partial"); v != nil {
			o.SetPartialFilterExpression(v)
		}
		name, err := coll.Indexes().CreateOne(ctx, mongo.IndexModel{Keys: c.arg("keys"), Options: o})
		if err != nil {
			return fail(err)
		}
		res.scalar("name", name)
	case "CreateMany":
		var models []mongo.IndexModel
		for i := 0; i < c.nIdx; i++ {
			p := "i" + strconv.Itoa(i) + "."
			o := options.Index()
			if v := c.arg(p + "partial"); v != nil {
				o.SetPartialFilterExpression(v)
			}
			models = append(models, mongo.IndexModel{Keys: c.arg(p + "keys"), Options: o})
		}
		names, err := coll.Indexes().CreateMany(ctx, models)
		res.put("names", &names, aliasNorm{})
		if err != nil {
			return fail(err)
		}
	case "DropOneWithKey":
		_, err := coll.Indexes().DropOneWithKey(ctx, c.arg("keys"))
		if err != nil {
			return fail(err)
		}
	case "ListIndexes":
		csr, err := coll.Indexes().List(ctx)
		if err != nil {
			return fail(err)
		}
		if err := res.cursor(csr, c.decode); err != nil {
			return fail(err)
		}
	case "ListCollections":
		csr, err := s.client.Database(aliasNS[c.ns][0]).ListCollections(ctx, c.arg("filter"))
		if err != nil {
			return fail(err)
		}
		if err := res.cursor(csr, c.decode); err != nil {
			return fail(err)
		}
	case "ListCollectionNames":
		names, err := s.client.Database(aliasNS[c.ns][0]).ListCollectionNames(ctx, c.arg("filter"))
		if err != nil {
			return fail(err)
		}
		res.put("names", &names, aliasNorm{})
	case "ListDatabases":
		r, err := s.client.ListDatabases(ctx, c.arg("filter"))
		if err != nil {
			return fail(err)
		}
		res.put("res", &r, aliasNorm{})
	case "ListDatabaseNames":
		names, err := s.client.ListDatabaseNames(ctx, c.arg("filter"))
		if err != nil {
			return fail(err)
		}
		res.put("names", &names, aliasNorm{})
	case "Watch":
		// open, write one document, read the event, resume from a caller-owned copy of the token
		var pipeline interface{} = bson.A{}
		if c.decode == 1 {
			pipeline = mongo.Pipeline{}
		}
		cs, err := coll.Watch(ctx, pipeline)
		if err != nil {
			return fail(err)
		}
		defer cs.Close(ctx)
		if _, err := coll.InsertOne(ctx, c.arg("doc")); err != nil {
			return fail(err)
		}
		if !cs.TryNext(ctx) {
			res.class = "noevent"
			return res
		}
		tn := aliasNorm{oid: true, time: true}
		ev := bson.D{}
		if err := cs.Decode(&ev); err != nil {
			return fail(err)
		}
		res.put("event", &ev, tn)
		raw := cs.ResumeToken()
		tok := bson.D{}
		if err := bson.Unmarshal(raw, &tok); err != nil {
			return fail(err)
		}
		res.vals = append(res.vals, &raw)
		before := aliasCanon(tok, aliasNorm{})
		cs2, err := coll.Watch(ctx, pipeline, options.ChangeStream().SetResumeAfter(tok))
		if err != nil {
			return fail(err)
		}
		defer cs2.Close(ctx)
		res.scalar("more", cs2.TryNext(ctx))
		if aliasCanon(tok, aliasNorm{}) != before {
			res.note = "token-modified"
		}
		res.put("token", &tok, tn)
	default:
		panic("alias: unknown method " + c.method)
	}
	res.class = "ok"
	return res
}

// ---------------------------------------------------------------------------------------------
// call generation

type aliasWeighted struct {
	m string
	w int
}

var aliasMethods = []aliasWeighted{
	{"InsertOne", 6}, {"InsertMany", 4}, {"Find", 8}, {"FindOne", 5}, {"CountDocuments", 2}, {"Distinct", 5},
	{"UpdateOne", 6}, {"UpdateMany", 6}, {"UpdateByID", 4}, {"ReplaceOne", 5}, {"DeleteOne", 2}, {"DeleteMany", 2},
	{"FindOneAndDelete", 3}, {"FindOneAndReplace", 4}, {"FindOneAndUpdate", 5}, {"BulkWrite", 6},
	{"CreateOne", 4}, {"CreateMany", 2}, {"DropOneWithKey", 2}, {"ListIndexes", 3},
	{"ListCollections", 2}, {"ListCollectionNames", 1}, {"ListDatabases", 2}, {"ListDatabaseNames", 1}, {"Watch", 2},
}

// AliasMethodNames lists every driver method the stream exercises (used by tests/tags).
func aliasMethodNames() []string {
	out := make([]string, len(aliasMethods))
	for i, m := range aliasMethods {
		out[i] = m.m
	}
	return out
}

func (g *aliasGen) pickMethod() string {
	total := 0
	for _, m := range aliasMethods {
		total += m.w
	}
	k := g.r.N(total)
	for _, m := range aliasMethods {
		if k < m.w {
			return m.m
		}
		k -= m.w
	}
	return "Find"
}

func (g *aliasGen) listArg(a bson.A) interface{} {
	// array filters / document lists are always handed over as []interface{}
	out := make([]interface{}, 0, len(a)+g.spare())
	for _, e := range a {
		if d, ok := e.(bson.D); ok {
			out = append(out, g.top(d))
		} else {
			out = append(out, g.shape(e))
		}
	}
	full := out[:cap(out)]
	for i := len(out); i < len(full); i++ {
		full[i] = bson.D{{Key: aliasSpareKey, Value: int32(1)}}
	}
	return out
}

func (g *aliasGen) addReadOpts(c *aliasCall) {
	r := g.r
	if r.P(40) {
		c.set("sort", g.top(g.sortDoc()))
	}
	if r.P(55) {
		c.set("projection", g.top(g.projection()))
	}
	if r.P(15) {
		c.skip = int64(r.N(2))
	}
	if r.P(15) {
		c.limit = int64(1 + r.N(3))
	}
}

func (g *aliasGen) call(method string) *aliasCall {
	r := g.r
	c := &aliasCall{method: method, ns: r.N(2), decode: r.N(3)}
	switch method {
	case "InsertOne":
		c.set("doc", g.top(g.storedDoc(r.P(90))))
	case "InsertMany":
		docs := bson.A{}
		for i, n := 0, 1+r.N(4); i < n; i++ {
			docs = append(docs, g.storedDoc(r.P(90)))
		}
		c.set("docs", g.listArg(docs))
		c.ordered = r.P(50)
	case "Find", "FindOne":
		c.set("filter", g.top(g.filter()))
		g.addReadOpts(c)
	case "CountDocuments", "DeleteOne", "DeleteMany":
		c.set("filter", g.top(g.filter()))
	case "Distinct":
		c.set("filter", g.top(g.filter()))
		c.field = []string{"_id", "arr", "n.d", "n.d.b", "arr.v", "x", "n.e", "a"}[r.N(8)]
	case "UpdateOne", "UpdateMany", "FindOneAndUpdate":
		c.set("filter", g.top(g.filter()))
		u, af := g.update()
		c.set("update", g.top(u))
		if af != nil {
			c.set("arrayFilters", g.listArg(af))
		}
		c.upsert = r.P(40)
		if method == "FindOneAndUpdate" {
			c.after = r.P(50)
			g.addReadOpts(c)
		}
	case "UpdateByID":
		c.set("id", g.shape(g.id()))
		u, af := g.update()
		c.set("update", g.top(u))
		if af != nil {
			c.set("arrayFilters", g.listArg(af))
		}
		c.upsert = r.P(40)
	case "ReplaceOne", "FindOneAndReplace":
		c.set("filter", g.top(g.filter()))
		c.set("repl", g.top(g.storedDoc(r.P(30))))
		c.upsert = r.P(50)
		if method == "FindOneAndReplace" {
			c.after = r.P(50)
			g.addReadOpts(c)
		}
	case "FindOneAndDelete":
		c.set("filter", g.top(g.filter()))
		g.addReadOpts(c)
	case "BulkWrite":
		kinds := []string{"insert", "replace", "updateOne", "updateMany", "deleteOne", "deleteMany", "insert", "updateOne"}
		for i, n := 0, 1+r.N(4); i < n; i++ {
			op := aliasBulkOp{kind: kinds[r.N(len(kinds))], upsert: r.P(40)}
			p := "m" + strconv.Itoa(i) + "."
			switch op.kind {
			case "insert":
				c.set(p+"doc", g.top(g.storedDoc(r.P(90))))
			case "replace":
				c.set(p+"filter", g.top(g.filter()))
				c.set(p+"repl", g.top(g.storedDoc(r.P(30))))
			case "updateOne", "updateMany":
				c.set(p+"filter", g.top(g.filter()))
				u, af := g.update()
				c.set(p+"update", g.top(u))
				if af != nil {
					c.set(p+"arrayFilters", g.listArg(af))
				}
			default:
				c.set(p+"filter", g.top(g.filter()))
			}
			c.bulk = append(c.bulk, op)
		}
		c.ordered = r.P(50)
	case "CreateOne":
		c.set("keys", g.top(g.indexKeys()))
		if r.P(50) {
			c.set("partial", g.top(g.partial()))
		}
		c.unique = r.P(15)
		if r.P(30) {
			c.name = []string{"ix1", "ix2"}[r.N(2)]
		}
	case "CreateMany":
		c.nIdx = 1 + r.N(2)
		for i := 0; i < c.nIdx; i++ {
			p := "i" + strconv.Itoa(i) + "."
			c.set(p+"keys", g.top(g.indexKeys()))
			if r.P(50) {
				c.set(p+"partial", g.top(g.partial()))
			}
		}
	case "DropOneWithKey":
		c.set("keys", g.top(g.indexKeys()))
	case "ListIndexes":
	case "ListCollections", "ListCollectionNames":
		f := bson.D{}
		switch r.N(3) {
		case 1:
			f = bson.D{{Key: "name", Value: bson.D{{Key: "$in", Value: bson.A{"c", "e"}}}}}
		case 2:
			f = bson.D{{Key: "idIndex.key", Value: bson.D{{Key: "_id", Value: int32(1)}}}}
		}
		c.set("filter", g.top(f))
	case "ListDatabases", "ListDatabaseNames":
		f := bson.D{}
		switch r.N(3) {
		case 1:
			f = bson.D{{Key: "name", Value: bson.D{{Key: "$in", Value: bson.A{"d1", "local"}}}}}
		case 2:
			f = bson.D{{Key: "$or", Value: bson.A{bson.D{{Key: "empty", Value: false}}, bson.D{{Key: "name", Value: "d2"}}}}}
		}
		c.set("filter", g.top(f))
	case "Watch":
		c.set("doc", g.top(g.storedDoc(true)))
	}
	return c
}

var aliasFamilies = [][]string{
	{"Find", "FindOne", "CountDocuments", "Distinct", "DeleteOne", "DeleteMany", "FindOneAndDelete"},
	{"UpdateOne", "UpdateMany", "FindOneAndUpdate"},
	{"ReplaceOne", "FindOneAndReplace"},
	{"CreateOne", "DropOneWithKey"},
	{"ListCollections", "ListCollectionNames"},
	{"ListDatabases", "ListDatabaseNames"},
}

// reuse derives the second call of a step: another method of the same argument family on the
// very same argument objects (shared, not copied), usually on another namespace.
func (g *aliasGen) reuse(c *aliasCall) *aliasCall {
	r := g.r
	d := *c
	d.args = append([]aliasArg{}, c.args...)
	for _, fam := range aliasFamilies {
		for _, m := range fam {
			if m == c.method {
				d.method = fam[r.N(len(fam))]
			}
		}
	}
	if c.method == "UpdateOne" || c.method == "UpdateMany" || c.method == "FindOneAndUpdate" || c.method == "ReplaceOne" || c.method == "FindOneAndReplace" {
		if r.P(25) { // the filter alone, reused by a read
			d.method = []string{"Find", "Distinct", "CountDocuments"}[r.N(3)]
		}
	}
	if d.method == "Distinct" && d.field == "" {
		d.field = []string{"_id", "arr", "n.d", "x"}[r.N(4)]
	}
	if r.P(70) {
		d.ns = 2
	} else {
		d.ns = r.N(2)
	}
	d.decode = r.N(3)
	return &d
}

// ---------------------------------------------------------------------------------------------
// engine-internal sharing (not a C17 violation by itself) and the single-document-write oracle

// aliasInternalSharing reports whether two different stored documents of the user namespaces
// share a bson.D/bson.A backing array (mongokit.Apply stores references to the values of the
// call-private update document in every document it updates).
func aliasInternalSharing(e *lungo.Engine) bool {
	owner := map[uintptr]*bson.D{}
	for h, coll := range e.Catalog().Namespaces {
		if h == lungo.Oplog {
			continue
		}
		for _, d := range coll.Documents.List {
			w := aliasNewWalker(false)
			w.walk(reflect.ValueOf(*d), 0)
			for _, c := range w.conts {
				if c.Kind() != reflect.Slice || c.Type().Elem().Kind() == reflect.Uint8 {
					continue
				}
				if o, ok := owner[c.Pointer()]; ok && o != d {
					return true
				}
				owner[c.Pointer()] = d
			}
		}
	}
	return false
}

// aliasDocFPs fingerprints every stored document of the user namespaces.
func aliasDocFPs(e *lungo.Engine) map[lungo.Handle][]string {
	out := map[lungo.Handle][]string{}
	for h, coll := range e.Catalog().Namespaces {
		if h == lungo.Oplog {
			continue
		}
		l := make([]string, len(coll.Documents.List))
		for i, d := range coll.Documents.List {
			l[i] = aliasFP(d, aliasNorm{})
		}
		out[h] = l
	}
	return out
}

// aliasChanged counts documents removed from / added to the multiset of fingerprints.
func aliasChanged(before, after []string) (gone, added int) {
	m := map[string]int{}
	for _, x := range before {
		m[x]++
	}
	for _, x := range after {
		if m[x] > 0 {
			m[x]--
		} else {
			added++
		}
	}
	for _, n := range m {
		gone += n
	}
	return
}

var aliasSingleDocWrites = map[string]bool{"InsertOne": true, "UpdateOne": true, "UpdateByID": true, "ReplaceOne": true, "DeleteOne": true,
	"FindOneAndDelete": true, "FindOneAndReplace": true, "FindOneAndUpdate": true}

// ---------------------------------------------------------------------------------------------
// one case

type aliasStep struct {
	Method  string   `json:"m"`
	Method2 string   `json:"m2"`
	Class   string   `json:"class"`
	Class2  string   `json:"class2"`
	Viols   []string `json:"viol"`
	tags    []string
	nontriv bool
	details map[string]string
}

func aliasSnapshot(vals []interface{}) (string, string) {
	w := aliasNewWalker(true)
	var sb strings.Builder
	for _, v := range vals {
		sb.WriteString(aliasCanon(v, aliasNorm{}) + ";")
		w.walk(reflect.ValueOf(v), 0)
	}
	return sb.String(), w.finger.String()
}

func aliasRunCase(seed uint64) []aliasStep {
	r := gen.New(seed, 0, 0)
	A, B := aliasNewSide(), aliasNewSide()
	defer A.engine.Close()
	defer B.engine.Close()
	g := &aliasGen{r: r}

	var steps []aliasStep
	var heldVals []interface{}
	heldCanon := ""

	nSteps := 3 + 4 + r.N(4)
	for i := 0; i < nSteps; i++ {
		g.style = r.N(3)
		g.feat = map[string]bool{}
		var c *aliasCall
		switch i {
		case 0:
			c = g.call("InsertMany")
			c.ns = 0
		case 1:
			c = g.call("InsertMany")
			c.ns = 1
		case 2:
			c = g.call("CreateOne")
			c.ns = 0
		default:
			c = g.call(g.pickMethod())
		}
		c2 := g.reuse(c)
		cB := c.fresh()
		c2B := c2.fresh() // copies taken before side A has seen the arguments
		st := aliasStep{Method: c.method, Method2: c2.method, details: map[string]string{}}
		viol := func(w, detail string) {
			for _, x := range st.Viols {
				if x == w {
					return
				}
			}
			st.Viols = append(st.Viols, w)
			st.details[w] = detail
		}

		argVals := c.vals()
		snap, finger := aliasSnapshot(argVals)
		argWalk := aliasNewWalker(false).roots(argVals...)
		catBefore := A.engine.Catalog()

		// first call
		var fpsBefore map[lungo.Handle][]string
		if aliasSingleDocWrites[c.method] {
			fpsBefore = aliasDocFPs(A.engine)
		}
		resA := A.exec(c)
		st.Class = resA.class
		if fpsBefore != nil {
			// independent oracle against exploitable engine-internal sharing: a single-document write
			// changes at most one stored document, and only in its own namespace
			target := lungo.Handle{aliasNS[c.ns][0], aliasNS[c.ns][1]}
			fpsAfter := aliasDocFPs(A.engine)
			for h, l := range fpsAfter {
				gone, added := aliasChanged(fpsBefore[h], l)
				if (h != target && gone+added > 0) || gone > 1 || added > 1 {
					viol("write-leaks-to-other-doc:"+c.method, fmt.Sprintf("%s: %d documents gone, %d new after a single-document write on %s", h, gone, added, target))
				}
			}
		}
		sharing := aliasInternalSharing(A.engine)
		stored := A.engine.Catalog() != catBefore && argWalk.nonEmpty > 0
		if s2, f2 := aliasSnapshot(argVals); s2 != snap || f2 != finger {
			viol("arg-modified:"+c.method, "arguments differ from their snapshot after the call")
			snap, finger = s2, f2
		}
		if resA.note == "token-modified" {
			viol("arg-modified:"+c.method, "resume token document modified by Watch")
		}
		db := aliasDBSpans(A.engine)
		if ok, d := aliasOverlap(argWalk.spans, db); ok {
			viol("shares-memory:"+c.method+":arg", d)
		}
		resWalk := aliasNewWalker(false).roots(resA.vals...)
		if ok, d := aliasOverlap(resWalk.spans, db); ok {
			viol("shares-memory:"+c.method+":result", d)
		}
		resB := B.exec(cB)
		if resA.class != resB.class || resA.canon.String() != resB.canon.String() {
			viol("twin-diverged:"+c.method, "A: "+resA.class+" "+resA.canon.String()+" | B: "+resB.class+" "+resB.canon.String())
		} else if da, dbb := aliasDump(A.engine, true), aliasDump(B.engine, true); da != dbb {
			viol("twin-diverged:"+c.method, "dumps differ after the call\nA:\n"+da+"\nB:\n"+dbb)
		}

		// second call on the same argument objects
		res2A := A.exec(c2)
		st.Class2 = res2A.class
		if s2, f2 := aliasSnapshot(argVals); s2 != snap || f2 != finger {
			viol("arg-modified:"+c2.method, "arguments differ from their snapshot after the reusing call")
		}
		db = aliasDBSpans(A.engine)
		if ok, d := aliasOverlap(argWalk.spans, db); ok {
			viol("shares-memory:"+c2.method+":arg", d)
		}
		if ok, d := aliasOverlap(resWalk.spans, db); ok {
			viol("shares-memory:"+c.method+":result", d+" (after a second call)")
		}
		res2Walk := aliasNewWalker(false).roots(res2A.vals...)
		if ok, d := aliasOverlap(res2Walk.spans, db); ok {
			viol("shares-memory:"+c2.method+":result", d)
		}
		// results of the two calls must not share memory with each other or with the arguments
		if ok, d := aliasOverlap(res2Walk.spans, resWalk.spans); ok {
			viol("shares-memory:"+c2.method+":result", "results of two calls share memory: "+d)
		}
		if ok, d := aliasOverlap(append(append([]aliasSpan{}, resWalk.spans...), res2Walk.spans...), argWalk.spans); ok {
			viol("shares-memory:"+c.method+":result", "a result shares memory with an argument: "+d)
		}
		res2B := B.exec(c2B)
		if res2A.class != res2B.class || res2A.canon.String() != res2B.canon.String() {
			viol("reuse-differs:"+c2.method, "A: "+res2A.class+" "+res2A.canon.String()+" | B: "+res2B.class+" "+res2B.canon.String())
		} else if da, dbb := aliasDump(A.engine, true), aliasDump(B.engine, true); da != dbb {
			viol("reuse-differs:"+c2.method, "dumps differ after the reusing call\nA:\n"+da+"\nB:\n"+dbb)
		}

		// mutation of the arguments, then of the results of each call, then of other decoded results
		dump0 := aliasDump(A.engine, false)
		read0, read0Vals := aliasReadAll(A)
		writes := map[string]int{}
		mutate := func(who, method string, vals []interface{}) {
			w := aliasNewWalker(false).roots(vals...)
			n := aliasMutate(w)
			if n == 0 {
				return
			}
			writes[who] += n
			if d := aliasDump(A.engine, false); d != dump0 {
				viol("mutation-reaches-db:"+method+":"+who, "dump changed after overwriting the "+who+"s\nbefore:\n"+dump0+"after:\n"+d)
				dump0 = d // report only new damage from here on
			}
		}
		mutate("arg", c.method, argVals)
		read1, read1Vals := aliasReadAll(A)
		if read1 != read0 {
			viol("mutation-reaches-results", "Find-all differs after overwriting the arguments of "+c.method)
		}
		read1FP := aliasFP(read1Vals, aliasNorm{})
		mutate("result", c.method, resA.vals)
		mutate("result", c2.method, res2A.vals)
		mutate("result", "Find", read0Vals)
		if rd, _ := aliasReadAll(A); rd != read0 {
			viol("mutation-reaches-results", "Find-all differs after overwriting the results of "+c.method+" and "+c2.method)
		}
		// values decoded by other calls are unaffected by the writes
		if aliasFP(read1Vals, aliasNorm{}) != read1FP {
			viol("mutation-reaches-results", "documents decoded before the result mutation changed")
		}
		if heldVals != nil && aliasFP(heldVals, aliasNorm{}) != heldCanon {
			viol("mutation-reaches-results", "documents decoded in the previous step changed")
		}
		heldVals, heldCanon = read1Vals, read1FP

		// bookkeeping
		returned := resWalk.nonEmpty > 0
		st.nontriv = resA.class != "panic" && (stored || returned)
		st.tags = []string{"m:" + c.method, "reuse:" + c2.method, "class:" + resA.class, "shape:" + []string{"D", "M", "mixed"}[g.style]}
		for f := range g.feat {
			st.tags = append(st.tags, "has:"+f)
		}
		sort.Strings(st.tags[4:])
		if stored {
			st.tags = append(st.tags, "stored")
		}
		if sharing {
			st.tags = append(st.tags, "db-internal-sharing")
		}
		if sharing && fpsBefore != nil && stored {
			st.tags = append(st.tags, "single-write-on-sharing-db")
		}
		if returned {
			st.tags = append(st.tags, "returned")
		}
		if writes["arg"] > 0 {
			st.tags = append(st.tags, "arg-writes")
		}
		if writes["result"] > 0 {
			st.tags = append(st.tags, "result-writes")
		}
		if resA.class == "panic" || res2A.class == "panic" {
			st.tags = append(st.tags, "api_panic")
			st.details["panic"] = resA.note + " " + res2A.note
		}
		steps = append(steps, st)
		if len(st.Viols) > 0 {
			break // everything after a violation is a consequence of it
		}
	}
	return steps
}

// aliasSharingProbe is a fixed driver-level history around the one place where stored documents
// share mutable nodes: UpdateMany with $set of a document/array stores the SAME bson.D/bson.A
// (taken from the call-private update document) in every updated document. Every later write
// path clones before writing, so writes through one document must never show in the other.
func aliasSharingProbe() run.Case {
	s := aliasNewSide()
	defer s.engine.Close()
	ctx := context.Background()
	coll := s.coll(0)
	var viols []run.Violation
	req := `{"op":"alias","probe":"update-many-sharing"}`
	bad := func(w, d string) {
		viols = append(viols, run.Violation{Property: "C17", What: "a write through one stored document shows in another", Witness: w, Req: req, Detail: d})
	}
	impl := run.Safe(func() string {
		_, _ = coll.InsertMany(ctx, []interface{}{bson.D{{Key: "_id", Value: int32(1)}}, bson.D{{Key: "_id", Value: int32(2)}}})
		_, _ = coll.UpdateMany(ctx, bson.D{}, bson.D{{Key: "$set", Value: bson.D{{Key: "x", Value: bson.D{{Key: "a", Value: bson.A{int32(1), bson.D{{Key: "k", Value: int32(0)}}}}, {Key: "n", Value: int32(0)}}}}}})
		shared := aliasInternalSharing(s.engine)
		second := func() string {
			var d bson.D
			_ = coll.FindOne(ctx, bson.D{{Key: "_id", Value: int32(2)}}).Decode(&d)
			return vj.Enc(d)
		}
		want := second()
		updates := []bson.D{
			{{Key: "$push", Value: bson.D{{Key: "x.a", Value: int32(2)}}}},
			{{Key: "$set", Value: bson.D{{Key: "x.a.0", Value: int32(9)}}}},
			{{Key: "$set", Value: bson.D{{Key: "x.a.1.k", Value: int32(7)}}}},
			{{Key: "$inc", Value: bson.D{{Key: "x.n", Value: int32(5)}}}},
			{{Key: "$pop", Value: bson.D{{Key: "x.a", Value: int32(-1)}}}},
			{{Key: "$unset", Value: bson.D{{Key: "x.n", Value: ""}}}},
			{{Key: "$rename", Value: bson.D{{Key: "x.a", Value: "x.b"}}}},
		}
		for i, u := range updates {
			if _, err := coll.UpdateOne(ctx, bson.D{{Key: "_id", Value: int32(1)}}, u); err != nil {
				bad("probe-error", fmt.Sprint(i, err))
			}
			if got := second(); got != want {
				bad("write-leaks-to-other-doc:UpdateOne", fmt.Sprintf("update %d on _id 1 changed _id 2: %s -> %s", i, want, got))
				want = got
			}
		}
		// a projection with overlays reads through the shared nodes of document 1
		var p bson.D
		_ = coll.FindOne(ctx, bson.D{{Key: "_id", Value: int32(2)}}, options.FindOne().SetProjection(bson.D{{Key: "x", Value: int32(1)}, {Key: "x.a", Value: bson.D{{Key: "$slice", Value: int32(1)}}}})).Decode(&p)
		if got := second(); got != want {
			bad("write-leaks-to-other-doc:FindOne", "a projection changed the stored document: "+want+" -> "+got)
		}
		return fmt.Sprintf(`{"probe":"update-many-sharing","shared":%v,"second":%s}`, shared, want)
	})
	return run.Case{Req: "", Impl: impl, Nontrivial: true, Tags: []string{"probe"}, Viols: viols}
}

func aliasReq(seed uint64) string {
	return fmt.Sprintf(`{"op":"alias","case":"%016x"}`, seed)
}

func aliasReply(steps []aliasStep) string {
	for i := range steps {
		if steps[i].Viols == nil {
			steps[i].Viols = []string{}
		}
	}
	b, _ := json.Marshal(steps)
	return string(b)
}

func init() {
	run.Register(&run.Stream{
		Name:   "alias",
		Rule:   "nontrivial = the call succeeded (or failed without panic) and either stored a document/index built from a non-empty container argument (catalog dump changed) or handed back at least one non-empty container (decoded document, id document/binary, distinct array, upserted-id map, raw bytes); every third case is followed by a bytes probe (alias_bytes.go): Raw/DecodeBytes/Decode of one single result, cursor positions, Distinct over arrays of arrays and binaries, index and collection listings, change stream events and resume tokens are overwritten by the caller and read again; earlier results of one object (resume tokens, cursor positions, consecutive FindOne / Distinct results, InsertedIDs / UpsertedIDs) are kept while later ones are obtained and must stay unchanged and usable; the engine-level API (Begin / Transaction.Insert, Replace, Update, Bulk / Commit) is driven with caller-owned documents whose containers and binaries are then overwritten one argument at a time, and the engine-/mongokit-level listings (Transaction.ListIndexes / ListCollections / ListDatabases, Index.Config) are edited in place (alias_repeat.go)",
		Corpus: func() []run.Case { return []run.Case{aliasSharingProbe()} },
		Gen: func(r *gen.R, idx int) []run.Case {
			seed := r.U64()
			req := aliasReq(seed)
			steps := aliasRunCase(seed)
			var cases []run.Case
			for i, st := range steps {
				var viols []run.Violation
				for _, w := range st.Viols {
					viols = append(viols, run.Violation{Property: "C17", What: "caller-owned values alias database state", Witness: w, Req: req, Detail: fmt.Sprintf("step %d (%s then %s): %s", i, st.Method, st.Method2, st.details[w])})
				}
				impl := fmt.Sprintf(`{"case":"%016x","step":%d,"m":%q,"m2":%q,"class":%q,"class2":%q,"viol":%d}`, seed, i, st.Method, st.Method2, st.Class, st.Class2, len(st.Viols))
				// no model side: Req stays empty so that the model process is not asked
				cases = append(cases, run.Case{Req: "", Impl: impl, Nontrivial: st.nontriv, Tags: st.tags, Viols: viols})
			}
			// second family: results that hand out bytes / nested containers more than once (alias_bytes.go)
			if idx%3 == 0 {
				cases = append(cases, aliasBytesCase(seed))
			}
			return cases
		},
		Replay: func(req string) string {
			q, err := parseReq(req)
			if err != nil || q.str("op") != "alias" {
				return ""
			}
			if b := q.str("bytes"); b != "" {
				seed, err := strconv.ParseUint(b, 16, 64)
				if err != nil {
					return ""
				}
				c := aliasBytesCase(seed)
				out := c.Impl
				for _, v := range c.Viols {
					out += "\nVIOLATION " + v.Witness + ": " + v.Detail
				}
				return out
			}
			seed, err := strconv.ParseUint(q.str("case"), 16, 64)
			if err != nil {
				return ""
			}
			return aliasReply(aliasRunCase(seed))
		},
	})
}
