package streams

// sched.go — stream "sched" (C04 + C16): the schedule controller (internal/sched) drives real
// goroutines through the verif hook points of /repo; every observed event is validated as an
// enabled transition of the Lean model (Lungo.Model.Conc via sched.enabled / sched.run); the C16
// monitors and the C04 history checker run on the implementation side.

import (
	"encoding/json"
	"fmt"
	"os"
	"runtime"
	"sort"
	"strings"
	"sync"

	"verifharness/internal/gen"
	"verifharness/internal/model"
	"verifharness/internal/run"
	"verifharness/internal/sched"
)

func init() {
	run.Register(&run.Stream{
		Name:   "sched",
		Rule:   "nontrivial = a forced preemption inside a critical section (actor left parked while holding e.mutex, s.mutex or the token) or an injected fault (ctx cancel, store error/panic, callback error/panic, close)",
		Gen:    schedGen,
		Corpus: schedCorpus,
		Replay: schedReplay,
	})
}

// ---- model processes for the translation (a pool: translations run outside the global lock) ----

var (
	procMu   sync.Mutex
	procFree []*model.Proc
)

func getProc() *model.Proc {
	if run.NoModel {
		return nil
	}
	procMu.Lock()
	if n := len(procFree); n > 0 {
		p := procFree[n-1]
		procFree = procFree[:n-1]
		procMu.Unlock()
		return p
	}
	procMu.Unlock()
	p, err := model.Start()
	if err != nil {
		fmt.Fprintln(os.Stderr, "sched: cannot start model:", err)
		return nil
	}
	return p
}

func putProc(p *model.Proc) {
	if p == nil {
		return
	}
	procMu.Lock()
	procFree = append(procFree, p)
	procMu.Unlock()
}

// ---- scenario generation ----

var crudOps = []string{"inc", "inc", "fau", "ins", "find", "upd0", "dup", "bad"}

func genCrud(r *gen.R, sess int) sched.Op {
	op := sched.Op{Kind: crudOps[r.N(len(crudOps))], Sess: sess}
	return op
}

func genScenario(r *gen.R) sched.Scenario {
	kinds := []string{"crud", "crud", "session", "session", "wtx", "shared", "shared", "close", "direct", "stream", "endstart", "store", "store", "closequeue", "staleabort", "rmw", "rmw", "usesession", "usesession", "catalog", "catalog", "badddl", "doubleclose"}
	kind := kinds[r.N(len(kinds))]
	return genScenarioKind(r, kind)
}

func genScenarioKind(r *gen.R, kind string) sched.Scenario {
	sc := sched.Scenario{Kind: kind}
	n := 2 + r.N(2)
	if r.P(15) {
		n = 4
	}
	switch kind {
	case "crud":
		for a := 0; a < n; a++ {
			var s []sched.Op
			for k := 1 + r.N(3); k > 0; k-- {
				s = append(s, genCrud(r, 0))
			}
			sc.Actors = append(sc.Actors, s)
		}
	case "store":
		// writers and readers around a writer that is parked inside its store write (see schedGen)
		sc.Sessions = n
		for a := 1; a <= n; a++ {
			var s []sched.Op
			switch {
			case a == 1 && r.P(30):
				s = []sched.Op{{Kind: "sstart", Sess: 1}, {Kind: "inc", Sess: 1}, {Kind: "scommit", Sess: 1}}
			case a == 1:
				s = []sched.Op{{Kind: []string{"inc", "fau", "ins", "ins3"}[r.N(4)]}}
				if r.P(50) {
					// a later commit of the same actor (it must succeed and persist, also after a failed store)
					s = append(s, sched.Op{Kind: []string{"inc", "ins"}[r.N(2)]})
				}
			default:
				for k := 1 + r.N(2); k > 0; k-- {
					s = append(s, sched.Op{Kind: []string{"inc", "fau", "find", "find", "cat", "ins"}[r.N(6)]})
				}
			}
			sc.Actors = append(sc.Actors, s)
		}
		sc.FileStore = r.P(25)
	case "catalog":
		// catalog-level calls and batches on db.n, a collection that does not exist yet: CreateCollection /
		// CreateIndex / Drop race with the first inserts (also from a session transaction that commits
		// while they are queued); an unordered InsertMany is ONE transaction for readers and UpdateMany
		sc.Sessions = 1
		if r.P(70) {
			h := []sched.Op{{Kind: "sstart", Sess: 1}}
			if r.P(60) {
				h = append(h, sched.Op{Kind: []string{"insn", "insu"}[r.N(2)], Sess: 1})
			}
			sc.Actors = append(sc.Actors, append(h, sched.Op{Kind: []string{"scommit", "scommit", "sabort"}[r.N(3)], Sess: 1}))
		} else {
			sc.Actors = append(sc.Actors, []sched.Op{{Kind: []string{"insn", "insu", "ccoll"}[r.N(3)]}})
		}
		pool := []string{"ccoll", "ccoll", "insn", "insn", "insu", "insu", "updall", "findn", "findn", "crix"}
		if r.P(20) {
			pool = append(pool, "dropn")
		}
		for k, nw := 0, 2+r.N(3); k < nw; k++ {
			var s []sched.Op
			for j := 1 + r.N(2); j > 0; j-- {
				s = append(s, sched.Op{Kind: pool[r.N(len(pool))]})
			}
			sc.Actors = append(sc.Actors, s)
		}
	case "badddl":
		// a catalog call with an invalid name must fail promptly and leave the writer slot free
		v := sched.BadDDL[r.N(len(sched.BadDDL))]
		sc.Kind = "badddl-" + v
		sc.Sessions = 1
		a1 := []sched.Op{{Kind: "badddl", Fault: v}}
		if r.P(40) {
			// (index calls do not join a session transaction — they report "nested" — so the invalid call
			// gets no session context; here it follows a finished session transaction)
			a1 = []sched.Op{{Kind: "sstart", Sess: 1}, {Kind: []string{"scommit", "sabort"}[r.N(2)], Sess: 1}, {Kind: "badddl", Fault: v}}
		}
		if r.P(30) {
			a1 = append(a1, sched.Op{Kind: "badddl", Fault: sched.BadDDL[r.N(len(sched.BadDDL))]})
		}
		sc.Actors = append(sc.Actors, a1)
		for a := 2; a <= n; a++ {
			sc.Actors = append(sc.Actors, []sched.Op{{Kind: []string{"inc", "ins", "fau", "find", "badddl"}[r.N(5)], Fault: ""}})
			if last := &sc.Actors[len(sc.Actors)-1][0]; last.Kind == "badddl" {
				last.Fault = sched.BadDDL[r.N(len(sched.BadDDL))]
			}
		}
	case "doubleclose":
		// two overlapping Engine.Close calls while a session transaction holds the token; with a short
		// expiry interval the expiry goroutine is mid-iteration (monitors only then)
		sc.Sessions = 1
		sc.Actors = [][]sched.Op{{{Kind: "close"}}, {{Kind: "close"}}, {{Kind: "sstart", Sess: 1}, {Kind: "inc", Sess: 1}, {Kind: []string{"scommit", "sabort", "send"}[r.N(3)], Sess: 1}}}
		if r.P(60) {
			sc.Actors = append(sc.Actors, []sched.Op{{Kind: []string{"inc", "ins", "find"}[r.N(3)], Ctx: []string{"", "bg", "timeout"}[r.N(3)]}})
		}
		if r.P(50) {
			sc.Actors[0] = append(sc.Actors[0], sched.Op{Kind: "inc"})
		}
		if r.P(50) {
			sc.ExpireMS = 1 + r.N(5)
		}
	case "usesession":
		// Client.UseSession whose callback starts a transaction, writes and leaves in one of five ways;
		// the other actors' plain writes must get the writer slot afterwards (directed in directedFor)
		mode := []string{"", "err", "cbPanic", "goexit", "nocommit"}[r.N(5)]
		sc.Kind = "usesession-" + map[string]string{"": "ok", "err": "err", "cbPanic": "panic", "goexit": "goexit", "nocommit": "nocommit"}[mode]
		a1 := []sched.Op{{Kind: "usess", Fault: mode}}
		if r.P(40) {
			a1 = append(a1, genCrud(r, 0))
		}
		sc.Actors = append(sc.Actors, a1)
		for a := 2; a <= n; a++ {
			var s []sched.Op
			for k := 1 + r.N(2); k > 0; k-- {
				s = append(s, sched.Op{Kind: []string{"inc", "ins", "fau", "find", "usess"}[r.N(5)]})
			}
			for i := range s {
				if s[i].Kind == "usess" {
					s[i].Fault = []string{"", "err", "cbPanic", "goexit", "nocommit"}[r.N(5)]
				}
			}
			sc.Actors = append(sc.Actors, s)
		}
	case "rmw":
		// read-modify-write calls (queue pops with a sort, a competing claim, upserts) queue behind a
		// holder of the write token (session transaction or a writer parked inside its commit); each of
		// them must choose its job on the state at its OWN commit point (directed in directedFor)
		sc.Sessions = 1
		sc.Queue = 2 + r.N(3)
		if r.P(60) {
			sc.Actors = append(sc.Actors, []sched.Op{{Kind: "sstart", Sess: 1}, {Kind: []string{"inc", "pop", "claim"}[r.N(3)], Sess: 1}, {Kind: []string{"scommit", "scommit", "sabort"}[r.N(3)], Sess: 1}})
		} else {
			sc.Actors = append(sc.Actors, []sched.Op{{Kind: []string{"inc", "claim", "pop"}[r.N(3)]}})
		}
		for k, nw := 0, 2+r.N(3); k < nw; k++ {
			var s []sched.Op
			for j := 1 + r.N(2); j > 0; j-- {
				op := sched.Op{Kind: []string{"pop", "pop", "popu", "popu", "claim", "ups", "rups"}[r.N(7)]}
				if op.Kind == "claim" && r.P(40) {
					op.N = 1 + r.N(sc.Queue)
				}
				s = append(s, op)
			}
			sc.Actors = append(sc.Actors, s)
		}
	case "closequeue":
		// Engine.Close while writers are queued for the write token with different kinds of contexts:
		// actor 1 holds the token (session transaction or direct locked Begin), actors 2.. wait, the
		// last actor closes the engine (directed in schedGen)
		sc.Sessions = 2
		if r.P(60) {
			sc.Actors = append(sc.Actors, []sched.Op{{Kind: "sstart", Sess: 1}, {Kind: []string{"scommit", "sabort", "send"}[r.N(3)], Sess: 1}})
		} else {
			sc.Actors = append(sc.Actors, []sched.Op{{Kind: "ebegin", Lock: true}, {Kind: []string{"ecommit", "eabort"}[r.N(2)]}})
		}
		ctxs := []string{"bg", "", "timeout"}
		for k, nw := 0, 2+r.N(2); k < nw; k++ {
			op := sched.Op{Kind: []string{"inc", "ins", "fau", "sstart", "ebegin"}[r.N(5)], Ctx: ctxs[(k+r.N(3))%3]}
			switch op.Kind {
			case "sstart":
				op.Sess, op.Ctx = 2, "" // StartTransaction takes no context (it waits like Background)
				sc.Actors = append(sc.Actors, []sched.Op{op, {Kind: "sabort", Sess: 2}})
				continue
			case "ebegin":
				op.Lock = true
				sc.Actors = append(sc.Actors, []sched.Op{op, {Kind: "eabort"}})
				continue
			}
			sc.Actors = append(sc.Actors, []sched.Op{op})
		}
		sc.Actors = append(sc.Actors, []sched.Op{{Kind: "close"}})
	case "staleabort":
		// the window between a successful Commit and the (deferred) Abort of the same, finished
		// transaction: actor 1 commits, actor 2 begins a write transaction, actor 1's stale Abort runs,
		// actor 3 (a third writer) must stay blocked until actor 2 is done (directed in schedGen)
		sc.Sessions = 2
		a1 := []sched.Op{{Kind: "ebegin", Lock: true}, {Kind: []string{"ecommit", "ecommit", "eabort"}[r.N(3)]}, {Kind: "eabortstale"}}
		if r.P(25) {
			a1 = append(a1, sched.Op{Kind: "eabortstale"})
		}
		var a2 []sched.Op
		if r.P(50) {
			a2 = []sched.Op{{Kind: "sstart", Sess: 2}, {Kind: []string{"inc", "ins", "fau"}[r.N(3)], Sess: 2}, {Kind: "scommit", Sess: 2}}
		} else {
			a2 = []sched.Op{{Kind: "ebegin", Lock: true}, {Kind: "ecommit"}}
		}
		sc.Actors = [][]sched.Op{a1, a2, {{Kind: []string{"inc", "fau", "ins"}[r.N(3)]}}}
		if r.P(30) {
			sc.Actors = append(sc.Actors, []sched.Op{{Kind: "find"}})
		}
	case "session":
		sc.Sessions = n
		for a := 1; a <= n; a++ {
			var s []sched.Op
			if r.P(70) {
				s = append(s, sched.Op{Kind: "sstart", Sess: a})
				if r.P(80) {
					s = append(s, genCrud(r, a))
				}
				s = append(s, sched.Op{Kind: []string{"scommit", "scommit", "sabort", "send"}[r.N(4)], Sess: a})
			} else {
				for k := 1 + r.N(2); k > 0; k-- {
					s = append(s, genCrud(r, []int{0, a}[r.N(2)]))
				}
			}
			sc.Actors = append(sc.Actors, s)
		}
	case "wtx":
		sc.Sessions = n
		for a := 1; a <= n; a++ {
			var s []sched.Op
			if a == 1 || r.P(40) {
				op := sched.Op{Kind: "wtx", Sess: a}
				for k := r.N(3); k > 0; k-- {
					op.Inner = append(op.Inner, genCrud(r, 0))
				}
				op.Fault = []string{"", "", "cbPanic", "cbErr", "goexit", "cbCommit", "cbAbort", "nested"}[r.N(8)]
				s = append(s, op)
				if r.P(40) {
					s = append(s, genCrud(r, 0))
				}
			} else {
				for k := 1 + r.N(2); k > 0; k-- {
					s = append(s, genCrud(r, 0))
				}
			}
			sc.Actors = append(sc.Actors, s)
		}
	case "shared":
		// ONE session used by two actors (the lock-order inversion of DESIGN §10 #13 lived here)
		sc.Sessions = 1
		sc.Shared = true
		a1 := []sched.Op{{Kind: "sstart", Sess: 1}}
		if r.P(50) {
			a1 = append(a1, genCrud(r, 1))
		}
		a1 = append(a1, sched.Op{Kind: []string{"sabort", "scommit", "send"}[r.N(3)], Sess: 1})
		var a2 []sched.Op
		for k := 1 + r.N(2); k > 0; k-- {
			switch r.N(4) {
			case 0:
				a2 = append(a2, sched.Op{Kind: "sabort", Sess: 1})
			case 1:
				a2 = append(a2, sched.Op{Kind: "sstart", Sess: 1})
			default:
				a2 = append(a2, genCrud(r, 1))
			}
		}
		sc.Actors = [][]sched.Op{a1, a2}
		if n > 2 {
			sc.Actors = append(sc.Actors, []sched.Op{genCrud(r, 0)})
		}
		// whoever is left holding the session transaction: clean up through a final abort
		sc.Actors[0] = append(sc.Actors[0], sched.Op{Kind: "sabort", Sess: 1})
	case "endstart":
		// a session is ended while its StartTransaction is in progress
		sc.Sessions = 1
		sc.Shared = true
		sc.Actors = [][]sched.Op{{{Kind: "sstart", Sess: 1}}, {{Kind: "send", Sess: 1}}}
		if r.P(50) {
			sc.Actors = append(sc.Actors, []sched.Op{genCrud(r, 0)})
		}
	case "close":
		sc.Sessions = n
		closer := r.N(n)
		for a := 0; a < n; a++ {
			var s []sched.Op
			k := 1 + r.N(2)
			cp := r.N(k + 1)
			for i := 0; i <= k; i++ {
				if a == closer && i == cp {
					s = append(s, sched.Op{Kind: "close"})
					continue
				}
				switch r.N(5) {
				case 0:
					s = append(s, sched.Op{Kind: "sstart", Sess: a + 1}, sched.Op{Kind: "scommit", Sess: a + 1})
				default:
					s = append(s, genCrud(r, 0))
				}
			}
			sc.Actors = append(sc.Actors, s)
		}
	case "direct":
		for a := 0; a < n; a++ {
			var s []sched.Op
			if a == 0 || r.P(50) {
				lock := r.P(80)
				s = append(s, sched.Op{Kind: "ebegin", Lock: lock})
				if lock {
					s = append(s, sched.Op{Kind: []string{"ecommit", "eabort"}[r.N(2)]})
					if r.P(30) {
						// client misuse: commit the finished transaction again (monitors only: not in the model)
						s = append(s, sched.Op{Kind: "estale"})
					}
				}
			} else {
				for k := 1 + r.N(2); k > 0; k-- {
					s = append(s, genCrud(r, 0))
				}
			}
			sc.Actors = append(sc.Actors, s)
		}
	case "stream":
		sc.Actors = [][]sched.Op{
			{{Kind: "watch", Stream: 1, Scope: []string{"client", "db", "coll"}[r.N(3)]}, {Kind: []string{"next", "trynext"}[r.N(2)], Stream: 1}},
			{genCrud(r, 0)},
		}
		switch r.N(3) {
		case 0:
			sc.Actors = append(sc.Actors, []sched.Op{{Kind: "close"}})
		case 1:
			sc.Actors = append(sc.Actors, []sched.Op{{Kind: "sclose", Stream: 1}})
		default:
			sc.Actors[1] = append(sc.Actors[1], sched.Op{Kind: "ins"})
			sc.Actors[0] = append(sc.Actors[0], sched.Op{Kind: "sclose", Stream: 1})
		}
	}
	// context kinds: a mix of Background, WithCancel and WithTimeout(30 s) contexts on the write calls
	if r.P(35) {
		for a := range sc.Actors {
			for i := range sc.Actors[a] {
				switch sc.Actors[a][i].Kind {
				case "inc", "ins", "fau", "ins3", "upd0", "wtx", "ebegin", "pop", "popu", "claim", "ups":
					if sc.Actors[a][i].Ctx == "" && r.P(50) {
						sc.Actors[a][i].Ctx = []string{"bg", "timeout"}[r.N(2)]
					}
				}
			}
		}
	}
	// faults
	switch r.N(6) {
	case 0:
		sc.AllowStore = true
	case 1:
		sc.AllowCancel = true
	case 2:
		// a pre-cancelled context on one write call
		a := r.N(len(sc.Actors))
		for i := range sc.Actors[a] {
			k := sc.Actors[a][i].Kind
			if k == "inc" || k == "ins" || k == "fau" || k == "wtx" {
				sc.Actors[a][i].Fault = pick(sc.Actors[a][i].Fault, "precancel")
				break
			}
		}
	}
	return sc
}

func pick(old, neu string) string {
	if old != "" {
		return old
	}
	return neu
}

// ---- one case ----

// csPoints: an actor parked at one of these points holds e.mutex, s.mutex or the token.
func inCritical(point string) bool {
	switch point {
	case "op.start", "sstart.reserved", "close.wait", "close.return", "next.woke", "":
		return false
	}
	return true
}

type schedEnv struct {
	Scenario sched.Scenario `json:"scenario"`
}

func schedCase(sc sched.Scenario, ch sched.Chooser) run.Case {
	o := sched.Run(sc, ch)
	return schedCaseOf(o, "sched")
}

func schedCaseOf(o *sched.Outcome, stream string) run.Case {
	sc := o.Sc
	sc.Schedule = o.Schedule
	scj, _ := json.Marshal(sc)
	c := run.Case{}
	tags := []string{"kind:" + sc.Kind, fmt.Sprintf("actors:%d", len(sc.Actors))}
	// forced preemptions inside critical sections, faults
	preempt := 0
	var lastActor int
	at := map[int]string{}
	faults := map[string]bool{}
	for _, r := range o.Trace {
		switch r.Kind {
		case "event":
			if r.Parked {
				at[r.Actor] = r.Point
			}
		case "release":
			if lastActor != 0 && lastActor != r.Actor && inCritical(at[lastActor]) {
				preempt++
				tags = append(tags, "race:"+at[lastActor])
			}
			at[r.Actor] = ""
			lastActor = r.Actor
			if r.Fault != "" {
				faults[r.Fault] = true
			}
		case "cancel":
			faults["cancel"+r.Fault] = true
			lastActor = r.Actor
		case "blocked":
			site := r.Site
			if i := strings.IndexByte(site, ':'); i > 0 {
				site = site[:i]
			}
			tags = append(tags, "blocked:"+site)
		case "call":
			if ci, ok := r.Call.(sched.CallInfo); ok && ci.Call == "close" {
				faults["close"] = true
			}
		}
	}
	for _, s := range sc.Actors {
		for _, op := range s {
			if op.Fault != "" {
				faults[op.Fault] = true
			}
			if op.Ctx != "" {
				tags = append(tags, "ctx:"+op.Ctx, "ctx:"+op.Ctx+"@"+sc.Kind)
			}
		}
	}
	for f := range faults {
		tags = append(tags, "fault:"+f)
	}
	sw := o.Switches
	switch {
	case sw == 0:
		tags = append(tags, "switches:0")
	case sw <= 3:
		tags = append(tags, "switches:1-3")
	case sw <= 8:
		tags = append(tags, "switches:4-8")
	default:
		tags = append(tags, "switches:9+")
	}
	for _, h := range o.History {
		tags = append(tags, "res:"+h.Kind+":"+h.Res.Cls)
	}
	if o.Diverged {
		tags = append(tags, "replay-diverged")
	}
	c.Nontrivial = preempt > 0 || len(faults) > 0
	// monitors
	for _, v := range o.Viols {
		c.Viols = append(c.Viols, run.Violation{Property: v.Property, What: v.What, Witness: v.Witness, Req: string(scj), Detail: v.Detail})
	}
	// model validation
	if o.Deadlocked || o.Stalled || len(o.Trace) == 0 {
		c.Tags = dedup(tags)
		c.Impl = `{"aborted":true}`
		return c
	}
	if sc.ExpireMS > 0 {
		// the expiry goroutine runs free (it is not an actor): its steps are not in the trace — monitors only
		c.Tags = dedup(append(tags, "unmodelled:expiry"))
		c.Impl = `{"unmodelled":"expiry"}`
		return c
	}
	if o.TornDown {
		// the controller ended a client-held transaction so that a token waiter could finish (in real
		// time: the one-minute token timeout); that Abort is not an actor's step, so the trace is not
		// replayed on the model — monitors only
		c.Tags = dedup(append(tags, "teardown:client-txn"))
		c.Impl = `{"teardown":"client-txn"}`
		return c
	}
	for _, s := range sc.Actors {
		for _, op := range s {
			if op.Kind == "estale" || op.Kind == "eabortstale" {
				// Commit / Abort of a finished transaction: outside the model's call vocabulary (its
				// direct-engine calls need a live handle): monitors only
				c.Tags = dedup(append(tags, "unmodelled:"+op.Kind))
				c.Impl = `{"unmodelled":"` + op.Kind + `"}`
				return c
			}
		}
	}
	p := getProc()
	if p != nil {
		tr := translate(p, o)
		putProc(p)
		if os.Getenv("VERIF_SCHED_DEBUG") != "" {
			dumpTrace(o, tr)
		}
		tags = append(tags, fmt.Sprintf("steps:%d0s", len(tr.Steps)/10))
		if tr.BeginOrd {
			// known difference between the fixed Engine.Begin and a model with the old order
			tags = append(tags, "begin-order")
			c.Impl = `{"tolerated":"begin-order"}`
		} else {
			req := tr.request()
			// carry the replayable scenario inside the request line (unknown fields are ignored by the model)
			req = req[:len(req)-1] + `,"scenario":` + string(scj) + `}`
			c.Req = req
			c.Impl = tr.impl()
			c.Accept = tr.accept
			if tr.Diverged != "" {
				tags = append(tags, "diverged:"+tr.DivPc)
			}
		}
		if len(tr.Probes) > 0 {
			tags = append(tags, "probes")
		}
	} else {
		c.Impl = string(scj)
	}
	c.Tags = dedup(tags)
	return c
}

func dedup(xs []string) []string {
	m := map[string]bool{}
	var out []string
	for _, x := range xs {
		if !m[x] {
			m[x] = true
			out = append(out, x)
		}
	}
	sort.Strings(out)
	return out
}

func schedGen(r *gen.R, idx int) []run.Case {
	var extra []run.Case
	if os.Getenv("VERIF_TIER") == "thorough" {
		// once per process: exhaustive DFS of the tiny scripts + free-running stress; then sampled scenarios as usual
		extra = schedThorough(r, idx)
	}
	sc := genScenario(r)
	return append(extra, schedCase(sc, directedFor(r, sc)))
}

// directedFor gives the chooser of a generated scenario: random, or — for the kinds that aim at one
// particular window — a directed prefix followed by random choices.
func directedFor(r *gen.R, sc sched.Scenario) sched.Chooser {
	var ch sched.Chooser = &sched.Rand{Next: r.N, Stay: 40 + r.N(50), Flt: 25}
	n := len(sc.Actors)
	var steps []sched.Directive
	switch sc.Kind {
	case "store":
		// actor 1 runs until it is parked inside the store write (possibly with an injected store
		// failure), then the others run as far as they can
		at := []string{"store.enter", "store.exit", "commit.store"}[r.N(3)]
		if sc.AllowStore && r.P(60) {
			steps = []sched.Directive{{Actor: 1, Until: "commit.store"}, {Actor: 1, Fault: "storeFail"}}
			if r.P(50) {
				steps = append(steps, sched.Directive{Actor: 1, Until: "store.enter"})
			}
		} else {
			steps = []sched.Directive{{Actor: 1, Until: at}}
		}
		for a := 2; a <= n; a++ {
			steps = append(steps, sched.Directive{Actor: a, Until: "done"})
		}
	case "usesession-ok", "usesession-err", "usesession-panic", "usesession-goexit", "usesession-nocommit":
		if r.P(75) {
			// actor 1 is inside the callback and holds the write transaction; the others queue; then the
			// callback leaves
			steps = []sched.Directive{{Actor: 1, Until: "sstart.begun"}}
			for a := 2; a <= n; a++ {
				steps = append(steps, sched.Directive{Actor: a, Until: "done"})
			}
			steps = append(steps, sched.Directive{Actor: 1, Until: "done"})
		}
	case "catalog":
		if r.P(80) {
			until := "op.start"
			if len(sc.Actors[0]) == 1 {
				until = []string{"begin.acquired", "commit.locked", "store.enter"}[r.N(3)]
			}
			steps = []sched.Directive{{Actor: 1, Until: until}}
			for a := 2; a <= n; a++ {
				steps = append(steps, sched.Directive{Actor: a, Until: "done"})
			}
			steps = append(steps, sched.Directive{Actor: 1, Until: "done"})
		}
	case "doubleclose":
		if r.P(80) {
			// the session takes the token, a writer queues, the first Close is parked half-way, the second
			// Close runs into it
			steps = []sched.Directive{{Actor: 3, Until: "op.start"}, {Actor: 4, Until: "done"},
				{Actor: 1, Until: []string{"close.locked", "close.wait", "close.return"}[r.N(3)]}, {Actor: 2, Until: "done"}, {Actor: 1, Until: "done"}}
		}
	case "rmw":
		if r.P(80) {
			// the holder takes the token (session: after StartTransaction; plain writer: parked at its
			// commit), the read-modify-write calls queue behind it, then the holder lets go
			until := "op.start"
			if len(sc.Actors[0]) == 1 {
				until = []string{"begin.acquired", "commit.locked", "store.enter"}[r.N(3)]
			}
			steps = []sched.Directive{{Actor: 1, Until: until}}
			for a := 2; a <= n; a++ {
				steps = append(steps, sched.Directive{Actor: a, Until: "done"})
			}
			steps = append(steps, sched.Directive{Actor: 1, Until: "done"})
		}
	case "closequeue":
		if r.P(85) {
			steps = []sched.Directive{{Actor: 1, Until: "op.start"}} // the holder has the token
			for a := 2; a < n; a++ {
				steps = append(steps, sched.Directive{Actor: a, Until: "done"}) // queued
			}
			steps = append(steps, sched.Directive{Actor: n, Until: "done"}) // Close
		}
	case "staleabort":
		if r.P(85) {
			steps = []sched.Directive{{Actor: 1, Until: "op.start"}, {Actor: 1, Until: "op.start"}, // Begin, Commit
				{Actor: 2, Until: "op.start"}, // the second writer has its transaction
				{Actor: 3, Until: "done"},     // a third writer queues
				{Actor: 1, Until: "op.start"}, // the stale Abort
				{Actor: 3, Until: "done"},     // must still be queued
				{Actor: 2, Until: "done"}}
		}
	}
	if len(steps) > 0 {
		return &sched.Directed{Steps: steps, Then: ch}
	}
	return ch
}

func schedReplay(req string) string {
	var env schedEnv
	if err := json.Unmarshal([]byte(req), &env); err != nil || len(env.Scenario.Actors) == 0 {
		// a bare scenario (as carried by violations)
		if json.Unmarshal([]byte(req), &env.Scenario) != nil || len(env.Scenario.Actors) == 0 {
			return ""
		}
	}
	sc := env.Scenario
	c := schedCase(sc, &sched.Fixed{Sched: sc.Schedule})
	for _, v := range c.Viols {
		fmt.Fprintln(os.Stderr, "violation:", v.Witness, v.What, v.Detail)
	}
	if c.Req != "" {
		// print the freshly translated request so that the model can be asked about THIS run
		fmt.Fprintln(os.Stderr, "request:", c.Req)
	}
	return c.Impl
}

// schedCorpus: fixed scenarios that run first (past failures and the critical interleavings).
func schedCorpus() []run.Case {
	var out []run.Case
	scs, directed := corpusScenarios()
	for i, sc := range scs {
		r := gen.New(77, 0, uint64(i))
		var ch sched.Chooser = &sched.Rand{Next: r.N, Stay: 30, Flt: 30}
		if d, ok := directed[i]; ok {
			ch = &sched.Directed{Steps: d, Then: &sched.Rand{Next: r.N, Stay: 90}}
		}
		out = append(out, schedCase(sc, ch))
	}
	return out
}

// corpusScenarios returns the fixed scenarios and, for some of them (by index), a directed schedule.
func corpusScenarios() ([]sched.Scenario, map[int][]sched.Directive) {
	S := func(kind string, sess int, shared bool, actors ...[]sched.Op) sched.Scenario {
		return sched.Scenario{Kind: kind, Sessions: sess, Shared: shared, Actors: actors}
	}
	o := func(k string, s int) sched.Op { return sched.Op{Kind: k, Sess: s} }
	var out []sched.Scenario
	directed := map[int][]sched.Directive{}
	// shared session: Start/Abort loop against a CRUD call with the session context (defect #13)
	for i := 0; i < 6; i++ {
		out = append(out, S("shared", 1, true,
			[]sched.Op{o("sstart", 1), o("sabort", 1), o("sstart", 1), o("sabort", 1)},
			[]sched.Op{o("ins", 1), o("inc", 1)}))
	}
	// lost-update candidates
	for i := 0; i < 4; i++ {
		out = append(out, S("crud", 0, false, []sched.Op{o("inc", 0), o("inc", 0)}, []sched.Op{o("fau", 0), o("inc", 0)}, []sched.Op{o("find", 0), o("find", 0)}))
	}
	// session ended while starting
	for i := 0; i < 4; i++ {
		out = append(out, S("endstart", 1, true, []sched.Op{o("sstart", 1)}, []sched.Op{o("send", 1)}, []sched.Op{o("inc", 0)}))
	}
	// store faults and cancellation
	sf := S("crud", 0, false, []sched.Op{o("inc", 0)}, []sched.Op{o("ins", 0)})
	sf.AllowStore = true
	out = append(out, sf, sf)
	cf := S("session", 2, false, []sched.Op{o("sstart", 1), o("ins", 1), o("scommit", 1)}, []sched.Op{o("inc", 0)})
	cf.AllowCancel = true
	out = append(out, cf, cf)
	// a writer is parked INSIDE the store write of its commit (pseudo points store.enter / store.exit)
	// while the other actors run as far as they can; then it resumes.  Expected on correct code: the
	// others are blocked (model: step disabled), counter = number of increments, history checker happy.
	for _, at := range []string{"store.enter", "store.exit"} {
		for v := 0; v < 4; v++ {
			var sc sched.Scenario
			switch v {
			case 0:
				sc = S("store", 0, false, []sched.Op{o("inc", 0)}, []sched.Op{o("inc", 0)})
			case 1:
				sc = S("store", 0, false, []sched.Op{o("inc", 0)}, []sched.Op{o("fau", 0)}, []sched.Op{o("find", 0)})
			case 2:
				sc = S("store", 1, false, []sched.Op{o("sstart", 1), o("inc", 1), o("scommit", 1)}, []sched.Op{o("inc", 0)}, []sched.Op{o("find", 0)})
			case 3:
				sc = S("store", 0, false, []sched.Op{o("inc", 0)}, []sched.Op{o("inc", 0), o("find", 0)})
				sc.FileStore = true
			}
			out = append(out, sc)
			directed[len(out)-1] = []sched.Directive{{Actor: 1, Until: at}, {Actor: 2, Until: "done"}, {Actor: 3, Until: "done"}, {Actor: 1, Until: "done"}}
		}
	}
	// a store failure while the others wait; the same actor then commits again (must succeed and persist)
	for v := 0; v < 3; v++ {
		sc := S("store", 0, false, []sched.Op{o("inc", 0), o("ins", 0)}, []sched.Op{o("find", 0), {Kind: "cat"}}, []sched.Op{o("fau", 0)})
		sc.AllowStore = true
		sc.FileStore = v == 2
		out = append(out, sc)
		fault := []string{"storeFail", "storePanic", "storeFail"}[v]
		directed[len(out)-1] = []sched.Directive{{Actor: 1, Until: "commit.store"}, {Actor: 1, Fault: fault}, {Actor: 2, Until: "done"}, {Actor: 3, Until: "done"}, {Actor: 1, Until: "done"}}
	}
	// Engine.Close while writers are queued for the token held by a session transaction: one waits with
	// context.Background(), one with a WithCancel context that is never cancelled, one with WithTimeout(30 s)
	for v := 0; v < 2; v++ {
		holder := []sched.Op{o("sstart", 1), o("scommit", 1)}
		if v == 1 {
			holder = []sched.Op{{Kind: "ebegin", Lock: true}, {Kind: "ecommit"}}
		}
		out = append(out, S("closequeue", 1, false, holder,
			[]sched.Op{{Kind: "inc", Ctx: "bg"}}, []sched.Op{{Kind: "inc", Ctx: ""}}, []sched.Op{{Kind: "fau", Ctx: "timeout"}}, []sched.Op{{Kind: "close"}}))
		directed[len(out)-1] = []sched.Directive{{Actor: 1, Until: "op.start"}, {Actor: 2, Until: "done"}, {Actor: 3, Until: "done"}, {Actor: 4, Until: "done"}, {Actor: 5, Until: "done"}}
	}
	// the stale Abort: A commits; B begins a write transaction (session / direct); A's Abort of its
	// finished transaction runs; C must stay queued until B is done; B's commit must succeed
	for v := 0; v < 3; v++ {
		b := []sched.Op{o("sstart", 1), o("inc", 1), o("scommit", 1)}
		if v == 1 {
			b = []sched.Op{{Kind: "ebegin", Lock: true}, {Kind: "ecommit"}}
		}
		fin := "ecommit"
		if v == 2 {
			fin = "eabort"
		}
		out = append(out, S("staleabort", 1, false,
			[]sched.Op{{Kind: "ebegin", Lock: true}, {Kind: fin}, {Kind: "eabortstale"}}, b, []sched.Op{o("inc", 0)}))
		directed[len(out)-1] = []sched.Directive{{Actor: 1, Until: "op.start"}, {Actor: 1, Until: "op.start"}, {Actor: 2, Until: "op.start"},
			{Actor: 3, Until: "done"}, {Actor: 1, Until: "done"}, {Actor: 3, Until: "done"}, {Actor: 2, Until: "done"}}
	}
	// a writer with a Background context waits for the token that an open session transaction holds, and
	// the steps that would end that transaction come after the blocked call: NOT a deadlock (the real
	// wait ends with the token timeout) — the controller ends the client-held transaction and goes on
	for _, ctx := range []string{"bg", "timeout", ""} {
		out = append(out, S("shared", 1, true,
			[]sched.Op{o("sstart", 1), {Kind: "upd0", Sess: 1, Ctx: ctx}, o("send", 1), o("sabort", 1)}, []sched.Op{o("sstart", 1)}, []sched.Op{o("find", 0)}))
		directed[len(out)-1] = []sched.Directive{{Actor: 2, Until: "begin.acquired"}, {Actor: 1, Until: "op.start"}, {Actor: 1, Until: "done"}, {Actor: 2, Until: "done"}, {Actor: 1, Until: "done"}}
	}
	// catalog-level races on db.n: a session transaction holds the token; CreateCollection and the first
	// insert queue behind it / the session itself makes the first insert and commits while they queue
	for v := 0; v < 3; v++ {
		h := []sched.Op{o("sstart", 1), o("scommit", 1)}
		if v == 1 {
			h = []sched.Op{o("sstart", 1), o("insn", 1), o("scommit", 1)}
		}
		sc := S("catalog", 1, false, h, []sched.Op{o("ccoll", 0)}, []sched.Op{o("insn", 0)}, []sched.Op{o("findn", 0), o("findn", 0)})
		if v == 2 {
			sc = S("catalog", 1, false, h, []sched.Op{o("insu", 0)}, []sched.Op{o("updall", 0)}, []sched.Op{o("findn", 0), o("findn", 0), o("findn", 0)})
		}
		out = append(out, sc)
		directed[len(out)-1] = []sched.Directive{{Actor: 1, Until: "op.start"}, {Actor: 3, Until: "done"}, {Actor: 2, Until: "done"}, {Actor: 4, Until: "op.start"}, {Actor: 1, Until: "done"}}
	}
	// invalid names: the call fails, the next plain write proceeds
	for _, v := range sched.BadDDL {
		out = append(out, S("badddl-"+v, 0, false, []sched.Op{{Kind: "badddl", Fault: v}, o("inc", 0)}, []sched.Op{o("inc", 0)}))
	}
	// two overlapping Close calls while a session transaction holds the token and a writer is queued
	for v := 0; v < 2; v++ {
		sc := S("doubleclose", 1, false, []sched.Op{{Kind: "close"}}, []sched.Op{{Kind: "close"}, o("inc", 0)}, []sched.Op{o("sstart", 1), o("scommit", 1)}, []sched.Op{{Kind: "inc", Ctx: "bg"}})
		sc.ExpireMS = v * 2
		out = append(out, sc)
		directed[len(out)-1] = []sched.Directive{{Actor: 3, Until: "op.start"}, {Actor: 4, Until: "done"}, {Actor: 1, Until: "close.wait"}, {Actor: 2, Until: "done"}, {Actor: 1, Until: "done"}}
	}
	// Client.UseSession: the callback starts a transaction, writes, and leaves by commit / error / panic /
	// runtime.Goexit / plain return without commit — the session must be ended on every way out, so the
	// two queued writers get the slot and the abandoned document stays invisible
	for _, mode := range []string{"", "err", "cbPanic", "goexit", "nocommit"} {
		kind := "usesession-" + map[string]string{"": "ok", "err": "err", "cbPanic": "panic", "goexit": "goexit", "nocommit": "nocommit"}[mode]
		out = append(out, S(kind, 0, false, []sched.Op{{Kind: "usess", Fault: mode}}, []sched.Op{o("inc", 0)}, []sched.Op{o("ins", 0), o("find", 0)}))
		directed[len(out)-1] = []sched.Directive{{Actor: 1, Until: "sstart.begun"}, {Actor: 2, Until: "done"}, {Actor: 3, Until: "done"}, {Actor: 1, Until: "done"}}
	}
	// Session.WithTransaction: callback that calls Goexit / commits or aborts by itself / nests WithTransaction
	for _, f := range []string{"goexit", "cbCommit", "cbAbort", "nested"} {
		out = append(out, S("wtx", 1, false, []sched.Op{{Kind: "wtx", Sess: 1, Fault: f, Inner: []sched.Op{o("ins", 0)}}}, []sched.Op{o("inc", 0)}, []sched.Op{o("find", 0)}))
		directed[len(out)-1] = []sched.Directive{{Actor: 1, Until: "sstart.begun"}, {Actor: 2, Until: "done"}, {Actor: 3, Until: "done"}, {Actor: 1, Until: "done"}}
	}
	// read-modify-write must be ONE transaction: pops (sorted FindOneAndDelete / FindOneAndUpdate) and a
	// claim of the best job queue behind a session transaction that holds the token
	for v := 0; v < 4; v++ {
		var acts [][]sched.Op
		switch v {
		case 0:
			acts = [][]sched.Op{{o("sstart", 1), o("scommit", 1)}, {o("pop", 0)}, {o("pop", 0)}, {o("pop", 0)}}
		case 1:
			acts = [][]sched.Op{{o("sstart", 1), o("scommit", 1)}, {o("claim", 0)}, {o("pop", 0)}, {o("popu", 0)}}
		case 2:
			acts = [][]sched.Op{{o("sstart", 1), o("inc", 1), o("scommit", 1)}, {o("popu", 0)}, {o("popu", 0)}, {o("claim", 0)}}
		case 3:
			acts = [][]sched.Op{{o("sstart", 1), o("sabort", 1)}, {o("ups", 0)}, {o("ups", 0)}, {o("rups", 0), o("rups", 0)}}
		}
		sc := S("rmw", 1, false, acts...)
		sc.Queue = 2
		if v == 0 {
			sc.Queue = 2 // three pops on two jobs: the third legitimately finds nothing
		}
		out = append(out, sc)
		directed[len(out)-1] = []sched.Directive{{Actor: 1, Until: "op.start"}, {Actor: 2, Until: "done"}, {Actor: 3, Until: "done"}, {Actor: 4, Until: "done"}, {Actor: 1, Until: "done"}}
	}
	// client misuse: a finished transaction is committed again while others write
	for i := 0; i < 6; i++ {
		out = append(out, S("direct", 0, false,
			[]sched.Op{{Kind: "ebegin", Lock: true}, {Kind: "ecommit"}, {Kind: "estale"}, {Kind: "estale"}},
			[]sched.Op{o("ins", 0), o("inc", 0)}, []sched.Op{o("inc", 0)}))
	}
	// callback errors take useTransaction's deferred Abort
	out = append(out, S("crud", 0, false, []sched.Op{o("bad", 0), o("inc", 0)}, []sched.Op{o("bad", 0)}))
	// close in the middle
	out = append(out, S("close", 1, false, []sched.Op{o("inc", 0), o("inc", 0)}, []sched.Op{{Kind: "close"}}, []sched.Op{o("sstart", 1), o("scommit", 1)}))
	return out, directed
}

// ---- thorough tier: DFS over all interleavings of tiny scripts, and free-running stress ----

var thoroughOnce sync.Once
var thoroughCases []run.Case

func schedThorough(r *gen.R, idx int) []run.Case {
	// the whole thorough workload is produced once (sequentially: the hook is global)
	var mine []run.Case
	thoroughOnce.Do(func() {
		for _, sc := range tinyScenarios() {
			budget := 1500
			if b := os.Getenv("VERIF_DFS_BUDGET"); b != "" {
				fmt.Sscanf(b, "%d", &budget)
			}
			bound := 0 // unbounded: ALL hook-level interleavings (blocking keeps the space small)
			if b := os.Getenv("VERIF_DFS_PREEMPT"); b != "" {
				fmt.Sscanf(b, "%d", &bound)
			}
			first := len(thoroughCases)
			runs, complete := sched.Explore(sc, budget, bound, func(o *sched.Outcome) bool {
				c := schedCaseOf(o, "sched")
				c.Tags = append(c.Tags, "dfs")
				thoroughCases = append(thoroughCases, c)
				return true
			})
			if first < len(thoroughCases) {
				tag := fmt.Sprintf("dfs-truncated:%s(bound %d)", sc.Kind, bound)
				if complete {
					tag = fmt.Sprintf("dfs-exhaustive:%s(bound %d)", sc.Kind, bound)
				}
				thoroughCases[first].Tags = append(thoroughCases[first].Tags, tag)
			}
			fmt.Fprintf(os.Stderr, "sched dfs: kind %s: %d interleavings, exhaustive=%v (preemption bound %d)\n", sc.Kind, runs, complete, bound)
		}
		ms := 20000
		if b := os.Getenv("VERIF_STRESS_MS"); b != "" {
			fmt.Sscanf(b, "%d", &ms)
		}
		o := sched.Stress(sched.StressConfig{Actors: runtime.NumCPU() / 2, Millis: ms, Seed: int64(r.U64() >> 1)})
		c := schedCaseOf(o, "sched")
		c.Tags = append(c.Tags, "stress", fmt.Sprintf("stress-calls:%dk", len(o.History)/1000))
		fmt.Fprintf(os.Stderr, "sched stress: %d calls in %d ms, %d oplog events, violations %d\n", len(o.History), ms, len(o.Oplog), len(o.Viols))
		c.Nontrivial = true
		thoroughCases = append(thoroughCases, c)
		mine = thoroughCases
	})
	return mine
}

func tinyScenarios() []sched.Scenario {
	o := func(k string, s int) sched.Op { return sched.Op{Kind: k, Sess: s} }
	return []sched.Scenario{
		{Kind: "crud", Actors: [][]sched.Op{{o("inc", 0)}, {o("fau", 0)}}},
		{Kind: "crud", Actors: [][]sched.Op{{o("inc", 0), o("find", 0)}, {o("ins", 0)}}},
		{Kind: "crud", Actors: [][]sched.Op{{o("inc", 0), o("inc", 0)}, {o("fau", 0), o("find", 0)}}},
		{Kind: "crud", Actors: [][]sched.Op{{o("inc", 0)}, {o("fau", 0)}, {o("find", 0)}}},
		{Kind: "crud", AllowStore: true, Actors: [][]sched.Op{{o("inc", 0)}, {o("ins", 0)}}},
		{Kind: "crud", Actors: [][]sched.Op{{o("bad", 0), o("inc", 0)}, {o("dup", 0)}}},
		{Kind: "session", Sessions: 2, Actors: [][]sched.Op{{o("sstart", 1), o("scommit", 1)}, {o("inc", 0)}}},
		{Kind: "session", Sessions: 2, AllowCancel: true, Actors: [][]sched.Op{{o("sstart", 1), o("sabort", 1)}, {o("inc", 0)}}},
		{Kind: "session", Sessions: 2, Actors: [][]sched.Op{{o("sstart", 1), o("send", 1)}, {o("sstart", 2), o("scommit", 2)}}},
		{Kind: "wtx", Sessions: 1, Actors: [][]sched.Op{{{Kind: "wtx", Sess: 1, Inner: []sched.Op{o("inc", 0)}}}, {o("inc", 0)}}},
		{Kind: "wtx", Sessions: 1, Actors: [][]sched.Op{{{Kind: "wtx", Sess: 1, Fault: "cbPanic", Inner: []sched.Op{o("ins", 0)}}}, {o("fau", 0)}}},
		{Kind: "direct", Actors: [][]sched.Op{{{Kind: "ebegin", Lock: true}, {Kind: "ecommit"}}, {o("inc", 0)}}},
		{Kind: "direct", Actors: [][]sched.Op{{{Kind: "ebegin", Lock: true}, {Kind: "eabort"}}, {{Kind: "ebegin", Lock: false}, o("inc", 0)}}},
		{Kind: "shared", Sessions: 1, Shared: true, Actors: [][]sched.Op{{o("sstart", 1), o("sabort", 1)}, {o("ins", 1)}}},
		{Kind: "shared", Sessions: 1, Shared: true, Actors: [][]sched.Op{{o("sstart", 1), o("scommit", 1)}, {o("inc", 1), o("sabort", 1)}}},
		{Kind: "shared", Sessions: 1, Shared: true, Actors: [][]sched.Op{{o("sstart", 1), o("sabort", 1)}, {o("sstart", 1), o("sabort", 1)}}},
		{Kind: "endstart", Sessions: 1, Shared: true, Actors: [][]sched.Op{{o("sstart", 1)}, {o("send", 1)}}},
		{Kind: "endstart", Sessions: 1, Shared: true, Actors: [][]sched.Op{{o("sstart", 1), o("sabort", 1)}, {o("send", 1)}, {o("inc", 0)}}},
		{Kind: "close", Actors: [][]sched.Op{{o("inc", 0)}, {{Kind: "close"}}}},
		{Kind: "close", Sessions: 1, Actors: [][]sched.Op{{o("sstart", 1), o("scommit", 1)}, {{Kind: "close"}}}},
		{Kind: "close", Actors: [][]sched.Op{{o("inc", 0), o("find", 0)}, {{Kind: "close"}, o("inc", 0)}}},
		{Kind: "usesession-goexit", Actors: [][]sched.Op{{{Kind: "usess", Fault: "goexit"}}, {o("inc", 0)}}},
		{Kind: "usesession-panic", Actors: [][]sched.Op{{{Kind: "usess", Fault: "cbPanic"}}, {o("ins", 0)}}},
		{Kind: "rmw", Queue: 2, Actors: [][]sched.Op{{o("pop", 0)}, {o("pop", 0)}, {o("claim", 0)}}},
		{Kind: "rmw", Queue: 1, Actors: [][]sched.Op{{o("popu", 0)}, {o("pop", 0)}}},
		{Kind: "stream", Actors: [][]sched.Op{{{Kind: "watch", Stream: 1}, {Kind: "next", Stream: 1}}, {o("ins", 0)}}},
		{Kind: "stream", Actors: [][]sched.Op{{{Kind: "watch", Stream: 1}, {Kind: "next", Stream: 1}}, {{Kind: "close"}}}},
	}
}

// dumpTrace prints a trace with the model steps placed at each record (debugging aid).
func dumpTrace(o *sched.Outcome, tr *translation) {
	k := 0
	for i, r := range o.Trace {
		switch r.Kind {
		case "event":
			fmt.Fprintf(os.Stderr, "%3d a%d %-16s %v parked=%v\n", i, r.Actor, r.Point, r.Args, r.Parked)
		case "quiesce":
			fmt.Fprintf(os.Stderr, "%3d    obs %+v\n", i, *r.Obs)
		case "ret":
			fmt.Fprintf(os.Stderr, "%3d a%d ret %s final=%v\n", i, r.Actor, r.Res.Cls, r.Final)
		case "call":
			fmt.Fprintf(os.Stderr, "%3d a%d call %+v\n", i, r.Actor, r.Call)
		default:
			fmt.Fprintf(os.Stderr, "%3d a%d %s %s %s %s\n", i, r.Actor, r.Kind, r.Point, r.Site, r.Fault)
		}
		for k < len(tr.Steps) && k < len(tr.At) && tr.At[k] == i {
			fmt.Fprintf(os.Stderr, "        model %s\n", tr.Steps[k])
			k++
		}
	}
	fmt.Fprintln(os.Stderr, "diverged:", tr.Diverged, "queries:", tr.Queries)
}
