package streams

import (
	"context"
	"crypto/sha1"
	"encoding/hex"
	"fmt"
	"math"
	"os"
	"runtime/debug"
	"strings"
	"time"

	"go.mongodb.org/mongo-driver/bson"
	"go.mongodb.org/mongo-driver/bson/primitive"
	"go.mongodb.org/mongo-driver/mongo"
	"go.mongodb.org/mongo-driver/mongo/options"

	"github.com/256dpi/lungo"
	"github.com/256dpi/lungo/bsonkit"
	"github.com/256dpi/lungo/mongokit"

	"verifharness/internal/gen"
	"verifharness/internal/run"
	"verifharness/internal/vj"
)

// Stream "robust" (C20): MONITOR ONLY (no model comparison; the model-side statement is the Lean
// theorem family of Props/C20). The malformed generator — operator arguments of the wrong type,
// empty keys and paths, huge / non-finite numbers, extreme integers in every integer-typed
// modifier, document / array / binary `_id`, negative skip and limit — drives bsonkit, mongokit and
// the driver; every call runs under recover() and a watchdog. Outcome classes: value | error |
// panic | hang. A panic or a hang is a violation; at the driver level a probe write follows every
// call and must succeed ("the engine can serve the next call").

const robustTimeout = 10 * time.Second

var robustExtremes = []interface{}{
	int64(math.MinInt64), int64(math.MaxInt64), int64(math.MinInt64 + 1), int64(math.MaxInt64 - 1),
	int32(math.MinInt32), int32(math.MaxInt32), math.NaN(), math.Inf(1), math.Inf(-1), 1e300, -1e300, 9223372036854775808.0,
	-9223372036854775808.0, 1.5, -0.5, math.Copysign(0, -1), int32(0), int32(-1), int64(-1),
}

var robustPaths = []string{"", ".", "a.", ".a", "a..b", "a.0", "a.-1", "a.+1", "a.01", "a.9223372036854775807", "a.9223372036854775808",
	"a.99999999999999999999", "a.$", "a.$[]", "$[x]", "a.$[x].b", "a.$[].$[]", "a.$[x", "$", "$.a", "a.$.b.$", "_id", "_id.a", "a.b.c.d",
	"a.1000", "a.b", "a", "b", "x.0.a", "a.1600000", "a.1000000000000", "a..b1", ".x1", "v2..x", "a1..", "..1", "a.1..b", "9..a", "a.5000000.b", "a.0.4000000"}

// Generated since the repairs dd0d6c6 / 01b6335 (before them the process did not survive: both were C20 findings):
//   * array indexes far beyond the array ("a.1000000000000"): bsonkit.put padded with nil in an unbounded append loop
//     until the runtime died with "fatal error: out of memory" ("a.5000000" took ~20 s); now rejected above MaxArrayPadding;
//   * limits between about 2^33 and 2^47 (Find / CountDocuments): bsonkit.Select did make(List, 0, limit).

// Not generated (outside the domain of C20): keys / paths containing a NUL byte. BSON cannot encode them (the
// driver answers "BSON element key cannot contain null bytes"); at the bsonkit level the string "\x00" IS the
// PathEnd sentinel, and bsonkit.Put(doc, "\x00", v) panics on `v.(bson.D)` — the model's `Put` with the empty
// segment list, excluded by the hypothesis `p ≠ []` of `Put_never_panics`.

var robustQueryOps = []string{"$eq", "$gt", "$gte", "$lt", "$lte", "$ne", "$in", "$nin", "$not", "$exists", "$type", "$all", "$size",
	"$elemMatch", "$mod", "$bitsAllSet", "$bitsAnyClear", "$bitsAllClear", "$bitsAnySet", "$regex", "$options", "$jsonSchema", "$where", "$foo", "$", ""}

var robustTopOps = []string{"$and", "$or", "$nor", "$not", "$jsonSchema", "$expr", "$comment", "$foo"}

var robustUpdateOps = []string{"$set", "$setOnInsert", "$unset", "$rename", "$inc", "$mul", "$max", "$min", "$currentDate", "$push", "$pop",
	"$pull", "$pullAll", "$addToSet", "$bit", "$foo", "$"}

func robustValue(r *gen.R, depth int) interface{} {
	switch r.N(10) {
	case 0, 1:
		return robustExtremes[r.N(len(robustExtremes))]
	case 2:
		return gen.Decs[r.N(len(gen.Decs))]
	case 3:
		if depth > 0 {
			return robustDoc(r, depth-1)
		}
		return bson.D{}
	case 4:
		if depth > 0 {
			n := r.N(4)
			a := make(bson.A, 0, n)
			for i := 0; i < n; i++ {
				a = append(a, robustValue(r, depth-1))
			}
			return a
		}
		return bson.A{}
	default:
		return r.Value(depth, true)
	}
}

func robustKey(r *gen.R) string {
	if r.P(30) {
		return robustPaths[r.N(len(robustPaths))]
	}
	return r.Path()
}

func robustDoc(r *gen.R, depth int) bson.D {
	n := r.N(4)
	d := make(bson.D, 0, n)
	for i := 0; i < n; i++ {
		k := gen.Keys[r.N(len(gen.Keys))]
		if r.P(15) {
			k = []string{"", "$a", "a.b", "_id", "0", "a"}[r.N(6)] // odd and duplicate keys
		}
		d = append(d, bson.E{Key: k, Value: robustValue(r, depth)})
	}
	return d
}

// robustID: document-, array-, binary-valued and otherwise odd _id values.
func robustID(r *gen.R) interface{} {
	switch r.N(8) {
	case 0:
		return bson.D{{Key: "k", Value: int32(r.N(3))}}
	case 1:
		return primitive.Binary{Subtype: 0, Data: []byte{byte(r.N(3))}}
	case 2:
		return bson.A{int32(r.N(3))}
	case 3:
		return bson.D{}
	case 4:
		return robustExtremes[r.N(len(robustExtremes))]
	case 5:
		return nil
	default:
		return r.ID()
	}
}

func robustStored(r *gen.R) bson.D {
	d := bson.D{}
	if r.P(85) {
		d = append(d, bson.E{Key: "_id", Value: robustID(r)})
	}
	d = append(d, bson.E{Key: "a", Value: robustValue(r, 2)})
	if r.P(60) {
		d = append(d, bson.E{Key: "b", Value: robustValue(r, 2)})
	}
	if r.P(30) {
		d = append(d, robustDoc(r, 1)...)
	}
	return d
}

// robustArgFor biases the argument towards the shapes the operator parses (so the guards behind the
// shape checks are reached), otherwise an arbitrary argument.
func robustArgFor(r *gen.R, op string, depth int) interface{} {
	if op == "$mod" && r.P(70) {
		divs := []interface{}{0.5, -0.25, 5e-324, 1e-300, math.Copysign(0, -1), int32(0), int64(0), 0.0, math.NaN(), math.Inf(1), int64(math.MinInt64), int32(-1), 1.5, -9.3e18, 9.3e18, "a", nil}
		rems := []interface{}{int32(0), 0.5, int64(math.MinInt64), math.NaN(), -0.5, int64(1), "x"}
		a := bson.A{divs[r.N(len(divs))], rems[r.N(len(rems))]}
		if r.P(10) {
			a = append(a, int32(1))
		}
		return a
	}
	if (op == "$size" || strings.HasPrefix(op, "$bits")) && r.P(60) {
		return robustExtremes[r.N(len(robustExtremes))]
	}
	return robustOpArg(r, depth)
}

func robustOpArg(r *gen.R, depth int) interface{} {
	switch r.N(6) {
	case 0:
		return robustExtremes[r.N(len(robustExtremes))]
	case 1:
		n := r.N(4)
		a := make(bson.A, 0, n)
		for i := 0; i < n; i++ {
			if depth > 0 && r.P(40) {
				a = append(a, robustFilter(r, depth-1))
			} else {
				a = append(a, robustValue(r, 1))
			}
		}
		return a
	case 2:
		if depth > 0 {
			return robustFilter(r, depth-1)
		}
		return bson.D{}
	case 3:
		return []interface{}{"", "x", "null", "number", "array", int32(-1), int32(99), "date", "timestamp"}[r.N(9)]
	default:
		return robustValue(r, 1)
	}
}

func robustFilter(r *gen.R, depth int) bson.D {
	n := r.N(3)
	if r.P(60) {
		n = 1
	}
	d := make(bson.D, 0, n)
	for i := 0; i < n; i++ {
		switch r.N(5) {
		case 0:
			d = append(d, bson.E{Key: robustTopOps[r.N(len(robustTopOps))], Value: robustOpArg(r, depth)})
		case 1, 2:
			m := 1 + r.N(2)
			ops := make(bson.D, 0, m)
			for j := 0; j < m; j++ {
				qop := robustQueryOps[r.N(len(robustQueryOps))]
				ops = append(ops, bson.E{Key: qop, Value: robustArgFor(r, qop, depth)})
			}
			d = append(d, bson.E{Key: robustKey(r), Value: ops})
		case 3:
			qop := robustQueryOps[r.N(len(robustQueryOps))]
			d = append(d, bson.E{Key: qop, Value: robustArgFor(r, qop, depth)})
		default:
			d = append(d, bson.E{Key: robustKey(r), Value: robustValue(r, 1)})
		}
	}
	return d
}

func robustPushArg(r *gen.R) interface{} {
	mods := bson.D{}
	if r.P(80) {
		var each interface{} = bson.A{robustValue(r, 1)}
		if r.P(20) {
			each = robustValue(r, 1)
		}
		mods = append(mods, bson.E{Key: "$each", Value: each})
	}
	for _, m := range []string{"$position", "$slice", "$sort", "$foo"} {
		if r.P(35) {
			var v interface{} = robustExtremes[r.N(len(robustExtremes))]
			if m == "$sort" && r.P(50) {
				v = bson.D{{Key: robustKey(r), Value: robustExtremes[r.N(len(robustExtremes))]}}
			}
			if r.P(15) {
				v = robustValue(r, 1)
			}
			mods = append(mods, bson.E{Key: m, Value: v})
		}
	}
	return mods
}

func robustUpdate(r *gen.R) bson.D {
	n := 1 + r.N(2)
	d := make(bson.D, 0, n)
	for i := 0; i < n; i++ {
		op := robustUpdateOps[r.N(len(robustUpdateOps))]
		var arg interface{}
		switch {
		case r.P(10):
			arg = robustValue(r, 1) // not a document at all
		default:
			m := 1 + r.N(2)
			fields := make(bson.D, 0, m)
			for j := 0; j < m; j++ {
				var v interface{}
				switch {
				case (op == "$push" || op == "$addToSet") && r.P(70):
					v = robustPushArg(r)
				case op == "$rename" && r.P(70):
					v = robustKey(r)
				case op == "$bit" && r.P(70):
					v = bson.D{{Key: []string{"and", "or", "xor", "nand", ""}[r.N(5)], Value: robustExtremes[r.N(len(robustExtremes))]}}
				case op == "$currentDate" && r.P(70):
					v = []interface{}{true, false, bson.D{{Key: "$type", Value: "date"}}, bson.D{{Key: "$type", Value: "timestamp"}},
						bson.D{{Key: "$type", Value: int32(1)}}, bson.D{{Key: "$foo", Value: "date"}}, bson.D{}}[r.N(7)]
				case (op == "$pull") && r.P(50):
					v = robustFilter(r, 1)
				default:
					v = robustValue(r, 1)
				}
				fields = append(fields, bson.E{Key: robustKey(r), Value: v})
			}
			arg = fields
		}
		d = append(d, bson.E{Key: op, Value: arg})
	}
	if r.P(5) {
		return bson.D{}
	}
	if r.P(5) {
		return robustDoc(r, 1) // plain document (no operators)
	}
	return d
}

func robustProjection(r *gen.R) bson.D {
	n := 1 + r.N(3)
	d := make(bson.D, 0, n)
	for i := 0; i < n; i++ {
		var v interface{}
		switch r.N(6) {
		case 0:
			v = bson.D{{Key: "$slice", Value: robustExtremes[r.N(len(robustExtremes))]}}
		case 1:
			v = bson.D{{Key: "$slice", Value: bson.A{robustExtremes[r.N(len(robustExtremes))], robustExtremes[r.N(len(robustExtremes))]}}}
		case 2:
			v = bson.D{{Key: "$elemMatch", Value: robustOpArg(r, 1)}}
		case 3:
			v = bson.D{{Key: []string{"$slice", "$elemMatch", "$meta", "$foo", ""}[r.N(5)], Value: robustValue(r, 1)}}
		case 4:
			v = []interface{}{int32(0), int32(1), true, false, 1.0, 0.0}[r.N(6)]
		default:
			v = robustValue(r, 1)
		}
		d = append(d, bson.E{Key: robustKey(r), Value: v})
	}
	return d
}

func robustSort(r *gen.R) bson.D {
	n := 1 + r.N(2)
	d := make(bson.D, 0, n)
	for i := 0; i < n; i++ {
		var v interface{} = []interface{}{int32(1), int32(-1), int64(1), -1.0}[r.N(4)]
		if r.P(40) {
			v = robustValue(r, 0)
		}
		d = append(d, bson.E{Key: robustKey(r), Value: v})
	}
	if r.P(5) {
		return bson.D{}
	}
	return d
}

func robustArrayFilters(r *gen.R) bsonkit.List {
	n := r.N(3)
	l := make(bsonkit.List, 0, n)
	for i := 0; i < n; i++ {
		var f bson.D
		switch r.N(3) {
		case 0:
			f = bson.D{{Key: "x", Value: robustValue(r, 1)}}
		case 1:
			f = bson.D{{Key: "x.a", Value: bson.D{{Key: robustQueryOps[r.N(len(robustQueryOps))], Value: robustOpArg(r, 1)}}}}
		default:
			f = robustFilter(r, 1)
		}
		l = append(l, &f)
	}
	return l
}

func robustInt(r *gen.R) int {
	return []int{0, 1, 2, -1, -2, math.MinInt64, math.MaxInt64, math.MaxInt64 - 1, math.MinInt64 + 1, 3, 1 << 33, 1 << 40, 1 << 45, 1 << 47}[r.N(14)]
}

// robustGuard runs f under recover() and a watchdog; returns the outcome class.
func robustGuard(f func() error) (class string, detail string) {
	done := make(chan [2]string, 1)
	go func() {
		defer func() {
			if p := recover(); p != nil {
				done <- [2]string{"panic", fmt.Sprint(p) + "\n" + panicFrames()}
			}
		}()
		if err := f(); err != nil {
			done <- [2]string{"error", ""}
			return
		}
		done <- [2]string{"value", ""}
	}()
	select {
	case o := <-done:
		return o[0], o[1]
	case <-time.After(robustTimeout):
		return "hang", "no result within " + robustTimeout.String()
	}
}

// fingerprint makes the (unsent) request visible to the engine's distinct-case counter.
func fingerprint(s string) string {
	h := sha1.Sum([]byte(s))
	return hex.EncodeToString(h[:6])
}

// panicFrames lists the /repo frames of the panicking goroutine (innermost first).
func panicFrames() string {
	var out []string
	for _, line := range strings.Split(string(debug.Stack()), "\n") {
		line = strings.TrimSpace(line)
		if strings.HasPrefix(line, "/repo/") {
			if i := strings.Index(line, " +0x"); i > 0 {
				line = line[:i]
			}
			out = append(out, line)
		}
	}
	if len(out) > 8 {
		out = out[:8]
	}
	return strings.Join(out, " < ")
}

// panicClass reduces a panic text to a short canonical witness class.
func panicClass(s string) string {
	s = strings.ToLower(s)
	switch {
	case strings.Contains(s, "index out of range"), strings.Contains(s, "slice bounds out of range"):
		return "bounds"
	case strings.Contains(s, "comparing uncomparable"):
		return "uncomparable"
	case strings.Contains(s, "interface conversion"):
		return "assertion"
	case strings.Contains(s, "cannot inspect"):
		return "inspect"
	case strings.Contains(s, "cannot clone"):
		return "clone"
	case strings.Contains(s, "divide by zero"):
		return "div0"
	case strings.Contains(s, "nil pointer"), strings.Contains(s, "nil map"):
		return "nil"
	case strings.Contains(s, "makeslice"), strings.Contains(s, "out of memory"):
		return "alloc"
	default:
		return "other"
	}
}

type robustCall struct {
	name string
	desc string
	f    func() error
}

func encDoc(d bson.D) string { return string(vj.Enc(d)) }
func encList(l bsonkit.List) string {
	parts := make([]string, len(l))
	for i, d := range l {
		parts[i] = encDoc(*d)
	}
	return "[" + strings.Join(parts, ",") + "]"
}

func cloneD(d bson.D) bsonkit.Doc { return bsonkit.Clone(&d) }

// robustKitCalls: one generated bsonkit / mongokit call.
func robustKitCall(r *gen.R) robustCall {
	doc := robustStored(r)
	switch r.N(14) {
	case 0:
		a, b := robustValue(r, 2), robustValue(r, 2)
		return robustCall{"bsonkit.Compare", string(vj.Enc(bson.A{a, b})), func() error { bsonkit.Compare(a, b); bsonkit.Compare(b, a); return nil }}
	case 1:
		p := robustKey(r)
		return robustCall{"bsonkit.Get/All", encDoc(doc) + " " + run.JS(p), func() error {
			d := cloneD(doc)
			bsonkit.Get(d, p)
			bsonkit.All(d, p, r.P(50), r.P(50))
			return nil
		}}
	case 2:
		p, v, pre := robustKey(r), robustValue(r, 1), r.P(30)
		return robustCall{"bsonkit.Put", encDoc(doc) + " " + run.JS(p) + " " + string(vj.Enc(bson.A{v})), func() error {
			_, err := bsonkit.Put(cloneD(doc), p, v, pre)
			return err
		}}
	case 3:
		p, v := robustKey(r), robustValue(r, 0)
		return robustCall{"bsonkit.Unset/Increment/Multiply/Push/Pop", encDoc(doc) + " " + run.JS(p) + " " + string(vj.Enc(bson.A{v})), func() error {
			bsonkit.Unset(cloneD(doc), p)
			_, _ = bsonkit.Increment(cloneD(doc), p, v)
			_, _ = bsonkit.Multiply(cloneD(doc), p, v)
			_, _ = bsonkit.Push(cloneD(doc), p, v)
			_, _ = bsonkit.Pop(cloneD(doc), p, r.P(50))
			return nil
		}}
	case 4, 5, 6:
		q := robustFilter(r, 2)
		return robustCall{"mongokit.Match", encDoc(doc) + " " + encDoc(q), func() error {
			_, err := mongokit.Match(cloneD(doc), &q)
			return err
		}}
	case 7, 8, 9:
		u, afs, ups := robustUpdate(r), robustArrayFilters(r), r.P(30)
		q := robustFilter(r, 1)
		return robustCall{"mongokit.Apply", encDoc(doc) + " " + encDoc(u) + " " + encList(afs), func() error {
			_, err := mongokit.Apply(cloneD(doc), &q, &u, ups, afs)
			return err
		}}
	case 10:
		p := robustProjection(r)
		return robustCall{"mongokit.Project", encDoc(doc) + " " + encDoc(p), func() error {
			_, err := mongokit.Project(cloneD(doc), &p)
			return err
		}}
	case 11:
		s := robustSort(r)
		d2 := robustStored(r)
		p := robustKey(r)
		return robustCall{"mongokit.Sort/Distinct", encDoc(doc) + " " + encDoc(d2) + " " + encDoc(s) + " " + run.JS(p), func() error {
			l := bsonkit.List{cloneD(doc), cloneD(d2), cloneD(doc)}
			mongokit.Distinct(l, p)
			_, err := mongokit.Sort(l, &s)
			return err
		}}
	case 12:
		q := robustFilter(r, 2)
		return robustCall{"mongokit.Extract", encDoc(q), func() error {
			_, err := mongokit.Extract(&q)
			return err
		}}
	default:
		p, afs := robustKey(r), robustArrayFilters(r)
		q := robustFilter(r, 1)
		return robustCall{"mongokit.Resolve", encDoc(doc) + " " + run.JS(p) + " " + encList(afs), func() error {
			return mongokit.Resolve(p, &q, cloneD(doc), afs, func(string) error { return nil })
		}}
	}
}

// ---- collection and driver level ----

type robustEnv struct {
	client lungo.IClient
	engine *lungo.Engine
	coll   lungo.ICollection
	db     lungo.IDatabase
	mk     *mongokit.Collection
}

func newRobustEnv() (*robustEnv, error) {
	client, engine, err := lungo.Open(nil, lungo.Options{Store: lungo.NewMemoryStore(), ExpireInterval: time.Hour})
	if err != nil {
		return nil, err
	}
	db := client.Database("rb")
	return &robustEnv{client: client, engine: engine, db: db, coll: db.Collection("c"), mk: mongokit.NewCollection(true)}, nil
}

func (e *robustEnv) probe() string {
	class, detail := robustGuard(func() error {
		ctx, cancel := context.WithTimeout(context.Background(), 5*time.Second)
		defer cancel()
		res, err := e.db.Collection("probe").InsertOne(ctx, bson.D{{Key: "p", Value: int32(1)}})
		if err != nil {
			return err
		}
		_, err = e.db.Collection("probe").DeleteOne(ctx, bson.D{{Key: "_id", Value: res.InsertedID}})
		return err
	})
	if class == "value" {
		return ""
	}
	return class + " " + detail
}

func listOf(afs bsonkit.List) []interface{} {
	out := make([]interface{}, len(afs))
	for i, d := range afs {
		out[i] = *d
	}
	return out
}

func robustDriverCall(r *gen.R, e *robustEnv) robustCall {
	ctx := context.Background()
	q := robustFilter(r, 2)
	if r.P(40) {
		q = bson.D{}
	}
	c := e.coll
	switch r.N(20) {
	case 0, 1, 2:
		d := robustStored(r)
		return robustCall{"InsertOne", encDoc(d), func() error { _, err := c.InsertOne(ctx, d); return err }}
	case 3:
		docs := []interface{}{robustStored(r), robustStored(r), robustStored(r)}
		ord := r.P(50)
		return robustCall{"InsertMany", string(vj.Enc(bson.A(docs))), func() error {
			_, err := c.InsertMany(ctx, docs, options.InsertMany().SetOrdered(ord))
			return err
		}}
	case 4, 5:
		o := options.Find()
		desc := encDoc(q)
		if r.P(50) {
			s := robustSort(r)
			o.SetSort(s)
			desc += " sort=" + encDoc(s)
		}
		if r.P(50) {
			p := robustProjection(r)
			o.SetProjection(p)
			desc += " proj=" + encDoc(p)
		}
		if r.P(50) {
			sk, li := int64(robustInt(r)), int64(robustInt(r))
			o.SetSkip(sk).SetLimit(li)
			desc += fmt.Sprintf(" skip=%d limit=%d", sk, li)
		}
		return robustCall{"Find", desc, func() error {
			cur, err := c.Find(ctx, q, o)
			if err != nil {
				return err
			}
			var out []bson.D
			return cur.All(ctx, &out)
		}}
	case 6:
		sk, li := int64(robustInt(r)), int64(robustInt(r))
		return robustCall{"CountDocuments", fmt.Sprintf("%s skip=%d limit=%d", encDoc(q), sk, li), func() error {
			_, err := c.CountDocuments(ctx, q, options.Count().SetSkip(sk).SetLimit(li))
			return err
		}}
	case 7:
		p := robustKey(r)
		if p == "" {
			p = "a" // Distinct("") is the documented panic "lungo: missing field path"
		}
		return robustCall{"Distinct", run.JS(p) + " " + encDoc(q), func() error { _, err := c.Distinct(ctx, p, q); return err }}
	case 8, 9, 10:
		u, afs, ups, many := robustUpdate(r), robustArrayFilters(r), r.P(30), r.P(40)
		return robustCall{"Update", fmt.Sprintf("%s %s %s upsert=%v many=%v", encDoc(q), encDoc(u), encList(afs), ups, many), func() error {
			o := options.Update().SetUpsert(ups)
			if len(afs) > 0 {
				o.SetArrayFilters(options.ArrayFilters{Filters: listOf(afs)})
			}
			var err error
			if many {
				_, err = c.UpdateMany(ctx, q, u, o)
			} else {
				_, err = c.UpdateOne(ctx, q, u, o)
			}
			return err
		}}
	case 11, 12:
		repl, ups := robustStored(r), r.P(30)
		return robustCall{"ReplaceOne", fmt.Sprintf("%s %s upsert=%v", encDoc(q), encDoc(repl), ups), func() error {
			_, err := c.ReplaceOne(ctx, q, repl, options.Replace().SetUpsert(ups))
			return err
		}}
	case 13:
		many := r.P(30)
		return robustCall{"Delete", fmt.Sprintf("%s many=%v", encDoc(q), many), func() error {
			var err error
			if many {
				_, err = c.DeleteMany(ctx, q)
			} else {
				_, err = c.DeleteOne(ctx, q)
			}
			return err
		}}
	case 14:
		u, afs, s, p := robustUpdate(r), robustArrayFilters(r), robustSort(r), robustProjection(r)
		after := r.P(50)
		return robustCall{"FindOneAndUpdate", fmt.Sprintf("%s %s %s sort=%s proj=%s", encDoc(q), encDoc(u), encList(afs), encDoc(s), encDoc(p)), func() error {
			o := options.FindOneAndUpdate().SetSort(s).SetProjection(p).SetUpsert(r.P(30))
			if after {
				o.SetReturnDocument(options.After)
			}
			if len(afs) > 0 {
				o.SetArrayFilters(options.ArrayFilters{Filters: listOf(afs)})
			}
			err := c.FindOneAndUpdate(ctx, q, u, o).Err()
			if err == mongo.ErrNoDocuments {
				return nil
			}
			return err
		}}
	case 15:
		repl, s, p := robustStored(r), robustSort(r), robustProjection(r)
		return robustCall{"FindOneAndReplace/Delete", fmt.Sprintf("%s %s sort=%s proj=%s", encDoc(q), encDoc(repl), encDoc(s), encDoc(p)), func() error {
			err := c.FindOneAndReplace(ctx, q, repl, options.FindOneAndReplace().SetSort(s).SetProjection(p)).Err()
			err2 := c.FindOneAndDelete(ctx, q, options.FindOneAndDelete().SetSort(s).SetProjection(p)).Err()
			if err == mongo.ErrNoDocuments {
				err = nil
			}
			if err == nil && err2 != mongo.ErrNoDocuments {
				err = err2
			}
			return err
		}}
	case 16:
		models := []mongo.WriteModel{
			mongo.NewInsertOneModel().SetDocument(robustStored(r)),
			mongo.NewUpdateOneModel().SetFilter(robustFilter(r, 1)).SetUpdate(robustUpdate(r)).SetUpsert(r.P(30)),
			mongo.NewUpdateManyModel().SetFilter(robustFilter(r, 1)).SetUpdate(robustUpdate(r)),
			mongo.NewReplaceOneModel().SetFilter(robustFilter(r, 1)).SetReplacement(robustStored(r)).SetUpsert(r.P(30)),
			mongo.NewDeleteOneModel().SetFilter(robustFilter(r, 1)),
			mongo.NewDeleteManyModel().SetFilter(robustFilter(r, 1)),
		}
		ord := r.P(50)
		return robustCall{"BulkWrite", fmt.Sprintf("ordered=%v", ord), func() error {
			_, err := c.BulkWrite(ctx, models, options.BulkWrite().SetOrdered(ord))
			return err
		}}
	case 17:
		key := robustSort(r)
		o := options.Index()
		desc := encDoc(key)
		if r.P(30) {
			o.SetUnique(true)
			desc += " unique"
		}
		if r.P(30) {
			pf := robustFilter(r, 1)
			o.SetPartialFilterExpression(pf)
			desc += " partial=" + encDoc(pf)
		}
		if r.P(20) {
			secs := []int32{0, 1, -1, math.MaxInt32, math.MinInt32}[r.N(5)]
			o.SetExpireAfterSeconds(secs)
			desc += fmt.Sprintf(" ttl=%d", secs)
		}
		return robustCall{"CreateIndex", desc, func() error {
			name, err := c.Indexes().CreateOne(ctx, mongo.IndexModel{Keys: key, Options: o})
			if err == nil && r.P(70) {
				_, err = c.Indexes().DropOne(ctx, name) // keep the collection mostly unconstrained
			}
			return err
		}}
	case 18:
		return robustCall{"ListCollections/ListDatabases", encDoc(q), func() error {
			_, err := e.db.ListCollectionNames(ctx, q)
			_, err2 := e.client.ListDatabaseNames(ctx, q)
			if err == nil {
				err = err2
			}
			return err
		}}
	default:
		// the same malformed traffic against a bare mongokit.Collection
		d, u, s, afs := robustStored(r), robustUpdate(r), robustSort(r), robustArrayFilters(r)
		sk, li := robustInt(r), robustInt(r)
		return robustCall{"mongokit.Collection", fmt.Sprintf("%s %s %s sort=%s skip=%d limit=%d", encDoc(d), encDoc(q), encDoc(u), encDoc(s), sk, li), func() error {
			_, _ = e.mk.Insert(cloneD(d))
			_, _ = e.mk.Find(&q, &s, sk, li)
			_, _ = e.mk.Update(&q, &u, &s, sk, li, afs)
			_, _ = e.mk.Replace(&q, cloneD(d), &s)
			_, _ = e.mk.Upsert(&q, nil, &u, afs)
			_, err := e.mk.Delete(&q, &s, sk, li)
			return err
		}}
	}
}

func init() {
	run.Register(&run.Stream{
		Name: "robust",
		Rule: "monitor only: nontrivial = the call was rejected with an error or (driver level) followed a successful write; violation = panic | hang | failed probe write",
		Gen: func(r *gen.R, idx int) []run.Case {
			if idx%2 == 0 {
				// bsonkit / mongokit level: a handful of independent calls
				var cases []run.Case
				for i := 0; i < 8; i++ {
					call := robustKitCall(r)
					class, detail := robustGuard(call.f)
					c := run.Case{Impl: class + " " + fingerprint(call.name+call.desc), Nontrivial: class == "error", Tags: []string{"kit:" + call.name + ":" + class}}
					if class == "panic" || class == "hang" {
						c.Tags = append(c.Tags, "VIOLATION:"+class+":"+call.name+":"+panicClass(detail))
						c.Viols = []run.Violation{{Property: "C20", What: call.name + " " + class, Witness: class + ":" + call.name + ":" + panicClass(detail),
							Req: call.name + " " + call.desc, Detail: detail}}
					}
					cases = append(cases, c)
				}
				return cases
			}
			// driver level: a short history on one engine, a probe write after every call
			env, err := newRobustEnv()
			if err != nil {
				return []run.Case{{Impl: "open-failed", Viols: []run.Violation{{Property: "C20", What: "cannot open a memory engine", Witness: "open-failed", Detail: err.Error()}}}}
			}
			defer env.engine.Close()
			var cases []run.Case
			var hist []string
			for i := 0; i < 12; i++ {
				call := robustDriverCall(r, env)
				hist = append(hist, call.name+" "+call.desc)
				class, detail := robustGuard(call.f)
				c := run.Case{Impl: class + " " + fingerprint(call.name+call.desc), Nontrivial: class == "error" || i > 0, Tags: []string{"drv:" + call.name + ":" + class}}
				req := strings.Join(hist, " ;; ")
				if class == "panic" || class == "hang" {
					c.Tags = append(c.Tags, "VIOLATION:"+class+":"+call.name+":"+panicClass(detail))
					if os.Getenv("ROBUST_DEBUG") != "" && panicClass(detail) != "alloc" {
						fmt.Fprintf(os.Stderr, "ROBUST %s %s: %s\n  %s\n", class, call.name, detail, req)
					}
					c.Viols = append(c.Viols, run.Violation{Property: "C20", What: call.name + " " + class, Witness: class + ":" + call.name + ":" + panicClass(detail),
						Req: req, Detail: detail})
				}
				if p := env.probe(); p != "" {
					c.Viols = append(c.Viols, run.Violation{Property: "C20", What: "probe write after " + call.name + " failed", Witness: "wedged-after:" + call.name,
						Req: req, Detail: p})
					cases = append(cases, c)
					break // the engine is unusable; a fresh one is opened for the next case
				}
				cases = append(cases, c)
				if class == "hang" {
					break
				}
			}
			return cases
		},
		Corpus: func() []run.Case { return nil },
		Replay: func(req string) string { return "" },
	})
}
