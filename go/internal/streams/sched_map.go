package streams

// sched_map.go — THE table that relates the hook points of /repo (build tag verif) to the steps
// of the Lean transition system Lungo.Model.Conc.  Everything that depends on the model's step
// names lives here; the translator (sched_trans.go) is generic.
//
// A hook event says "actor a has reached this point", i.e. the model actor must be at one of the
// program counters in Target (reached by the unique `go` continuation, with the outcome choices
// listed below at the nondeterministic pcs).  Acq marks hooks that sit immediately after a
// blocking acquisition: the model step that takes the lock/token is placed exactly at the
// position of the event in the global trace (this is what makes the acquisition order of the code
// observable); all other steps of an actor are placed as early as the model allows after the
// actor was released (unlock is a left mover, internal steps commute).
//
// Known, tolerated difference (tag `begin-order`): /repo's Engine.Begin now reads the session
// (sess.Transaction(), under s.mutex) BEFORE taking e.mutex; a model that still has the old order
// (bCheck → bSessLock → bSessRead while holding e.mutex) disagrees only when one session is shared
// by two actors.  Nothing in this table depends on the order: both are walked by `go` steps.  The
// translator recognises the old order by its signature (a model actor at bSessLock/bSessRead that
// HOLDS e.mutex when a divergence is found in a shared-session scenario) and then tags the case
// `begin-order` instead of reporting it; with the merged model (session read before e.mutex) the
// signature cannot occur, so nothing is tolerated.
//
// Pass-through points.  begin.return, commit.return, abort.return and close.killed lie between an
// effect other goroutines can observe (token released, e.txn assigned, tomb killed) and the unlock
// that ends the critical section; the model takes effect+unlock as ONE step.  The controller
// therefore never parks an actor there (it records the event and lets the actor run on), and the
// step is placed at the first of sem.release / *.return (for Close: when the actor leaves
// close.locked).  Parking there would let a second actor take the token while the model still
// counts it as held.

// pointRule describes one hook point.
type pointRule struct {
	Target  []string // model pcs at which the actor is when the hook fires (nil: point not modelled)
	Acq     bool     // hook directly follows a blocking acquisition
	Implied string   // model call issued implicitly when the actor is idle in the model (sub-calls of composite API calls)
}

var hookMap = map[string]pointRule{
	"op.start": {Target: nil},
	// Engine.Begin
	"begin.locked":   {Target: []string{"bCheck"}, Acq: true},
	"begin.unlock":   {Target: []string{"bCheck"}},
	"sem.acquired":   {Target: []string{"bRelock"}, Acq: true}, // outcome choice at bAcquire from the event argument
	"begin.acquired": {Target: []string{"bRelock"}, Acq: true},
	"begin.relocked": {Target: []string{"bPost"}, Acq: true},
	// the *.return points are pass-through (never parked): they lie between effects that other
	// goroutines can see (token released, e.txn set) and the unlock ending the critical section, which
	// the model takes as ONE step; that step is placed at the first of sem.release / *.return
	"begin.return": {Target: []string{"after"}},
	"sem.release":  {Target: []string{"after"}},
	// Engine.Commit (store .. publish .. broadcast .. release .. unlock is ONE model step, taken when the
	// actor leaves commit.return)
	"commit.locked": {Target: []string{"cCheck"}, Acq: true},
	"commit.store":  {Target: []string{"cStore"}},
	// pseudo points inside the (wrapped) store write: no model step — the actor stays at cStore, and
	// every other writer observed while it is parked there must be blocked (probe: step disabled)
	"store.enter":      {Target: []string{"cStore"}},
	"store.exit":       {Target: []string{"cStore"}},
	"commit.stored":    {Target: []string{"cStore"}},
	"commit.published": {Target: []string{"cStore"}},
	"commit.return":    {Target: []string{"after"}},
	// Engine.Abort
	"abort.locked": {Target: []string{"aBody"}, Acq: true},
	"abort.return": {Target: []string{"after"}},
	// Engine.Watch (a short e.mutex critical section of kind watch)
	"watch.locked": {Target: []string{"kBody"}, Acq: true, Implied: "crit:watch"},
	"watch.return": {Target: []string{"kBody"}},
	// Engine.Close
	"close.locked": {Target: []string{"clKill"}, Acq: true},
	"close.killed": {Target: []string{"clStreams"}}, // pass-through; tomb.Kill + Unlock is one model step, placed when the actor leaves close.locked
	"close.wait":   {Target: []string{"clWait"}},
	"close.return": {Target: []string{"idle"}},
	// Session
	"sstart.reserved": {Target: []string{"bLock", "bSessLock"}},
	"sstart.begun":    {Target: []string{"ssRelock"}},
	"scommit.locked":  {Target: []string{"scBody"}, Acq: true, Implied: "sessCommit"},
	"scommit.return":  {Target: []string{"after", "scBody"}},
	"sabort.locked":   {Target: []string{"saBody"}, Acq: true, Implied: "sessAbort"},
	"sabort.return":   {Target: []string{"after", "saBody"}},
	"send.locked":     {Target: []string{"saBody"}, Acq: true, Implied: "sessEnd"},
	"send.return":     {Target: []string{"after", "saBody"}},
	// Stream (s.mutex and the signal channel belong to Lungo.Model.StreamTS; in Conc a consumer only
	// appears through its short e.mutex sections: stream.oplog() = crit read)
	"next.locked":   {Target: nil},
	"next.oplog":    {Target: []string{"idle"}, Implied: "crit:read"},
	"next.wait":     {Target: nil},
	"next.woke":     {Target: nil},
	"sclose.locked": {Target: nil},
	"sclose.return": {Target: nil},
}

// hookedAcq are the pcs whose outgoing step is a blocking acquisition that a hook observes; such a
// step is only taken at the position of that hook's event (never eagerly).
var hookedAcq = map[string]bool{
	"bLock": true, "bAcquire": true, "bRelock": true, "cLock": true, "aLock": true, "clLock": true,
	"scLock": true, "saLock": true,
	// kLock is hooked for Watch only; for read/cancel sections it is silent (see translator)
}

// choicePcs are the pcs with an outcome choice other than "go".
//
//	bAcquire: tok | cancel | dying | timeout   (event argument ok, cancel records, alive flag)
//	cStore:   storeOk | storeFail | storePanic (fault injected with the release from commit.store)
//	uCb:      cbWrite | cbNoop | cbErr | cbPanic (own transaction: from the hooks that follow:
//	          commit.locked+commit.store = write, commit.locked only = noop, abort.locked = err/panic)
//	uCbSess, uCbRead: from the result of the call
var choicePcs = map[string]bool{"bAcquire": true, "cStore": true, "uCb": true, "uCbSess": true, "uCbRead": true}

// modelRes maps the model's result names to the error classes of sched.Classify.
func modelRes(r string) string {
	switch r {
	case "ok", "none", "panic":
		return r
	}
	if len(r) > 4 && r[:4] == "err:" {
		return r[4:]
	}
	return r
}

// implRes normalises an implementation class for the comparison with the model.
func implRes(c string) string {
	return c
}

// resComparable: a duplicate-key InsertOne reports its write error through the result of the
// callback (the transaction is committed, clean) and the API turns it into an error afterwards —
// outside useTransaction, so outside the model.
// Likewise "no documents" of a find-and-modify: the callback succeeds (nothing matched, clean
// commit) and the SingleResult reports mongo.ErrNoDocuments afterwards.
func resComparable(c string) bool { return c != "dup" && c != "skipped" && c != "nodoc" }
