package streams

// Stream "crash" (C05): committed data survives crashes — the store file is always old or new.
//
// Per generated history of 1..3 commits on a lungo.FileStore in a fresh temp dir:
//   (i)   conformance: `strace` of a real writer process (cmd/crashwriter) doing the commit; the observed
//         system-call sequence on path / path.tmp / directory must equal the model's call order (op fs.steps);
//   (ii)  kill points: the writer is re-run on a copy of the pre-state and SIGKILLed at the entry of every
//         traced system call (strace -e inject=<syscall>:signal=SIGKILL:when=<n>); the file is then loaded
//         in-process with FileStore.Load; monitor: dump ∈ {dump before, dump being committed}; afterwards
//         the commit is re-run in-process on the killed state (stale temp file!) and must succeed;
//   (iii) power loss: the model (op fs.images) enumerates representative post-crash images after every
//         number k of system calls; each image is materialised (path, path.tmp) and loaded; same monitor;
//   (iv)  Store faults: a wrapping lungo.Store fails (error before write / error after write / panic) on a
//         chosen call; the failing commit reports it, Engine.Catalog() is unchanged, a following insert
//         succeeds, is visible and persisted.
//
//
// Corpus (runs first, every time):
//   (v)   counterexample search on the CURRENT protocol: the step list regenerated from /repo/dbkit/atomic.go by
//         cmd/extract (Gen/AtomicWrite.json) is sent to the model op fs.search with several content shapes
//         (old absent / small / large; new smaller, larger, empty, multi-chunk; with and without a stale temp).
//         The op runs the model interpreter on THAT list over every cut k × no fault / single fault × process
//         kill and every power-loss image; a counterexample (a concrete crash scenario on which the file is
//         neither old nor new, an acknowledged commit is lost, a failed run changed the file, or a re-run
//         fails) is a violation with witness model-ce:<kind>. The same shapes are sent with the EXPECTED list
//         as a model comparison (must be safe).
//
// If strace (ptrace) is not permitted, the case is tagged strace_unavailable and (i),(ii) are skipped.

import (
	"bytes"
	"context"
	"crypto/sha1"
	"encoding/hex"
	"encoding/json"
	"errors"
	"fmt"
	"os"
	"os/exec"
	"path/filepath"
	"sort"
	"strconv"
	"strings"
	"sync"
	"syscall"
	"time"

	"go.mongodb.org/mongo-driver/bson"

	"github.com/256dpi/lungo"

	"verifharness/internal/gen"
	"verifharness/internal/model"
	"verifharness/internal/run"
	"verifharness/internal/vj"
)

const crashDB = "db"

// ---------- canonical dump ----------

// crashDumpCatalog renders all namespaces (documents via vj.Enc, index names); oplog events are rendered
// without their clock-dependent fields (_id.ts, clusterTime, wallTime), which differ between processes.
func crashDumpCatalog(c *lungo.Catalog) (out string) {
	defer func() {
		if p := recover(); p != nil {
			out = "dump-panic:" + fmt.Sprint(p)
		}
	}()
	type ns struct {
		name string
		h    lungo.Handle
	}
	var list []ns
	for h := range c.Namespaces {
		list = append(list, ns{h.String(), h})
	}
	sort.Slice(list, func(i, j int) bool { return list[i].name < list[j].name })
	var sb strings.Builder
	for _, n := range list {
		coll := c.Namespaces[n.h]
		sb.WriteString(n.name + "{")
		for _, d := range coll.Documents.List {
			if n.h == lungo.Oplog {
				var e bson.D
				for _, f := range *d {
					if f.Key == "_id" || f.Key == "clusterTime" || f.Key == "wallTime" {
						continue
					}
					e = append(e, f)
				}
				// the event is stored from a bson.M: key order is not fixed
				sort.Slice(e, func(i, j int) bool { return e[i].Key < e[j].Key })
				sb.WriteString(vj.Enc(e))
			} else {
				sb.WriteString(vj.Enc(*d))
			}
			sb.WriteByte(';')
		}
		var idx []string
		for name := range coll.Indexes {
			idx = append(idx, name)
		}
		sort.Strings(idx)
		sb.WriteString("|" + strings.Join(idx, ",") + "}")
	}
	return sb.String()
}

// loadDump loads the store file with the real FileStore.Load and dumps it; class is "ok" or an error class.
func loadDump(path string) (dump string, class string) {
	defer func() {
		if p := recover(); p != nil {
			class = "panic"
		}
	}()
	cat, err := lungo.NewFileStore(path, 0).Load()
	if err != nil {
		return "", "load-error"
	}
	return crashDumpCatalog(cat), "ok"
}

// ---------- helpers ----------

func crashwriterPath() string {
	if p := os.Getenv("LUNGO_CRASHWRITER"); p != "" {
		return p
	}
	exe, err := os.Executable()
	if err != nil {
		return ""
	}
	return filepath.Join(filepath.Dir(exe), "crashwriter")
}

func writeState(dir string, file []byte, stale []byte) (string, error) {
	if err := os.MkdirAll(dir, 0777); err != nil {
		return "", err
	}
	p := filepath.Join(dir, "db.bson")
	_ = os.Remove(p)
	_ = os.Remove(p + ".tmp")
	if file != nil {
		if err := os.WriteFile(p, file, 0666); err != nil {
			return "", err
		}
	}
	if stale != nil {
		if err := os.WriteFile(p+".tmp", stale, 0666); err != nil {
			return "", err
		}
	}
	return p, nil
}

// insertInProcess opens the file store at path and inserts doc through the real API.
func insertInProcess(path, coll string, doc bson.D) (class string) {
	defer func() {
		if p := recover(); p != nil {
			class = "panic"
		}
	}()
	client, engine, err := lungo.Open(context.Background(), lungo.Options{Store: lungo.NewFileStore(path, 0666)})
	if err != nil {
		return "open-error"
	}
	defer engine.Close()
	ctx, cancel := context.WithTimeout(context.Background(), 10*time.Second)
	defer cancel()
	if _, err := client.Database(crashDB).Collection(coll).InsertOne(ctx, doc); err != nil {
		return "insert-error"
	}
	return "ok"
}

// ---------- strace ----------

const straceSet = "trace=openat,unlinkat,unlink,write,fsync,close,rename,renameat,renameat2"

type sysLine struct {
	name string
	args string
	ret  string
}

// parseTrace returns the traced system calls of the thread that issued the first one (the writer's locked main thread).
func parseTrace(text string) []sysLine {
	var out []sysLine
	pending := map[string]string{}
	mainPid := ""
	for _, ln := range strings.Split(text, "\n") {
		sp := strings.IndexByte(ln, ' ')
		if sp <= 0 {
			continue
		}
		pid, rest := ln[:sp], strings.TrimSpace(ln[sp+1:])
		if strings.HasPrefix(rest, "---") || strings.HasPrefix(rest, "+++") {
			continue
		}
		if strings.HasSuffix(rest, "<unfinished ...>") {
			pending[pid] = strings.TrimSuffix(rest, "<unfinished ...>")
			continue
		}
		if strings.HasPrefix(rest, "<...") {
			i := strings.Index(rest, "resumed>")
			if i < 0 {
				continue
			}
			rest = pending[pid] + rest[i+len("resumed>"):]
			delete(pending, pid)
		}
		op := strings.IndexByte(rest, '(')
		eqs := strings.LastIndex(rest, " = ")
		if op <= 0 || eqs < op {
			continue
		}
		eq := strings.LastIndexByte(rest[:eqs], ')')
		if eq < op {
			continue
		}
		if mainPid == "" {
			mainPid = pid
		}
		if pid != mainPid {
			continue
		}
		out = append(out, sysLine{name: rest[:op], args: rest[op+1 : eq], ret: strings.Fields(rest[eqs+3:])[0]})
	}
	return out
}

// classifyTrace names every traced system call with the model's call name ("?…" = unexpected call, "" = not part
// of the commit: the engine's initial Load of the store file, the rmdir retry of os.Remove).
func classifyTrace(lines []sysLine, path string) []string {
	tmp := path + ".tmp"
	dir := filepath.Dir(path)
	q := func(s string) string { return `"` + s + `"` }
	out := make([]string, len(lines))
	tmpFd, dirFd, loadFd := "", "", ""
	prevUnlinkFailed := false
	for i, l := range lines {
		first := strings.TrimSpace(strings.SplitN(l.args, ",", 2)[0])
		unlinkFailed := false
		switch l.name {
		case "unlinkat", "unlink":
			if strings.Contains(l.args, q(tmp)) {
				// os.Remove = unlink, and rmdir (AT_REMOVEDIR) if that failed: one model call
				if strings.Contains(l.args, "AT_REMOVEDIR") && prevUnlinkFailed {
					break
				}
				out[i] = "removeTmp"
				unlinkFailed = l.ret == "-1"
			} else {
				out[i] = "?unlink"
			}
		case "openat":
			switch {
			case strings.Contains(l.args, q(tmp)):
				if strings.Contains(l.args, "O_WRONLY") && strings.Contains(l.args, "O_CREAT") && strings.Contains(l.args, "O_EXCL") && !strings.Contains(l.args, "O_TRUNC") {
					out[i] = "createExclTmp"
				} else {
					out[i] = "?createTmp"
				}
				tmpFd = l.ret
			case strings.Contains(l.args, q(path)):
				loadFd = l.ret // FileStore.Load of the engine start: not part of the commit
			case strings.Contains(l.args, q(dir)):
				out[i] = "openDir"
				dirFd = l.ret
			default:
				out[i] = "?openat"
			}
		case "write":
			if first == tmpFd && tmpFd != "" {
				out[i] = "writeTmp"
			} else {
				out[i] = "?write"
			}
		case "fsync":
			if first == tmpFd && tmpFd != "" {
				out[i] = "fsyncTmp"
			} else if first == dirFd && dirFd != "" {
				out[i] = "fsyncDir"
			} else {
				out[i] = "?fsync"
			}
		case "close":
			if first == loadFd && loadFd != "" {
				loadFd = ""
			} else if first == tmpFd && tmpFd != "" {
				out[i] = "closeTmp"
				tmpFd = ""
			} else if first == dirFd && dirFd != "" {
				out[i] = "closeDir"
				dirFd = ""
			} else {
				out[i] = "?close"
			}
		case "rename", "renameat", "renameat2":
			if strings.Contains(l.args, q(tmp)) && strings.Contains(l.args, q(path)) && strings.Index(l.args, q(tmp)) < strings.LastIndex(l.args, q(path)) {
				out[i] = "renameTmpToPath"
			} else {
				out[i] = "?rename"
			}
		}
		prevUnlinkFailed = unlinkFailed
	}
	return out
}

// mapTrace maps the observed system calls onto the model's call names (conformance); "?…" marks an unexpected call;
// consecutive writes of the temp file are one model call.
func mapTrace(lines []sysLine, path string) []string {
	var out []string
	for _, c := range classifyTrace(lines, path) {
		if c == "" || (c == "writeTmp" && len(out) > 0 && out[len(out)-1] == c) {
			continue
		}
		out = append(out, c)
	}
	return out
}

// expectedSyscalls: the model's call order minus the calls that are no system call in Go
// (a Close of the already closed temp file returns os.ErrClosed without a system call).
func expectedSyscalls(calls []string) []string {
	var out []string
	closed := false
	for _, c := range calls {
		if c == "closeTmp" {
			if closed {
				continue
			}
			closed = true
		}
		out = append(out, c)
	}
	return out
}

func runStrace(dir, path, coll string, docHex string, inject string) (trace string, stdout string, killed bool, err error) {
	return runStraceEnv(dir, path, coll, docHex, inject, nil)
}

// runStraceEnv: runStrace with extra environment for the writer (CRASHWRITER_PAD, CRASHWRITER_RLIMIT_FSIZE).
func runStraceEnv(dir, path, coll string, docHex string, inject string, env []string) (trace string, stdout string, killed bool, err error) {
	tf := filepath.Join(dir, "trace.txt")
	args := []string{"-f", "-e", straceSet}
	if inject != "" {
		args = append(args, "-e", "inject="+inject)
	}
	args = append(args, "-P", path, "-P", path+".tmp", "-P", filepath.Dir(path), "-o", tf, crashwriterPath(), path, crashDB, coll, docHex)
	ctx, cancel := context.WithTimeout(context.Background(), 30*time.Second)
	defer cancel()
	cmd := exec.CommandContext(ctx, "strace", args...)
	// fewer runtime threads in the writer = fewer ptrace stops (the commit itself runs on the locked main thread)
	cmd.Env = append(append(os.Environ(), "GOMAXPROCS=1", "GOGC=off"), env...)
	var so, se bytes.Buffer
	cmd.Stdout = &so
	cmd.Stderr = &se
	rerr := cmd.Run()
	tb, _ := os.ReadFile(tf)
	trace = string(tb)
	stdout = so.String()
	killed = strings.Contains(trace, "killed by SIGKILL")
	if rerr != nil && !killed {
		var ee *exec.ExitError
		if errors.As(rerr, &ee) {
			if ws, ok := ee.Sys().(syscall.WaitStatus); ok && ws.Signaled() && ws.Signal() == syscall.SIGKILL {
				killed = true
			}
		}
		if !killed {
			return trace, stdout, false, fmt.Errorf("strace: %v: %s", rerr, strings.TrimSpace(se.String()))
		}
	}
	return trace, stdout, killed, nil
}

var (
	straceOnce sync.Once
	straceOK   bool
)

// straceAvailable checks once that strace can trace and inject in this sandbox.
func straceAvailable() bool {
	straceOnce.Do(func() {
		if _, err := exec.LookPath("strace"); err != nil {
			return
		}
		if _, err := os.Stat(crashwriterPath()); err != nil {
			return
		}
		out, err := exec.Command("strace", "-f", "-e", "trace=close", "-e", "inject=close:signal=SIGKILL:when=1", "-o", "/dev/null", "/bin/true").CombinedOutput()
		// the tracee must have been killed by the injected signal
		if err == nil {
			return
		}
		if strings.Contains(string(out), "PTRACE") || strings.Contains(string(out), "Operation not permitted") {
			return
		}
		straceOK = true
	})
	return straceOK
}

// ---------- model side ----------

var (
	crashModelMu sync.Mutex
	crashModel   *model.Proc
)

func askModel(req string) (string, error) {
	crashModelMu.Lock()
	defer crashModelMu.Unlock()
	if crashModel == nil {
		p, err := model.Start()
		if err != nil {
			return "", err
		}
		crashModel = p
	}
	return crashModel.Ask(req)
}

type fsImage struct {
	Path *string `json:"path"`
	Tmp  *string `json:"tmp"`
}

type fsImagesReply struct {
	Ok *struct {
		Images   []fsImage `json:"images"`
		Finished bool      `json:"finished"`
		Err      bool      `json:"err"`
		Pending  int       `json:"pending"`
	} `json:"ok"`
}

func hexOrNull(b []byte) string {
	if b == nil {
		return "null"
	}
	return `"` + hex.EncodeToString(b) + `"`
}

// ---------- failing store ----------

type faultStore struct {
	inner  lungo.Store
	failOn int // 1-based Store call that fails
	mode   int // 0 error before write, 1 error after write, 2 panic before write
	calls  int
}

func (s *faultStore) Load() (*lungo.Catalog, error) { return s.inner.Load() }

func (s *faultStore) Store(c *lungo.Catalog) error {
	s.calls++
	if s.calls == s.failOn {
		switch s.mode {
		case 0:
			return errors.New("injected store failure")
		case 1:
			_ = s.inner.Store(c)
			return errors.New("injected store failure after write")
		default:
			panic("injected store panic")
		}
	}
	return s.inner.Store(c)
}

func safeInsert(ctx context.Context, c lungo.ICollection, doc bson.D) (class string) {
	defer func() {
		if p := recover(); p != nil {
			class = "panic"
		}
	}()
	if _, err := c.InsertOne(ctx, doc); err != nil {
		return "error"
	}
	return "ok"
}

// ---------- the stream ----------

// sessionInsert inserts inside an explicit session transaction (WithTransaction commits at the end).
func sessionInsert(ctx context.Context, client lungo.IClient, c lungo.ICollection, doc bson.D) (class string) {
	defer func() {
		if p := recover(); p != nil {
			class = "panic"
		}
	}()
	sess, err := client.StartSession()
	if err != nil {
		return "error"
	}
	defer sess.EndSession(ctx)
	_, err = sess.WithTransaction(ctx, func(sc lungo.ISessionContext) (interface{}, error) {
		return c.InsertOne(sc, doc)
	})
	if err != nil {
		return "error"
	}
	return "ok"
}

func crashDoc(r *gen.R, i int) bson.D {
	d := bson.D{{Key: "_id", Value: int32(i)}}
	for _, e := range r.Doc(1, false, false) {
		d = append(d, e)
	}
	if _, err := bson.Marshal(d); err != nil {
		return bson.D{{Key: "_id", Value: int32(i)}, {Key: "a", Value: int32(r.N(100))}}
	}
	return d
}

func crashCase(r *gen.R, idx int) []run.Case {
	var cases []run.Case
	root, err := os.MkdirTemp("/tmp", "lungo-c05-")
	if err != nil {
		return []run.Case{{Impl: `{"skip":"mkdtemp"}`, Tags: []string{"setup_failed"}}}
	}
	defer os.RemoveAll(root)

	n := 1 + r.N(3)
	docs := make([]bson.D, n)
	colls := make([]string, n)
	for i := range docs {
		docs[i] = crashDoc(r, i)
		colls[i] = "c" + strconv.Itoa(r.N(2))
	}
	hid := sha1.Sum([]byte(fmt.Sprint(docs, colls)))
	caseID := hex.EncodeToString(hid[:4])

	// history through the real API: states[i] = file bytes before commit i (nil = no file)
	hpath := filepath.Join(root, "h", "db.bson")
	_ = os.MkdirAll(filepath.Dir(hpath), 0777)
	states := make([][]byte, n+1)
	dumps := make([]string, n+1)
	dumps[0], _ = loadDump(hpath)
	for i := 0; i < n; i++ {
		if cl := insertInProcess(hpath, colls[i], docs[i]); cl != "ok" {
			return []run.Case{{Impl: `{"skip":"history ` + cl + `"}`, Tags: []string{"setup_failed"}}}
		}
		b, err := os.ReadFile(hpath)
		if err != nil {
			return []run.Case{{Impl: `{"skip":"history read"}`, Tags: []string{"setup_failed"}}}
		}
		states[i+1] = b
		d, cl := loadDump(hpath)
		if cl != "ok" {
			return []run.Case{{Impl: `{"skip":"history load"}`, Tags: []string{"setup_failed"}}}
		}
		dumps[i+1] = d
	}

	useStrace := straceAvailable()

	for c := 0; c < n; c++ {
		docRaw, _ := bson.Marshal(docs[c])
		docHex := hex.EncodeToString(docRaw)
		var stale []byte
		staleTag := "stale_tmp:no"
		if r.P(50) {
			stale = []byte{0xAA, 0xBB, 0xCC}
			staleTag = "stale_tmp:yes"
			if r.P(60) {
				// the remains of a LARGER interrupted commit: longer than any file written below
				stale = make([]byte, 1<<16)
				for i := range stale {
					stale[i] = byte(0xA0 + i%7)
				}
				staleTag = "stale_tmp:long"
			}
		}
		reqBase := fmt.Sprintf(`{"case":%q,"commit":%d,"stale":%v}`, caseID, c, stale != nil)
		viol := func(what, witness, detail string) run.Violation {
			return run.Violation{Property: "C05", What: what, Witness: witness, Req: reqBase, Detail: detail}
		}
		// monitor: a loaded dump must be the one before or the one being committed
		check := func(path string, onlyNew bool, witness string) (string, []run.Violation) {
			d, cl := loadDump(path)
			switch {
			case cl != "ok":
				return cl, []run.Violation{viol("store file does not load after crash", witness, cl)}
			case d == dumps[c+1]:
				return "new", nil
			case d == dumps[c] && !onlyNew:
				return "old", nil
			case d == dumps[c]:
				return "old", []run.Violation{viol("commit reported success but the old state was loaded", witness, "")}
			}
			return "third", []run.Violation{viol("loaded state is neither the old nor the new one", witness, "")}
		}

		// (i)+(ii) real process, strace
		if !useStrace {
			cases = append(cases, run.Case{Impl: `{"strace":"unavailable"}`, Tags: []string{"strace_unavailable"}})
		} else {
			refDir := filepath.Join(root, fmt.Sprintf("ref%d", c))
			refPath, _ := writeState(refDir, states[c], stale)
			trace, stdout, _, err := runStrace(refDir, refPath, colls[c], docHex, "")
			lines := parseTrace(trace)
			if err != nil || len(lines) == 0 {
				cases = append(cases, run.Case{Impl: `{"strace":"failed"}`, Tags: []string{"strace_unavailable"}})
			} else {
				observed := mapTrace(lines, refPath)
				res, vs := check(refPath, strings.Contains(stdout, "committed"), "kill:none")
				// conformance against the model's call order
				obs := observed
				cases = append(cases, run.Case{
					Req:        `{"op":"fs.steps"}`,
					Impl:       `{"observed":["` + strings.Join(obs, `","`) + `"],"after":"` + res + `"}`,
					Nontrivial: true,
					Tags:       []string{"conformance", staleTag, fmt.Sprintf("syscalls:%d", len(lines))},
					Viols:      vs,
					Accept: func(reply string) bool {
						var m struct {
							Ok struct {
								Calls []string `json:"calls"`
							} `json:"ok"`
						}
						if json.Unmarshal([]byte(reply), &m) != nil {
							return false
						}
						return strings.Join(expectedSyscalls(m.Ok.Calls), ",") == strings.Join(obs, ",")
					},
				})
				// kill before each traced system call
				count := map[string]int{}
				for i, l := range lines {
					count[l.name]++
					kdir := filepath.Join(root, fmt.Sprintf("k%d_%d", c, i))
					kpath, _ := writeState(kdir, states[c], stale)
					_, kout, killed, kerr := runStrace(kdir, kpath, colls[c], docHex, fmt.Sprintf("%s:signal=SIGKILL:when=%d", l.name, count[l.name]))
					witness := fmt.Sprintf("kill:%s#%d", l.name, count[l.name])
					tags := []string{"kill_point", "kill_at:" + l.name}
					if kerr != nil {
						cases = append(cases, run.Case{Impl: `{"kill":"strace-failed"}`, Tags: append(tags, "strace_failed")})
						_ = os.RemoveAll(kdir)
						continue
					}
					if !killed {
						tags = append(tags, "kill_missed")
					}
					res, vs := check(kpath, strings.Contains(kout, "committed"), witness)
					// recovery: the commit is repeated in-process on the killed state (a stale temp may be present)
					_, tmpErr := os.Stat(kpath + ".tmp")
					if tmpErr == nil {
						tags = append(tags, "killed_with_temp_file")
					}
					rerun := "skipped"
					if res == "old" {
						rerun = insertInProcess(kpath, colls[c], docs[c])
						if rerun != "ok" {
							vs = append(vs, viol("commit after a killed commit fails", "rerun:"+witness, rerun))
						} else if d, cl := loadDump(kpath); cl != "ok" || d != dumps[c+1] {
							vs = append(vs, viol("commit after a killed commit does not persist the new state", "rerun:"+witness, cl))
						}
					}
					tags = append(tags, "after_kill:"+res)
					cases = append(cases, run.Case{
						Impl:       fmt.Sprintf(`{"case":%q,"commit":%d,"kill":%q,"killed":%v,"loaded":%q,"rerun":%q}`, caseID, c, witness, killed, res, rerun),
						Nontrivial: killed && i >= 2, // killed inside the commit (after the engine's initial Load)
						Tags:       tags,
						Viols:      vs,
					})
					_ = os.RemoveAll(kdir)
				}
				// (vi) two random error injections on this commit (any traced call of the commit, any error of its class)
				if cands := injCandidates(lines, refPath); len(cands) > 0 {
					st, _ := os.Stat(refPath)
					cfg := &injConfig{name: caseID + "/" + strconv.Itoa(c), pre: states[c], stale: stale, coll: colls[c], doc: docs[c], full: docs[c],
						dumpOld: dumps[c], dumpNew: dumps[c+1], commitNo: "later"}
					if states[c] == nil {
						cfg.commitNo = "first"
					}
					if st != nil {
						cfg.newSize = int(st.Size())
					}
					cfg.sizeTag = sizeRegime(len(states[c+1]))
					for x := 0; x < 2; x++ {
						t := cands[r.N(len(cands))]
						cases = append(cases, injRun(cfg, filepath.Join(root, fmt.Sprintf("inj%d_%d", c, x)), t))
					}
				}
			}
			_ = os.RemoveAll(refDir)
		}

		// (iii) power-loss images from the model
		idir := filepath.Join(root, fmt.Sprintf("img%d", c))
		for k := 0; k <= 11; k++ {
			req := fmt.Sprintf(`{"op":"fs.images","old":%s,"new":%s,"k":%d,"stale":%v}`, hexOrNull(states[c]), hexOrNull(states[c+1]), k, stale != nil)
			reply, err := askModel(req)
			var parsed fsImagesReply
			if err != nil || json.Unmarshal([]byte(reply), &parsed) != nil || parsed.Ok == nil {
				cases = append(cases, run.Case{Impl: `{"images":"model-failed"}`, Tags: []string{"model_failed"},
					Viols: []run.Violation{viol("model op fs.images failed", "model:fs.images", reply)}})
				break
			}
			var vs []run.Violation
			seen := map[string]int{}
			onlyNew := parsed.Ok.Finished && !parsed.Ok.Err
			for _, im := range parsed.Ok.Images {
				var pb, tb []byte
				if im.Path != nil {
					pb, _ = hex.DecodeString(*im.Path)
					if pb == nil {
						pb = []byte{}
					}
				}
				if im.Tmp != nil {
					tb, _ = hex.DecodeString(*im.Tmp)
					if tb == nil {
						tb = []byte{}
					}
				}
				ipath, _ := writeState(idir, pb, tb)
				res, v := check(ipath, onlyNew, fmt.Sprintf("image:k%d", k))
				seen[res]++
				vs = append(vs, v...)
			}
			shortReq := fmt.Sprintf(`{"op":"fs.images","case":%q,"commit":%d,"k":%d,"stale":%v}`, caseID, c, k, stale != nil)
			cases = append(cases, run.Case{
				Impl:       fmt.Sprintf(`%s => {"images":%d,"old":%d,"new":%d,"finished":%v}`, shortReq, len(parsed.Ok.Images), seen["old"], seen["new"], parsed.Ok.Finished),
				Nontrivial: k >= 1 && !parsed.Ok.Finished,
				Tags:       []string{"power_loss_images", fmt.Sprintf("images_k:%d", k), staleTag},
				Viols:      vs,
			})
		}
		_ = os.RemoveAll(idir)
	}

	// (iv) Store faults
	{
		failOn := 1 + r.N(n)
		mode := r.N(3)
		fpath := filepath.Join(root, "f", "db.bson")
		_ = os.MkdirAll(filepath.Dir(fpath), 0777)
		fs := &faultStore{inner: lungo.NewFileStore(fpath, 0666), failOn: failOn, mode: mode}
		reqBase := fmt.Sprintf(`{"case":%q,"failOn":%d,"mode":%d}`, caseID, failOn, mode)
		var vs []run.Violation
		add := func(what, witness string) {
			vs = append(vs, run.Violation{Property: "C05", What: what, Witness: witness, Req: reqBase})
		}
		outcome := "ok"
		func() {
			defer func() {
				if p := recover(); p != nil {
					add("panic outside the injected one", "fault:panic")
				}
			}()
			client, engine, err := lungo.Open(context.Background(), lungo.Options{Store: fs})
			if err != nil {
				outcome = "open-error"
				return
			}
			defer engine.Close()
			for i := 0; i < n; i++ {
				ctx, cancel := context.WithTimeout(context.Background(), 5*time.Second)
				coll := client.Database(crashDB).Collection(colls[i])
				before := crashDumpCatalog(engine.Catalog())
				viaSession := i+1 == failOn && r.P(50)
				var cl string
				if viaSession {
					// the failing commit is the commit of an explicit session transaction
					cl = sessionInsert(ctx, client, coll, docs[i])
				} else {
					cl = safeInsert(ctx, coll, docs[i])
				}
				if i+1 == failOn {
					want := "error"
					if mode == 2 {
						want = "panic"
					}
					if cl != want {
						add("failing Store not reported by the commit", fmt.Sprintf("fault:mode%d:unreported", mode))
					}
					if crashDumpCatalog(engine.Catalog()) != before {
						add("visible catalog changed although Store failed", fmt.Sprintf("fault:mode%d:visible", mode))
					}
					// later commits work (promptly: the writer slot must have been released)
					lctx, lcancel := context.WithTimeout(context.Background(), 1500*time.Millisecond)
					cl = safeInsert(lctx, coll, docs[i])
					lcancel()
					if cl != "ok" {
						w := fmt.Sprintf("fault:mode%d:wedged", mode)
						if viaSession {
							w += ":session"
						}
						add("commit after a failed Store does not succeed", w)
					}
				} else if cl != "ok" {
					add("fault-free commit failed", "fault:spurious")
				}
				cancel()
				if cl == "ok" {
					vis := crashDumpCatalog(engine.Catalog())
					if vis == before {
						add("successful insert not visible", "fault:invisible")
					}
					if d, lc := loadDump(fpath); lc != "ok" || d != vis {
						add("visible catalog differs from the reloaded file after a successful commit", "fault:reload")
					}
				}
			}
		}()
		cases = append(cases, run.Case{
			Impl:       fmt.Sprintf(`%s => {"outcome":%q,"violations":%d}`, reqBase, outcome, len(vs)),
			Nontrivial: outcome == "ok",
			Tags:       []string{"store_fault", fmt.Sprintf("store_fault_mode:%d", mode)},
			Viols:      vs,
		})
	}
	return cases
}

// ---------- (v) counterexample search on the regenerated protocol ----------

// genDir is the directory the extractor wrote to: LUNGO_GEN_DIR, or lean/Lungo/Gen next to the model binary
// (<lean>/.lake/build/bin/lungo_model).
func genDir() string {
	if d := os.Getenv("LUNGO_GEN_DIR"); d != "" {
		return d
	}
	return filepath.Join(filepath.Dir(model.Path()), "..", "..", "..", "Lungo", "Gen")
}

type searchShape struct {
	Name   string
	Old    []byte // nil = no file
	Chunks [][]byte
	Stale  bool
}

func patternBytes(n, seed int) []byte {
	b := make([]byte, n)
	for i := range b {
		b[i] = byte((i*7 + seed*31 + i/251) % 256)
	}
	return b
}

// searchShapes: the shapes of Lean's AtomicSearch.shapes (model op fs.shapes; theorem search_expected_safe) plus larger ones.
func searchShapes() ([]searchShape, error) {
	reply, err := askModel(`{"op":"fs.shapes"}`)
	if err != nil {
		return nil, err
	}
	var m struct {
		Ok []struct {
			Old    *string  `json:"old"`
			Chunks []string `json:"chunks"`
			Stale  bool     `json:"stale"`
		} `json:"ok"`
	}
	if json.Unmarshal([]byte(reply), &m) != nil || len(m.Ok) == 0 {
		return nil, fmt.Errorf("fs.shapes: %s", reply)
	}
	var out []searchShape
	for i, sh := range m.Ok {
		s := searchShape{Name: fmt.Sprintf("lean%d", i), Stale: sh.Stale}
		if sh.Old != nil {
			s.Old, _ = hex.DecodeString(*sh.Old)
			if s.Old == nil {
				s.Old = []byte{}
			}
		}
		for _, c := range sh.Chunks {
			b, _ := hex.DecodeString(c)
			s.Chunks = append(s.Chunks, b)
		}
		out = append(out, s)
	}
	out = append(out,
		searchShape{Name: "absent_multichunk_stale", Old: nil, Chunks: [][]byte{{1, 2}, {3, 4, 5}}, Stale: true},
		searchShape{Name: "empty_new", Old: []byte{1, 2}, Chunks: nil, Stale: false},
		searchShape{Name: "large_to_smaller", Old: patternBytes(6000, 1), Chunks: [][]byte{patternBytes(2500, 2)}, Stale: true},
		searchShape{Name: "small_to_large_3chunks", Old: patternBytes(40, 3), Chunks: [][]byte{patternBytes(3000, 4), patternBytes(3000, 5), patternBytes(700, 6)}, Stale: false},
		searchShape{Name: "absent_to_large", Old: nil, Chunks: [][]byte{patternBytes(9000, 7)}, Stale: true},
	)
	return out, nil
}

func searchReq(steps string, tmp string, sh searchShape) string {
	chunks := make([]string, len(sh.Chunks))
	for i, c := range sh.Chunks {
		chunks[i] = `"` + hex.EncodeToString(c) + `"`
	}
	return fmt.Sprintf(`{"op":"fs.search","steps":%s,"tmp":%q,"old":%s,"chunks":[%s],"stale":%v}`, steps, tmp, hexOrNull(sh.Old), strings.Join(chunks, ","), sh.Stale)
}

type searchCE struct {
	Kind  string `json:"kind"`
	K     int    `json:"k"`
	Fault *struct {
		Call  int `json:"call"`
		Bytes int `json:"bytes"`
	} `json:"fault"`
	Image      string   `json:"image"`
	Mask       []bool   `json:"mask"`
	PendingOps []string `json:"pendingOps"`
	TmpBytes   *struct {
		Len     int  `json:"len"`
		Garbage bool `json:"garbage"`
	} `json:"tmpBytes"`
	TmpPending int      `json:"tmpPending"`
	Loads      *string  `json:"loads"`
	Finished   bool     `json:"finished"`
	Err        bool     `json:"err"`
	Trace      []string `json:"trace"`
}

type searchReply struct {
	Ok              string    `json:"ok"`
	Explored        int       `json:"explored"`
	CE              *searchCE `json:"ce"`
	Unrepresentable string    `json:"unrepresentable"`
	Bad             string    `json:"bad"`
}

func abbrevHex(h string) string {
	if len(h) > 48 {
		return fmt.Sprintf("%s…(%d bytes)", h[:48], len(h)/2)
	}
	return h
}

// describeCE renders the crash scenario of a counterexample in words.
func describeCE(ce *searchCE) string {
	var sb strings.Builder
	what := map[string]string{
		"notOldOrNew":   "the store file loads as neither the old nor the new content",
		"ackedLost":     "AtomicWriteFile had returned nil, yet the file does not load as the new content",
		"failedChanged": "AtomicWriteFile returned an error, yet the file no longer shows the old content",
		"rerunFails":    "a following fault-free AtomicWriteFile on this state fails or does not leave the new content",
	}[ce.Kind]
	sb.WriteString(what + ": ")
	if ce.Fault != nil {
		fmt.Fprintf(&sb, "system call #%d fails (a write after %d bytes); ", ce.Fault.Call, ce.Fault.Bytes)
	}
	state := "still running"
	if ce.Finished && ce.Err {
		state = "returned an error"
	} else if ce.Finished {
		state = "returned nil"
	}
	fmt.Fprintf(&sb, "after %d system calls [%s] (function %s) ", ce.K, strings.Join(ce.Trace, " "), state)
	if ce.Image == "kill" {
		sb.WriteString("the process dies (no data lost)")
	} else {
		var kept, lost []string
		for i, op := range ce.PendingOps {
			if i < len(ce.Mask) && ce.Mask[i] {
				kept = append(kept, op)
			} else {
				lost = append(lost, op)
			}
		}
		fmt.Fprintf(&sb, "power is lost: pending directory operations kept [%s], lost [%s]", strings.Join(kept, "; "), strings.Join(lost, "; "))
		if ce.TmpBytes != nil && ce.TmpPending > 0 {
			fmt.Fprintf(&sb, ", %d of the new file's %d un-synced bytes reach the disk", ce.TmpBytes.Len, ce.TmpPending)
			if ce.TmpBytes.Garbage {
				sb.WriteString(" as garbage")
			}
		}
	}
	if ce.Loads == nil {
		sb.WriteString("; the store file is then absent")
	} else if *ce.Loads == "" {
		sb.WriteString("; the store file is then empty")
	} else {
		sb.WriteString("; the store file then holds " + abbrevHex(*ce.Loads))
	}
	return sb.String()
}

// searchCorpus: fixed cases (v).
func searchCorpus() []run.Case {
	var cases []run.Case
	shapes, err := searchShapes()
	if err != nil {
		return []run.Case{{Impl: `{"search":"model-failed"}`, Tags: []string{"model_search:model_failed"}}}
	}
	// the expected protocol must be safe (model comparison: a counterexample here is a defect of the model/search)
	for _, sh := range shapes {
		cases = append(cases, run.Case{
			Req:        searchReq(`"expected"`, "path+.tmp", sh),
			Impl:       `{"ok":"safe"}`,
			Nontrivial: true,
			Tags:       []string{"model_search_expected", "search_shape:" + sh.Name},
			Accept: func(reply string) bool {
				var r searchReply
				return json.Unmarshal([]byte(reply), &r) == nil && r.Ok == "safe" && r.Explored > 0
			},
		})
	}
	// the regenerated protocol
	file := filepath.Join(genDir(), "AtomicWrite.json")
	raw, err := os.ReadFile(file)
	var gen struct {
		Tmp   string          `json:"tmp"`
		Steps json.RawMessage `json:"steps"`
	}
	if err != nil || json.Unmarshal(raw, &gen) != nil || len(gen.Steps) == 0 {
		// no regenerated list (the extractor did not run or failed: the check reports that itself)
		return append(cases, run.Case{Impl: `{"search":"no regenerated step list"}`, Tags: []string{"model_search:no_steps_file"}})
	}
	var compact bytes.Buffer
	if json.Compact(&compact, gen.Steps) != nil {
		return append(cases, run.Case{Impl: `{"search":"bad step list"}`, Tags: []string{"model_search:no_steps_file"}})
	}
	steps := compact.String()
	for _, sh := range shapes {
		req := searchReq(steps, gen.Tmp, sh)
		reply, err := askModel(req)
		var r searchReply
		if err != nil || json.Unmarshal([]byte(reply), &r) != nil {
			cases = append(cases, run.Case{Impl: `{"search":"model-failed"}`, Tags: []string{"model_search:model_failed"}})
			continue
		}
		short := fmt.Sprintf(`{"op":"fs.search","steps":"regenerated","tmp":%q,"shape":%q}`, gen.Tmp, sh.Name)
		switch {
		case r.CE != nil:
			ceJSON, _ := json.Marshal(r.CE)
			cases = append(cases, run.Case{
				Impl:       short + ` => {"ce":` + strconv.Quote(r.CE.Kind) + `}`,
				Nontrivial: true,
				Tags:       []string{"model_search:ce:" + r.CE.Kind, "search_shape:" + sh.Name},
				Viols: []run.Violation{{
					Property: "C05",
					What:     "crash scenario on the CURRENT AtomicWriteFile protocol (model search on the regenerated step list): " + describeCE(r.CE),
					Witness:  "model-ce:" + r.CE.Kind,
					Req:      req,
					Detail:   string(ceJSON),
				}},
			})
		case r.Ok == "safe":
			cases = append(cases, run.Case{
				Impl:       fmt.Sprintf(`%s => {"ok":"safe","explored":%d}`, short, r.Explored),
				Nontrivial: true,
				Tags:       []string{"model_search:safe", "search_shape:" + sh.Name},
			})
		case r.Unrepresentable != "":
			// a call outside the model's vocabulary: Gen/AtomicWrite.lean does not compile either (loud failure of the tie)
			cases = append(cases, run.Case{
				Impl: short + ` => {"unrepresentable":` + strconv.Quote(r.Unrepresentable) + `}`,
				Tags: []string{"model_search:unrepresentable:" + r.Unrepresentable},
			})
		default:
			cases = append(cases, run.Case{Impl: short + ` => ` + reply, Tags: []string{"model_search:model_failed"}})
		}
	}
	return cases
}

// ---------- (vi) real-kernel error injection per system call ----------
//
// The writer process is re-run with ONE system call of the commit failing on the real kernel path:
// `strace -e inject=<syscall>:error=<errno>:when=<n>` (the call is not executed and returns the error;
// `retval=0` makes a write report 0 bytes written — with any other retval the kernel would not have written what it
// claims, so genuine short writes come from RLIMIT_FSIZE instead: CRASHWRITER_RLIMIT_FSIZE, no ptrace needed).
// Monitors (C05):
//   swallowed-error:<syscall>  Commit reported success although a data-path call (write/fsync/close of the temp
//                              file, rename) failed or was short;
//   not-old-or-new             afterwards the store file does not load, or loads as a third state;
//   acked-but-old              Commit reported success and the old state is loaded;
//   failed-commit-damaged      Commit reported an error but the file shows the new state although the failing call
//                              came before the rename, or a following fault-free commit fails / is not persisted.
// Accepted corner (allowed by old-or-new): a failing open/fsync of the DIRECTORY after the rename returns an error
// although the new file is in place.

type injConfig struct {
	name     string
	pre      []byte // store file before the commit (nil = none: first commit)
	stale    []byte
	coll     string
	doc      bson.D // document on the writer's command line
	pad      int    // CRASHWRITER_PAD
	full     bson.D // the document the writer inserts (doc + pad)
	dumpOld  string
	dumpNew  string
	newSize  int
	sizeTag  string
	commitNo string // "first" | "later"
}

type injTarget struct {
	class       string // model call name of the traced line
	sys         string // system call name as traced
	when        int    // index among this thread's path-matched calls of that name
	spec        string // "error=ENOSPC" | "retval=0" | "fsize=<n>" (RLIMIT_FSIZE, no strace)
	afterRename bool
	occurrence  int // 1 = first call of that class
}

var injSpecs = map[string][]string{
	"removeTmp":       {"error=EACCES"},
	"createExclTmp":   {"error=ENOSPC"},
	"writeTmp":        {"error=ENOSPC", "error=EIO", "retval=0"},
	"fsyncTmp":        {"error=EIO"},
	"closeTmp":        {"error=EIO"},
	"renameTmpToPath": {"error=EIO", "error=EXDEV"},
	"openDir":         {"error=EMFILE"},
	"fsyncDir":        {"error=EIO"},
	"closeDir":        {"error=EIO"},
}

var injDataPath = map[string]bool{"writeTmp": true, "fsyncTmp": true, "closeTmp": true, "renameTmpToPath": true}

func sysWitnessName(sys string) string {
	switch {
	case strings.HasPrefix(sys, "rename"):
		return "rename"
	case strings.HasPrefix(sys, "unlink"):
		return "unlink"
	}
	return sys
}

// injCandidates lists every (traced call of the commit) × (error for its class).
func injCandidates(lines []sysLine, path string) []injTarget {
	classes := classifyTrace(lines, path)
	count := map[string]int{}
	occ := map[string]int{}
	renamed := false
	var out []injTarget
	for i, l := range lines {
		count[l.name]++
		c := classes[i]
		if c == "" || strings.HasPrefix(c, "?") {
			continue
		}
		occ[c]++
		for _, sp := range injSpecs[c] {
			out = append(out, injTarget{class: c, sys: l.name, when: count[l.name], spec: sp, afterRename: renamed, occurrence: occ[c]})
		}
		if c == "renameTmpToPath" {
			renamed = true
		}
	}
	return out
}

func (cfg *injConfig) env() []string {
	if cfg.pad > 0 {
		return []string{"CRASHWRITER_PAD=" + strconv.Itoa(cfg.pad)}
	}
	return nil
}

// runPlain runs the writer without strace (RLIMIT_FSIZE scenarios).
func runPlain(path, coll, docHex string, env []string) (stdout string, err error) {
	ctx, cancel := context.WithTimeout(context.Background(), 30*time.Second)
	defer cancel()
	cmd := exec.CommandContext(ctx, crashwriterPath(), path, crashDB, coll, docHex)
	cmd.Env = append(append(os.Environ(), "GOMAXPROCS=1", "GOGC=off"), env...)
	var so bytes.Buffer
	cmd.Stdout = &so
	rerr := cmd.Run()
	var ee *exec.ExitError
	if rerr != nil && !errors.As(rerr, &ee) {
		return so.String(), rerr
	}
	return so.String(), nil
}

// injRun executes one injection scenario in dir and judges it.
func injRun(cfg *injConfig, dir string, t injTarget) run.Case {
	path, _ := writeState(dir, cfg.pre, cfg.stale)
	defer os.RemoveAll(dir)
	docRaw, _ := bson.Marshal(cfg.doc)
	docHex := hex.EncodeToString(docRaw)
	scenario := fmt.Sprintf("%s#%d:%s", t.class, t.occurrence, t.spec)
	tags := []string{"error_injection", "errinj:" + t.class + ":" + t.spec, "errinj_size:" + cfg.sizeTag, "errinj_commit:" + cfg.commitNo}
	req := fmt.Sprintf(`{"errinj":%q,"config":%q,"syscall":%q,"when":%d,"stale":%v,"new_size":%d}`, scenario, cfg.name, t.sys, t.when, cfg.stale != nil, cfg.newSize)
	var stdout string
	hit := false
	if strings.HasPrefix(t.spec, "fsize=") {
		out, err := runPlain(path, cfg.coll, docHex, append(cfg.env(), "CRASHWRITER_RLIMIT_FSIZE="+strings.TrimPrefix(t.spec, "fsize=")))
		if err != nil || strings.Contains(out, "rlimit-error") {
			return run.Case{Impl: req + ` => {"run":"failed"}`, Tags: append(tags, "errinj_failed")}
		}
		stdout, hit = out, true
	} else {
		trace, out, _, err := runStraceEnv(dir, path, cfg.coll, docHex, fmt.Sprintf("%s:%s:when=%d", t.sys, t.spec, t.when), cfg.env())
		// the writer exits with a non-zero status when the commit fails: strace passes that status on
		if err != nil && !strings.Contains(trace, "+++ exited with") {
			return run.Case{Impl: req + ` => {"run":"strace-failed"}`, Tags: append(tags, "errinj_failed")}
		}
		stdout, hit = out, strings.Contains(trace, "(INJECTED)")
	}
	reported := "died"
	switch {
	case strings.Contains(stdout, "committed"):
		reported = "success"
	case strings.Contains(stdout, "insert-error"):
		reported = "error"
	case strings.Contains(stdout, "open-error"):
		reported = "open-error"
	}
	var vs []run.Violation
	viol := func(what, witness, detail string) {
		vs = append(vs, run.Violation{Property: "C05", What: what, Witness: witness, Req: req, Detail: detail})
	}
	if !hit {
		tags = append(tags, "errinj_missed")
	}
	if hit && reported == "success" && injDataPath[t.class] {
		viol(fmt.Sprintf("Commit reported success although the %s of the commit failed (%s on the real kernel path)", t.class, t.spec), "swallowed-error:"+sysWitnessName(t.sys), scenario)
	}
	d, cl := loadDump(path)
	loaded := "third"
	switch {
	case cl != "ok":
		loaded = cl
		viol("after a failing system call inside the commit the store file does not load", "not-old-or-new", scenario+" reported="+reported+" load="+cl)
	case d == cfg.dumpNew:
		loaded = "new"
	case d == cfg.dumpOld:
		loaded = "old"
	default:
		viol("after a failing system call inside the commit the store file loads as neither the old nor the new state", "not-old-or-new", scenario+" reported="+reported)
	}
	if reported == "success" && loaded == "old" {
		viol("Commit reported success but the old state is loaded", "acked-but-old", scenario)
	}
	rerun := "skipped"
	if reported == "error" || reported == "open-error" {
		if loaded == "new" && !t.afterRename {
			viol("Commit reported an error (failing call before the rename) but the store file shows the new state", "failed-commit-damaged", scenario)
		}
		if loaded == "old" {
			// a following fault-free commit on whatever was left behind (temp file!) must succeed and be persisted
			rerun = insertInProcess(path, cfg.coll, cfg.full)
			if rerun != "ok" {
				viol("a fault-free commit after a failed commit fails", "failed-commit-damaged", scenario+" rerun="+rerun)
			} else if d2, cl2 := loadDump(path); cl2 != "ok" || d2 != cfg.dumpNew {
				viol("a fault-free commit after a failed commit is not persisted", "failed-commit-damaged", scenario+" load="+cl2)
			}
		}
	}
	tags = append(tags, "errinj_outcome:"+t.class+":"+reported+"/"+loaded)
	return run.Case{
		Impl:       fmt.Sprintf(`%s => {"hit":%v,"reported":%q,"loaded":%q,"rerun":%q}`, req, hit, reported, loaded, rerun),
		Nontrivial: hit,
		Tags:       tags,
		Viols:      vs,
	}
}

func sizeRegime(n int) string {
	switch {
	case n < 4096:
		return "lt4k"
	case n < 48<<10:
		return "4k-48k"
	case n < 64<<10:
		return "below64k"
	case n < 96<<10:
		return "above64k"
	}
	return "big"
}

// injBuildConfig prepares a configuration through the real API: an optional earlier commit, then the dumps and the
// file size of the commit the writer will perform.
func injBuildConfig(root, name string, priorPad int, pad int, stale []byte) (*injConfig, error) {
	dir := filepath.Join(root, "cfg-"+name)
	path := filepath.Join(dir, "db.bson")
	if err := os.MkdirAll(dir, 0777); err != nil {
		return nil, err
	}
	defer os.RemoveAll(dir)
	cfg := &injConfig{name: name, coll: "c0", stale: stale, pad: pad, commitNo: "first"}
	if priorPad >= 0 {
		prior := bson.D{{Key: "_id", Value: int32(100)}, {Key: "pad", Value: strings.Repeat("x", priorPad)}}
		if cl := insertInProcess(path, "c1", prior); cl != "ok" {
			return nil, fmt.Errorf("prior commit: %s", cl)
		}
		b, err := os.ReadFile(path)
		if err != nil {
			return nil, err
		}
		cfg.pre = b
		cfg.commitNo = "later"
	}
	var cl string
	if cfg.dumpOld, cl = loadDump(path); cl != "ok" {
		return nil, fmt.Errorf("old state: %s", cl)
	}
	cfg.doc = bson.D{{Key: "_id", Value: int32(1)}, {Key: "a", Value: "v"}}
	cfg.full = cfg.doc
	if pad > 0 {
		cfg.full = append(append(bson.D{}, cfg.doc...), bson.E{Key: "pad", Value: strings.Repeat("x", pad)})
	}
	if cl := insertInProcess(path, cfg.coll, cfg.full); cl != "ok" {
		return nil, fmt.Errorf("commit: %s", cl)
	}
	if cfg.dumpNew, cl = loadDump(path); cl != "ok" {
		return nil, fmt.Errorf("new state: %s", cl)
	}
	st, err := os.Stat(path)
	if err != nil {
		return nil, err
	}
	cfg.newSize = int(st.Size())
	cfg.sizeTag = sizeRegime(cfg.newSize)
	return cfg, nil
}

// injCorpus: fixed matrix — database sizes below 4 KiB, just below / just above 64 KiB and ~200 KiB, on the first
// commit (no old file) and on a later one; per configuration the data-path failures (write ENOSPC/EIO/0 bytes, fsync,
// close, rename) plus a genuine short write (RLIMIT_FSIZE at half the file), and in rotation rename EXDEV, directory
// open/fsync, unlink of the stale temp, create.
func injCorpus() []run.Case {
	root, err := os.MkdirTemp("/tmp", "lungo-c05-inj-")
	if err != nil {
		return []run.Case{{Impl: `{"errinj":"mkdtemp"}`, Tags: []string{"setup_failed"}}}
	}
	defer os.RemoveAll(root)
	stale := []byte{0xAA, 0xBB, 0xCC}
	longStale := bytes.Repeat([]byte{0xA5}, 80<<10)
	specs := []struct {
		name     string
		priorPad int // -1 = first commit
		pad      int
		stale    []byte
	}{
		{"first-small", -1, 1000, nil},
		{"later-small", 200, 0, stale},
		{"first-below64k", -1, 31000, stale},
		{"later-below64k", 30800, 0, nil},
		{"first-above64k", -1, 34000, nil},
		{"later-above64k", 34000, 0, longStale},
		{"later-big", 100000, 0, nil},
	}
	useStrace := straceAvailable()
	type job struct {
		cfg *injConfig
		t   injTarget
	}
	var cases []run.Case
	var jobs []job
	for ci, sp := range specs {
		cfg, err := injBuildConfig(root, sp.name, sp.priorPad, sp.pad, sp.stale)
		if err != nil {
			cases = append(cases, run.Case{Impl: `{"errinj":"config ` + sp.name + `"}`, Tags: []string{"setup_failed"}})
			continue
		}
		// a genuine short write: RLIMIT_FSIZE at half of the new file (no ptrace needed)
		jobs = append(jobs, job{cfg, injTarget{class: "writeTmp", sys: "write", when: 1, spec: fmt.Sprintf("fsize=%d", cfg.newSize/2), occurrence: 1}})
		if !useStrace {
			jobs = append(jobs, job{cfg, injTarget{class: "writeTmp", sys: "write", when: 1, spec: "fsize=0", occurrence: 1}})
			continue
		}
		// reference trace of this configuration
		refDir := filepath.Join(root, "ref-"+sp.name)
		refPath, _ := writeState(refDir, cfg.pre, cfg.stale)
		docRaw, _ := bson.Marshal(cfg.doc)
		trace, _, _, err := runStraceEnv(refDir, refPath, cfg.coll, hex.EncodeToString(docRaw), "", cfg.env())
		lines := parseTrace(trace)
		_ = os.RemoveAll(refDir)
		if err != nil || len(lines) == 0 {
			cases = append(cases, run.Case{Impl: `{"errinj":"reference trace failed"}`, Tags: []string{"errinj_failed"}})
			continue
		}
		rot := 0
		for _, t := range injCandidates(lines, refPath) {
			switch {
			case injDataPath[t.class] && !(t.class == "renameTmpToPath" && t.spec == "error=EXDEV"):
				// every data-path failure, on the first and (if several writes) every further call of the class
				jobs = append(jobs, job{cfg, t})
			case t.class == "closeDir" || (t.class == "removeTmp" && t.occurrence > 1):
				// ignored by design (deferred calls); exercised by the generated cases
			default:
				// rename EXDEV, directory open/fsync, unlink of the stale temp, create: two of them per configuration
				if (rot+ci)%3 != 2 {
					jobs = append(jobs, job{cfg, t})
				}
				rot++
			}
		}
	}
	if !useStrace {
		cases = append(cases, run.Case{Impl: `{"errinj":"ptrace unavailable: RLIMIT_FSIZE scenarios only"}`, Tags: []string{"errinj:ptrace_unavailable"}})
	}
	// independent child processes in their own directories: a small pool keeps the corpus quick under load
	out := make([]run.Case, len(jobs))
	sem := make(chan struct{}, 4)
	var wg sync.WaitGroup
	for i, j := range jobs {
		wg.Add(1)
		sem <- struct{}{}
		go func(i int, j job) {
			defer wg.Done()
			defer func() { <-sem }()
			out[i] = injRun(j.cfg, filepath.Join(root, fmt.Sprintf("j%d", i)), j.t)
		}(i, j)
	}
	wg.Wait()
	return append(cases, out...)
}

func init() {
	run.Register(&run.Stream{
		Name: "crash",
		Rule: "histories of 1..3 commits (InsertOne) on a FileStore in a fresh temp dir, with/without a stale .tmp; per commit: strace conformance of a real writer process, " +
			"SIGKILL at the entry of every traced system call then real Load (+ in-process re-commit), model-enumerated power-loss images for every k then real Load, " +
			"and a wrapped Store failing (error / error after write / panic) on a chosen call; non-trivial = kill landed inside the commit, image with 1 ≤ k < end, or fault scenario ran; " +
			"corpus + 2 random picks per generated commit: real-kernel ERROR injection per system call of the commit (strace inject=<syscall>:error=…/retval=0, RLIMIT_FSIZE short writes) " +
			"for database sizes <4 KiB, just below/above 64 KiB and ~200 KiB on first and later commits, monitors swallowed-error / not-old-or-new / acked-but-old / failed-commit-damaged; " +
			"corpus: model counterexample search (fs.search: every cut × no/single fault × kill and power-loss images) on the step list regenerated from dbkit/atomic.go, 8 content shapes",
		Corpus: func() []run.Case { return append(searchCorpus(), injCorpus()...) },
		Gen: func(r *gen.R, idx int) []run.Case {
			return crashCase(r, idx)
		},
	})
}
