package streams

import (
	"math"
	"sort"
	"strconv"
	"strings"

	"go.mongodb.org/mongo-driver/bson"

	"github.com/256dpi/lungo/bsonkit"
	"github.com/256dpi/lungo/mongokit"

	"verifharness/internal/gen"
	"verifharness/internal/run"
	"verifharness/internal/vj"
)

// Stream "project" (C14, C20): documents × projection documents through mongokit.Project.
// Streams "sort" and "distinct" (C13) through mongokit.Sort / mongokit.Distinct.

// docPaths lists dotted paths present in the document (descending through documents only).
func docPaths(d bson.D, prefix string, out *[]string) {
	for _, e := range d {
		p := e.Key
		if prefix != "" {
			p = prefix + "." + e.Key
		}
		*out = append(*out, p)
		if sd, ok := e.Value.(bson.D); ok {
			docPaths(sd, p, out)
		}
	}
}

func sliceArg(r *gen.R, malformed bool) interface{} {
	num := func() interface{} {
		if malformed && r.P(40) {
			return []interface{}{int64(math.MinInt64), int64(math.MaxInt64), math.NaN(), math.Inf(-1), 1e300, -1e300, 1.5}[r.N(7)]
		}
		n := r.N(9) - 4
		switch r.N(3) {
		case 0:
			return int32(n)
		case 1:
			return int64(n)
		default:
			return float64(n) + []float64{0, 0.5}[r.N(2)]
		}
	}
	if r.P(50) {
		return num()
	}
	if malformed && r.P(30) {
		return []interface{}{bson.A{}, bson.A{int32(1)}, bson.A{int32(1), int32(-1)}, bson.A{"a", int32(1)}, "x", bson.A{int32(1), int32(2), int32(3)}}[r.N(6)]
	}
	l := num()
	if !malformed {
		switch x := l.(type) {
		case int32:
			if x < 0 {
				l = -x
			}
		case int64:
			if x < 0 {
				l = -x
			}
		case float64:
			l = math.Abs(x)
		}
	}
	return bson.A{num(), l}
}

// Projection returns a random projection over the document's paths.
func Projection(r *gen.R, doc bson.D, malformed bool) bson.D {
	var paths []string
	docPaths(doc, "", &paths)
	pick := func() string {
		if len(paths) > 0 && r.P(75) {
			return paths[r.N(len(paths))]
		}
		return r.Path()
	}
	n := 1 + r.N(3)
	mode := r.N(3) // 0 inclusion, 1 exclusion, 2 mixed flags
	var p bson.D
	used := map[string]bool{}
	for i := 0; i < n; i++ {
		path := pick()
		if used[path] {
			continue
		}
		used[path] = true
		var v interface{}
		k := r.N(10)
		switch {
		case k < 6:
			inc := mode == 0 || (mode == 2 && r.P(50))
			flags := []interface{}{int32(1), int64(1), 1.0, true}
			if !inc {
				flags = []interface{}{int32(0), int64(0), 0.0, false}
			}
			v = flags[r.N(4)]
			if malformed && r.P(20) {
				v = []interface{}{int32(2), "x", nil, bson.D{{Key: "a", Value: int32(1)}}, bson.D{}}[r.N(5)]
			}
		case k < 8:
			v = bson.D{{Key: "$slice", Value: sliceArg(r, malformed)}}
		default:
			if r.P(50) {
				v = bson.D{{Key: "$elemMatch", Value: opDoc(r, 1, malformed)}}
			} else {
				v = bson.D{{Key: "$elemMatch", Value: fieldConds(r, 1, malformed, 1)}}
			}
			if malformed && r.P(30) {
				v = bson.D{{Key: "$elemMatch", Value: int32(1)}}
			}
		}
		p = append(p, bson.E{Key: path, Value: v})
	}
	if r.P(30) {
		p = append(p, bson.E{Key: "_id", Value: []interface{}{int32(0), false, int32(1)}[r.N(3)]})
	}
	if malformed && r.P(10) {
		p = append(p, bson.E{Key: "$foo", Value: int32(1)})
	}
	return p
}

func projectReply(doc, proj bson.D) string {
	return run.Safe(func() string {
		d := doc
		res, err := mongokit.Project(&d, &proj)
		if err != nil {
			return `{"err":"err"}`
		}
		return `{"ok":` + vj.Enc(*res) + `}`
	})
}

// isSubValue reports whether every field of res appears in orig at the same path with the same
// value, except at the operator paths (slice/elemMatch), where it must be a contiguous window /
// single element of the stored array.
func isSubValue(res, orig interface{}, path string, opPaths map[string]bool) bool {
	switch x := res.(type) {
	case bson.D:
		od, ok := orig.(bson.D)
		if !ok {
			return false
		}
		for _, e := range x {
			p := e.Key
			if path != "" {
				p = path + "." + e.Key
			}
			var ov interface{} = bsonkit.Missing
			for _, oe := range od {
				if oe.Key == e.Key {
					ov = oe.Value
					break
				}
			}
			if ov == bsonkit.Missing {
				return false
			}
			if opPaths[p] {
				ra, ok1 := e.Value.(bson.A)
				oa, ok2 := ov.(bson.A)
				if !ok1 || !ok2 {
					if !isSubValue(e.Value, ov, p, opPaths) {
						return false
					}
					continue
				}
				if !isWindow(ra, oa) {
					return false
				}
				continue
			}
			if !isSubValue(e.Value, ov, p, opPaths) {
				return false
			}
		}
		return true
	default:
		return vj.Enc(res) == vj.Enc(orig)
	}
}

func isWindow(w, a bson.A) bool {
	if len(w) == 0 {
		return true
	}
	for s := 0; s+len(w) <= len(a); s++ {
		ok := true
		for i := range w {
			if vj.Enc(w[i]) != vj.Enc(a[s+i]) {
				ok = false
				break
			}
		}
		if ok {
			return true
		}
	}
	return false
}

func init() {
	run.Register(&run.Stream{
		Name: "project",
		Rule: "documents with _id (depth ≤3) × projections over the document's own dotted paths (75%) and the path alphabet: numeric/bool flags, inclusion/exclusion/mixed, _id handling, $slice (count and [skip,limit], negatives, extremes in the malformed 20%), $elemMatch; " +
			"monitors: the stored document is byte-identical after projecting (twice), every value in the result is the stored value at that path (window/element at operator paths); non-trivial = distinct case whose projection succeeded and differs from the document",
		Gen: func(r *gen.R, idx int) []run.Case {
			malformed := r.P(20)
			doc := r.Doc(3, false, !r.P(10))
			if r.P(15) {
				// a document-valued _id holding arrays (overlays below _id must not reach the stored _id)
				id := bson.D{{Key: "k", Value: r.Arr(1, false)}, {Key: "n", Value: r.SmallNumber()}}
				if len(doc) > 0 && doc[0].Key == "_id" {
					doc[0].Value = id
				} else {
					doc = append(bson.D{{Key: "_id", Value: id}}, doc...)
				}
			}
			if r.P(25) && len(doc) > 0 {
				// sibling fields whose names are textual (not dotted) prefixes of each other: a / ax / a1, also one level down
				doc = append(bson.D{}, doc...)
				e := doc[r.N(len(doc))]
				if e.Key != "_id" {
					doc = append(doc, bson.E{Key: e.Key + []string{"x", "1", "_"}[r.N(3)], Value: r.Value(1, false)})
				}
				for i, f := range doc {
					if sub, ok := f.Value.(bson.D); ok && len(sub) > 0 && r.P(60) {
						sub = append(bson.D{}, sub...)
						sub = append(sub, bson.E{Key: sub[r.N(len(sub))].Key + "x", Value: r.Scalar()})
						doc[i].Value = sub
						break
					}
				}
			}
			proj := Projection(r, doc, malformed)
			if r.P(10) && len(proj) >= 2 {
				// shorter name first
				sort.SliceStable(proj, func(i, j int) bool { return len(proj[i].Key) < len(proj[j].Key) })
			}
			req := `{"op":"project","d":` + vj.Enc(doc) + `,"p":` + vj.Enc(proj) + `}`
			stored := bsonkit.Clone(&doc)
			before := vj.Enc(*stored)
			impl := projectReply(*stored, proj)
			// run a second time on the same stored document: later results must not be affected
			impl2 := projectReply(*stored, proj)
			after := vj.Enc(*stored)
			tags := []string{}
			for _, e := range proj {
				if od, ok := e.Value.(bson.D); ok && len(od) > 0 {
					tags = append(tags, "op:"+od[0].Key)
				} else {
					tags = append(tags, "flag")
				}
			}
			ok := strings.HasPrefix(impl, `{"ok"`)
			if malformed {
				tags = append(tags, "malformed")
			}
			if ok {
				tags = append(tags, "ok")
			} else if strings.HasPrefix(impl, `{"err"`) {
				tags = append(tags, "error")
			}
			c := run.Case{Req: req, Impl: impl, Nontrivial: ok && impl != `{"ok":`+before+`}`, Tags: tags, Accept: acceptUnmodelled(impl)}
			var viols []run.Violation
			if strings.HasPrefix(impl, `{"panic"`) {
				viols = append(viols, run.Violation{Property: "C20", What: "mongokit.Project panics", Witness: "project-panic", Req: req, Detail: impl})
			}
			if after != before {
				viols = append(viols, run.Violation{Property: "C14", What: "projecting altered the stored document", Witness: "project-mutates-stored", Req: req, Detail: before + " -> " + after})
			} else if impl2 != impl {
				viols = append(viols, run.Violation{Property: "C14", What: "a second identical projection returns a different result", Witness: "project-unstable", Req: req, Detail: impl + " vs " + impl2})
			}
			// domain of C14: projected paths descend through embedded documents only
			inDomain := true
			for _, e := range proj {
				segs := strings.Split(e.Key, ".")
				for i := 1; i < len(segs); i++ {
					if _, isArr := bsonkit.Get(&doc, strings.Join(segs[:i], ".")).(bson.A); isArr {
						inDomain = false
					}
				}
			}
			if !inDomain {
				c.Tags = append(c.Tags, "path-through-array(outside C14 domain)")
			}
			if ok && !malformed && inDomain {
				opPaths := map[string]bool{}
				for _, e := range proj {
					if od, ok := e.Value.(bson.D); ok && len(od) > 0 && strings.HasPrefix(od[0].Key, "$") {
						opPaths[e.Key] = true
					}
				}
				d := doc
				res, err := mongokit.Project(bsonkit.Clone(&d), &proj)
				if err == nil && !isSubValue(*res, doc, "", opPaths) {
					viols = append(viols, run.Violation{Property: "C14", What: "result holds a value that is not the stored value at that path", Witness: "project-foreign-value", Req: req, Detail: vj.Enc(*res)})
				}
			}
			// inclusion mode (an inclusion flag or $elemMatch present): the result holds _id and requested paths only
			if ok && !malformed && inDomain {
				inclusion := false
				requested := map[string]bool{"_id": true}
				for _, e := range proj {
					requested[strings.SplitN(e.Key, ".", 2)[0]] = true
					switch v := e.Value.(type) {
					case bson.D:
						if len(v) > 0 && v[0].Key == "$elemMatch" {
							inclusion = true
						}
					case bool:
						if v && e.Key != "_id" {
							inclusion = true
						}
					default:
						if e.Key != "_id" && bsonkit.Compare(v, int64(1)) == 0 {
							inclusion = true
						}
					}
				}
				if inclusion {
					d := doc
					if res, err := mongokit.Project(bsonkit.Clone(&d), &proj); err == nil {
						// every plainly included path that exists in the document is in the result with the stored value
						// (paths touched by an operator overlay at, below or above them are left to the other monitors)
						for _, e := range proj {
							flagOn := false
							switch v := e.Value.(type) {
							case bool:
								flagOn = v
							case bson.D:
							default:
								flagOn = bsonkit.Compare(v, int64(1)) == 0
							}
							if !flagOn || e.Key == "" || e.Key == "_id" {
								continue
							}
							overlaid := false
							for _, o := range proj {
								// the same key given twice, or a parent/child pair: the later entry decides; not judged here
								if &o != &e && (o.Key == e.Key && vj.Enc(o.Value) != vj.Enc(e.Value) || strings.HasPrefix(o.Key, e.Key+".") || strings.HasPrefix(e.Key, o.Key+".")) {
									overlaid = true
								}
							}
							for _, o := range proj {
								if od, ok := o.Value.(bson.D); ok && len(od) > 0 && strings.HasPrefix(od[0].Key, "$") {
									if o.Key == e.Key || strings.HasPrefix(o.Key, e.Key+".") || strings.HasPrefix(e.Key, o.Key+".") {
										overlaid = true
									}
								}
							}
							if overlaid {
								continue
							}
							if want := bsonkit.Get(&doc, e.Key); want != bsonkit.Missing {
								if got := bsonkit.Get(res, e.Key); got == bsonkit.Missing || vj.Enc(got) != vj.Enc(want) {
									c.Viols = append(viols, run.Violation{Property: "C14", What: "an included path that exists in the document is missing from (or differs in) the result", Witness: "project-missing-included", Req: req, Detail: e.Key})
									return []run.Case{c}
								}
							}
						}
						for _, e := range *res {
							if !requested[e.Key] {
								c.Viols = append(viols, run.Violation{Property: "C14", What: "inclusion-style projection returns a field that was not requested", Witness: "project-extra-field", Req: req, Detail: e.Key})
								return []run.Case{c}
							}
						}
					}
				}
			}
			// ProjectList over several documents equals Project applied to each document on its own (no state carried from
			// one document to the next): the generated document between two variants of different shape
			if !malformed {
				v1 := bsonkit.Clone(&doc)
				v2 := bsonkit.Clone(&doc)
				for i := range *v2 {
					switch (*v2)[i].Value.(type) {
					case bson.A:
						(*v2)[i].Value = "scalar"
					case bson.D:
						(*v2)[i].Value = bson.A{int32(1), int32(2), int32(3)}
					}
				}
				v3 := bson.D{{Key: "_id", Value: int32(99)}}
				list := bsonkit.List{v1, v2, &v3, bsonkit.Clone(&doc)}
				differs := run.Safe(func() string {
					got, err := mongokit.ProjectList(list, &proj)
					for i, d := range list {
						want, err2 := mongokit.Project(bsonkit.Clone(d), &proj)
						if (err == nil) != (err2 == nil) && i == 0 && err2 != nil {
							return "" // the list fails at its first failing document; compared below only when all succeed
						}
						if err2 != nil {
							return ""
						}
						if err == nil && (i >= len(got) || vj.Enc(*got[i]) != vj.Enc(*want)) {
							return "document " + strconv.Itoa(i) + ": list gives " + func() string {
								if i < len(got) {
									return vj.Enc(*got[i])
								}
								return "nothing"
							}() + ", alone " + vj.Enc(*want)
						}
					}
					if err != nil {
						return "the list fails although every document projects alone"
					}
					return ""
				})
				if differs != "" && !strings.HasPrefix(differs, `{"panic"`) {
					viols = append(viols, run.Violation{Property: "C14", What: "ProjectList differs from projecting each document on its own", Witness: "projectlist-differs", Req: req, Detail: differs})
				}
			}
			// a projection made of plain inclusion flags plus `_id: false/0` is valid: it must succeed and hide the _id
			{
				onlyIncl, hidesID := len(proj) > 1, false
				for _, e := range proj {
					on, isFlag := false, false
					switch v := e.Value.(type) {
					case bool:
						on, isFlag = v, true
					case int32, int64, float64:
						on, isFlag = bsonkit.Compare(v, int64(0)) != 0, true
					}
					switch {
					case !isFlag || e.Key == "" || strings.Contains(e.Key, "$"):
						onlyIncl = false
					case e.Key == "_id":
						if on {
							onlyIncl = false
						}
						hidesID = !on
					case !on:
						onlyIncl = false
					}
				}
				seen := map[string]bool{}
				for _, e := range proj {
					if seen[e.Key] {
						onlyIncl = false
					}
					seen[e.Key] = true
					for _, o := range proj {
						if strings.HasPrefix(o.Key, e.Key+".") {
							onlyIncl = false // parent and child: path collision rules are not judged here
						}
					}
				}
				// (documents without an _id — which no stored document is — are left out: an inclusion projection of such a
				// document fails in mongokit.Project with "cannot put missing value at _id"; recorded as an observation)
				if onlyIncl && hidesID && !malformed && bsonkit.Get(&doc, "_id") != bsonkit.Missing {
					if !ok {
						viols = append(viols, run.Violation{Property: "C14", What: "a valid inclusion projection with a hidden _id is rejected", Witness: "project-valid-rejected", Req: req, Detail: impl})
					} else if d := doc; true {
						if res, err := mongokit.Project(bsonkit.Clone(&d), &proj); err == nil && bsonkit.Get(res, "_id") != bsonkit.Missing {
							viols = append(viols, run.Violation{Property: "C14", What: "_id: false did not hide the _id", Witness: "project-id-not-hidden", Req: req, Detail: impl})
						}
					}
				}
			}
			// independent statements of the two operator overlays (single-operator projections on a top-level array)
			if ok && !malformed && inDomain {
				if v := overlayOracle(doc, proj); v != "" {
					viols = append(viols, run.Violation{Property: "C14", What: v, Witness: "project-overlay-oracle", Req: req, Detail: impl})
				}
			}
			c.Viols = viols
			return []run.Case{c}
		},
	})
	run.Streams["project"].Replay = func(req string) string {
		r, err := parseReq(req)
		if err != nil {
			return ""
		}
		return projectReply(r.doc("d"), r.doc("p"))
	}
}

// wholeInt reads an integer-valued number.
func wholeInt(v interface{}) (int64, bool) {
	switch x := v.(type) {
	case int32:
		return int64(x), true
	case int64:
		return x, true
	case float64:
		if x == math.Trunc(x) && math.Abs(x) < 1e15 {
			return int64(x), true
		}
	}
	return 0, false
}

// overlayOracle states $slice and $elemMatch projections from their definition, for projections that consist of
// exactly one such operator on a top-level array field (plus optionally _id). It returns a description of the
// difference, or "".
func overlayOracle(doc, proj bson.D) string {
	var ops []bson.E
	for _, e := range proj {
		if e.Key == "_id" {
			continue
		}
		ops = append(ops, e)
	}
	if len(ops) != 1 || strings.Contains(ops[0].Key, ".") || ops[0].Key == "" {
		return ""
	}
	od, isDoc := ops[0].Value.(bson.D)
	if !isDoc || len(od) != 1 {
		return ""
	}
	f := ops[0].Key
	arr, isArr := bsonkit.Get(&doc, f).(bson.A)
	if !isArr {
		return ""
	}
	d := doc
	res, err := mongokit.Project(bsonkit.Clone(&d), &proj)
	if err != nil {
		return ""
	}
	got := bsonkit.Get(res, f)
	switch od[0].Key {
	case "$slice":
		n := int64(len(arr))
		var start, end int64
		if c, ok := wholeInt(od[0].Value); ok {
			if c >= 0 {
				start, end = 0, c
			} else {
				start, end = n+c, n
			}
		} else if pair, ok := od[0].Value.(bson.A); ok && len(pair) == 2 {
			skip, ok1 := wholeInt(pair[0])
			limit, ok2 := wholeInt(pair[1])
			if !ok1 || !ok2 || limit <= 0 {
				return ""
			}
			if skip >= 0 {
				start = skip
			} else {
				start = n + skip
			}
			if start < 0 {
				start = 0
			}
			if start > n {
				start = n
			}
			end = start + limit
			if limit > n {
				end = n
			}
		} else {
			return ""
		}
		if start < 0 {
			start = 0
		}
		if start > n {
			start = n
		}
		if end > n {
			end = n
		}
		if end < start {
			end = start
		}
		want := append(bson.A{}, arr[start:end]...)
		if vj.Enc(got) != vj.Enc(want) {
			return "$slice " + vj.Enc(od[0].Value) + " of an array of " + strconv.Itoa(len(arr)) + " elements: want " + vj.Enc(want)
		}
	case "$elemMatch":
		cond, ok := od[0].Value.(bson.D)
		if !ok {
			return ""
		}
		var want interface{} = bsonkit.Missing
		for _, e := range arr {
			w := bson.D{{Key: "w", Value: bson.A{e}}}
			q := bson.D{{Key: "w", Value: bson.D{{Key: "$elemMatch", Value: cond}}}}
			m, err := mongokit.Match(&w, &q)
			if err != nil {
				return ""
			}
			if m {
				want = bson.A{e}
				break
			}
		}
		if vj.Enc(got) != vj.Enc(want) {
			return "$elemMatch projection: want the first matching element " + vj.Enc(want)
		}
	}
	return ""
}
