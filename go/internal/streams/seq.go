package streams

import (
	"fmt"
	"reflect"
	"strconv"
	"strings"
	"time"

	"go.mongodb.org/mongo-driver/bson"

	"github.com/256dpi/lungo"
	"github.com/256dpi/lungo/mongokit"

	"verifharness/internal/gen"
	"verifharness/internal/model"
	"verifharness/internal/run"
)

// Stream "seq": the histories of the "api" stream (same generator, same runner, same
// canonicalisers) compared DIRECTLY with the sequential reference model Lungo.Spec.SeqDB (the
// right-hand side of C01) instead of the executable model of the implementation. After every call
// the reply and the contents (documents of every user namespace in natural order + index
// definitions) are compared. The Spec has no index entries and no oplog, so "members" and the
// local.oplog namespace are removed from the implementation's dump before the comparison.
// The property monitors of the api stream are not repeated here.

const seqReset = `{"op":"seq.reset"}`
const seqDumpReq = `{"op":"seq.dump"}`

// seqReq turns an api.call request line into the seq.call line.
func seqReq(apiReq string) string {
	return strings.Replace(apiReq, `{"op":"api.call"`, `{"op":"seq.call"`, 1)
}

// seqView parses an api/seq dump and removes what the Spec does not have: the oplog namespace and
// the member lists of the indexes.
func seqView(s string) (interface{}, bool) {
	v, ok := parseJSON(canonNaNs(s))
	if !ok {
		return nil, false
	}
	top, _ := v.(map[string]interface{})
	nss, ok := top["ok"].([]interface{})
	if !ok {
		return nil, false
	}
	out := make([]interface{}, 0, len(nss))
	for _, n := range nss {
		nm, _ := n.(map[string]interface{})
		h, _ := nm["h"].([]interface{})
		if len(h) == 2 && h[0] == "local" && h[1] == "oplog" {
			continue
		}
		idx, _ := nm["indexes"].([]interface{})
		for _, ix := range idx {
			if im, ok := ix.(map[string]interface{}); ok {
				delete(im, "members")
			}
		}
		out = append(out, nm)
	}
	return out, true
}

func seqDumpEqual(impl, spec string) bool {
	a, ok1 := seqView(impl)
	b, ok2 := seqView(spec)
	return ok1 && ok2 && reflect.DeepEqual(a, b)
}

// ---- the Spec's domain ----
//
// The Spec selects "matching documents → stable sort → window"; the implementation scans the sorted
// list and stops at the limit, so a filter that raises an error on SOME stored document only (e.g.
// an unknown operator behind a short-circuiting $or) may be reported by one and not by the other.
// C01's refinement theorem excludes exactly these calls (hypothesis `QueryOk`: the filter evaluates
// on every stored document of the target collection). The check below is made on the
// implementation's catalogs with the implementation's matcher, before looking at the Spec's reply:
// such a call is tagged, a disagreement on it is accepted and ends the comparison of the history.

func filterErrsOn(cat *lungo.Catalog, h lungo.Handle, q bson.D) (errs bool) {
	defer func() {
		if recover() != nil {
			errs = true
		}
	}()
	ns := cat.Namespaces[h]
	if ns == nil || q == nil {
		return false
	}
	for _, d := range ns.Documents.List {
		if _, err := mongokit.Match(d, &q); err != nil {
			return true
		}
	}
	return false
}

func outOfDomain(pre, post *lungo.Catalog, c *apiCall) bool {
	h := lungo.Handle{c.DB, c.Coll}
	var qs []bson.D
	switch c.M {
	case "listCollections", "listDatabases":
		return false
	case "bulkWrite":
		for _, m := range c.Models {
			qs = append(qs, m.Q)
		}
	default:
		qs = append(qs, c.Q)
	}
	for _, q := range qs {
		if filterErrsOn(pre, h, q) || filterErrsOn(post, h, q) {
			return true
		}
	}
	return false
}

// runSeqHistory is runAPIHistory, additionally recording for every step whether the call is outside
// the Spec's domain.
func runSeqHistory(key uint64, upto int) (steps []apiStep, ood []bool, malformed bool) {
	r := gen.New(key, 0x617069, 1)
	env, err := openAPIEnv(nil)
	if err != nil {
		panic(err)
	}
	defer env.engine.Close()
	clk := time.Now().UnixMilli()
	g := newAPIGen(r, env, clk)
	n := 1 + r.N(25)
	if g.profile != "" && n < 10 {
		n += 10
	}
	if upto >= 0 && upto < n {
		n = upto
	}
	m := newAPIRunner(env, `,"hk":"`+strconv.FormatUint(key, 10)+`","clk":`+strconv.FormatInt(clk, 10))
	for i := 0; i < n; i++ {
		c := g.next()
		pre := env.engine.Catalog()
		st := m.step(c)
		steps = append(steps, st)
		ood = append(ood, outOfDomain(pre, env.engine.Catalog(), c))
	}
	return steps, ood, g.malformed
}

func seqAccept(h *histState, impl, kind string, ood bool) func(string) bool {
	if kind != "dump" {
		inner := h.accept(impl, kind)
		return func(m string) bool {
			if inner(m) {
				return true
			}
			return ood // h is poisoned by the failed comparison: later cases are accepted
		}
	}
	return func(m string) bool {
		if h.poisoned {
			return true
		}
		ok := seqDumpEqual(impl, m)
		if !ok {
			h.poisoned = true
		}
		return ok || ood
	}
}

func seqCasesOf(steps []apiStep, ood []bool, malformed bool, hk string) []run.Case {
	hs := &histState{errClassLoose: looseErrClass(steps)}
	cases := []run.Case{{Req: seqReset, Impl: `{"ok":null}`, Accept: func(m string) bool { return m == `{"ok":null}` }}}
	for i, st := range steps {
		kind := "call"
		if st.call.M == "distinct" {
			kind = "distinct"
		}
		tags := st.tags
		if malformed {
			tags = append(tags, "in-malformed-history")
		}
		if i == 0 {
			tags = append(tags, "histories", "len:"+strconv.Itoa((len(steps)+4)/5*5))
		}
		out := i < len(ood) && ood[i]
		if out {
			tags = append(tags, "out-of-domain:filter-errs-on-some-doc")
		}
		cases = append(cases, run.Case{Req: seqReq(st.req), Impl: st.reply, Nontrivial: st.nontrivial, Tags: tags, Accept: seqAccept(hs, st.reply, kind, out)})
		dump := run.Case{Impl: st.dump, Accept: seqAccept(hs, st.dump, "dump", out)}
		dump.Req = `{"op":"seq.dump",` + hk + `"step":` + strconv.Itoa(i+1) + `}`
		cases = append(cases, dump)
	}
	return cases
}

func seqCases(key uint64) []run.Case {
	steps, ood, malformed := runSeqHistory(key, -1)
	return seqCasesOf(steps, ood, malformed, `"hk":"`+strconv.FormatUint(key, 10)+`",`)
}

// seqCorpus: the fixed histories of the api corpus, against the Spec.
func seqCorpus() []run.Case {
	var out []run.Case
	hs := &histState{}
	for _, c := range apiCorpus() {
		switch {
		case c.Req == apiReset:
			hs = &histState{}
			out = append(out, run.Case{Req: seqReset, Impl: c.Impl, Accept: func(m string) bool { return m == `{"ok":null}` }})
		case strings.HasPrefix(c.Req, `{"op":"api.call"`):
			kind := "call"
			if strings.Contains(c.Req, `"m":"distinct"`) {
				kind = "distinct"
			}
			out = append(out, run.Case{Req: seqReq(c.Req), Impl: c.Impl, Nontrivial: c.Nontrivial, Tags: c.Tags, Accept: seqAccept(hs, c.Impl, kind, false)})
		case strings.HasPrefix(c.Req, `{"op":"api.dump"`):
			out = append(out, run.Case{Req: strings.Replace(c.Req, `{"op":"api.dump"`, `{"op":"seq.dump"`, 1), Impl: c.Impl, Tags: c.Tags, Accept: seqAccept(hs, c.Impl, "dump", false)})
		}
	}
	return out
}

// seqReplay regenerates the history of a request line ("hk" key, optional "step") and prints the
// implementation's and the Spec's replies side by side.
func seqReplay(req string) string {
	o, err := parseReq(req)
	if err != nil {
		return ""
	}
	hk, ok := o["hk"].(string)
	if !ok {
		return ""
	}
	key, err := strconv.ParseUint(hk, 10, 64)
	if err != nil {
		return ""
	}
	upto := -1
	if k, ok := o.i64("step"); ok {
		upto = int(k)
	}
	steps, ood, _ := runSeqHistory(key, upto)
	var p *model.Proc
	if !run.NoModel {
		if p, err = model.Start(); err == nil {
			_, _ = p.Ask(seqReset)
		} else {
			p = nil
		}
	}
	var sb strings.Builder
	for i, st := range steps {
		sb.WriteString(fmt.Sprintf("\n#%d req  : %s\n#%d impl : %s\n", i+1, seqReq(st.req), i+1, st.reply))
		if ood[i] {
			sb.WriteString(fmt.Sprintf("#%d (outside the Spec's domain: the filter raises an error on some stored document)\n", i+1))
		}
		if p != nil {
			mr, _ := p.Ask(seqReq(st.req))
			md, _ := p.Ask(seqDumpReq)
			kind := "call"
			if st.call.M == "distinct" {
				kind = "distinct"
			}
			sb.WriteString(fmt.Sprintf("#%d spec : %s\n", i+1, mr))
			if !(&histState{}).accept(st.reply, kind)(mr) {
				sb.WriteString(fmt.Sprintf("#%d REPLY DISAGREES\n", i+1))
			}
			if !seqDumpEqual(st.dump, md) {
				sb.WriteString(fmt.Sprintf("#%d DUMP DISAGREES\n    impl %s\n    spec %s\n(later calls are not compared)\n", i+1, clip(st.dump, 1500), clip(md, 1500)))
				p.Close()
				p = nil
			}
		}
	}
	return sb.String()
}

func init() {
	run.Register(&run.Stream{
		Name:         "seq",
		Corpus:       seqCorpus,
		SpecProperty: "C01",
		SpecWitness: func(c run.Case, _ string) string {
			// class of the disagreeing step: the driver method, or "dump" for a state difference
			if i := strings.Index(c.Req, `"m":"`); i >= 0 {
				rest := c.Req[i+5:]
				if j := strings.Index(rest, `"`); j >= 0 {
					return "seq:" + rest[:j]
				}
			}
			return "seq:state"
		},
		Rule: "the histories of stream api (1–25 driver calls on lungo.Open(MemoryStore), same generator and canonicalisers) compared with the sequential reference model " +
			"Lungo.Spec.SeqDB (C01's Spec: document lists + index definitions, no index entries, identities or oplog): every reply (counts, ids, documents, error class) and, after every call, " +
			"the documents of every user namespace in natural order and the index definitions; a call whose filter raises an error on SOME stored document of its collection is outside the Spec's domain " +
			"(tagged; a disagreement there is accepted and ends the comparison of that history); non-trivial = a successful call that changed the state or returned/matched something",
		Gen: func(r *gen.R, idx int) []run.Case {
			return seqCases(r.U64())
		},
		Replay: seqReplay,
	})
}
