package streams

import (
	"context"
	"errors"
	"fmt"
	"math"
	"os"
	"path/filepath"
	"runtime/debug"
	"sort"
	"strconv"
	"strings"
	"sync"
	"time"

	"go.mongodb.org/mongo-driver/bson"
	"go.mongodb.org/mongo-driver/bson/primitive"
	"go.mongodb.org/mongo-driver/mongo"
	"go.mongodb.org/mongo-driver/mongo/options"

	"github.com/256dpi/lungo"
	"github.com/256dpi/lungo/bsonkit"
	"github.com/256dpi/lungo/mongokit"

	"verifharness/internal/gen"
	"verifharness/internal/run"
	"verifharness/internal/vj"
)

// Stream "ttlclock" (C19): MONITOR ONLY, REAL TIME. Nothing else exercises the engine-driven periodic
// expiry (engine.go `expire`: ticker → Begin → Transaction.Expire → Commit); the `api` stream calls
// Transaction.Expire itself. Each case is one small real-time scenario (about 1.5 .. 2.5 s wall, nearly all
// of it sleeping) on an engine opened with ExpireInterval 20..60 ms on a MemoryStore or a FileStore (temp
// dir on tmpfs or on disk, removed afterwards):
//
//	(1) insert: twelve collections in three databases — TTL 1 s; TTL 2 s + ordinary, unique and partial
//	    indexes; TTL 0 s; two TTL indexes (1 s and 2 s on two fields); TTL on a dotted path (sub-documents and
//	    arrays of sub-documents); a TTL index that is dropped again; collections WITHOUT a TTL index that
//	    carry the same-named date fields (ordinary index on the date field / no index); the same collection
//	    names with swapped roles in a second database. Indexes are created before or after the documents
//	    (per collection). Per collection the whole value table under the TTL field: dates long expired /
//	    just expired / before the epoch / the epoch, dates that become expired DURING the case purely by time
//	    passing ("soon": fresh at insert, inserted in a second round dated relative to that round; the last
//	    one expires alone), later and far-future dates, non-dates (int64 and double holding an old date's
//	    milliseconds, int32, string, null, missing, bool, ObjectID, Timestamp, sub-document), arrays mixing
//	    dates and non-dates (expired + non-dates, only non-dates, far + non-date, far + expired, soon, empty);
//	(2) wait until expiry passes have run while the "soon" documents are still fresh (modes canary / busy:
//	    two passes are WITNESSED by two generations of expired canary documents; other modes: 3 intervals +
//	    60 ms) and check that nothing fresh was removed;
//	(3) stay idle past the cutoff of the last "soon" document + 10 intervals + 500 ms — not a single call
//	    into the engine in the modes timed / canary / reopen (mode reopen: the engine under test never saw
//	    a write at all: the data was put into the store by an earlier engine with expiry off); mode busy:
//	    unrelated inserts / updates / deletes on collections without TTL index; modes sess-commit /
//	    sess-abort: an explicit session transaction holds the engine's write token across the cutoff (expiry
//	    must resume afterwards; the committed one also inserts an expired document; plain client writes queue up
//	    behind it); mode contend: three more groups of documents expire (a pass really deletes every 100 ms)
//	    while a holder keeps session transactions open for 100..800 ms and three plain writers queue up behind
//	    it — the expiry goroutine as one writer among many (mode fault: see below), with the Property C04 monitors of
//	    ttlclock_clients.go (also active in busy and sess-*); mode close: Engine.Close before or after the
//	    cutoff (must return, nothing may change afterwards);
//	(4) check against the wall-clock oracle. A document is classified per snapshot (t0 before, t1 after
//	    reading Engine.Catalog()): X = min over the TTL indexes of its collection and the date leaves under
//	    the index field of (date + expireAfterSeconds); must-be-present if X = never or t1 < X − 60 ms;
//	    must-be-gone if t0 > max(X, ready, end of the blocking session, end of the last Store call slower
//	    than 25 ms, end of the last scheduler stall seen by a control goroutine) + 10 intervals + 500 ms;
//	    everything in between is a boundary document and gets NO verdict. A must-be-gone document that is
//	    still present is re-checked after another 10 intervals + 400 ms before it is reported.
//
// Mode fault (recovery from a transient fault): fully idle like timed, six groups of "soon" documents; exactly one
// Store call — the commit of the k-th pass (k = 1..4) that removes something after the insert phase — fails (before
// or after the inner store was written); Options.ExpireErrors is nil, a fast callback, or a slow one that sleeps two
// intervals and reads Engine.Catalog(). The documents of the failed pass and of the later groups must still be removed
// within the usual slack after the fault / the end of the slow callback (ttl-clock:stalled-after-fault), by a pass
// that is complete (pass-incomplete; a failed call is not in the commit log), with exactly one delete event each.
//
// A document that must be present but is gone while the change log has neither a delete event nor its insert event
// was not removed by the expiry: it is a lost acknowledged write (Property C04, ttl-clock:ack-lost; see
// ttlclock_clients.go).
//
// Witness classes (Property C19): ttl-clock:kept-expired, ttl-clock:stalled-after-session,
// ttl-clock:removed-fresh, ttl-clock:non-date-removed, ttl-clock:non-ttl-collection-touched,
// ttl-clock:pass-incomplete (exact, from the commit log of the wrapped store: a pass that removed something left
// a document that was already expired when the pass began), ttl-clock:delete-events (≠ exactly one delete event
// per removed document, or a delete event for a kept or unknown document), ttl-clock:index-incoherent (index members ≠ documents [matching the partial
// filter]), ttl-clock:active-after-close, ttl-clock:close-hang, ttl-clock:engine-wedged, ttl-clock:panic, ttl-clock:setup-failed.
// The delete events' own wallTime gives a second, tight "removed-fresh" check (wallTime < X − 5 ms) and the
// latency tags (wallTime − X of the last "soon" removals, in intervals).

const (
	tcFreshMargin   = 60 * time.Millisecond
	tcGoneIntervals = 10
	tcGoneExtra     = 500 * time.Millisecond
	tcRecheckExtra  = 400 * time.Millisecond
	tcNever         = int64(math.MaxInt64)
)

var tcModes = []string{"timed", "canary", "busy", "sess-commit", "sess-abort", "close", "reopen", "contend", "fault"}

type tcParams struct {
	Mode   string
	File   bool
	IvMs   int    // ExpireInterval
	SoonMs int    // the "soon" documents become expired SoonMs after the insert phase started
	Field  string // name of the date field (TTL key in the TTL collections, plain field elsewhere)
	Bits   uint64 // remaining per-case choices (index-before-documents per collection, close early/late, ...)
	Rep    string // mode fault: the kind of Options.ExpireErrors callback ("" = from Bits)
}

func (p tcParams) String() string {
	store := "mem"
	if p.File {
		store = "file"
	}
	return fmt.Sprintf("ttlclock mode=%s store=%s interval=%dms soon=%dms field=%s bits=%x", p.Mode, store, p.IvMs, p.SoonMs, p.Field, p.Bits)
}

func tcGenParams(r *gen.R, mode string, file bool) tcParams {
	return tcParams{Mode: mode, File: file, IvMs: 20 + r.N(41), SoonMs: 600 + r.N(200), Field: r.Pick([]string{"exp", "at", "expireAt"}), Bits: r.U64()}
}

type tcTTL struct {
	field string
	secs  int32
}

type tcColl struct {
	h       lungo.Handle
	ttls    []tcTTL
	plain   []string // ordinary single-field indexes
	unique  string   // unique index on this field
	partial string   // partial index on this field, filter {field: {$gt: 0}}
	ixFirst bool     // indexes are created before the documents are inserted
	dropTTL bool     // the TTL index is dropped again before the "soon" documents expire
	dropped int64    // ms at which the drop returned
}

type tcDoc struct {
	h        lungo.Handle
	id       string
	doc      bson.D
	kind     string
	x        int64 // expiry moment in ms (tcNever: immune)
	hasDate  bool  // some TTL field of the collection holds a date leaf in this document
	ttlColl  bool  // the collection has a TTL index
	ready    int64 // ms since which document and TTL index both exist
	readySeq int   // number of Store calls of the current engine completed when document and TTL index both existed
	explicit bool  // deleted by the scenario itself (expected: exactly one delete event)
	dontCare bool  // no verdict (e.g. the TTL index was dropped too close to the cutoff)
	soon     bool
	client   bool // inserted by an acknowledged client write during the case (see ttlclock_clients.go)
}

type tcScn struct {
	p      tcParams
	store  *tcStore
	client lungo.IClient
	engine *lungo.Engine
	ivl    time.Duration
	base   time.Time

	mu          sync.Mutex
	docs        []*tcDoc
	colls       []*tcColl
	viols       []run.Violation
	reported    map[string]bool
	perWitness  map[string]int
	tags        []string
	blockEnd    int64 // ms: end of the last window in which a session held the write token
	stallEnd    int64 // ms: end of the last scheduling stall seen by the heartbeat goroutine
	stalls      int
	medGroupLat int64 // median over the groups of "soon" documents of the removal latency (ms), -1: none
	latGroups   int
	errs        int // errors reported through Options.ExpireErrors
	errText     string
	seq         int

	counters  []tcCounterSpec // shared counters of the client writers
	faults    int             // injected store failures that fired (mode fault)
	faultAt   int64           // ms
	reporter  string          // mode fault: "nil" | "fast" | "slow" (sleeps two intervals and reads the catalog)
	faultErrs int             // injected failures that reached Options.ExpireErrors
	ops       []*tcOp         // client operations (ttlclock_clients.go)
}

func tcMs(t time.Time) int64 { return t.UnixMilli() }

// tcStore wraps the store and records slow Store calls: a commit that sits in fsync for hundreds of
// milliseconds on a loaded disk holds the engine lock and legitimately delays the next expiry pass, so its
// end counts like the end of a blocking session in the must-be-gone rule.
//
// It also keeps the commit log (end time and oplog length of every Store call), which identifies the expiry
// passes exactly: the events oplog[len(k−1):len(k)] were committed by call k, and the transaction of call k
// began after call k−1 had returned (the write token is released after the store call).
type tcStore struct {
	inner    lungo.Store
	mu       sync.Mutex
	slowEnd  int64 // ms: end of the last Store call that took more than 25 ms
	slow     int
	calls    int
	openedAt int64 // ms, taken before the engine was created
	baseLen  int   // oplog length of the loaded catalog
	log      []tcCommit
	shrunk   bool // the oplog got shorter (retention): event indexes are not stable, no pass audit

	failIn         int // fault injection (mode fault): the failIn-th call from now fails
	failAfterWrite bool
	onFault        func(end time.Time)
}

type tcCommit struct {
	end      int64
	oplogLen int
}

func tcOplogLen(c *lungo.Catalog) int {
	if c == nil {
		return 0
	}
	if ns := c.Namespaces[lungo.Oplog]; ns != nil {
		return len(ns.Documents.List)
	}
	return 0
}

func (t *tcStore) Load() (*lungo.Catalog, error) {
	c, err := t.inner.Load()
	t.mu.Lock()
	t.baseLen = tcOplogLen(c)
	t.mu.Unlock()
	return c, err
}

func (t *tcStore) count() int {
	t.mu.Lock()
	defer t.mu.Unlock()
	return t.calls
}

// errTcFault is the injected store failure of mode fault.
var errTcFault = errors.New("injected store failure")

// arm makes the k-th Store call from now on fail, once (afterWrite: the inner store is written first and the
// failure is only reported — the engine must not care). A failed call is not part of the commit log.
func (t *tcStore) arm(k int, afterWrite bool, onFault func(end time.Time)) {
	t.mu.Lock()
	t.failIn, t.failAfterWrite, t.onFault = k, afterWrite, onFault
	t.mu.Unlock()
}

func (t *tcStore) Store(c *lungo.Catalog) error {
	t.mu.Lock()
	fail := false
	if t.failIn > 0 {
		t.failIn--
		fail = t.failIn == 0
	}
	afterWrite, onFault := t.failAfterWrite, t.onFault
	t.mu.Unlock()
	if fail {
		if afterWrite {
			_ = t.inner.Store(c)
		}
		if onFault != nil {
			onFault(time.Now())
		}
		return errTcFault
	}
	start := time.Now()
	err := t.inner.Store(c)
	end := time.Now()
	n := tcOplogLen(c)
	t.mu.Lock()
	t.calls++
	prev := t.baseLen
	if len(t.log) > 0 {
		prev = t.log[len(t.log)-1].oplogLen
	}
	if n < prev {
		t.shrunk = true
	}
	t.log = append(t.log, tcCommit{end: tcMs(end), oplogLen: n})
	if end.Sub(start) > 25*time.Millisecond {
		t.slow++
		t.slowEnd = tcMs(end)
	}
	t.mu.Unlock()
	return err
}

func (t *tcStore) lastSlow() int64 {
	t.mu.Lock()
	defer t.mu.Unlock()
	return t.slowEnd
}

func (s *tcScn) viol(witness, what, detail string) { s.violP("C19", witness, what, detail) }

// violP reports a violation of the given property (C19: the expiry itself; C04: acknowledged client writes
// that compete with the expiry goroutine).
func (s *tcScn) violP(prop, witness, what, detail string) {
	s.mu.Lock()
	defer s.mu.Unlock()
	key := witness + "\x00" + detail
	if len(detail) > 80 {
		key = witness + "\x00" + detail[:80]
	}
	if s.reported[key] {
		return
	}
	s.reported[key] = true
	// at most three violations per witness class and case (a broken expiry hits every document)
	if s.perWitness[witness]++; s.perWitness[witness] > 3 {
		return
	}
	s.tags = append(s.tags, "VIOLATION:"+witness)
	if prop != "C19" {
		s.tags = append(s.tags, "VIOLATION/"+prop+"/"+s.p.Mode+":"+witness)
	}
	s.viols = append(s.viols, run.Violation{Property: prop, What: what, Witness: witness, Req: s.p.String(), Detail: clip(detail, 1500)})
}

func (s *tcScn) tag(t string) {
	s.mu.Lock()
	s.tags = append(s.tags, t)
	s.mu.Unlock()
}

func (s *tcScn) bit(i uint) bool { return s.p.Bits>>(i%64)&1 == 1 }

// ---- the value table --------------------------------------------------------------------------------

type tcVal struct {
	kind string
	v    interface{}
	omit bool
	soon bool
}

func tcDT(t time.Time) primitive.DateTime { return primitive.NewDateTimeFromTime(t) }

// tcValues: the values put under a TTL field with expireAfterSeconds = secs. cut = base − secs is the date
// that is exactly at the cutoff when the insert phase starts.
func tcValues(base time.Time, secs int32, soon time.Duration) []tcVal {
	cut := base.Add(-time.Duration(secs) * time.Second)
	old := tcDT(cut.Add(-5 * time.Second))
	far := tcDT(base.Add(1000 * time.Hour))
	sn := tcDT(cut.Add(soon))
	return []tcVal{
		{kind: "old", v: old},
		{kind: "justold", v: tcDT(cut.Add(-30 * time.Millisecond))},
		{kind: "ancient", v: primitive.DateTime(-1000000000000)},
		{kind: "epoch", v: primitive.DateTime(0)},
		{kind: "soon", v: sn, soon: true},
		{kind: "soonb", v: tcDT(cut.Add(soon - 120*time.Millisecond)), soon: true},
		{kind: "later", v: tcDT(cut.Add(8 * time.Second))},
		{kind: "far", v: far},
		{kind: "int64", v: int64(old)},
		{kind: "int32", v: int32(5)},
		{kind: "double", v: float64(old)},
		{kind: "string", v: "2001-01-01T00:00:00Z"},
		{kind: "null", v: nil},
		{kind: "missing", omit: true},
		{kind: "bool", v: true},
		{kind: "oid", v: primitive.NewObjectIDFromTimestamp(time.Unix(1000000000, 0))},
		{kind: "timestamp", v: primitive.Timestamp{T: 1, I: 1}},
		{kind: "subdoc", v: bson.D{{Key: "x", Value: old}}},
		{kind: "arr-old", v: bson.A{"x", old, int32(3)}},
		{kind: "arr-none", v: bson.A{"x", int32(3), nil, int64(old)}},
		{kind: "arr-far", v: bson.A{far, "x"}},
		{kind: "arr-mix", v: bson.A{far, old}},
		{kind: "arr-soon", v: bson.A{sn, "s", far}, soon: true},
		{kind: "arr-empty", v: bson.A{}},
	}
}

func (s *tcScn) newID(kind string) string {
	s.seq++
	return kind + "#" + strconv.Itoa(s.seq)
}

// tcExpiry is the oracle: the moment (ms) from which the document is expired, over the TTL indexes.
func tcExpiry(doc bson.D, ttls []tcTTL) (x int64, hasDate bool) {
	x = tcNever
	for _, t := range ttls {
		var leafs []interface{}
		ttlLeafs(doc, strings.Split(t.field, "."), &leafs)
		for _, l := range leafs {
			if dt, ok := l.(primitive.DateTime); ok {
				hasDate = true
				if m := int64(dt) + int64(t.secs)*1000; m < x {
					x = m
				}
			}
		}
	}
	return
}

func (s *tcScn) track(c *tcColl, kind string, doc bson.D, soon bool) *tcDoc {
	x, hasDate := tcExpiry(doc, c.ttls)
	d := &tcDoc{h: c.h, id: doc[0].Value.(string), doc: doc, kind: kind, x: x, hasDate: hasDate, ttlColl: len(c.ttls) > 0, soon: soon && x != tcNever}
	s.mu.Lock()
	s.docs = append(s.docs, d)
	s.mu.Unlock()
	return d
}

// buildLayout creates the collection descriptions (first call) and the documents of one insert round (not
// yet inserted), with dates relative to s.base: round A (soonRound false) everything but the "soon"
// documents, round B only the "soon" documents — so that their freshness window does not depend on how long
// round A (index builds, fsyncs on a loaded machine) took.
func (s *tcScn) buildLayout(soonRound bool) map[*tcColl][]*tcDoc {
	f := s.p.Field
	soon := time.Duration(s.p.SoonMs) * time.Millisecond
	out := map[*tcColl][]*tcDoc{}
	add := func(c *tcColl) *tcColl {
		for _, have := range s.colls {
			if have.h == c.h {
				return have
			}
		}
		c.ixFirst = s.bit(uint(len(s.colls)))
		s.colls = append(s.colls, c)
		return c
	}
	// full value table under field fld (possibly dotted: one level of nesting) for expireAfterSeconds secs
	table := func(c *tcColl, fld string, secs int32, extra func(i int) bson.D) {
		for i, v := range tcValues(s.base, secs, soon) {
			if v.soon != soonRound {
				continue
			}
			if c.dropTTL && (v.kind == "old" || v.kind == "justold" || v.kind == "ancient" || v.kind == "epoch" || strings.HasPrefix(v.kind, "arr-old") || v.kind == "arr-mix") {
				continue // would legitimately expire before the index is dropped
			}
			doc := bson.D{{Key: "_id", Value: s.newID(v.kind)}}
			if !v.omit {
				if segs := strings.Split(fld, "."); len(segs) == 2 {
					doc = append(doc, bson.E{Key: segs[0], Value: bson.D{{Key: segs[1], Value: v.v}}})
				} else {
					doc = append(doc, bson.E{Key: fld, Value: v.v})
				}
			}
			if extra != nil {
				doc = append(doc, extra(i)...)
			}
			out[c] = append(out[c], s.track(c, v.kind, doc, v.soon))
		}
	}
	h := func(db, coll string) lungo.Handle { return lungo.Handle{db, coll} }

	c := add(&tcColl{h: h("ta", "e1"), ttls: []tcTTL{{f, 1}}})
	table(c, f, 1, nil)
	if !soonRound {
		// shared counters for the client writers (never expire): in TTL collections with a far-future date, a
		// non-date and no TTL field, and in collections without TTL index
		for i, cc := range []struct {
			h lungo.Handle
			v interface{}
		}{{h("ta", "e1"), tcDT(s.base.Add(1000 * time.Hour))}, {h("tb", "plain"), "not a date"}, {h("ta", "e0"), nil}, {h("ta", "plain"), tcDT(s.base.Add(-time.Hour))}, {h("tc", "w"), tcDT(s.base.Add(-time.Hour))}} {
			doc := bson.D{{Key: "_id", Value: "ctr#" + strconv.Itoa(i)}}
			if cc.v != nil {
				doc = append(doc, bson.E{Key: f, Value: cc.v})
			}
			doc = append(doc, bson.E{Key: "cnt", Value: int32(0)}, bson.E{Key: "last", Value: ""}, bson.E{Key: "u", Value: int32(9000 + i)})
			s.counters = append(s.counters, tcCounterSpec{h: cc.h, doc: doc})
		}
	}
	if soonRound {
		// the very last document to expire, alone (more than one interval after all the others): a pass
		// that removes exactly one document
		doc := bson.D{{Key: "_id", Value: s.newID("soon-last")}, {Key: f, Value: tcDT(s.base.Add(-time.Second + soon + 100*time.Millisecond))}}
		out[c] = append(out[c], s.track(c, "soon-last", doc, true))
	}

	c = add(&tcColl{h: h("ta", "e2x"), ttls: []tcTTL{{f, 2}}, plain: []string{"k"}, unique: "u", partial: "p"})
	table(c, f, 2, func(i int) bson.D {
		return bson.D{{Key: "k", Value: int32(i % 3)}, {Key: "u", Value: int32(i)}, {Key: "p", Value: int32(i%4 - 1)}}
	})

	c = add(&tcColl{h: h("ta", "e0"), ttls: []tcTTL{{f, 0}}})
	table(c, f, 0, nil)

	// two TTL indexes
	c = add(&tcColl{h: h("ta", "two"), ttls: []tcTTL{{f, 1}, {f + "2", 2}}})
	{
		v1, v2 := tcValues(s.base, 1, soon), tcValues(s.base, 2, soon)
		get := func(vs []tcVal, kind string) tcVal {
			for _, v := range vs {
				if v.kind == kind {
					return v
				}
			}
			panic("no kind " + kind)
		}
		for _, pr := range [][2]string{{"far", "old"}, {"old", "far"}, {"old", "old"}, {"far", "string"}, {"soon", "later"}, {"later", "soon"}, {"int64", "null"},
			{"missing", "missing"}, {"far", "far"}, {"arr-old", "arr-far"}, {"arr-none", "arr-soon"}, {"missing", "old"}, {"string", "missing"}} {
			a, b := get(v1, pr[0]), get(v2, pr[1])
			if (a.soon || b.soon) != soonRound {
				continue
			}
			doc := bson.D{{Key: "_id", Value: s.newID(pr[0] + "+" + pr[1])}}
			if !a.omit {
				doc = append(doc, bson.E{Key: f, Value: a.v})
			}
			if !b.omit {
				doc = append(doc, bson.E{Key: f + "2", Value: b.v})
			}
			out[c] = append(out[c], s.track(c, pr[0]+"+"+pr[1], doc, a.soon || b.soon))
		}
	}

	// TTL on a dotted path, plus arrays of sub-documents (no array directly inside an array)
	c = add(&tcColl{h: h("ta", "sub"), ttls: []tcTTL{{"m." + f, 1}}})
	table(c, "m."+f, 1, nil)
	{
		cut := s.base.Add(-time.Second)
		old, far, sn := tcDT(cut.Add(-5*time.Second)), tcDT(s.base.Add(1000*time.Hour)), tcDT(cut.Add(soon))
		sub := func(v interface{}) bson.D { return bson.D{{Key: f, Value: v}} }
		for _, e := range []struct {
			kind string
			m    interface{}
			soon bool
		}{
			{"subs-old", bson.A{sub(old), sub("x")}, false},
			{"subs-far", bson.A{sub("x"), sub(far)}, false},
			{"subs-soon", bson.A{sub(sn), sub(int32(5))}, true},
			{"subs-none", bson.A{sub("x"), sub(int64(old)), bson.D{{Key: "other", Value: old}}}, false},
			{"m-string", "str", false},
			{"m-date", old, false}, // the date sits at m, not at m.<field>
			{"m-other", bson.D{{Key: "other", Value: old}}, false},
		} {
			if e.soon != soonRound {
				continue
			}
			doc := bson.D{{Key: "_id", Value: s.newID(e.kind)}, {Key: "m", Value: e.m}}
			out[c] = append(out[c], s.track(c, e.kind, doc, e.soon))
		}
	}

	// TTL index that is dropped again: the collection becomes immune
	c = add(&tcColl{h: h("ta", "drop"), ttls: []tcTTL{{f, 1}}, dropTTL: true})
	table(c, f, 1, nil)

	// no TTL index, same-named date fields (ordinary index on the date field / no index at all)
	c = add(&tcColl{h: h("ta", "plain"), plain: []string{f}})
	table(c, f, 1, nil)
	c = add(&tcColl{h: h("ta", "noidx")})
	table(c, f, 0, nil)

	// second database: the same collection names with swapped roles
	c = add(&tcColl{h: h("tb", "e1"), plain: []string{f}, unique: "u"})
	table(c, f, 1, func(i int) bson.D { return bson.D{{Key: "u", Value: int32(i)}} })
	c = add(&tcColl{h: h("tb", "plain"), ttls: []tcTTL{{f, 1}}})
	table(c, f, 1, nil)
	c = add(&tcColl{h: h("tb", "e0"), ttls: []tcTTL{{f, 0}}, unique: "u"})
	table(c, f, 0, func(i int) bson.D { return bson.D{{Key: "u", Value: int32(i)}} })

	// third database: target of the unrelated writes
	c = add(&tcColl{h: h("tc", "w"), plain: []string{"n"}})
	table(c, f, 1, nil)

	// the counters go into their collections with round A
	for _, cs := range s.counters {
		if soonRound {
			break
		}
		for _, cl := range s.colls {
			if cl.h == cs.h {
				out[cl] = append(out[cl], s.track(cl, "counter", cs.doc, false))
			}
		}
	}
	// mode contend: more groups of documents that expire during the case (every 100 ms a pass really deletes)
	if soonRound && (s.p.Mode == "contend" || s.p.Mode == "fault") {
		for _, cl := range s.colls {
			if len(cl.ttls) != 1 || cl.dropTTL || strings.Contains(cl.ttls[0].field, ".") || cl.unique != "" {
				continue
			}
			cut := s.base.Add(-time.Duration(cl.ttls[0].secs) * time.Second)
			for g, off := range []time.Duration{400, 300, 200} {
				doc := bson.D{{Key: "_id", Value: s.newID("soon-g" + strconv.Itoa(g))}, {Key: f, Value: tcDT(cut.Add(soon - off*time.Millisecond))}}
				out[cl] = append(out[cl], s.track(cl, "soon-g"+strconv.Itoa(g), doc, true))
			}
		}
	}
	return out
}

func (s *tcScn) coll(h lungo.Handle) lungo.ICollection {
	return s.client.Database(h[0]).Collection(h[1])
}

func (s *tcScn) createIndexes(ctx context.Context, c *tcColl) error {
	ix := s.coll(c.h).Indexes()
	for _, t := range c.ttls {
		if _, err := ix.CreateOne(ctx, mongo.IndexModel{Keys: bson.D{{Key: t.field, Value: int32(1)}}, Options: options.Index().SetExpireAfterSeconds(t.secs)}); err != nil {
			return err
		}
	}
	for _, f := range c.plain {
		if _, err := ix.CreateOne(ctx, mongo.IndexModel{Keys: bson.D{{Key: f, Value: int32(1)}}}); err != nil {
			return err
		}
	}
	if c.unique != "" {
		if _, err := ix.CreateOne(ctx, mongo.IndexModel{Keys: bson.D{{Key: c.unique, Value: int32(-1)}}, Options: options.Index().SetUnique(true)}); err != nil {
			return err
		}
	}
	if c.partial != "" {
		if _, err := ix.CreateOne(ctx, mongo.IndexModel{Keys: bson.D{{Key: c.partial, Value: int32(1)}, {Key: "k", Value: int32(1)}},
			Options: options.Index().SetPartialFilterExpression(bson.D{{Key: c.partial, Value: bson.D{{Key: "$gt", Value: int32(0)}}}})}); err != nil {
			return err
		}
	}
	return nil
}

func (s *tcScn) dropTTLIndex(ctx context.Context, c *tcColl) error {
	_, err := s.coll(c.h).Indexes().DropOne(ctx, c.ttls[0].field+"_1")
	if err != nil {
		return err
	}
	now := tcMs(time.Now())
	s.mu.Lock()
	defer s.mu.Unlock()
	c.dropped = now
	for _, d := range s.docs {
		if d.h != c.h {
			continue
		}
		if d.x != tcNever && now >= d.x-int64(tcFreshMargin/time.Millisecond) {
			d.dontCare = true // the index lived (almost) until the cutoff: no verdict
		}
		d.x, d.soon, d.ttlColl = tcNever, false, false
	}
	return nil
}

// insertAll runs the insert phase on the current engine.
func (s *tcScn) insertAll(ctx context.Context) error {
	s.base = time.Now()
	layout := s.buildLayout(false)
	for _, c := range s.colls {
		if c.ixFirst {
			if err := s.createIndexes(ctx, c); err != nil {
				return fmt.Errorf("create indexes on %v: %w", c.h, err)
			}
		}
		var docs []interface{}
		for _, d := range layout[c] {
			docs = append(docs, d.doc)
		}
		if _, err := s.coll(c.h).InsertMany(ctx, docs); err != nil {
			return fmt.Errorf("insert into %v: %w", c.h, err)
		}
		if !c.ixFirst {
			if err := s.createIndexes(ctx, c); err != nil {
				return fmt.Errorf("create indexes on %v: %w", c.h, err)
			}
		}
	}
	s.tag(fmt.Sprintf("insert-round-a/file=%v:", s.p.File) + tcBucket(int(time.Since(s.base)/time.Millisecond), 50, 150, 300) + "ms")
	// round B: the documents that expire during the case, dated relative to now
	s.base = time.Now()
	layout = s.buildLayout(true)
	for _, c := range s.colls {
		var docs []interface{}
		for _, d := range layout[c] {
			docs = append(docs, d.doc)
		}
		if len(docs) == 0 {
			continue
		}
		if _, err := s.coll(c.h).InsertMany(ctx, docs); err != nil {
			return fmt.Errorf("insert into %v: %w", c.h, err)
		}
	}
	s.tag(fmt.Sprintf("insert-round-b/file=%v:", s.p.File) + tcBucket(int(time.Since(s.base)/time.Millisecond), 50, 150, 300) + "ms")
	ready, seq := tcMs(time.Now()), s.store.count()
	s.mu.Lock()
	for _, d := range s.docs {
		d.ready, d.readySeq = ready, seq
	}
	s.mu.Unlock()
	return nil
}

// ---- snapshots and the oracle -----------------------------------------------------------------------

type tcSnap struct {
	deleted  map[lungo.Handle]map[string]int // delete events per document in the snapshot's change log
	inserted map[lungo.Handle]map[string]int // insert events
	t0, t1   int64
	slowEnd  int64
	cat      *lungo.Catalog
	present  map[lungo.Handle]map[string]bool
}

// tcWedged aborts a scenario whose engine does not answer any more.
type tcWedged struct{}

// catalog is Engine.Catalog() under a watchdog: an engine whose lock is held for good must not hang the harness.
func (s *tcScn) catalog() *lungo.Catalog {
	ch := make(chan *lungo.Catalog, 1)
	go func() { ch <- s.engine.Catalog() }()
	select {
	case c := <-ch:
		return c
	case <-time.After(5 * time.Second):
		s.viol("ttl-clock:engine-wedged", "Engine.Catalog() did not return within 5 s: the engine lock is held for good", "mode "+s.p.Mode+", reporter "+s.reporter)
		panic(tcWedged{})
	}
}

func (s *tcScn) snapshot() tcSnap {
	t0 := time.Now()
	cat := s.catalog()
	t1 := time.Now()
	sn := tcSnap{t0: tcMs(t0), t1: tcMs(t1) + 1, slowEnd: s.store.lastSlow(), cat: cat, present: map[lungo.Handle]map[string]bool{}}
	for h, ns := range cat.Namespaces {
		if h == lungo.Oplog {
			continue
		}
		m := map[string]bool{}
		for _, d := range ns.Documents.List {
			if id, ok := bsonkit.Get(d, "_id").(string); ok {
				m[id] = true
			}
		}
		sn.present[h] = m
	}
	sn.deleted, sn.inserted = map[lungo.Handle]map[string]int{}, map[lungo.Handle]map[string]int{}
	if ns := cat.Namespaces[lungo.Oplog]; ns != nil {
		for _, ev := range ns.Documents.List {
			op, _ := bsonkit.Get(ev, "operationType").(string)
			m := sn.deleted
			if op == "insert" {
				m = sn.inserted
			} else if op != "delete" {
				continue
			}
			db, _ := bsonkit.Get(ev, "ns.db").(string)
			coll, _ := bsonkit.Get(ev, "ns.coll").(string)
			id, _ := bsonkit.Get(ev, "documentKey._id").(string)
			h := lungo.Handle{db, coll}
			if m[h] == nil {
				m[h] = map[string]int{}
			}
			m[h][id]++
		}
	}
	return sn
}

// heartbeat is the control for the scheduler: a goroutine on a 10 ms ticker, i.e. exactly what the expiry
// goroutine is. When the machine is so loaded that this one is not run for more than 100 ms, the expiry
// goroutine may have been starved as well, and the end of the stall counts like the end of a blocking window.
func (s *tcScn) heartbeat(stop <-chan struct{}) {
	t := time.NewTicker(10 * time.Millisecond)
	defer t.Stop()
	last := time.Now()
	for {
		select {
		case <-stop:
			return
		case <-t.C:
		}
		now := time.Now()
		if now.Sub(last) > 100*time.Millisecond {
			s.mu.Lock()
			s.stallEnd = tcMs(now)
			s.stalls++
			s.mu.Unlock()
		}
		last = now
	}
}

func (s *tcScn) slack() int64 {
	return int64((time.Duration(tcGoneIntervals)*s.ivl + tcGoneExtra) / time.Millisecond)
}

// judge applies the oracle to one snapshot: safety violations are reported at once, the must-be-gone
// documents that are still present are returned (the caller re-checks them later).
func (s *tcScn) judge(sn tcSnap, phase string) (kept []*tcDoc, soonFresh, soonBoundary int) {
	s.mu.Lock()
	docs := append([]*tcDoc(nil), s.docs...)
	blockEnd := max64(s.blockEnd, s.stallEnd)
	s.mu.Unlock()
	for _, d := range docs {
		if d.dontCare || d.explicit {
			continue
		}
		here := sn.present[d.h][d.id]
		where := fmt.Sprintf("%s: %s.%s %s kind=%s", phase, d.h[0], d.h[1], vj.Enc(d.doc), d.kind)
		if !here {
			fresh := d.x == tcNever || sn.t1 < d.x-int64(tcFreshMargin/time.Millisecond)
			if !fresh {
				continue
			}
			when := "never expires"
			if d.x != tcNever {
				when = fmt.Sprintf("expires %d ms after the snapshot", d.x-sn.t1)
			}
			switch {
			case sn.deleted[d.h][d.id] == 0 && sn.inserted[d.h][d.id] == 0 && s.p.Mode != "reopen":
				// the change log knows neither a delete nor the insert itself: not an expiry removal but a write
				// that was acknowledged and then overwritten by a writer that started from an older catalog
				// (mode reopen: the engine under test has no client writes and possibly an empty log)
				s.violP("C04", "ttl-clock:ack-lost", "an acknowledged insert is neither in the state nor in the change log any more", where+" ("+when+")")
			case !d.ttlColl:
				s.viol("ttl-clock:non-ttl-collection-touched", "a document of a collection without TTL index was removed by the periodic expiry", where)
			case !d.hasDate:
				s.viol("ttl-clock:non-date-removed", "a document whose TTL field holds no date was removed by the periodic expiry", where)
			default:
				s.viol("ttl-clock:removed-fresh", "a document was removed by the periodic expiry before its date + expireAfterSeconds had passed", where+" ("+when+")")
			}
			continue
		}
		// present
		if d.soon {
			if sn.t1 < d.x-int64(tcFreshMargin/time.Millisecond) {
				soonFresh++
			} else {
				soonBoundary++
			}
		}
		if d.x == tcNever {
			continue
		}
		from := d.x
		if d.ready > from {
			from = d.ready
		}
		if blockEnd > from {
			from = blockEnd
		}
		if sn.slowEnd > from {
			from = sn.slowEnd
		}
		if sn.t0 > from+s.slack() {
			kept = append(kept, d)
		}
	}
	return
}

// audit checks the oplog (exactly one delete event per removed document, none for the others; the
// events' wallTime against the oracle) and the coherence of all indexes, on one final catalog.
func (s *tcScn) audit(sn tcSnap) (maxLatency int64) {
	s.mu.Lock()
	docs := append([]*tcDoc(nil), s.docs...)
	blockEnd := s.blockEnd
	s.mu.Unlock()
	type key struct {
		h  lungo.Handle
		id string
	}
	deletes := map[key][]int64{}
	delIndex := map[key]int{} // oplog index of the (first) delete event
	var oplog bsonkit.List
	if ns := sn.cat.Namespaces[lungo.Oplog]; ns != nil {
		oplog = ns.Documents.List
	}
	for evIdx, ev := range oplog {
		if op, _ := bsonkit.Get(ev, "operationType").(string); op != "delete" {
			continue
		}
		db, _ := bsonkit.Get(ev, "ns.db").(string)
		coll, _ := bsonkit.Get(ev, "ns.coll").(string)
		id, ok := bsonkit.Get(ev, "documentKey._id").(string)
		if !ok {
			s.viol("ttl-clock:delete-events", "a delete event without a usable documentKey", vj.Enc(*ev))
			continue
		}
		w, _ := bsonkit.Get(ev, "wallTime").(primitive.DateTime)
		k := key{lungo.Handle{db, coll}, id}
		deletes[k] = append(deletes[k], int64(w))
		if _, seen := delIndex[k]; !seen {
			delIndex[k] = evIdx
		}
	}
	known := map[key]bool{}
	maxLatency = -1
	groupLat := map[int64]int64{} // expiry moment of a group of "soon" documents → best removal latency
	for _, d := range docs {
		k := key{d.h, d.id}
		known[k] = true
		here := sn.present[d.h][d.id]
		evs := deletes[k]
		where := fmt.Sprintf("%s.%s %s kind=%s: %d delete events", d.h[0], d.h[1], vj.Enc(d.doc), d.kind, len(evs))
		switch {
		case here && len(evs) != 0:
			s.viol("ttl-clock:delete-events", "a document that is still present has a delete event", where)
		case !here && len(evs) != 1:
			s.viol("ttl-clock:delete-events", "a removed document does not have exactly one delete event", where)
		}
		if d.explicit || d.dontCare {
			continue
		}
		for _, w := range evs {
			if w == 0 {
				continue
			}
			if d.x == tcNever || w < d.x-5 {
				// the event's own time stamp says the removal came before the document was expired
				wit := "ttl-clock:removed-fresh"
				if !d.ttlColl {
					wit = "ttl-clock:non-ttl-collection-touched"
				} else if !d.hasDate {
					wit = "ttl-clock:non-date-removed"
				}
				s.viol(wit, "the delete event of an expired document is stamped before date + expireAfterSeconds", fmt.Sprintf("%s; wallTime=%d expiry=%d", where, w, d.x))
			} else if d.soon {
				from := d.x
				if blockEnd > from {
					from = blockEnd
				}
				if l := w - from; l > maxLatency {
					maxLatency = l
				}
				if best, ok := groupLat[d.x]; !ok || w-d.x < best {
					groupLat[d.x] = w - d.x
				}
			}
		}
	}
	for k, evs := range deletes {
		if !known[k] {
			s.viol("ttl-clock:delete-events", "a delete event for a document the scenario never committed", fmt.Sprintf("%s.%s _id=%s: %d delete events", k.h[0], k.h[1], k.id, len(evs)))
		}
	}
	// pass audit (exact, no timing margins): a commit that carries expiry deletions was made by a pass whose
	// transaction began after the previous Store call had returned; every document that was expired by then
	// (and existed with its TTL index by then) must be removed by the same commit
	s.store.mu.Lock()
	log := append([]tcCommit(nil), s.store.log...)
	prevLen, prevEnd, shrunk := s.store.baseLen, s.store.openedAt, s.store.shrunk
	s.store.mu.Unlock()
	expiryDelete := map[int]bool{}
	for _, d := range docs {
		if i, ok := delIndex[key{d.h, d.id}]; ok && !d.explicit {
			expiryDelete[i] = true
		}
	}
	passes := 0
	for k, c := range log {
		if shrunk || c.oplogLen > len(oplog) {
			break
		}
		isPass := false
		for i := prevLen; i < c.oplogLen; i++ {
			if expiryDelete[i] {
				isPass = true
				break
			}
		}
		if isPass {
			passes++
			for _, d := range docs {
				if d.explicit || d.dontCare || !d.ttlColl || d.x == tcNever || d.readySeq > k || d.x+5 >= prevEnd {
					continue
				}
				if i, ok := delIndex[key{d.h, d.id}]; !ok || i >= c.oplogLen {
					s.viol("ttl-clock:pass-incomplete", "an expiry pass removed documents but left a document in place that was already expired when the pass began",
						fmt.Sprintf("%s.%s %s kind=%s: expired %d ms before the pass began, pass = Store call %d with events [%d,%d)", d.h[0], d.h[1], vj.Enc(d.doc), d.kind, prevEnd-d.x, k+1, prevLen, c.oplogLen))
				}
			}
		}
		prevLen, prevEnd = c.oplogLen, c.end
	}
	s.tag("dirty-passes:" + tcBucket(passes, 2, 4, 8))
	// the median of the groups' removal latencies
	s.medGroupLat, s.latGroups = -1, len(groupLat)
	if len(groupLat) > 0 {
		ls := make([]int64, 0, len(groupLat))
		for _, l := range groupLat {
			ls = append(ls, l)
		}
		sort.Slice(ls, func(i, j int) bool { return ls[i] < ls[j] })
		s.medGroupLat = ls[len(ls)/2]
	}

	// index coherence
	for _, h := range sortedHandles(sn.cat) {
		if h == lungo.Oplog {
			continue
		}
		ns := sn.cat.Namespaces[h]
		names := make([]string, 0, len(ns.Indexes))
		for n := range ns.Indexes {
			names = append(names, n)
		}
		sort.Strings(names)
		for _, n := range names {
			ix := ns.Indexes[n]
			cfg := ix.Config()
			want := 0
			for _, d := range ns.Documents.List {
				in := true
				if cfg.Partial != nil {
					in, _ = mongokit.Match(d, cfg.Partial)
				}
				if in {
					want++
					if has, _ := ix.Has(d); !has {
						s.viol("ttl-clock:index-incoherent", "a document is missing from an index after expiry passes", fmt.Sprintf("%s.%s index %s lacks %s", h[0], h[1], n, vj.Enc(*d)))
					}
				}
			}
			list := ix.List()
			for _, d := range list {
				if _, ok := ns.Documents.Index[d]; !ok {
					s.viol("ttl-clock:index-incoherent", "an index still holds a removed document", fmt.Sprintf("%s.%s index %s holds %s", h[0], h[1], n, vj.Enc(*d)))
				}
			}
			if len(list) != want {
				s.viol("ttl-clock:index-incoherent", "index size differs from the number of (matching) documents", fmt.Sprintf("%s.%s index %s: %d members, %d documents", h[0], h[1], n, len(list), want))
			}
		}
	}
	return
}

// waitGone polls (read-only) until none of the documents is present any more, or the limit passes.
func (s *tcScn) waitGone(ds []*tcDoc, limit time.Duration) bool {
	deadline := time.Now().Add(limit)
	for {
		cat := s.catalog()
		left := 0
		for _, d := range ds {
			if ns := cat.Namespaces[d.h]; ns != nil {
				for _, x := range ns.Documents.List {
					if id, _ := bsonkit.Get(x, "_id").(string); id == d.id {
						left++
						break
					}
				}
			}
		}
		if left == 0 {
			return true
		}
		if time.Now().After(deadline) {
			return false
		}
		time.Sleep(4 * time.Millisecond)
	}
}

func tcSleepUntil(ms int64) {
	if d := time.Until(time.UnixMilli(ms)); d > 0 {
		time.Sleep(d)
	}
}

// lastSoon is the latest expiry moment of the documents that expire during the case.
func (s *tcScn) lastSoon() int64 {
	s.mu.Lock()
	defer s.mu.Unlock()
	last := tcMs(s.base)
	for _, d := range s.docs {
		if d.soon && !d.dontCare && d.x != tcNever && d.x > last {
			last = d.x
		}
	}
	return last
}

func (s *tcScn) open(store lungo.Store, interval time.Duration) error {
	s.store = &tcStore{inner: store, openedAt: tcMs(time.Now())}
	reporter := func(err error) {
		s.mu.Lock()
		s.errs++
		if s.errText == "" {
			s.errText = err.Error()
		}
		injected := errors.Is(err, errTcFault)
		if injected {
			s.faultErrs++
		}
		slow := s.reporter == "slow"
		s.mu.Unlock()
		if injected && slow {
			// a reporter that takes its time and looks at the engine: it delays this one iteration (its end
			// counts as the end of the fault), it must not wedge the loop
			time.Sleep(2 * s.ivl)
			_ = s.engine.Catalog()
			now := tcMs(time.Now())
			s.mu.Lock()
			if now > s.blockEnd {
				s.blockEnd = now
			}
			s.mu.Unlock()
		}
	}
	if s.reporter == "nil" {
		reporter = nil
	}
	client, engine, err := lungo.Open(nil, lungo.Options{Store: s.store, ExpireInterval: interval, ExpireErrors: reporter})
	if err != nil {
		return err
	}
	s.client, s.engine = client, engine
	return nil
}

// closeEngine closes under a watchdog.
func (s *tcScn) closeEngine(e *lungo.Engine) bool {
	done := make(chan struct{})
	go func() {
		defer func() {
			if p := recover(); p != nil {
				s.viol("ttl-clock:panic", "Engine.Close panicked", fmt.Sprint(p))
			}
			close(done)
		}()
		e.Close()
	}()
	select {
	case <-done:
		return true
	case <-time.After(5 * time.Second):
		s.viol("ttl-clock:close-hang", "Engine.Close did not return within 5 s", "mode "+s.p.Mode)
		return false
	}
}

// ---- the scenario -----------------------------------------------------------------------------------

func ttlclockCase(p tcParams) (c run.Case) {
	s := &tcScn{p: p, ivl: time.Duration(p.IvMs) * time.Millisecond, reported: map[string]bool{}, perWitness: map[string]int{}, reporter: "fast"}
	if p.Mode == "fault" {
		s.reporter = []string{"nil", "fast", "slow"}[p.Bits>>48%3]
		if p.Rep != "" {
			s.reporter = p.Rep
		}
	}
	start := time.Now()
	summary := "incomplete"
	nontrivial := false
	defer func() {
		if pv := recover(); pv != nil {
			if _, wedged := pv.(tcWedged); !wedged {
				s.viol("ttl-clock:panic", "the scenario panicked", fmt.Sprint(pv)+"\n"+string(debug.Stack()))
			}
		}
		store := "mem"
		if p.File {
			store = "file"
		}
		s.mu.Lock()
		defer s.mu.Unlock()
		tags := append([]string{"mode:" + p.Mode, "store:" + store, "mode+store:" + p.Mode + "/" + store, "interval:" + tcBucket(p.IvMs, 20, 35, 50), "wall:" + tcWall(time.Since(start))}, s.tags...)
		if s.errs > 0 {
			tags = append(tags, "expire-errors-reported/"+p.Mode+"/"+s.errText)
		}
		if s.stalls > 0 {
			tags = append(tags, "scheduler-stalls-seen")
		}
		if s.store != nil && s.store.slow > 0 {
			tags = append(tags, "slow-store-calls")
		}
		if w := time.Since(start); w >= 2500*time.Millisecond {
			tags = append(tags, fmt.Sprintf("wall>=2.5s/%s/%s", p.Mode, store))
		}
		c = run.Case{Impl: p.String() + " => " + summary, Nontrivial: nontrivial, Tags: tags, Viols: s.viols}
	}()
	ctx := context.Background()
	stopBeat := make(chan struct{})
	defer close(stopBeat)
	go s.heartbeat(stopBeat)

	// store
	var store lungo.Store
	var reopenStore func() lungo.Store
	if p.File {
		// three of four file cases on tmpfs (fsync is free), the rest on the real disk of os.TempDir
		root := ""
		if st, err := os.Stat("/dev/shm"); err == nil && st.IsDir() && (!s.bit(51) || !s.bit(52)) {
			root = "/dev/shm"
		}
		if root == "" {
			s.tag("file:disk")
		} else {
			s.tag("file:tmpfs")
		}
		dir, err := os.MkdirTemp(root, "lungo-ttlclock-")
		if err != nil {
			s.viol("ttl-clock:setup-failed", "cannot create a temp dir", err.Error())
			return
		}
		defer os.RemoveAll(dir)
		path := filepath.Join(dir, "db.bson")
		store = lungo.NewFileStore(path, 0666)
		reopenStore = func() lungo.Store { return lungo.NewFileStore(path, 0666) }
	} else {
		ms := lungo.NewMemoryStore()
		store = ms
		reopenStore = func() lungo.Store { return ms }
	}

	// phase 1: insert
	if p.Mode == "reopen" {
		// an earlier engine (expiry practically off) writes the data; the engine under test only loads it
		if err := s.open(store, time.Hour); err != nil {
			s.viol("ttl-clock:setup-failed", "cannot open the engine", err.Error())
			return
		}
	} else if err := s.open(store, s.ivl); err != nil {
		s.viol("ttl-clock:setup-failed", "cannot open the engine", err.Error())
		return
	}
	closed := false
	defer func() {
		if !closed {
			s.closeEngine(s.engine)
		}
	}()
	if err := s.insertAll(ctx); err != nil {
		s.viol("ttl-clock:setup-failed", "the insert phase failed", err.Error())
		return
	}
	var dropColl *tcColl
	for _, cl := range s.colls {
		if cl.dropTTL {
			dropColl = cl
		}
	}
	dropInPhase2 := p.Mode == "canary" || p.Mode == "busy"
	if !dropInPhase2 {
		if err := s.dropTTLIndex(ctx, dropColl); err != nil {
			s.viol("ttl-clock:setup-failed", "dropping the TTL index failed", err.Error())
			return
		}
	}
	if p.Mode == "reopen" {
		if !s.closeEngine(s.engine) {
			closed = true
			return
		}
		if err := s.open(reopenStore(), s.ivl); err != nil {
			closed = true
			s.viol("ttl-clock:setup-failed", "cannot reopen the engine", err.Error())
			return
		}
		ready := tcMs(time.Now())
		s.mu.Lock()
		for _, d := range s.docs {
			d.ready, d.readySeq = ready, 0
		}
		s.mu.Unlock()
	}

	// phase 2: expiry passes run while the "soon" documents are fresh
	var olds []*tcDoc
	for _, d := range s.docs {
		if d.kind == "old" && d.x != tcNever {
			olds = append(olds, d)
		}
	}
	passes := "timed"
	if p.Mode == "canary" || p.Mode == "busy" {
		limit := time.Duration(tcGoneIntervals)*s.ivl + tcGoneExtra
		if s.waitGone(olds, limit) {
			// second generation: an expired document inserted now can only be removed by a LATER pass
			var second []*tcDoc
			for _, cl := range s.colls {
				if len(cl.ttls) == 0 || cl.dropTTL || strings.Contains(cl.ttls[0].field, ".") {
					continue
				}
				doc := bson.D{{Key: "_id", Value: s.newID("canary")}, {Key: cl.ttls[0].field, Value: tcDT(s.base.Add(-time.Hour))}, {Key: "u", Value: int32(1000)}}
				d := s.track(cl, "canary", doc, false)
				if _, err := s.coll(cl.h).InsertOne(ctx, doc); err != nil {
					s.viol("ttl-clock:setup-failed", "canary insert failed", err.Error())
					return
				}
				d.ready, d.readySeq = tcMs(time.Now()), s.store.count()
				second = append(second, d)
			}
			if s.waitGone(second, limit) {
				passes = "two-witnessed"
			} else {
				passes = "one-witnessed"
			}
		} else {
			passes = "none-witnessed"
		}
		if err := s.dropTTLIndex(ctx, dropColl); err != nil {
			s.viol("ttl-clock:setup-failed", "dropping the TTL index failed", err.Error())
			return
		}
	} else if p.Mode != "contend" {
		time.Sleep(3*s.ivl + 60*time.Millisecond)
	}
	s.tag("passes:" + passes)
	sn2 := s.snapshot()
	_, fresh2, boundary2 := s.judge(sn2, "phase 2")
	oldGone2 := 0
	for _, d := range olds {
		if !sn2.present[d.h][d.id] {
			oldGone2++
		}
	}
	s.tag("p2-at:" + tcBucket(int(sn2.t1-tcMs(s.base)), 150, 300, 500) + "ms")
	switch {
	case fresh2 > 0 && boundary2 == 0:
		s.tag("p2:all-soon-fresh")
	case fresh2 > 0:
		s.tag("p2:some-soon-boundary")
		s.tag("p2:some-soon-boundary/" + p.Mode)
	default:
		s.tag("p2:all-soon-boundary")
		s.tag("p2:all-soon-boundary/" + p.Mode)
	}

	// phase 3
	last := s.lastSoon()
	deadline := last + s.slack() + 30
	var busyWrites int
	switch p.Mode {
	case "timed", "canary", "reopen":
		tcSleepUntil(deadline) // completely idle: not a single call into the engine
	case "fault":
		// completely idle as well; exactly one Store call — the commit of the k-th pass from now that removes
		// something — fails; the documents of that pass and of the later groups must still go
		k := 1 + int(p.Bits>>44%4)
		s.store.arm(k, s.bit(53), func(end time.Time) {
			s.mu.Lock()
			s.faults++
			s.faultAt = tcMs(end)
			if s.faultAt > s.blockEnd {
				s.blockEnd = s.faultAt
			}
			s.mu.Unlock()
		})
		s.tag("fault:pass-" + strconv.Itoa(k) + "/reporter-" + s.reporter)
		tcSleepUntil(deadline)
		s.mu.Lock()
		deadline = max64(s.blockEnd, last) + s.slack() + 30
		s.mu.Unlock()
		tcSleepUntil(deadline)
		s.mu.Lock()
		fired, faultAt, reported := s.faults, s.faultAt, s.faultErrs
		s.mu.Unlock()
		switch {
		case fired == 0:
			s.tag("fault:not-fired")
		case faultAt <= last:
			s.tag("fault:before-the-last-group")
		default:
			s.tag("fault:at-the-last-group")
		}
		if fired > 0 && s.reporter != "nil" {
			if reported > 0 {
				s.tag("fault:reported")
			} else {
				s.tag("fault:NOT-reported")
			}
		}
	case "busy":
		// one client writer with acknowledged plain writes on the TTL collections themselves, next to the
		// unrelated writes
		join := s.startClients(ctx, tcClientSpec{plain: 1, until: last + 120})
		busyWrites = s.busyUntil(ctx, deadline)
		join()
		s.tag("busy-writes:" + tcBucket(busyWrites, 20, 60, 150))
	case "sess-commit", "sess-abort":
		holdEnd := last + 80 + int64(p.Bits>>40%200)
		// plain writes queue up behind the session's token hold (they start 30 ms after it)
		join := s.startClients(ctx, tcClientSpec{plain: 2, delay: 30 * time.Millisecond, until: holdEnd + 60})
		err := s.session(ctx, p.Mode == "sess-commit", holdEnd)
		join()
		if err != nil {
			s.viol("ttl-clock:setup-failed", "the session transaction failed", err.Error())
			return
		}
		s.mu.Lock()
		deadline = s.blockEnd + s.slack() + 30
		s.mu.Unlock()
		tcSleepUntil(deadline)
	case "contend":
		// the expiry goroutine as one writer among many: a holder keeps session transactions open for 100..800 ms
		// across the expiry moments, three plain writers queue up behind it, every 100 ms documents expire
		join := s.startClients(ctx, tcClientSpec{plain: 3, holder: true, until: last + 100})
		join()
		s.mu.Lock()
		deadline = max64(s.blockEnd, last) + s.slack() + 30
		s.mu.Unlock()
		tcSleepUntil(deadline)
	case "close":
		early := s.bit(50)
		if early {
			s.tag("close:before-cutoff")
			tcSleepUntil(tcMs(s.base) + (last-tcMs(s.base))/2)
		} else {
			s.tag("close:after-cutoff")
			tcSleepUntil(deadline)
			s.finalCheck("phase 4")
		}
		ok := s.closeEngine(s.engine)
		closed = true
		if !ok {
			return
		}
		a := s.snapshot()
		tcSleepUntil(max64(last, a.t1) + int64(6*s.ivl/time.Millisecond) + 100)
		b := s.snapshot()
		if a.cat != b.cat {
			s.viol("ttl-clock:active-after-close", "the catalog changed after Engine.Close returned", fmt.Sprintf("%d namespaces", len(b.cat.Namespaces)))
		}
		s.judge(b, "after close")
		lat := s.audit(b)
		gone := 0
		for _, d := range s.docs {
			if !b.present[d.h][d.id] {
				gone++
			}
		}
		summary = fmt.Sprintf("docs=%d removed=%d closed", len(s.docs), gone)
		nontrivial = oldGone2 == len(olds) && fresh2 > 0
		_ = lat
		return
	}

	// phase 4
	removedSoon, total, gone, lat := s.finalCheck("phase 4")
	if lat >= 0 {
		iv := int64(p.IvMs)
		switch {
		case lat <= iv:
			s.tag("latency:<=1-interval")
		case lat <= 3*iv:
			s.tag("latency:<=3-intervals")
		case lat <= 10*iv:
			s.tag("latency:<=10-intervals")
		default:
			s.tag("latency:>10-intervals")
			s.tag(fmt.Sprintf("latency:>10-intervals/%s/file=%v/iv=%d/lat=%dms", p.Mode, p.File, p.IvMs, lat))
		}
	}
	// the ExpireInterval itself, as a distribution tag: the "soon" documents expire at three moments spread over
	// 220 ms; median of the three removal latencies (normally at most 1 interval + 25 ms)
	if (p.Mode == "timed" || p.Mode == "canary" || p.Mode == "reopen" || p.Mode == "busy") && s.latGroups >= 3 && s.medGroupLat >= 0 {
		quiet := s.stalls == 0 && s.store.slow == 0
		late := s.medGroupLat > 3*int64(p.IvMs)+200
		switch {
		case late && quiet:
			s.tag("median-latency:late/quiet")
			// TAG ONLY: under a load average above 30 one case in about 3000 showed a median of 328 ms at an interval
			// of 40 ms although the control goroutine saw no stall above 100 ms and no store call above 25 ms —
			// a latency bound tighter than the must-be-gone rule cannot be made safe on a loaded machine
			s.tag(fmt.Sprintf("median-latency:late/quiet/%s/file=%v/iv=%d/median=%dms", p.Mode, p.File, p.IvMs, s.medGroupLat))
		case late:
			s.tag("median-latency:late/stalls-seen")
		case s.medGroupLat > int64(p.IvMs)+50:
			s.tag("median-latency:>1-interval+50ms")
		default:
			s.tag("median-latency:<=1-interval+50ms")
		}
	}
	summary = fmt.Sprintf("docs=%d removed=%d soon-removed=%d", total, gone, removedSoon)
	nontrivial = fresh2 > 0 && removedSoon > 0 && gone < total
	return
}

func max64(a, b int64) int64 {
	if a > b {
		return a
	}
	return b
}

// finalCheck: oracle on a snapshot, re-check of the still-present expired documents after an extra wait,
// then the oplog / index audit on the last snapshot.
func (s *tcScn) finalCheck(phase string) (removedSoon, total, gone int, latency int64) {
	sn := s.snapshot()
	kept, _, _ := s.judge(sn, phase)
	if len(kept) > 0 {
		s.tag("recheck")
		time.Sleep(time.Duration(tcGoneIntervals)*s.ivl + tcRecheckExtra)
		sn = s.snapshot()
		kept, _, _ = s.judge(sn, phase+" (re-check)")
		for _, d := range kept {
			from := max64(max64(d.x, d.ready), max64(max64(s.blockEnd, s.stallEnd), sn.slowEnd))
			wit, what := "ttl-clock:kept-expired", "an expired document is still present on an idle database long after expiry + ExpireInterval"
			if s.p.Mode == "fault" {
				wit, what = "ttl-clock:stalled-after-fault", "an expired document is still present long after the one failed commit of an expiry pass"
			}
			if strings.HasPrefix(s.p.Mode, "sess-") {
				wit, what = "ttl-clock:stalled-after-session", "an expired document is still present long after the session transaction that blocked the expiry ended"
			}
			s.viol(wit, what, fmt.Sprintf("%s.%s %s kind=%s: expired for %d ms (interval %d ms), expiry errors reported: %d %s",
				d.h[0], d.h[1], vj.Enc(d.doc), d.kind, sn.t0-from, s.p.IvMs, s.errs, s.errText))
		}
	}
	latency = s.audit(sn)
	s.auditClients(sn)
	s.mu.Lock()
	defer s.mu.Unlock()
	for _, d := range s.docs {
		total++
		if !sn.present[d.h][d.id] {
			gone++
			if d.soon {
				removedSoon++
			}
		}
	}
	return
}

// busyUntil performs unrelated writes on collections WITHOUT a TTL index until the deadline.
func (s *tcScn) busyUntil(ctx context.Context, deadline int64) int {
	targets := []*tcColl{}
	for _, c := range s.colls {
		if len(c.ttls) == 0 && c.unique == "" {
			targets = append(targets, c)
		}
	}
	n := 0
	var mine []*tcDoc
	old := tcDT(s.base.Add(-time.Hour))
	for tcMs(time.Now()) < deadline {
		c := targets[n%len(targets)]
		var err error
		switch n % 4 {
		case 0, 1:
			doc := bson.D{{Key: "_id", Value: s.newID("busy")}, {Key: s.p.Field, Value: old}, {Key: "n", Value: int32(n)}}
			d := s.track(c, "busy", doc, false)
			d.ready = tcMs(time.Now())
			_, err = s.coll(c.h).InsertOne(ctx, doc)
			mine = append(mine, d)
		case 2:
			_, err = s.coll(c.h).UpdateMany(ctx, bson.D{{Key: "n", Value: bson.D{{Key: "$gte", Value: int32(0)}}}}, bson.D{{Key: "$inc", Value: bson.D{{Key: "n", Value: int32(1)}}}})
		case 3:
			if len(mine) > 0 {
				d := mine[0]
				mine = mine[1:]
				s.mu.Lock()
				d.explicit = true
				s.mu.Unlock()
				_, err = s.coll(d.h).DeleteOne(ctx, bson.D{{Key: "_id", Value: d.id}})
			}
		}
		if err != nil {
			s.viol("ttl-clock:setup-failed", "an unrelated write failed", err.Error())
			return n
		}
		n++
		time.Sleep(time.Duration(3+n%9) * time.Millisecond)
	}
	return n
}

// session holds an explicit session transaction (and with it the engine's write token) until holdEnd.
func (s *tcScn) session(ctx context.Context, commit bool, holdEnd int64) error {
	var e1, w *tcColl
	for _, c := range s.colls {
		if c.h == (lungo.Handle{"ta", "e1"}) {
			e1 = c
		}
		if c.h == (lungo.Handle{"tc", "w"}) {
			w = c
		}
	}
	err := s.client.UseSession(ctx, func(sc lungo.ISessionContext) error {
		if err := sc.StartTransaction(); err != nil {
			return err
		}
		old := tcDT(s.base.Add(-time.Hour))
		d1 := bson.D{{Key: "_id", Value: s.newID("sess")}, {Key: s.p.Field, Value: old}}
		d2 := bson.D{{Key: "_id", Value: s.newID("sess")}, {Key: s.p.Field, Value: old}}
		if _, err := s.coll(w.h).InsertOne(sc, d1); err != nil {
			return err
		}
		if _, err := s.coll(e1.h).InsertOne(sc, d2); err != nil {
			return err
		}
		op := s.newOp(0, 0, "txn")
		for i := range s.counters {
			if err := s.inc(sc, op, i); err != nil {
				return err
			}
		}
		before := s.engine.Catalog()
		tcSleepUntil(holdEnd)
		if s.engine.Catalog() != before {
			s.tag("catalog-changed-under-session")
		}
		if commit {
			if err := sc.CommitTransaction(sc); err != nil {
				return err
			}
			s.ack(op)
			now, seq := tcMs(time.Now()), s.store.count()
			for _, d := range []*tcDoc{s.track(w, "sess", d1, false), s.track(e1, "sess", d2, false)} {
				d.ready, d.readySeq = now, seq // the one in ta.e1 is already expired: the next pass must remove it
			}
			return nil
		}
		return sc.AbortTransaction(sc) // the two documents never existed: any event for them is a violation
	})
	s.mu.Lock()
	s.blockEnd = tcMs(time.Now())
	s.mu.Unlock()
	return err
}

func tcBucket(v, a, b, c int) string {
	switch {
	case v < a:
		return "<" + strconv.Itoa(a)
	case v < b:
		return strconv.Itoa(a) + ".." + strconv.Itoa(b-1)
	case v < c:
		return strconv.Itoa(b) + ".." + strconv.Itoa(c-1)
	}
	return ">=" + strconv.Itoa(c)
}

func tcWall(d time.Duration) string {
	switch {
	case d < time.Second:
		return "<1s"
	case d < 1500*time.Millisecond:
		return "1..1.5s"
	case d < 2*time.Second:
		return "1.5..2s"
	case d < 2500*time.Millisecond:
		return "2..2.5s"
	}
	return ">=2.5s"
}

func init() {
	run.Register(&run.Stream{
		Name: "ttlclock",
		Rule: "monitor only, real time: nontrivial = expiry passes ran while the \"soon\" documents were still fresh (checked present), these documents were then removed purely by time passing, and other documents were kept",
		Gen: func(r *gen.R, idx int) []run.Case {
			mode := tcModes[(idx+r.N(len(tcModes)))%len(tcModes)]
			return []run.Case{ttlclockCase(tcGenParams(r, mode, r.P(35)))}
		},
		// every mode on both stores, concurrently (one scenario is mostly sleeping)
		Corpus: func() []run.Case {
			var ps []tcParams
			for i, m := range tcModes {
				for j, file := range []bool{false, true} {
					q := tcGenParams(gen.New(0xC19, uint64(i), uint64(j)), m, file)
					if m == "fault" {
						// every kind of error callback: slow on the memory store, none on the file store, fast below
						q.Rep = []string{"slow", "nil"}[j]
					}
					ps = append(ps, q)
				}
			}
			q := tcGenParams(gen.New(0xC19, 99, 0), "fault", false)
			q.Rep = "fast"
			ps = append(ps, q)
			out := make([]run.Case, len(ps))
			var wg sync.WaitGroup
			for i := range ps {
				wg.Add(1)
				go func(i int) {
					defer wg.Done()
					out[i] = ttlclockCase(ps[i])
				}(i)
			}
			wg.Wait()
			return out
		},
	})
}
