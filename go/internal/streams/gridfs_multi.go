package streams

import (
	"bytes"
	"errors"
	"fmt"
	"io"
	"strings"
	"time"

	"go.mongodb.org/mongo-driver/bson"
	"go.mongodb.org/mongo-driver/bson/primitive"
	"go.mongodb.org/mongo-driver/mongo/options"

	"github.com/256dpi/lungo"

	"verifharness/internal/gen"
	"verifharness/internal/run"
)

// Part of stream "gridfs" (C18): SEVERAL streams of one bucket alive at the same time (op gridfs.multi).
//
//   (A) after an earlier upload of the bucket has finished (Close / Abort / Suspend), two or three upload
//       streams are open together, their Writes interleaved in pieces below and above the chunk size (rarely
//       across the 16 MiB upload buffer), closed in any order; two download streams of different files are
//       read alternately.
//   (B) uploads with an explicit id that collides with an existing (completed) file: OpenUploadStreamWithID
//       or UploadFromStreamWithID with that id, tracked and untracked; the failed stream is aborted (also a
//       stream that never wrote anything); the FIRST file must stay intact.
//
// The canonical reply (per-op results + final documents of every file id) is compared with the Lean model
// (Driver/OpsGridFS.lean, op gridfs.multi: a map of model streams keyed by handle over one Store).  The
// monitors are independent of the model: a bytes.Buffer per upload handle, the expected content per file id,
// direct inspection of fs.files / fs.chunks / fs.markers, bytes.Reader for download streams.

type gmOp struct {
	name  string
	h     int   // upload handle / download handle
	fid   int   // file id (1..)
	chunk int   // open / upload
	ci    int   // content index (open / upload)
	a, b  int64 // write n / dread n / dseek off whence
}

type gmCase struct {
	tracked    bool
	contents   []gfsContent
	nfiles     int
	ops        []gmOp
	kind       string
	nontrivial bool
	tags       []string
}

func gmReq(c *gmCase) string {
	var sb strings.Builder
	fmt.Fprintf(&sb, `{"op":"gridfs.multi","buf":%d,"tracked":%v,"nfiles":%d,"contents":[`, gfsBuf, c.tracked, c.nfiles)
	for i, ct := range c.contents {
		if i > 0 {
			sb.WriteByte(',')
		}
		sb.WriteString(ct.json())
	}
	sb.WriteString(`],"ops":[`)
	for i, o := range c.ops {
		if i > 0 {
			sb.WriteByte(',')
		}
		switch o.name {
		case "open":
			fmt.Fprintf(&sb, `["open",%d,%d,%d,%d]`, o.h, o.fid, o.chunk, o.ci)
		case "upload":
			fmt.Fprintf(&sb, `["upload",%d,%d,%d]`, o.fid, o.chunk, o.ci)
		case "write", "dread":
			fmt.Fprintf(&sb, `["%s",%d,%d]`, o.name, o.h, o.a)
		case "dseek":
			fmt.Fprintf(&sb, `["dseek",%d,%d,%d]`, o.h, o.a, o.b)
		case "close", "abort", "suspend", "resume":
			fmt.Fprintf(&sb, `["%s",%d]`, o.name, o.h)
		case "dopen":
			fmt.Fprintf(&sb, `["dopen",%d,%d]`, o.h, o.fid)
		case "claim", "delete":
			fmt.Fprintf(&sb, `["%s",%d]`, o.name, o.fid)
		default:
			fmt.Fprintf(&sb, `["%s"]`, o.name)
		}
	}
	sb.WriteString(`]}`)
	return sb.String()
}

// oracle state of one upload handle
type gmHandle struct {
	us      *lungo.UploadStream
	fid     int
	chunk   int
	content []byte
	off     int
	buf     bytes.Buffer // bytes accepted by Write (plus the resumed prefix)
	state   string       // live, closed, aborted, suspended, failed
	flushed bool         // may have stored chunks (a Write crossed the buffer, or Close/Suspend was tried)
	resumed bool         // continues the suspended upload of its file id
}

// oracle state of one file id
type gmFile struct {
	complete  bool   // a files document must exist
	content   []byte // … with this content
	chunk     int
	uploaded  bool   // tracked: closed, waiting for ClaimUpload (content/chunk valid)
	pending   []byte // tracked: bytes of a suspended upload
	hasPend   bool
	collided  bool // another stream was opened for the id while a file/upload with the id existed
	extra     bool // documents of a second, unfinished upload with the same id may be stored (tracked bucket)
	failedUp  bool // an UploadFromStreamWithID with this id failed
	uncertain bool // the oracle does not predict the documents (deleted in a tracked bucket, cleanup, …)
}

type gmDown struct {
	ds  *lungo.DownloadStream
	rd  *bytes.Reader
	fid int
}

func gmRun(c *gmCase, req string) (reply string, viols []run.Violation) {
	add := func(what, witness, detail string) {
		r := req
		if len(r) > 600 {
			r = r[:600] + "…"
		}
		viols = append(viols, run.Violation{Property: "C18", What: what, Witness: witness, Req: r, Detail: detail})
	}
	client, engine, err := lungo.Open(nil, lungo.Options{Store: lungo.NewMemoryStore()})
	if err != nil {
		return `{"panic":"open engine"}`, nil
	}
	defer engine.Close()
	b := lungo.NewBucket(client.Database("gfs"), options.GridFSBucket().SetName("fs"))
	if c.tracked {
		b.EnableTracking()
	}
	ids := make([]primitive.ObjectID, c.nfiles+1)
	for i := range ids {
		ids[i] = primitive.NewObjectID()
	}
	contents := make([][]byte, len(c.contents))
	for i, ct := range c.contents {
		contents[i] = ct.bytes()
	}
	handles := map[int]*gmHandle{}
	downs := map[int]*gmDown{}
	files := make([]gmFile, c.nfiles+1)
	var life []string
	out := func(format string, a ...interface{}) { life = append(life, fmt.Sprintf(format, a...)) }

	// does anything with this id exist (file, upload in progress)?
	exists := func(fid int) bool {
		f := &files[fid]
		if f.complete || f.uploaded {
			return true
		}
		for _, h := range handles {
			if h.fid == fid && h.state == "live" {
				return true
			}
		}
		return false
	}

	for _, o := range c.ops {
		switch o.name {
		case "open":
			collide := exists(o.fid)
			us, err := b.OpenUploadStreamWithID(nil, ids[o.fid], "file", options.GridFSUpload().SetChunkSizeBytes(int32(o.chunk)))
			out(`["o",%s]`, gfsErrClass(err))
			if err != nil {
				delete(handles, o.h)
				continue
			}
			if collide {
				files[o.fid].collided = true
			}
			handles[o.h] = &gmHandle{us: us, fid: o.fid, chunk: o.chunk, content: contents[o.ci], state: "live"}
		case "write", "close", "abort", "suspend", "resume":
			h := handles[o.h]
			if h == nil {
				out(`["x"]`)
				continue
			}
			f := &files[h.fid]
			switch o.name {
			case "write":
				end := h.off + int(o.a)
				if end > len(h.content) || end < h.off {
					end = len(h.content)
				}
				n, err := h.us.Write(h.content[h.off:end])
				if err == nil {
					h.buf.Write(h.content[h.off : h.off+n])
					h.off += n
					if n != end-(h.off-n) {
						add("Write accepted fewer bytes than given without an error", "multi:short-write", fmt.Sprintf("n=%d", n))
					}
				} else if h.state == "live" {
					h.state = "failed"
				}
				h.flushed = h.flushed || h.buf.Len() >= gfsBuf || err != nil
				out(`["w",%d,%s]`, n, gfsErrClass(err))
			case "close":
				err := h.us.Close()
				out(`["c",%s]`, gfsErrClass(err))
				if h.state == "live" || h.state == "failed" {
					h.flushed = true
					if err == nil {
						h.state = "closed"
						switch {
						case f.complete && c.tracked:
							// tracked: the file is created by ClaimUpload, which must fail; until then the
							// documents of the second upload are stored next to the file
							f.extra = true
						case f.uncertain:
						case f.complete || f.uploaded:
							add("a second upload with the id of an existing file was closed successfully", "multi:collision-accepted", fmt.Sprintf("file %d", h.fid))
							f.uncertain = true
						default:
							if c.tracked {
								f.uploaded, f.hasPend, f.pending = true, false, nil
							} else {
								f.complete = true
							}
							f.content, f.chunk = append([]byte(nil), h.buf.Bytes()...), h.chunk
						}
					} else {
						h.state = "failed"
					}
				}
			case "abort":
				err := h.us.Abort()
				out(`["a",%s]`, gfsErrClass(err))
				if err == nil && h.state != "closed" && h.state != "suspended" {
					// the upload is gone: a suspended prefix of it too (its chunks are the upload's own)
					if h.state == "live" && h.resumed && f.hasPend {
						f.hasPend, f.pending = false, nil
					}
					h.state = "aborted"
				}
				if c.tracked && f.uploaded && !f.uncertain {
					// the marker of the finished, unclaimed upload must survive the Abort of any other stream
					if n, merr := b.GetMarkersCollection(nil).CountDocuments(nil, bson.M{"files_id": ids[h.fid]}); merr == nil && n == 0 {
						add("Abort of another stream deleted the marker of a finished tracked upload (it cannot be claimed any more)", "gridfs:foreign-marker-deleted", fmt.Sprintf("file %d", h.fid))
						f.uncertain = true
					}
				}
			case "suspend":
				n, err := h.us.Suspend()
				out(`["s",%d,%s]`, n, gfsErrClass(err))
				if err == nil && h.state == "live" {
					h.state = "suspended"
					h.flushed = true
					want := h.buf.Len() / h.chunk * h.chunk
					if int(n) != want {
						add("Suspend returned a length that is not the whole chunks written", "multi:suspend-length", fmt.Sprintf("got %d want %d", n, want))
					}
					if f.complete || f.uploaded {
						f.extra = true
					} else if int(n) <= h.buf.Len() {
						f.pending, f.hasPend = append([]byte(nil), h.buf.Bytes()[:n]...), true
					}
				} else if err != nil && h.state == "live" && c.tracked {
					h.state = "failed"
				}
			case "resume":
				n, err := h.us.Resume()
				out(`["r",%d,%s]`, n, gfsErrClass(err))
				if err == nil {
					if !f.hasPend || int(n) != len(f.pending) {
						add("Resume returned a length different from the suspended upload", "multi:resume-length", fmt.Sprintf("got %d", n))
						f.uncertain = true
					} else {
						h.buf.Reset()
						h.buf.Write(f.pending)
						h.resumed = true
					}
					h.off = int(n)
					if h.off > len(h.content) {
						h.off = len(h.content)
					}
				}
			}
		case "upload":
			collide := exists(o.fid)
			f := &files[o.fid]
			err := b.UploadFromStreamWithID(nil, ids[o.fid], "file", bytes.NewReader(contents[o.ci]), options.GridFSUpload().SetChunkSizeBytes(int32(o.chunk)))
			out(`["U",%s]`, gfsErrClass(err))
			if err == nil {
				switch {
				case f.uncertain:
				case collide && f.complete && c.tracked:
					f.extra, f.collided = true, true
				case collide:
					add("a second upload with the id of an existing file succeeded", "multi:collision-accepted", fmt.Sprintf("file %d", o.fid))
					f.uncertain = true
				default:
					if c.tracked {
						f.uploaded, f.hasPend, f.pending = true, false, nil
					} else {
						f.complete = true
					}
					f.content, f.chunk = contents[o.ci], o.chunk
				}
			} else {
				f.failedUp = true
				if collide {
					f.collided = true
				}
			}
		case "claim":
			err := b.ClaimUpload(nil, ids[o.fid])
			out(`["k",%s]`, gfsErrClass(err))
			f := &files[o.fid]
			if err == nil {
				if !f.uploaded && !f.uncertain {
					w := "multi:claim-unfinished"
					if f.complete {
						w = "multi:collision-accepted"
					}
					add("ClaimUpload succeeded without a finished upload of a new file", w, fmt.Sprintf("file %d", o.fid))
					f.uncertain = true
				}
				f.complete, f.uploaded = true, false
			}
		case "delete":
			err := b.Delete(nil, ids[o.fid])
			out(`["d",%s]`, gfsErrClass(err))
			f := &files[o.fid]
			if c.tracked {
				if err == nil {
					f.uncertain = true // marked only; Cleanup removes the documents
				}
			} else if f.complete {
				if err != nil {
					add("Delete of an existing file failed", "multi:delete-failed", fmt.Sprint(err))
				}
				*f = gmFile{collided: f.collided}
			} else {
				f.uncertain = true // Delete removes the chunks with the id although there is no file
			}
		case "cleanup":
			marked := map[int]bool{} // file ids that have a marker: Cleanup removes everything with such an id
			for fid := 1; fid <= c.nfiles; fid++ {
				n, err := b.GetMarkersCollection(nil).CountDocuments(nil, bson.M{"files_id": ids[fid]})
				marked[fid] = err != nil || n > 0
			}
			out(`["u",%s]`, gfsErrClass(b.Cleanup(nil, -time.Hour)))
			if c.tracked {
				// every marker is old enough: whatever still has a marker is removed
				for i := range files {
					f := &files[i]
					switch {
					case marked[i] && f.complete:
						f.uncertain = true // a marker of a second upload makes Cleanup remove the file with that id
					case marked[i]:
						*f = gmFile{}
					}
				}
			}
		case "dopen":
			ds, err := b.OpenDownloadStream(nil, ids[o.fid])
			out(`["O",%s]`, gfsErrClass(err))
			f := &files[o.fid]
			if err != nil {
				delete(downs, o.h)
				if f.complete && !f.uncertain {
					w := "multi:open-download"
					if f.collided {
						w = "gridfs:foreign-chunks-deleted"
					}
					add("cannot open a download stream of a completed file", w, fmt.Sprint(err))
				}
				continue
			}
			d := &gmDown{ds: ds, fid: o.fid}
			if f.complete && !f.uncertain {
				d.rd = bytes.NewReader(f.content)
			}
			downs[o.h] = d
		case "dread":
			d := downs[o.h]
			if d == nil {
				out(`["x"]`)
				continue
			}
			buf := make([]byte, o.a)
			n, err := d.ds.Read(buf)
			out(`["r",%d,"%s",%s]`, n, gfsDigest(buf[:n]), gfsErrClass(err))
			if d.rd != nil {
				ref := make([]byte, o.a)
				m, rerr := d.rd.Read(ref)
				if m != n || !bytes.Equal(ref[:m], buf[:n]) || (rerr == io.EOF) != (err == io.EOF) || (rerr == nil) != (err == nil) {
					w := "multi:download-read"
					if files[d.fid].collided {
						w = "gridfs:foreign-chunks-deleted"
					}
					add("Read of one of several download streams differs from bytes.Reader", w, fmt.Sprintf("file %d: got (%d,%v) want (%d,%v)", d.fid, n, err, m, rerr))
					d.rd = nil
				}
			}
		case "dseek":
			d := downs[o.h]
			if d == nil {
				out(`["x"]`)
				continue
			}
			p, err := d.ds.Seek(o.a, int(o.b))
			out(`["p",%d,%s]`, p, gfsErrClass(err))
			if d.rd != nil {
				q, rerr := d.rd.Seek(o.a, int(o.b))
				if q != p || (rerr != nil) != (err != nil) || (err != nil && !errors.Is(err, lungo.ErrNegativePosition)) {
					add("Seek of one of several download streams differs from bytes.Reader", "multi:download-seek", fmt.Sprintf("file %d: got (%d,%v) want (%d,%v)", d.fid, p, err, q, rerr))
					d.rd = nil
				}
			}
		}
	}
	for _, d := range downs {
		_ = d.ds.Close()
	}

	// ---- final documents of every file id ----
	var state []string
	for fid := 1; fid <= c.nfiles; fid++ {
		id := ids[fid]
		var chunkDocs []lungo.BucketChunk
		csr, err := b.GetChunksCollection(nil).Find(nil, bson.M{"files_id": id}, options.Find().SetSort(bson.M{"n": 1}))
		if err == nil {
			err = csr.All(nil, &chunkDocs)
		}
		if err != nil {
			return `{"panic":"list chunks"}`, nil
		}
		var chunksJ []string
		for _, d := range chunkDocs {
			chunksJ = append(chunksJ, fmt.Sprintf(`[%d,%d,"%s"]`, d.Num, len(d.Data), gfsDigest(d.Data)))
		}
		fileJ := "null"
		var file *lungo.BucketFile
		{
			var fd lungo.BucketFile
			if b.GetFilesCollection(nil).FindOne(nil, bson.M{"_id": id}).Decode(&fd) == nil {
				file = &fd
				fileJ = fmt.Sprintf(`[%d,%d]`, fd.Length, fd.ChunkSize)
			}
		}
		markerJ := "null"
		hasMarker := false
		{
			var m lungo.BucketMarker
			if b.GetMarkersCollection(nil).FindOne(nil, bson.M{"files_id": id}).Decode(&m) == nil {
				hasMarker = true
				markerJ = fmt.Sprintf(`["%s",%d,%d]`, m.State, m.Length, m.ChunkSize)
			}
		}
		state = append(state, `[[`+strings.Join(chunksJ, ",")+`],`+fileJ+`,`+markerJ+`]`)

		// ---- monitors ----
		f := &files[fid]
		if f.uncertain {
			continue
		}
		// a stream that is still open, or failed and was not aborted, may own stored chunks
		open := f.extra
		for _, h := range handles {
			if h.fid == fid && (h.state == "live" || h.state == "failed") && h.flushed {
				open = true
			}
		}
		damaged := func(w string) string {
			if f.collided {
				return "gridfs:foreign-chunks-deleted"
			}
			return w
		}
		switch {
		case f.complete || f.uploaded:
			want := (len(f.content) + f.chunk - 1) / f.chunk
			if f.complete {
				if file == nil {
					add("completed upload has no file record", damaged("multi:no-file"), fmt.Sprintf("file %d", fid))
				} else if file.Length != len(f.content) || file.ChunkSize != f.chunk {
					add("file record length/chunkSize wrong", damaged("multi:file-record"), fmt.Sprintf("file %d: got %d/%d want %d/%d", fid, file.Length, file.ChunkSize, len(f.content), f.chunk))
				}
				if hasMarker && !f.collided && !f.extra {
					add("marker left after a claimed upload", "multi:marker-left", markerJ)
				}
			} else if !hasMarker {
				w := "multi:marker-lost"
				if f.collided {
					w = "gridfs:foreign-marker-deleted"
				}
				add("finished tracked upload lost its marker (it cannot be claimed any more)", w, fmt.Sprintf("file %d", fid))
			}
			if len(chunkDocs) < want {
				add("chunks of a finished upload are missing", damaged("multi:chunk-count"), fmt.Sprintf("file %d: got %d want %d", fid, len(chunkDocs), want))
			} else if len(chunkDocs) > want && !open && !f.extra {
				w := "multi:chunk-count"
				if f.failedUp {
					w = "gridfs:failed-upload-chunks-left"
				}
				add("more chunks stored than the finished upload has", w, fmt.Sprintf("file %d: got %d want %d", fid, len(chunkDocs), want))
			}
			var cat []byte
			for i, d := range chunkDocs {
				if i >= want {
					break
				}
				if d.Num != i {
					add("chunks not numbered 0..n-1", damaged("multi:chunk-number"), fmt.Sprintf("file %d: index %d has n=%d", fid, i, d.Num))
					break
				}
				if i < want-1 && len(d.Data) != f.chunk {
					add("inner chunk not full", "multi:chunk-size", fmt.Sprintf("file %d: chunk %d has %d bytes", fid, i, len(d.Data)))
					break
				}
				cat = append(cat, d.Data...)
			}
			if !bytes.Equal(cat, f.content) {
				add("stored chunks differ from what was written to this stream", damaged("multi:chunk-bytes"), fmt.Sprintf("file %d (%d bytes)", fid, len(f.content)))
			}
			if f.complete {
				var dl bytes.Buffer
				n, err := b.DownloadToStream(nil, id, &dl)
				if err != nil || int(n) != len(f.content) || !bytes.Equal(dl.Bytes(), f.content) {
					add("download differs from what was written to this stream", damaged("multi:download-bytes"), fmt.Sprintf("file %d: n=%d err=%v want %d", fid, n, err, len(f.content)))
				}
			}
		case f.hasPend:
			// suspended upload: whole chunks only, all of them there
			var cat []byte
			for _, d := range chunkDocs {
				cat = append(cat, d.Data...)
			}
			if !open && !bytes.Equal(cat, f.pending) {
				add("chunks of a suspended upload differ from the bytes written", damaged("multi:suspended-bytes"), fmt.Sprintf("file %d: %d bytes stored, %d expected", fid, len(cat), len(f.pending)))
			}
		default:
			if open {
				break
			}
			if len(chunkDocs) != 0 {
				add("chunks left behind by aborted/failed/deleted uploads", "multi:chunks-left", fmt.Sprintf("file %d: %d chunks", fid, len(chunkDocs)))
			}
			if file != nil {
				add("file record left behind", "multi:file-left", fileJ)
			}
			if hasMarker {
				add("marker left behind", "multi:marker-left", markerJ)
			}
		}
	}
	reply = `{"ok":{"life":[` + strings.Join(life, ",") + `],"state":[` + strings.Join(state, ",") + `]}}`
	return reply, viols
}

// ---- generators ----

func gmW(h, n int) gmOp { return gmOp{name: "write", h: h, a: int64(n)} }

// gmPieces: write sizes around the chunk size covering `total` bytes
func gmPieces(r *gen.R, total, c, max int) []int {
	var out []int
	left := total
	for left > 0 && len(out) < max-1 {
		var n int
		switch r.N(8) {
		case 0:
			n = 1
		case 1:
			n = c
		case 2:
			n = c - 1
		case 3:
			n = c + 1
		case 4:
			n = c * (2 + r.N(3))
		case 5:
			n = 0
		case 6:
			n = 1 + r.N(c)
		default:
			n = 1 + r.N(left)
		}
		if n > left {
			n = left
		}
		if n < 0 {
			n = 0
		}
		out = append(out, n)
		left -= n
	}
	if left > 0 {
		out = append(out, left)
	}
	return out
}

func gmLen(r *gen.R, c int) int {
	k := r.N(9)
	if c >= 4096 {
		k = r.N(4)
	}
	L := k*c + []int{0, 1, -1, 2, r.N(c), r.N(c)}[r.N(6)]
	if L < 0 {
		L = 0
	}
	return L
}

var gmChunks = []int{1, 2, 3, 4, 5, 7, 8, 16, 64, 255, 1000, 4096}

// interleave merges per-stream op lists in random order (each list keeps its order)
func gmInterleave(r *gen.R, lists [][]gmOp) []gmOp {
	var out []gmOp
	for {
		var live []int
		for i, l := range lists {
			if len(l) > 0 {
				live = append(live, i)
			}
		}
		if len(live) == 0 {
			return out
		}
		i := live[r.N(len(live))]
		out = append(out, lists[i][0])
		lists[i] = lists[i][1:]
	}
}

// gmPrelude: one upload of file 1 on handle 0 that FINISHES (close / abort / suspend) before the others start
func gmPrelude(r *gen.R, c *gmCase) (how string) {
	ch := gmChunks[r.N(len(gmChunks))]
	L := gmLen(r, ch)
	if r.P(70) && L == 0 {
		L = 1 + r.N(3*ch)
	}
	c.contents = append(c.contents, gfsContent{length: L, seed: r.N(251)})
	c.ops = append(c.ops, gmOp{name: "open", h: 0, fid: 1, chunk: ch, ci: 0})
	ps := gmPieces(r, L, ch, 6)
	hows := []string{"close", "close", "abort"}
	if c.tracked {
		hows = []string{"close", "abort", "suspend", "suspend"}
	}
	how = hows[r.N(len(hows))]
	if how != "close" && len(ps) > 1 && r.P(60) {
		ps = ps[:1+r.N(len(ps)-1)]
	}
	for _, n := range ps {
		c.ops = append(c.ops, gmW(0, n))
	}
	c.ops = append(c.ops, gmOp{name: how, h: 0})
	if how == "close" && c.tracked && r.P(80) {
		c.ops = append(c.ops, gmOp{name: "claim", fid: 1})
	}
	return how
}

// class (A): several upload streams alive together, then alternating downloads
func gmGenConcurrent(r *gen.R) *gmCase {
	c := &gmCase{kind: "multi-upload", tracked: r.P(35), nontrivial: true}
	how := gmPrelude(r, c)
	c.tags = append(c.tags, "prelude:"+how)
	big := r.P(4) // one stream crosses the 16 MiB upload buffer
	k := 2 + r.N(2)
	if big {
		k = 2
		c.tags = append(c.tags, "multi:over-buffer")
	}
	c.nfiles = 1 + k
	var lists [][]gmOp
	var closers []gmOp
	sameChunk := r.P(40)
	ch0 := gmChunks[r.N(len(gmChunks))]
	for i := 0; i < k; i++ {
		h, fid := 1+i, 2+i
		ch := gmChunks[r.N(len(gmChunks))]
		if sameChunk {
			ch = ch0
		}
		L := gmLen(r, ch)
		if L == 0 && r.P(80) {
			L = 1 + r.N(2*ch+1)
		}
		maxW := 10
		if big && i == 0 {
			ch = []int{255 * 1024, 1 << 20, 4 << 20}[r.N(3)]
			L = gfsBuf + []int{1, ch, ch + 5, r.N(ch)}[r.N(4)]
			maxW = 3
		}
		ci := len(c.contents)
		c.contents = append(c.contents, gfsContent{length: L, seed: r.N(251)})
		// the streams are all opened before the first write of any of them
		c.ops = append(c.ops, gmOp{name: "open", h: h, fid: fid, chunk: ch, ci: ci})
		var l []gmOp
		for _, n := range gmPieces(r, L, ch, maxW) {
			l = append(l, gmW(h, n))
		}
		end := "close"
		if r.P(12) {
			end = "abort"
			if len(l) > 1 && r.P(50) {
				l = l[:r.N(len(l))]
			}
		}
		if r.P(50) {
			// closed right after its own last write, while the others still write
			l = append(l, gmOp{name: end, h: h})
			if end == "close" && c.tracked {
				l = append(l, gmOp{name: "claim", fid: fid})
			}
		} else {
			closers = append(closers, gmOp{name: end, h: h})
			if end == "close" && c.tracked {
				closers = append(closers, gmOp{name: "claim", fid: fid})
			}
		}
		lists = append(lists, l)
	}
	// the suspended prelude upload may be resumed and finished among the others
	if how == "suspend" && r.P(60) {
		h := 1 + k
		L := c.contents[0].size()
		l := []gmOp{{name: "open", h: h, fid: 1, chunk: c.ops[0].chunk, ci: 0}, {name: "resume", h: h}}
		for _, n := range gmPieces(r, L, c.ops[0].chunk, 4) {
			l = append(l, gmW(h, n))
		}
		l = append(l, gmW(h, L), gmOp{name: "close", h: h}, gmOp{name: "claim", fid: 1})
		lists = append(lists, l)
		c.tags = append(c.tags, "multi:resume-among")
	}
	c.ops = append(c.ops, gmInterleave(r, lists)...)
	// claims must follow their close: closers keep their relative order per handle, shuffled between handles
	var cl [][]gmOp
	for i := 0; i < len(closers); i++ {
		l := []gmOp{closers[i]}
		if i+1 < len(closers) && closers[i+1].name == "claim" {
			l = append(l, closers[i+1])
			i++
		}
		cl = append(cl, l)
	}
	c.ops = append(c.ops, gmInterleave(r, cl)...)
	gmDownloads(r, c, big)
	return c
}

// gmDownloads: two download streams of different files read alternately
func gmDownloads(r *gen.R, c *gmCase, big bool) {
	if c.nfiles < 2 || r.P(25) {
		return
	}
	f1 := 1 + r.N(c.nfiles)
	f2 := 1 + r.N(c.nfiles)
	if f2 == f1 {
		f2 = f1%c.nfiles + 1
	}
	c.ops = append(c.ops, gmOp{name: "dopen", h: 0, fid: f1}, gmOp{name: "dopen", h: 1, fid: f2})
	n := 3 + r.N(10)
	for i := 0; i < n; i++ {
		d := r.N(2)
		if r.P(15) {
			c.ops = append(c.ops, gmOp{name: "dseek", h: d, a: int64(r.N(40)) - 8, b: int64(r.N(3))})
			continue
		}
		sz := []int{0, 1, 2, 3, 5, 8, 17, 100, 1000, 5000}[r.N(10)]
		if big && r.P(30) {
			sz = 1 << 20
		}
		c.ops = append(c.ops, gmOp{name: "dread", h: d, a: int64(sz)})
	}
	c.tags = append(c.tags, "multi:alternating-downloads")
}

// class (B): explicit id colliding with an existing file
func gmGenCollision(r *gen.R) *gmCase {
	c := &gmCase{kind: "id-collision", tracked: r.P(45), nontrivial: true, nfiles: 2}
	// file 2 is a bystander, file 1 the victim
	chB := gmChunks[r.N(len(gmChunks))]
	LB := 1 + r.N(3*chB)
	c.contents = append(c.contents, gfsContent{length: LB, seed: r.N(251)})
	c.ops = append(c.ops, gmOp{name: "open", h: 9, fid: 2, chunk: chB, ci: 0}, gmW(9, LB), gmOp{name: "close", h: 9})
	if c.tracked {
		c.ops = append(c.ops, gmOp{name: "claim", fid: 2})
	}
	ch := gmChunks[r.N(len(gmChunks))]
	L := gmLen(r, ch)
	if r.P(85) && L == 0 {
		L = 1 + r.N(3*ch)
	}
	if r.P(12) {
		L = 0 // no chunks: the colliding upload fails only when the file document is created
	}
	if L == 0 {
		c.tags = append(c.tags, "victim:empty")
	}
	c.contents = append(c.contents, gfsContent{length: L, seed: r.N(251)})
	c.ops = append(c.ops, gmOp{name: "open", h: 0, fid: 1, chunk: ch, ci: 1})
	for _, n := range gmPieces(r, L, ch, 4) {
		c.ops = append(c.ops, gmW(0, n))
	}
	c.ops = append(c.ops, gmOp{name: "close", h: 0})
	claimed := true
	if c.tracked {
		if r.P(75) {
			c.ops = append(c.ops, gmOp{name: "claim", fid: 1})
		} else {
			claimed = false
			c.tags = append(c.tags, "victim:unclaimed")
		}
	}
	// the colliding upload
	ch2 := ch
	if r.P(50) {
		ch2 = gmChunks[r.N(len(gmChunks))]
	}
	L2 := gmLen(r, ch2)
	if r.P(10) {
		L2 = 0
	}
	c.contents = append(c.contents, gfsContent{length: L2, seed: r.N(251)})
	rounds := 1 + r.N(2)
	for round := 0; round < rounds; round++ {
		h := 1 + round
		switch v := r.N(10); {
		case v < 2:
			c.tags = append(c.tags, "collide:abort-unwritten")
			c.ops = append(c.ops, gmOp{name: "open", h: h, fid: 1, chunk: ch2, ci: 2}, gmOp{name: "abort", h: h})
		case v < 4:
			c.tags = append(c.tags, "collide:upload-from-stream")
			c.ops = append(c.ops, gmOp{name: "upload", fid: 1, chunk: ch2, ci: 2})
		case v < 6 && c.tracked && r.P(40):
			// a stream for the id tries to resume (there is nothing to resume), then is aborted
			c.tags = append(c.tags, "collide:resume-abort")
			c.ops = append(c.ops, gmOp{name: "open", h: h, fid: 1, chunk: ch2, ci: 2}, gmOp{name: "resume", h: h})
			if r.P(50) {
				c.ops = append(c.ops, gmW(h, L2))
			}
			c.ops = append(c.ops, gmOp{name: "abort", h: h})
		case v < 5 && c.tracked:
			c.tags = append(c.tags, "collide:suspend")
			c.ops = append(c.ops, gmOp{name: "open", h: h, fid: 1, chunk: ch2, ci: 2}, gmW(h, L2), gmOp{name: "suspend", h: h}, gmOp{name: "abort", h: h})
		default:
			c.tags = append(c.tags, "collide:write-close-abort")
			c.ops = append(c.ops, gmOp{name: "open", h: h, fid: 1, chunk: ch2, ci: 2})
			for _, n := range gmPieces(r, L2, ch2, 4) {
				c.ops = append(c.ops, gmW(h, n))
			}
			if r.P(85) {
				c.ops = append(c.ops, gmOp{name: "close", h: h})
			}
			if r.P(15) {
				c.ops = append(c.ops, gmOp{name: "close", h: h}) // closing the failed stream again
			}
			c.ops = append(c.ops, gmOp{name: "abort", h: h})
		}
	}
	if !claimed {
		c.ops = append(c.ops, gmOp{name: "claim", fid: 1})
	}
	c.ops = append(c.ops, gmOp{name: "dopen", h: 0, fid: 1}, gmOp{name: "dread", h: 0, a: int64(L + 1)}, gmOp{name: "dread", h: 0, a: 1})
	if r.P(30) {
		c.tags = append(c.tags, "collide:then-delete")
		c.ops = append(c.ops, gmOp{name: "delete", fid: 1})
		if c.tracked {
			c.ops = append(c.ops, gmOp{name: "cleanup"})
		}
	}
	return c
}

func gmGenCase(r *gen.R) *gmCase {
	if r.P(45) {
		return gmGenCollision(r)
	}
	return gmGenConcurrent(r)
}

func gmExec(c *gmCase) run.Case {
	req := gmReq(c)
	var viols []run.Violation
	impl := run.Safe(func() string {
		rep, v := gmRun(c, req)
		viols = v
		return rep
	})
	if strings.HasPrefix(impl, `{"panic"`) {
		r := req
		if len(r) > 600 {
			r = r[:600]
		}
		viols = append(viols, run.Violation{Property: "C18", What: "panic in bucket code", Witness: "panic:" + c.kind, Req: r, Detail: impl})
	}
	tags := []string{"kind:" + c.kind}
	if c.tracked {
		tags = append(tags, "tracked")
	} else {
		tags = append(tags, "untracked")
	}
	tags = append(tags, c.tags...)
	for _, v := range viols {
		tags = append(tags, "viol:"+v.Witness)
	}
	return run.Case{Req: req, Impl: impl, Nontrivial: c.nontrivial, Tags: tags, Viols: viols}
}

func gmCorpus() []run.Case {
	ct := func(n, seed int) gfsContent { return gfsContent{length: n, seed: seed} }
	o := func(name string, h int) gmOp { return gmOp{name: name, h: h} }
	open := func(h, fid, chunk, ci int) gmOp { return gmOp{name: "open", h: h, fid: fid, chunk: chunk, ci: ci} }
	fo := func(name string, fid int) gmOp { return gmOp{name: name, fid: fid} }
	dl := []gmOp{{name: "dopen", h: 0, fid: 2}, {name: "dopen", h: 1, fid: 3}, {name: "dread", h: 0, a: 3}, {name: "dread", h: 1, a: 5}, {name: "dread", h: 0, a: 100},
		{name: "dread", h: 1, a: 2}, {name: "dseek", h: 0, a: 1, b: 0}, {name: "dread", h: 1, a: 100}, {name: "dread", h: 0, a: 4}, {name: "dread", h: 1, a: 1}}
	var cases []*gmCase
	for _, tr := range []bool{false, true} {
		claim := func(fid int) []gmOp {
			if tr {
				return []gmOp{fo("claim", fid)}
			}
			return nil
		}
		cat := func(ls ...[]gmOp) []gmOp {
			var out []gmOp
			for _, l := range ls {
				out = append(out, l...)
			}
			return out
		}
		// (A) an upload closed earlier, then two streams with small interleaved writes, closed in reverse order
		cases = append(cases, &gmCase{tracked: tr, kind: "multi-upload", nontrivial: true, nfiles: 3,
			contents: []gfsContent{ct(9, 1), ct(11, 2), ct(10, 3)},
			ops: cat([]gmOp{open(0, 1, 4, 0), gmW(0, 9), o("close", 0)}, claim(1),
				[]gmOp{open(1, 2, 4, 1), open(2, 3, 3, 2), gmW(1, 5), gmW(2, 2), gmW(1, 1), gmW(2, 7), gmW(1, 5), gmW(2, 1), o("close", 2)}, claim(3),
				[]gmOp{o("close", 1)}, claim(2), dl)})
		// (A) earlier upload aborted; three streams, one aborted in the middle
		cases = append(cases, &gmCase{tracked: tr, kind: "multi-upload", nontrivial: true, nfiles: 4,
			contents: []gfsContent{ct(20, 1), ct(17, 2), ct(16, 3), ct(30, 4)},
			ops: cat([]gmOp{open(0, 1, 4, 0), gmW(0, 9), o("abort", 0),
				open(1, 2, 8, 1), open(2, 3, 8, 2), open(3, 4, 7, 3), gmW(1, 9), gmW(2, 16), gmW(3, 1), gmW(1, 8), gmW(3, 20), o("abort", 3), o("close", 1)}, claim(2),
				[]gmOp{o("close", 2)}, claim(3), dl)})
		// (A) one of two streams crosses the upload buffer while the other has a few bytes buffered
		cases = append(cases, &gmCase{tracked: tr, kind: "multi-upload", nontrivial: true, nfiles: 3, tags: []string{"multi:over-buffer"},
			contents: []gfsContent{ct(5, 1), ct(gfsBuf+300, 2), ct(700, 3)},
			ops: cat([]gmOp{open(0, 1, 4, 0), gmW(0, 5), o("close", 0)}, claim(1),
				[]gmOp{open(1, 2, 1<<20, 1), open(2, 3, 255, 2), gmW(2, 300), gmW(1, gfsBuf-10), gmW(2, 300), gmW(1, 310), gmW(2, 100), o("close", 1)}, claim(2),
				[]gmOp{o("close", 2)}, claim(3), dl)})
		// (B) colliding id: write + close + abort; abort of an unwritten stream; UploadFromStreamWithID; delete at the end
		for _, L := range []int{10, 0} {
			cases = append(cases, &gmCase{tracked: tr, kind: "id-collision", nontrivial: true, nfiles: 2,
				contents: []gfsContent{ct(13, 1), ct(L, 2), ct(9, 3)},
				ops: cat([]gmOp{open(9, 2, 5, 0), gmW(9, 13), o("close", 9)}, claim(2),
					[]gmOp{open(0, 1, 4, 1), gmW(0, L), o("close", 0)}, claim(1),
					[]gmOp{open(1, 1, 4, 2), gmW(1, 9), o("close", 1), o("abort", 1),
						open(2, 1, 3, 2), o("abort", 2),
						{name: "upload", fid: 1, chunk: 4, ci: 2},
						{name: "dopen", h: 0, fid: 1}, {name: "dread", h: 0, a: 20}, {name: "dread", h: 0, a: 1},
						fo("delete", 1)})})
		}
	}
	// (A) tracked: the earlier upload is suspended and resumed among two other streams
	cases = append(cases, &gmCase{tracked: true, kind: "multi-upload", nontrivial: true, nfiles: 3, tags: []string{"multi:resume-among"},
		contents: []gfsContent{ct(14, 1), ct(9, 2), ct(9, 3)},
		ops: []gmOp{open(0, 1, 4, 0), gmW(0, 10), o("suspend", 0),
			open(1, 2, 4, 1), open(2, 3, 4, 2), open(3, 1, 4, 0), gmW(1, 3), o("resume", 3), gmW(2, 6), gmW(3, 2), gmW(1, 6), gmW(3, 14), gmW(2, 3),
			o("close", 3), fo("claim", 1), o("close", 1), o("close", 2), fo("claim", 3), fo("claim", 2),
			{name: "dopen", h: 0, fid: 1}, {name: "dopen", h: 1, fid: 2}, {name: "dread", h: 0, a: 6}, {name: "dread", h: 1, a: 6}, {name: "dread", h: 0, a: 60}, {name: "dread", h: 1, a: 60}}})
	// (B) tracked: victim finished but not claimed; the colliding stream fails on the marker, is aborted; claim afterwards
	cases = append(cases, &gmCase{tracked: true, kind: "id-collision", nontrivial: true, nfiles: 2, tags: []string{"victim:unclaimed"},
		contents: []gfsContent{ct(3, 1), ct(10, 2), ct(9, 3)},
		ops: []gmOp{open(9, 2, 5, 0), gmW(9, 3), o("close", 9), fo("claim", 2),
			open(0, 1, 4, 1), gmW(0, 10), o("close", 0),
			open(1, 1, 4, 2), gmW(1, 9), o("close", 1), o("abort", 1), fo("claim", 1),
			{name: "dopen", h: 0, fid: 1}, {name: "dread", h: 0, a: 20}}})
	// untracked: the id of an EMPTY file; UploadFromStreamWithID fails at Close (files document) and must abort the
	// stream: none of its chunks may stay (witness gridfs:failed-upload-chunks-left; fixed in /repo 5660354)
	cases = append(cases, &gmCase{kind: "id-collision", nontrivial: true, nfiles: 1, tags: []string{"victim:empty", "collide:upload-from-stream"},
		contents: []gfsContent{ct(0, 1), ct(9, 2)},
		ops:      []gmOp{open(0, 1, 4, 0), o("close", 0), {name: "upload", fid: 1, chunk: 4, ci: 1}, {name: "dopen", h: 0, fid: 1}, {name: "dread", h: 0, a: 4}}})
	// tracked: finished, unclaimed upload; a second stream with the id fails to Resume ("invalid marker state") and must
	// not adopt the marker it found: after its Abort the upload is still claimed and downloads byte-identically
	// (witness gridfs:foreign-marker-deleted; fixed in /repo a751503)
	cases = append(cases, &gmCase{kind: "id-collision", tracked: true, nontrivial: true, nfiles: 1, tags: []string{"victim:unclaimed", "collide:resume-abort"},
		contents: []gfsContent{ct(10, 1), ct(9, 2)},
		ops:      []gmOp{open(0, 1, 4, 0), gmW(0, 10), o("close", 0), open(1, 1, 4, 1), o("resume", 1), o("abort", 1), fo("claim", 1),
			{name: "dopen", h: 0, fid: 1}, {name: "dread", h: 0, a: 20}, {name: "dread", h: 0, a: 1}}})
	var out []run.Case
	for _, c := range cases {
		out = append(out, gmExec(c))
	}
	return out
}
